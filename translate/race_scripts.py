"""Tie A for the statement-granularity race model (Model/Race.lean): the transaction scripts are
REGENERATED from /repo's AST on every run (fail closed).

Workflow row (mistral/engine/workflows.py, mistral/db/v2/sqlalchemy/api.py):
  * `Workflow.set_state`: `cur_state = self.wf_ex.state`; `is_valid_transition` else raise;
    `db_api.update_workflow_execution_state(id, cur_state, state)` -> `update_on_match` (flush, then
    UPDATE .. WHERE id AND <specimen fields>) ; `None` -> `return False`; then the ORM assignments
    `state_info`, `accepted`.
  * `_succeed_workflow`, `_fail_workflow`, `_cancel_workflow`: the ORDER of the is_completed guard,
    the `set_state` call with its early return, the `self.wf_ex.output = ..` assignment and the
    send-result-to-parent.
  * `check_and_complete` prefix: stale guard, `expire_all`, re-read.
Cron row (mistral/services/periodic.py, triggers.py, db api):
  * `advance_cron_trigger`: local decrement, last-occurrence test, the delete branch
    (`triggers.delete_cron_trigger` -> `db_api.delete_cron_trigger`: look-up, conditional DELETE,
    the returned row count is the "won" flag) and the update branch (`update_cron_trigger` with
    `query_filter`: look-up, `update_on_match` on the filter fields, `(obj, 1)` / `(obj, 0)`).
Every construct that is not recognised raises ValueError: the check then reports a broken tie.
"""
import ast
import os

WF_FIELDS = {'state': 0, 'state_info': 1, 'output': 2, 'accepted': 3, 'task_execution_id': 4}
CRON_FIELDS = {'next_execution_time': 0, 'remaining_executions': 1}
# script variables (workflow scripts): 0 = cur_state local of set_state, 1 = the message handed to
# set_state, 2 = the value assigned to wf_ex.output (evaluated by the script from task data)
V_CUR, V_MSG, V_OUT = 0, 1, 2
# the exception handler of workflow_handler.check_and_complete (force_fail_workflow): its message / output
V_HMSG, V_HOUT = 3, 4
# cron scripts: 0 = t.next_execution_time of the read copy, 1 = t.remaining_executions after the
# local decrement, 2 = next_time computed by croniter
C_T, C_REM, C_NEXT = 0, 1, 2
TAG_PARENT = 1

WF_SRC = 'mistral/engine/workflows.py'
API_SRC = 'mistral/db/v2/sqlalchemy/api.py'
ST_SRC = 'mistral/workflow/states.py'
PER_SRC = 'mistral/services/periodic.py'
TRG_SRC = 'mistral/services/triggers.py'
WFH_SRC = 'mistral/engine/workflow_handler.py'
MOD_SRC = 'mistral/db/v2/sqlalchemy/models.py'

# calls that may receive the row object / run inside the script without writing the row
PURE_CALL_PREFIXES = ('LOG.', 'wf_trace.', 'data_flow.evaluate_workflow_output', 'self._notify',
                      'triggers.on_workflow_complete', 'utils.', 'cfg.', 'len', 'str', 'json.',
                      'isinstance', 'states.', 'self.wf_spec.', 'wf_base.get_controller',
                      '_build_cancel_info_message', '_build_fail_info_message', 'max', 'timeutils.',
                      'triggers.get_next_execution_time', 'security.delete_trust',
                      'm_dbutils.check_db_obj_access', 'b.model_query')


class Refuse(ValueError):
    pass


def _src(n):
    return ast.unparse(n)


def _parse(repo, rel):
    with open(os.path.join(repo, rel)) as f:
        return ast.parse(f.read())


def _func(tree, name, cls=None):
    scope = tree
    if cls:
        for n in tree.body:
            if isinstance(n, ast.ClassDef) and n.name == cls:
                scope = n
                break
        else:
            raise Refuse('class %s not found' % cls)
    for n in scope.body:
        if isinstance(n, ast.FunctionDef) and n.name == name:
            return n
    raise Refuse('function %s not found' % name)


def _body(fn):
    b = list(fn.body)
    if b and isinstance(b[0], ast.Expr) and isinstance(b[0].value, ast.Constant) and \
            isinstance(b[0].value.value, str):
        b = b[1:]
    return b


# ------------------------------------------------------------------ states
def states_tables(repo):
    tree = _parse(repo, ST_SRC)
    consts = {}
    table = None
    for n in tree.body:
        if isinstance(n, ast.Assign) and len(n.targets) == 1 and isinstance(n.targets[0], ast.Name):
            name = n.targets[0].id
            if isinstance(n.value, ast.Constant) and isinstance(n.value.value, str):
                consts[name] = n.value.value
            elif name == '_VALID_TRANSITIONS':
                table = n.value
    if table is None or not isinstance(table, ast.Dict):
        raise Refuse('_VALID_TRANSITIONS not a dict literal')

    def st(x):
        if isinstance(x, ast.Name) and x.id in consts:
            return consts[x.id]
        raise Refuse('unknown state name %s' % _src(x))
    trans = {}
    for k, v in zip(table.keys, table.values):
        if not isinstance(v, ast.List):
            raise Refuse('transition list not a list literal')
        trans[st(k)] = [st(e) for e in v.elts]
    fn = _func(tree, 'is_completed')
    b = _body(fn)
    if len(b) != 1 or not isinstance(b[0], ast.Return) or not isinstance(b[0].value, ast.Compare) \
            or not isinstance(b[0].value.ops[0], ast.In) or not isinstance(b[0].value.comparators[0], ast.List):
        raise Refuse('is_completed has an unexpected shape')
    completed = [st(e) for e in b[0].value.comparators[0].elts]
    fn = _func(tree, 'is_paused')
    b = _body(fn)
    if len(b) != 1 or _src(b[0]) != 'return state == PAUSED':
        raise Refuse('is_paused has an unexpected shape')
    fn = _func(tree, 'is_paused_or_completed')
    b = _body(fn)
    if len(b) != 1 or _src(b[0]) != 'return is_paused(state) or is_completed(state)':
        raise Refuse('is_paused_or_completed has an unexpected shape')
    fn = _func(tree, 'is_valid_transition')
    want = ['if is_invalid(from_state) or is_invalid(to_state):\n    return False',
            'if from_state == to_state:\n    return True',
            'return to_state in _VALID_TRANSITIONS[from_state]']
    if [_src(s) for s in _body(fn)] != want:
        raise Refuse('is_valid_transition has an unexpected shape')
    all_states = None
    for n in tree.body:
        if isinstance(n, ast.Assign) and _src(n.targets[0]) == '_ALL':
            all_states = [st(e) for e in n.value.elts]
    if all_states is None:
        raise Refuse('_ALL not found')
    return {'consts': consts, 'trans': trans, 'completed': completed, 'all': all_states,
            'paused': [consts['PAUSED']]}


def valid_from(tabs, target):
    """states s with is_valid_transition(s, target)"""
    res = []
    for s in tabs['all']:
        if s == target or (s in tabs['trans'] and target in tabs['trans'][s]):
            res.append(s)
    return res


# ------------------------------------------------------------------ purity
def _calls(node):
    return [n for n in ast.walk(node) if isinstance(n, ast.Call)]


def _is_pure(node, extra_ok=()):
    """no store into an attribute, no return/raise, only whitelisted calls"""
    for n in ast.walk(node):
        if isinstance(n, (ast.Return, ast.Raise, ast.Delete, ast.With, ast.While, ast.For)):
            return False
        if isinstance(n, ast.Attribute) and isinstance(n.ctx, ast.Store):
            return False
        if isinstance(n, ast.AugAssign) and isinstance(n.target, ast.Attribute):
            return False
        if isinstance(n, ast.Call):
            f = _src(n.func)
            if not any(f == p or f.startswith(p) for p in PURE_CALL_PREFIXES + tuple(extra_ok)):
                return False
    return True


# ------------------------------------------------------------------ Lean rendering
def lv(v):
    if v is None:
        return '.null'
    if isinstance(v, bool):
        return '(.bool %s)' % ('true' if v else 'false')
    if isinstance(v, int):
        return '(.nat %d)' % v
    if isinstance(v, str):
        return '(.str "%s")' % v
    raise Refuse('value %r' % (v,))


def lvals(vs):
    return '[' + ', '.join(lv(v) for v in vs) + ']'


def lexpr(e):
    k, x = e
    if k == 'const':
        return '(.const %s)' % lv(x)
    if k == 'var':
        return '(.var %d)' % x
    if k == 'obj':
        return '(.obj %d)' % x
    raise Refuse('expr %r' % (e,))


def lcond(c):
    k = c[0]
    if k == 'tt':
        return '.tt'
    if k in ('flag', 'notFlag'):
        return '(.%s %d)' % (k, c[1])
    if k in ('isIn', 'notIn'):
        return '(.%s %s %s)' % (k, lexpr(c[1]), lvals(c[2]))
    if k == 'truthy':
        return '(.truthy %s)' % lexpr(c[1])
    raise Refuse('cond %r' % (c,))


def lpairs(ps):
    return '[' + ', '.join('(%d, %s)' % (k, lexpr(e)) for k, e in ps) + ']'


def lstmt(s):
    k = s[0]
    if k == 'nop':
        return '.nop "%s"' % s[1].replace('\\', '').replace('"', "'").replace('\n', ' ')[:70]
    if k in ('read', 'ormDelete', 'commit', 'catch'):
        return '.' + k
    if k == 'setVar':
        return '.setVar %d %s' % (s[1], lexpr(s[2]))
    if k == 'assign':
        return '.assign %d %s %s' % (s[1], lexpr(s[2]), 'true' if s[3] else 'false')
    if k == 'cas':
        return '.cas %d %s %s' % (s[1], lpairs(s[2]), lpairs(s[3]))
    if k == 'delete':
        return '.delete %d' % s[1]
    if k == 'setFlag':
        return '.setFlag %d %s' % (s[1], 'true' if s[2] else 'false')
    if k in ('retIf', 'raiseIf'):
        return '.%s %s' % (k, lcond(s[1]))
    if k == 'emit':
        return '.emit %s %d' % (lcond(s[1]), s[2])
    raise Refuse('stmt %r' % (s,))


def strip_nops(stmts):
    """statements that do not touch the row or the script's control flow carry no meaning in the
    model (a gap next to another gap); they are kept as comments in the generated file"""
    return [s for s in stmts if s[0] != 'nop']


def lscript(name, stmts, doc):
    out = ['/-- %s -/' % doc, 'def %s : Script := [' % name]
    real = strip_nops(stmts)
    k = 0
    for s in stmts:
        if s[0] == 'nop':
            out.append('  -- %s' % s[1].replace('\n', ' ')[:90])
            continue
        k += 1
        out.append('  %s%s' % (lstmt(s), ',' if k < len(real) else ''))
    out.append(']')
    return '\n'.join(out)


# ------------------------------------------------------------------ db api: update_on_match family
def check_update_on_match(api):
    fn = _func(api, 'update_on_match')
    srcs = [_src(s) for s in _body(fn)]
    if 'session.flush()' not in srcs:
        raise Refuse('update_on_match no longer flushes the session first')
    i_flush = srcs.index('session.flush()')
    tries = [s for s in _body(fn) if isinstance(s, ast.Try)]
    if len(tries) != 1 or srcs.index(_src(tries[0])) < i_flush:
        raise Refuse('update_on_match: unexpected shape')
    t = tries[0]
    if len(t.body) != 1 or _src(t.body[0]) != ("model = b.model_query(model_class).update_on_match("
                                               "specimen=specimen, surrogate_key='id', values=values, "
                                               "attempts=attempts)"):
        raise Refuse('update_on_match: the UPDATE is not query.update_on_match(specimen, id, values)')
    if len(t.handlers) != 1 or _src(t.handlers[0].type) != 'oslo_sqlalchemy.update_match.NoRowsMatched':
        raise Refuse('update_on_match: unexpected exception handler')
    if not _is_pure(ast.Module(body=t.handlers[0].body, type_ignores=[])):
        raise Refuse('update_on_match: handler is not a pure log')
    if srcs[-1] != 'return model' or 'model = None' not in srcs:
        raise Refuse('update_on_match: does not return None on no match')


def wf_state_cas(api):
    """db_api.update_workflow_execution_state(id, cur_state, state) -> (expect fields, set fields)
    in terms of the parameter names"""
    fn = _func(api, 'update_workflow_execution_state')
    if [a.arg for a in fn.args.args] != ['id', 'cur_state', 'state']:
        raise Refuse('update_workflow_execution_state: parameters changed')
    b = _body(fn)
    if len(b) != 2 or not isinstance(b[0], ast.Assign) or _src(b[0].targets[0]) != 'specimen':
        raise Refuse('update_workflow_execution_state: unexpected shape')
    call = b[0].value
    if not isinstance(call, ast.Call) or _src(call.func) != 'models.WorkflowExecution' or call.args:
        raise Refuse('update_workflow_execution_state: specimen is not models.WorkflowExecution(..)')
    kws = {k.arg: _src(k.value) for k in call.keywords}
    if kws.pop('id', None) != 'id':
        raise Refuse('update_workflow_execution_state: specimen has no id=id')
    expect = []
    for f, v in kws.items():
        if f not in WF_FIELDS or v not in ('cur_state', 'state'):
            raise Refuse('update_workflow_execution_state: specimen field %s=%s' % (f, v))
        expect.append((f, v))
    ret = b[1]
    if not isinstance(ret, ast.Return) or not isinstance(ret.value, ast.Call) or \
            _src(ret.value.func) != 'update_on_match':
        raise Refuse('update_workflow_execution_state: does not return update_on_match(..)')
    c = ret.value
    if [_src(a) for a in c.args] != ['id', 'specimen']:
        raise Refuse('update_workflow_execution_state: update_on_match args')
    kw = {k.arg: k.value for k in c.keywords}
    if set(kw) != {'values', 'attempts'} or not isinstance(kw['values'], ast.Dict):
        raise Refuse('update_workflow_execution_state: update_on_match keywords')
    sets = []
    for k, v in zip(kw['values'].keys, kw['values'].values):
        f = ast.literal_eval(k)
        if f not in WF_FIELDS or _src(v) not in ('cur_state', 'state'):
            raise Refuse('update_workflow_execution_state: values %s' % _src(kw['values']))
        sets.append((f, _src(v)))
    return expect, sets


def column_always_dirty(repo):
    """field -> is the column a mutable JSON type (assignment always marks it dirty)"""
    tree = _parse(repo, MOD_SRC)
    res = {}
    for cname in ('Execution', 'WorkflowExecution'):
        for n in tree.body:
            if isinstance(n, ast.ClassDef) and n.name == cname:
                for st_ in n.body:
                    if isinstance(st_, ast.Assign) and isinstance(st_.targets[0], ast.Name) and \
                            st_.targets[0].id in WF_FIELDS:
                        src = _src(st_.value)
                        if 'sa.Column(' not in src:
                            raise Refuse('models.%s.%s is not a column' % (cname, st_.targets[0].id))
                        col = src.split('sa.Column(', 1)[1]
                        if col.startswith('st.Json') and 'DictType()' in col.split(',')[0]:
                            res[st_.targets[0].id] = True
                        elif col.startswith(('sa.String(', 'sa.Text(', 'sa.Boolean(')):
                            res[st_.targets[0].id] = False
                        else:
                            raise Refuse('models.%s.%s: column type not understood: %s'
                                         % (cname, st_.targets[0].id, col[:40]))
    for f in ('state', 'state_info', 'output', 'accepted'):
        if f not in res:
            raise Refuse('models: column %s not found' % f)
    return res


# ------------------------------------------------------------------ workflows.py
class WfCtx(object):
    def __init__(self, repo):
        self.tabs = states_tables(repo)
        self.dirty = column_always_dirty(repo)
        self.wfh = _parse(repo, WFH_SRC)
        self.api = _parse(repo, API_SRC)
        check_update_on_match(self.api)
        self.cas = wf_state_cas(self.api)
        self.wf = _parse(repo, WF_SRC)

    def state_const(self, node):
        s = _src(node)
        if s.startswith('states.') and s[7:] in self.tabs['consts']:
            return self.tabs['consts'][s[7:]]
        raise Refuse('not a state constant: %s' % s)

    # -------------------------------------------------- set_state, inlined for a constant target
    def set_state(self, target, info_expr):
        fn = _func(self.wf, 'set_state', 'Workflow')
        if [a.arg for a in fn.args.args] != ['self', 'state', 'state_info']:
            raise Refuse('set_state: parameters changed')
        out = []
        names = {}
        ret_true_seen = False
        body = _body(fn)
        for i, s in enumerate(body):
            src = _src(s)
            if isinstance(s, ast.Assert):
                continue
            if src == 'cur_state = self.wf_ex.state':
                names['cur_state'] = V_CUR
                out.append(('setVar', V_CUR, ('obj', WF_FIELDS['state'])))
                continue
            if isinstance(s, ast.If) and _src(s.test) == 'states.is_valid_transition(cur_state, state)':
                if 'cur_state' not in names:
                    raise Refuse('set_state: cur_state used before it is read')
                if not s.orelse or not isinstance(s.orelse[-1], ast.Raise) or \
                        not _is_pure(ast.Module(body=s.orelse[:-1], type_ignores=[])):
                    raise Refuse('set_state: the invalid-transition branch does not raise')
                out.append(('raiseIf', ('notIn', ('var', V_CUR), valid_from(self.tabs, target))))
                out += self._set_state_valid_branch(s.body, target, info_expr)
                continue
            if src == 'self.wf_ex.accepted = states.is_completed(state)':
                out.append(('assign', WF_FIELDS['accepted'], ('const', target in self.tabs['completed']),
                            self.dirty['accepted']))
                continue
            if isinstance(s, ast.If) and _src(s.test) == 'states.is_completed(state)' and not s.orelse \
                    and _is_pure(ast.Module(body=s.body, type_ignores=[])):
                out.append(('nop', _src(s.body[0])))
                continue
            if src == 'return True' and i == len(body) - 1:
                ret_true_seen = True
                continue
            raise Refuse('set_state: statement not understood: %s' % src[:120])
        if not ret_true_seen:
            raise Refuse('set_state: does not end with return True')
        if not any(x[0] == 'cas' for x in out):
            raise Refuse('set_state: no compare-and-swap found')
        return out

    def _set_state_valid_branch(self, stmts, target, info_expr):
        out = []
        casvar = None
        for s in stmts:
            src = _src(s)
            if isinstance(s, ast.Assign) and isinstance(s.value, ast.Call) and \
                    _src(s.value.func) == 'db_api.update_workflow_execution_state':
                c = s.value
                if c.args:
                    raise Refuse('set_state: positional args to update_workflow_execution_state')
                kw = {k.arg: _src(k.value) for k in c.keywords}
                if kw != {'id': 'self.wf_ex.id', 'cur_state': 'cur_state', 'state': 'state'}:
                    raise Refuse('set_state: update_workflow_execution_state(%r)' % kw)
                casvar = _src(s.targets[0])
                expect, sets = self.cas

                def val(p):
                    return ('var', V_CUR) if p == 'cur_state' else ('const', target)
                out.append(('cas', 0, [(WF_FIELDS[f], val(p)) for f, p in expect],
                            [(WF_FIELDS[f], val(p)) for f, p in sets]))
                continue
            if isinstance(s, ast.If) and casvar and _src(s.test) == '%s is None' % casvar:
                if len(s.body) != 1 or _src(s.body[0]) != 'return False' or s.orelse:
                    raise Refuse('set_state: the lost-CAS branch does not return False')
                out.append(('retIf', ('notFlag', 0)))
                continue
            if casvar and src == 'self.wf_ex = %s' % casvar:
                out.append(('nop', src))
                continue
            if isinstance(s, ast.Assign) and _src(s.targets[0]) == 'self.wf_ex.state_info':
                if 'state_info' not in src.split('=', 1)[1]:
                    raise Refuse('set_state: state_info is not assigned from the parameter')
                out.append(('assign', WF_FIELDS['state_info'], info_expr, self.dirty['state_info']))
                continue
            if isinstance(s, ast.Expr) and _is_pure(s):
                out.append(('nop', src))
                continue
            raise Refuse('set_state: statement not understood: %s' % src[:120])
        if not casvar:
            raise Refuse('set_state: no update_workflow_execution_state call')
        return out

    # -------------------------------------------------- the three completion functions
    def completion(self, name, v_msg=V_MSG, v_out=V_OUT):
        fn = _func(self.wf, name, 'Workflow')
        out = []
        target = None
        for s in _body(fn):
            src = _src(s)
            if isinstance(s, ast.If) and _src(s.test) == 'states.is_completed(self.wf_ex.state)':
                if len(s.body) != 1 or _src(s.body[0]) != 'return' or s.orelse:
                    raise Refuse('%s: is_completed guard does not just return' % name)
                out.append(('retIf', ('isIn', ('obj', WF_FIELDS['state']), self.tabs['completed'])))
                continue
            if isinstance(s, ast.If) and isinstance(s.test, ast.UnaryOp) and isinstance(s.test.op, ast.Not) \
                    and isinstance(s.test.operand, ast.Call) and _src(s.test.operand.func) == 'self.set_state':
                if len(s.body) != 1 or _src(s.body[0]) != 'return' or s.orelse:
                    raise Refuse('%s: lost set_state does not just return' % name)
                c = s.test.operand
                if target is not None:
                    raise Refuse('%s: two set_state calls' % name)
                target = self.state_const(c.args[0])
                out += self.set_state(target, ('var', v_msg))
                out.append(('retIf', ('notFlag', 0)))
                continue
            if isinstance(s, ast.Assign) and len(s.targets) == 1 and \
                    _src(s.targets[0]) == 'self.wf_ex.output':
                if not _is_pure(s.value):
                    raise Refuse('%s: output expression is not pure' % name)
                out.append(('assign', WF_FIELDS['output'], ('var', v_out), self.dirty['output']))
                continue
            if isinstance(s, ast.If) and _src(s.test) == 'self.wf_ex.task_execution_id':
                if len(s.body) != 1 or _src(s.body[0]) != 'self._send_result_to_parent_workflow()' or s.orelse:
                    raise Refuse('%s: unexpected parent hand-off' % name)
                out.append(('emit', ('truthy', ('obj', WF_FIELDS['task_execution_id'])), TAG_PARENT))
                continue
            if isinstance(s, (ast.Assign, ast.Try, ast.If, ast.Expr)):
                if isinstance(s, ast.Assign) and not all(isinstance(t, ast.Name) for t in s.targets):
                    raise Refuse('%s: assignment not understood: %s' % (name, src[:120]))
                if _is_pure(s):
                    out.append(('nop', src.split('\n')[0]))
                    continue
            raise Refuse('%s: statement not understood: %s' % (name, src[:120]))
        if target is None:
            raise Refuse('%s: no set_state call' % name)
        return target, out

    def handler_shape(self):
        """workflow_handler.check_and_complete: load, is_completed guard, try: wf.check_and_complete()
        except MistralException: force_fail_workflow(wf.wf_ex, msg) -> stop_workflow(ERROR) ->
        Workflow.stop -> _fail_workflow, all in the SAME transaction (no rollback)"""
        fn = _func(self.wfh, 'check_and_complete')
        b = _body(fn)
        if len(b) != 4 or _src(b[0]) != 'wf_ex = db_api.load_workflow_execution(wf_ex_id)' or \
                _src(b[1]) != 'if not wf_ex or states.is_completed(wf_ex.state):\n    return' or \
                _src(b[2]) != 'wf = workflows.Workflow(wf_ex=wf_ex)' or not isinstance(b[3], ast.Try):
            raise Refuse('workflow_handler.check_and_complete: unexpected outline')
        t = b[3]
        if [_src(x) for x in t.body] != ['wf.check_and_complete()'] or len(t.handlers) != 1 or \
                _src(t.handlers[0].type) != 'exc.MistralException' or t.orelse or t.finalbody:
            raise Refuse('workflow_handler.check_and_complete: unexpected try')
        hb = t.handlers[0].body
        if _src(hb[-1]) != 'force_fail_workflow(wf.wf_ex, msg)' or \
                not _is_pure(ast.Module(body=hb[:-1], type_ignores=[]), extra_ok=('tb.',)):
            raise Refuse('workflow_handler.check_and_complete: handler does not force-fail')
        ff = _func(self.wfh, 'force_fail_workflow')
        if [_src(x) for x in _body(ff)] != ['stop_workflow(wf_ex, states.ERROR, msg)']:
            raise Refuse('force_fail_workflow changed')
        sw = _body(_func(self.wfh, 'stop_workflow'))
        if _src(sw[0]) != 'wf = workflows.Workflow(wf_ex=wf_ex)' or _src(sw[1]) != 'wf.stop(state, msg)':
            raise Refuse('workflow_handler.stop_workflow changed')
        st = _func(self.wf, 'stop', 'Workflow')
        want = ('if state == states.SUCCESS:\n    self._succeed_workflow(self._get_final_context(), msg)\n'
                'elif state == states.ERROR:\n    self._fail_workflow(self._get_final_context(), msg)\n'
                'elif state == states.CANCELLED:\n    self._cancel_workflow(msg)')
        if _src(_body(st)[-1]) != want:
            raise Refuse('Workflow.stop dispatch changed')
        return ('retIf', ('isIn', ('obj', WF_FIELDS['state']), self.tabs['completed']))

    def check_and_complete_prefix(self):
        fn = _func(self.wf, 'check_and_complete', 'Workflow')
        out = [('read',), self.handler_shape()]
        seen_expire = False
        tail = None
        for s in _body(fn):
            src = _src(s)
            if isinstance(s, ast.If) and _src(s.test) == 'states.is_paused_or_completed(self.wf_ex.state)':
                # (before expire_all: on the copy loaded at the start; after it - repo fix 3b5c318a - on the
                #  re-read copy: the `read` emitted for expire_all precedes it)
                if len(s.body) != 1 or not isinstance(s.body[0], ast.Return) or s.orelse:
                    raise Refuse('check_and_complete: unexpected guard')
                out.append(('retIf', ('isIn', ('obj', WF_FIELDS['state']),
                                      self.tabs['paused'] + self.tabs['completed'])))
                continue
            if src == 'db_api.expire_all()':
                seen_expire = True
                out.append(('nop', 'db_api.expire_all()'))
                out.append(('read',))
                continue
            if isinstance(s, ast.If) and _src(s.test) == 'wf_ctrl.any_cancels()':
                tail = s
                continue
            if isinstance(s, ast.If) and _src(s.test) == 'incomplete_tasks_count > 0':
                out.append(('nop', 'if incomplete_tasks_count > 0: return (task rows)'))
                continue
            if isinstance(s, ast.Return) and tail is not None:
                continue
            if isinstance(s, (ast.Assign, ast.Expr)) and _is_pure(
                    s, extra_ok=('db_api.get_incomplete_task_executions_count',)):
                out.append(('nop', src.split('\n')[0]))
                continue
            raise Refuse('check_and_complete: statement not understood: %s' % src[:120])
        if not seen_expire or tail is None:
            raise Refuse('check_and_complete: expire_all / verdict dispatch not found')
        # verdict dispatch: which completion function each branch calls
        calls = []
        node = tail
        while True:
            body_calls = [_src(c.func) for st in node.body for c in _calls(st)
                          if _src(c.func).startswith('self._')]
            calls.append(body_calls)
            if len(node.orelse) == 1 and isinstance(node.orelse[0], ast.If):
                node = node.orelse[0]
                continue
            calls.append([_src(c.func) for st in node.orelse for c in _calls(st)
                          if _src(c.func).startswith('self._')])
            break
        if calls != [['self._cancel_workflow'], ['self._succeed_workflow'], ['self._fail_workflow']]:
            raise Refuse('check_and_complete: verdict dispatch changed: %r' % calls)
        return out


# ------------------------------------------------------------------ cron
def cron_scripts(repo):
    per = _parse(repo, PER_SRC)
    trg = _parse(repo, TRG_SRC)
    api = _parse(repo, API_SRC)
    fn = _func(per, 'advance_cron_trigger')
    if [a.arg for a in fn.args.args] != ['t']:
        raise Refuse('advance_cron_trigger: parameters changed')
    b = _body(fn)
    if len(b) != 3 or _src(b[0]) != 'modified_count = 0' or not isinstance(b[1], ast.Try) or \
            _src(b[2]) != 'return modified_count > 0':
        raise Refuse('advance_cron_trigger: unexpected outline')
    t = b[1]
    if len(t.handlers) != 1 or _src(t.handlers[0].type) != 'exc.DBEntityNotFoundError' or \
            not _is_pure(ast.Module(body=t.handlers[0].body, type_ignores=[])) or t.orelse or t.finalbody:
        raise Refuse('advance_cron_trigger: unexpected exception handling')
    if len(t.body) != 2:
        raise Refuse('advance_cron_trigger: unexpected try body')
    dec, br = t.body
    if not isinstance(dec, ast.If) or dec.orelse or \
            _src(dec.test) != 't.remaining_executions is not None and t.remaining_executions > 0' or \
            [_src(s) for s in dec.body] != ['t.remaining_executions -= 1']:
        raise Refuse('advance_cron_trigger: the local decrement changed')
    if not isinstance(br, ast.If) or _src(br.test) != 't.remaining_executions == 0':
        raise Refuse('advance_cron_trigger: the last-occurrence test changed')
    # --- last occurrence: triggers.delete_cron_trigger
    if len(br.body) != 1 or not isinstance(br.body[0], ast.Assign) or \
            _src(br.body[0].targets[0]) != 'modified_count':
        raise Refuse('advance_cron_trigger: delete branch')
    c = br.body[0].value
    if not isinstance(c, ast.Call) or _src(c.func) != 'triggers.delete_cron_trigger' or \
            [_src(a) for a in c.args] != ['t.name']:
        raise Refuse('advance_cron_trigger: delete branch call')
    last = [('nop', 't.remaining_executions == 0: ' + _src(c)[:40])]
    last += _triggers_delete(trg, api, {k.arg: _src(k.value) for k in c.keywords})
    # --- other occurrences: update_cron_trigger with query_filter
    ob = br.orelse
    if len(ob) != 2 or not isinstance(ob[0], ast.Assign) or _src(ob[0].targets[0]) != 'next_time' or \
            _src(ob[0].value) != ('triggers.get_next_execution_time(t.pattern, '
                                  'max(timeutils.utcnow(), t.next_execution_time))'):
        raise Refuse('advance_cron_trigger: next_time computation changed')
    a2 = ob[1]
    if not isinstance(a2, ast.Assign) or _src(a2.targets[0]) != '(updated, modified_count)':
        raise Refuse('advance_cron_trigger: update branch result')
    c = a2.value
    if not isinstance(c, ast.Call) or _src(c.func) != 'db_api_v2.update_cron_trigger' or len(c.args) != 2 or \
            _src(c.args[0]) != 't.name' or not isinstance(c.args[1], ast.Dict):
        raise Refuse('advance_cron_trigger: update branch call')
    kw = {k.arg: k.value for k in c.keywords}
    if set(kw) != {'query_filter'} or not isinstance(kw['query_filter'], ast.Dict):
        raise Refuse('advance_cron_trigger: query_filter is not a dict literal')

    def cexpr(v):
        s = _src(v)
        if s == 't.next_execution_time':
            return ('var', C_T)
        if s == 't.remaining_executions':
            return ('var', C_REM)
        if s == 'next_time':
            return ('var', C_NEXT)
        raise Refuse('advance_cron_trigger: value %s' % s)

    def cdict(d):
        res = []
        for k, v in zip(d.keys, d.values):
            f = ast.literal_eval(k)
            if f not in CRON_FIELDS:
                raise Refuse('advance_cron_trigger: field %r' % f)
            res.append((CRON_FIELDS[f], cexpr(v)))
        return res
    values = cdict(c.args[1])
    qfilter = cdict(kw['query_filter'])
    nxt = [('nop', 'next_time = croniter(max(now, t.next_execution_time))')]
    nxt += _api_update_cron(api, values, qfilter)
    return last, nxt


def _triggers_delete(trg, api, kws):
    fn = _func(trg, 'delete_cron_trigger')
    if [a.arg for a in fn.args.args] != ['identifier', 'trust_id', 'delete_trust']:
        raise Refuse('triggers.delete_cron_trigger: parameters changed')
    if kws != {'trust_id': 't.trust_id', 'delete_trust': 'False'}:
        raise Refuse('advance_cron_trigger: delete_cron_trigger keywords %r' % kws)
    b = _body(fn)
    want0 = 'if not trust_id:\n    trigger = db_api.get_cron_trigger(identifier)\n    trust_id = trigger.trust_id'
    out = []
    if len(b) != 4 or _src(b[0]) != want0:
        raise Refuse('triggers.delete_cron_trigger: unexpected outline')
    out.append(('nop', 'if not trust_id: get_cron_trigger (own tx; NotFound is caught)'))
    if _src(b[1]) != 'modified_count = db_api.delete_cron_trigger(identifier)':
        raise Refuse('triggers.delete_cron_trigger: db call changed')
    out += _api_delete_cron(api)
    if not isinstance(b[2], ast.If) or _src(b[2].test) != 'modified_count and delete_trust' or \
            not _is_pure(ast.Module(body=b[2].body, type_ignores=[])):
        raise Refuse('triggers.delete_cron_trigger: trust deletion changed')
    if _src(b[3]) != 'return modified_count':
        raise Refuse('triggers.delete_cron_trigger: return changed')
    return out


def _session_aware(fn):
    return any(_src(d) == 'b.session_aware()' for d in fn.decorator_list)


def _api_delete_cron(api):
    fn = _func(api, 'delete_cron_trigger')
    if not _session_aware(fn):
        raise Refuse('db delete_cron_trigger is not session_aware')
    out = []
    obj = None
    result = None
    done = False
    for s in _body(fn):
        src = _src(s)
        if done:
            raise Refuse('db delete_cron_trigger: statement after return')
        if src == 'cron_trigger = get_cron_trigger(identifier)':
            obj = 'cron_trigger'
            out.append(('read',))
            continue
        if src == 'm_dbutils.check_db_obj_access(cron_trigger)' or src == 'table = models.CronTrigger.__table__':
            out.append(('nop', src))
            continue
        if obj and src == 'result = session.execute(table.delete().where(table.c.id == cron_trigger.id))':
            result = 'result'
            out.append(('delete', 0))
            continue
        if obj and src == 'session.delete(cron_trigger)':
            out.append(('ormDelete',))
            continue
        if isinstance(s, ast.Return):
            done = True
            if result and _src(s.value) == 'result.rowcount':
                continue
            if isinstance(s.value, ast.Constant) and isinstance(s.value.value, int):
                out.append(('setFlag', 0, s.value.value > 0))
                continue
            raise Refuse('db delete_cron_trigger: return value %s' % _src(s.value))
        raise Refuse('db delete_cron_trigger: statement not understood: %s' % src[:120])
    if not done or obj is None:
        raise Refuse('db delete_cron_trigger: no look-up / return')
    out.append(('commit',))
    return out


def _api_update_cron(api, values, qfilter):
    fn = _func(api, 'update_cron_trigger')
    if not _session_aware(fn):
        raise Refuse('db update_cron_trigger is not session_aware')
    b = _body(fn)
    if len(b) != 2 or _src(b[0]) != 'cron_trigger = get_cron_trigger(identifier)' or \
            not isinstance(b[1], ast.If) or _src(b[1].test) != 'query_filter':
        raise Refuse('db update_cron_trigger: unexpected outline')
    if not qfilter:
        raise Refuse('advance_cron_trigger passes an empty query_filter (unconditional update)')
    body = b[1].body
    if len(body) != 1 or not isinstance(body[0], ast.Try):
        raise Refuse('db update_cron_trigger: filter branch')
    t = body[0]
    srcs = [_src(s) for s in t.body]
    want = ['specimen = models.CronTrigger(id=cron_trigger.id, **query_filter)',
            'query = b.model_query(models.CronTrigger)',
            "cron_trigger = query.update_on_match(specimen=specimen, surrogate_key='id', values=values)",
            'return (cron_trigger, 1)']
    if srcs != want:
        raise Refuse('db update_cron_trigger: filter branch body changed: %r' % srcs)
    if len(t.handlers) != 1 or _src(t.handlers[0].type) != 'oslo_sqlalchemy.update_match.NoRowsMatched':
        raise Refuse('db update_cron_trigger: handler')
    hb = t.handlers[0].body
    if _src(hb[-1]) != 'return (cron_trigger, 0)' or \
            not _is_pure(ast.Module(body=hb[:-1], type_ignores=[])):
        raise Refuse('db update_cron_trigger: no-match branch does not return (obj, 0)')
    return [('read',), ('cas', 0, qfilter, values), ('commit',)]


# ------------------------------------------------------------------ action result acceptance
ACT_SRC = 'mistral/engine/actions.py'
ACTH_SRC = 'mistral/engine/action_handler.py'
ENG_SRC = 'mistral/engine/default_engine.py'
TAG_TASK = 2
A_STATE, A_PREV, A_OUT = 0, 1, 2   # script variables: the state the result maps to, prev_state, the converted output


def action_complete(repo):
    """DefaultEngine.on_action_complete -> action_handler.on_action_complete -> RegularAction.complete:
    look-up, `is_completed` guard on the loaded copy (raise ValueError), ORM assignments of state,
    output, accepted, then the hand-off to the task.  The translator also asserts that NO lock and NO
    compare-and-swap protects the action row on this path (if one is added the script must be
    re-modelled)."""
    tabs = states_tables(repo)
    act = _parse(repo, ACT_SRC)
    fn = _func(act, 'complete', 'RegularAction')
    b = _body(fn)
    srcs = [_src(x) for x in b]
    want_guard = ("if states.is_completed(self.action_ex.state):\n    raise ValueError("
                  "'Action {} is already completed'.format(self.action_ex.id))")
    chain = ('if result.is_success():\n    self.action_ex.state = states.SUCCESS\n'
             'elif result.is_cancel():\n    self.action_ex.state = states.CANCELLED\n'
             'else:\n    self.action_ex.state = states.ERROR')
    tail = ['converted_result = self.action_desc.post_process_result(result)',
            'self.action_ex.output = converted_result.to_dict()', 'self.action_ex.accepted = True',
            'self._log_result(prev_state, result)']
    old_shape = ['assert self.action_ex', want_guard, 'prev_state = self.action_ex.state', chain] + tail
    chain2 = ('if result.is_success():\n    state = states.SUCCESS\n'
              'elif result.is_cancel():\n    state = states.CANCELLED\n'
              'else:\n    state = states.ERROR')
    cas_call = ('action_ex = db_api.update_action_execution_state(id=self.action_ex.id, cur_state=prev_state, '
                'state=state)')
    lost = ("if action_ex is None:\n    raise ValueError("
            "'Action {} is already completed'.format(self.action_ex.id))")
    new_shape = ['assert self.action_ex', want_guard, 'prev_state = self.action_ex.state', chain2, cas_call, lost,
                 'self.action_ex = action_ex'] + tail
    if srcs == old_shape:
        with_cas = False
    elif srcs == new_shape:
        with_cas = True
        api = _parse(repo, API_SRC)
        check_update_on_match(api)
        fn2 = _func(api, 'update_action_execution_state')
        if [a.arg for a in fn2.args.args] != ['id', 'cur_state', 'state'] or [_src(x) for x in _body(fn2)] != [
                'specimen = models.ActionExecution(id=id, state=cur_state)',
                "return update_on_match(id, specimen, values={'state': state}, attempts=1)"]:
            raise Refuse('db update_action_execution_state: unexpected shape')
    else:
        raise Refuse('RegularAction.complete changed: %r' % [x[:60] for x in srcs])
    for rel in (ACT_SRC, ACTH_SRC):
        with open(os.path.join(repo, rel)) as f:
            txt = f.read()
        for dev in ('acquire_lock', 'named_lock', 'update_on_match'):
            if dev in txt:
                raise Refuse('%s now uses %s: re-model the action acceptance script' % (rel, dev))
    ah = _func(_parse(repo, ACTH_SRC), 'on_action_complete')
    hs = [_src(x) for x in _body(ah)]
    if hs[0] != 'task_ex = action_ex.task_execution' or hs[1] != 'action = _build_action(action_ex)' or \
            not hs[2].startswith('try:\n    action.complete(result)\nexcept exc.MistralException as e:') or \
            hs[3] != 'if task_ex:\n    task_handler.schedule_on_action_complete(action_ex)' or len(hs) != 4:
        raise Refuse('action_handler.on_action_complete changed')
    eng = _func(_parse(repo, ENG_SRC), 'on_action_complete', 'DefaultEngine')
    es = _src(eng)
    if 'action_ex = db_api.get_action_execution(action_ex_id)' not in es or \
            'action_handler.on_action_complete(action_ex, result)' not in es or 'acquire_lock' in es:
        raise Refuse('DefaultEngine.on_action_complete changed')
    # column kinds of ActionExecution
    mod = _parse(repo, MOD_SRC)
    kinds = {}
    for n in mod.body:
        if isinstance(n, ast.ClassDef) and n.name in ('Execution', 'ActionExecution'):
            for st_ in n.body:
                if isinstance(st_, ast.Assign) and isinstance(st_.targets[0], ast.Name) and \
                        st_.targets[0].id in ('state', 'output', 'accepted'):
                    col = _src(st_.value).split('sa.Column(', 1)[1]
                    kinds[st_.targets[0].id] = col.startswith('st.Json')
    if kinds != {'state': False, 'output': True, 'accepted': False}:
        raise Refuse('ActionExecution column kinds: %r' % kinds)
    if with_cas:
        # repo fix fdb9cc00: the state is set by a compare-and-swap on the state read; no match -> raise
        return [('read',),
                ('raiseIf', ('isIn', ('obj', WF_FIELDS['state']), tabs['completed'])),
                ('setVar', A_PREV, ('obj', WF_FIELDS['state'])),
                ('cas', 0, [(WF_FIELDS['state'], ('var', A_PREV))], [(WF_FIELDS['state'], ('var', A_STATE))]),
                ('raiseIf', ('notFlag', 0)),
                ('assign', WF_FIELDS['output'], ('var', A_OUT), True),
                ('assign', WF_FIELDS['accepted'], ('const', True), False),
                ('emit', ('tt',), TAG_TASK)]
    return [('read',),
            ('raiseIf', ('isIn', ('obj', WF_FIELDS['state']), tabs['completed'])),
            ('assign', WF_FIELDS['state'], ('var', A_STATE), False),
            ('assign', WF_FIELDS['output'], ('var', A_OUT), True),
            ('assign', WF_FIELDS['accepted'], ('const', True), False),
            ('emit', ('tt',), TAG_TASK)]


# ------------------------------------------------------------------ Task.complete / Task.set_state
TASK_SRC = 'mistral/engine/tasks.py'
TASK_FIELDS = {'state': 0, 'state_info': 1, 'next_tasks': 2, 'processed': 3, 'has_next_tasks': 4,
               'error_handled': 5}
# script variables: 0 = the (completed) state the task is completed with, 1 = state_info, 2 = next_tasks computed
# from the commands, 4 = has_next_tasks, 5 = error_handled, 6 = "the workflow is paused" (read from the workflow
# row), 7 = cur_state local of set_state
T_STATE, T_INFO, T_NEXT, T_HAS, T_ERRH, T_PAUSED, T_CUR = 0, 1, 2, 4, 5, 6, 7
TAG_CHECK, TAG_DISPATCH = 3, 4


def task_complete(repo):
    """Task.complete(state, state_info) for a completed, non-skipped target state, with Task.set_state
    inlined: is_completed guard on the loaded copy, compare-and-swap on the state read
    (db_api.update_task_execution_state -> update_on_match), `False -> return`, then the ORM assignments
    (state_info, next_tasks, has_next_tasks, error_handled, processed) and the two hand-offs (workflow
    completion check, dispatch of the next commands) - reached only by the winner."""
    tabs = states_tables(repo)
    api = _parse(repo, API_SRC)
    check_update_on_match(api)
    fn2 = _func(api, 'update_task_execution_state')
    if [a.arg for a in fn2.args.args] != ['id', 'cur_state', 'state'] or [_src(x) for x in _body(fn2)] != [
            'specimen = models.TaskExecution(id=id, state=cur_state)',
            "return update_on_match(id, specimen, values={'state': state}, attempts=1)"]:
        raise Refuse('db update_task_execution_state: unexpected shape')
    tk = _parse(repo, TASK_SRC)
    # ---- set_state
    fn = _func(tk, 'set_state', 'Task')
    if [a.arg for a in fn.args.args] != ['self', 'state', 'state_info', 'processed', 'first_run']:
        raise Refuse('Task.set_state: parameters changed')
    b = _body(fn)
    if len(b) != 4 or _src(b[0]) != 'assert self.task_ex' or _src(b[1]) != 'cur_state = self.task_ex.state' or \
            not isinstance(b[2], ast.If) or _src(b[3]) != 'return True' or b[2].orelse or \
            _src(b[2].test) != 'cur_state != state or self.task_ex.state_info != state_info':
        raise Refuse('Task.set_state: unexpected outline')
    inner = b[2].body
    want_head = ['task_ex = db_api.update_task_execution_state(id=self.task_ex.id, cur_state=cur_state, state=state)',
                 'if task_ex is None:\n    return False', 'self.task_ex = task_ex']
    if [_src(x) for x in inner[:3]] != want_head:
        raise Refuse('Task.set_state: the compare-and-swap block changed')
    set_state = [('setVar', T_CUR, ('obj', TASK_FIELDS['state'])),
                 ('cas', 0, [(TASK_FIELDS['state'], ('var', T_CUR))], [(TASK_FIELDS['state'], ('var', T_STATE))]),
                 ('retIf', ('notFlag', 0))]
    for st_ in inner[3:]:
        src = _src(st_)
        if isinstance(st_, ast.Assign) and _src(st_.targets[0]) == 'self.task_ex.state_info':
            set_state.append(('assign', TASK_FIELDS['state_info'], ('var', T_INFO), False))
            continue
        if src == 'self.state_changed = True':
            continue
        if isinstance(st_, ast.If) and all(
                isinstance(x, ast.Assign) and _src(x.targets[0]) in (
                    'self.task_ex.started_at', 'self.task_ex.finished_at') for x in st_.body) and not st_.orelse:
            continue          # timestamps: not part of the row abstraction
        if isinstance(st_, ast.If) and _src(st_.test) == 'processed is not None':
            continue          # Task.complete passes processed=None
        if isinstance(st_, ast.If) and _src(st_.test) == 'first_run' and _is_pure(st_):
            continue
        if isinstance(st_, ast.Expr) and _is_pure(st_):
            continue
        raise Refuse('Task.set_state: statement not understood: %s' % src[:100])
    # ---- complete
    fn = _func(tk, 'complete', 'Task')
    if [a.arg for a in fn.args.args] != ['self', 'state', 'state_info', 'skip']:
        raise Refuse('Task.complete: parameters changed')
    isc = _func(tk, 'is_completed', 'Task')
    if [_src(x) for x in _body(isc)] != ['return self.task_ex and states.is_completed(self.task_ex.state)']:
        raise Refuse('Task.is_completed changed')
    out = [('read',)]
    seen_cas = False
    for st_ in _body(fn):
        src = _src(st_)
        if isinstance(st_, ast.Assert):
            continue
        if src == 'if self.is_completed() and (not states.is_skipped(state)):\n    return':
            # (the script is for a non-skipped target state)
            out.append(('retIf', ('isIn', ('obj', TASK_FIELDS['state']), tabs['completed'])))
            continue
        if src == 'if not self.set_state(state, state_info):\n    return':
            if len(out) != 2:
                raise Refuse('Task.complete: set_state is not directly behind the is_completed guard')
            # cur_state != state holds: the guard left a not-completed state, the target is completed
            out += set_state + [('retIf', ('notFlag', 0))]
            seen_cas = True
            continue
        if not seen_cas:
            raise Refuse('Task.complete: statement before set_state: %s' % src[:100])
        if isinstance(st_, ast.Assign) and _src(st_.targets[0]) == 'self.task_ex.next_tasks':
            out.append(('assign', TASK_FIELDS['next_tasks'], ('var', T_NEXT), True))
            continue
        if isinstance(st_, ast.Assign) and _src(st_.targets[0]) == 'self.task_ex.has_next_tasks':
            out.append(('assign', TASK_FIELDS['has_next_tasks'], ('var', T_HAS), False))
            continue
        if isinstance(st_, ast.If) and _src(st_.test) == 'self.task_ex.state == states.ERROR' and \
                [_src(x.targets[0]) for x in st_.body] == ['self.task_ex.error_handled'] and not st_.orelse:
            out.append(('assign', TASK_FIELDS['error_handled'], ('var', T_ERRH), False))
            continue
        if src == 'if states.is_paused(self.wf_ex.state):\n    return':
            out.append(('retIf', ('truthy', ('var', T_PAUSED))))
            continue
        if src == 'if self.task_ex.state == states.RUNNING_DELAYED:\n    return':
            continue          # policies only; the state just set is a completed one
        if src == 'self.task_ex.processed = True':
            out.append(('assign', TASK_FIELDS['processed'], ('const', True), False))
            continue
        if src == 'self.register_workflow_completion_check()':
            out.append(('emit', ('tt',), TAG_CHECK))
            continue
        if src == 'dispatcher.dispatch_workflow_commands(self.wf_ex, cmds)':
            out.append(('emit', ('tt',), TAG_DISPATCH))
            continue
        if src in ('self._update_inbound_context()', 'data_flow.publish_variables(self.task_ex, self.task_spec)') or \
                src.startswith(('if not self.task_spec.get_keep_result():', 'if not states.is_skipped(state):',
                                'wf_ctrl = wf_base.get_controller(', 'cmds = wf_ctrl.continue_workflow(',
                                'for c in cmds:')):
            continue          # other columns / other rows (published, in_context, action outputs)
        raise Refuse('Task.complete: statement not understood: %s' % src[:100])
    if not seen_cas or ('emit', ('tt',), TAG_DISPATCH) not in out:
        raise Refuse('Task.complete: no set_state / dispatch found')
    # RegularTask.on_action_complete hands every action / child-workflow result to complete()
    rt = _func(tk, 'on_action_complete', 'RegularTask')
    if _src(_body(rt)[-1]) != 'self.complete(state, state_info)':
        raise Refuse('RegularTask.on_action_complete no longer ends in self.complete(state, state_info)')
    return out


# ------------------------------------------------------------------ scheduler capture
SCHED_SRC = 'mistral/scheduler/default_scheduler.py'
J_NOW = 0       # script variable: now_sec


def capture_job(repo):
    """DefaultScheduler._process_store_jobs: candidates read and captured in one transaction;
    _capture_scheduled_job -> db update_scheduled_job with query_filter {'captured_at': <the read value>}
    (update_on_match), `updated_cnt == 1` is "captured"."""
    ds = _parse(repo, SCHED_SRC)
    api = _parse(repo, API_SRC)
    fn = _func(ds, '_process_store_jobs', 'DefaultScheduler')
    b = _body(fn)
    if not b or not isinstance(b[0], ast.With) or _src(b[0].items[0].context_expr) != 'db_api.transaction()':
        raise Refuse('_process_store_jobs: no transaction block')
    tb = b[0].body
    if not tb or not _src(tb[0]).startswith('candidate_jobs = db_api.get_scheduled_jobs_to_start('):
        raise Refuse('_process_store_jobs: candidates are not read first')
    rest = [_src(x) for x in tb[1:]]
    if rest == ['captured_jobs = [job for job in candidate_jobs if self._capture_scheduled_job(job)]']:
        pass
    elif rest == ['now_sec = utils.utc_now_sec()', 'for job in candidate_jobs:\n    job.captured_at = now_sec',
                  'captured_jobs = candidate_jobs']:
        # every candidate is marked by an ORM assignment and counted as captured
        return [('read',), ('retIf', ('notIn', ('obj', 0), [None])),
                ('assign', 0, ('var', J_NOW), False), ('setFlag', 0, True)]
    else:
        raise Refuse('_process_store_jobs: capture of the candidates not understood: %r' % rest)
    cap = _func(ds, '_capture_scheduled_job', 'DefaultScheduler')
    cs = [_src(x) for x in _body(cap)]
    want = ['now_sec = utils.utc_now_sec()',
            "_, updated_cnt = db_api.update_scheduled_job(id=scheduled_job.id, values={'captured_at': now_sec}, "
            "query_filter={'captured_at': scheduled_job.captured_at})",
            'if updated_cnt == 1:\n    scheduled_job.captured_at = now_sec',
            'return updated_cnt == 1']
    if cs != want:
        raise Refuse('_capture_scheduled_job changed: %r' % cs)
    uf = _func(api, 'update_scheduled_job')
    ub = _body(uf)
    if len(ub) != 1 or not isinstance(ub[0], ast.If) or _src(ub[0].test) != 'query_filter' or \
            len(ub[0].body) != 1 or not isinstance(ub[0].body[0], ast.Try):
        raise Refuse('db update_scheduled_job: unexpected outline')
    t = ub[0].body[0]
    want = ['specimen = models.ScheduledJob(id=id, **query_filter)',
            "job = b.model_query(models.ScheduledJob).update_on_match(specimen=specimen, surrogate_key='id', "
            "values=values)",
            'return (job, 1)']
    if [_src(x) for x in t.body] != want or len(t.handlers) != 1 or \
            _src(t.handlers[0].type) != 'oslo_sqlalchemy.update_match.NoRowsMatched' or \
            _src(t.handlers[0].body[-1]) != 'return (None, 0)':
        raise Refuse('db update_scheduled_job: filter branch changed')
    # the candidate query: the row is a candidate when captured_at IS NULL (first capture) or is an expired
    # stamp (captured_at <= now - captured_job_timeout: a time comparison, kept in Mistral.Sched / C13 at
    # DB-call granularity, operators checked by translate/sched_defaults.py).  The script is the first capture.
    q = _src(_func(api, 'get_scheduled_jobs_to_start'))
    if 'sa.or_(captured_at_col == sa.null(), captured_at_col <= min_captured_at)' not in q or \
            'captured_at_col = models.ScheduledJob.captured_at' not in q:
        raise Refuse('get_scheduled_jobs_to_start: the captured_at filter changed')
    return [('read',), ('retIf', ('notIn', ('obj', 0), [None])),
            ('cas', 0, [(0, ('obj', 0))], [(0, ('var', J_NOW))])]


# ------------------------------------------------------------------ entry points
def scripts(repo):
    """the scripts as python data (also used by harness/race_driver.py)"""
    w = WfCtx(repo)
    res = {}
    targets = {}
    for name, fn in (('succeedWorkflow', '_succeed_workflow'), ('failWorkflow', '_fail_workflow'),
                     ('cancelWorkflow', '_cancel_workflow')):
        target, body = w.completion(fn)
        targets[name] = target
        res[name] = [('read',)] + body
    want = {'succeedWorkflow': 'SUCCESS', 'failWorkflow': 'ERROR', 'cancelWorkflow': 'CANCELLED'}
    if targets != want:
        raise Refuse('completion targets changed: %r' % targets)
    pre = w.check_and_complete_prefix()
    _, handler = w.completion('_fail_workflow', V_HMSG, V_HOUT)
    for name in list(want):
        res['cac' + name[0].upper() + name[1:]] = pre + res[name][1:] + [('catch',)] + handler
    last, nxt = cron_scripts(repo)
    res['advanceLast'] = last
    res['advanceNext'] = nxt
    res['actionComplete'] = action_complete(repo)
    res['taskComplete'] = task_complete(repo)
    res['captureJob'] = capture_job(repo)
    res = {k: strip_nops(v) for k, v in res.items()}
    return res, w.tabs


def generate(repo):
    sc, tabs = scripts(repo)
    docs = {
        'succeedWorkflow': 'Workflow._succeed_workflow (as called by stop(SUCCESS)): read at transaction start, '
                           'output evaluation, inlined set_state(SUCCESS), output assignment, parent hand-off',
        'failWorkflow': 'Workflow._fail_workflow: read, is_completed guard, output-on-error evaluation, '
                        'inlined set_state(ERROR), output assignment, parent hand-off',
        'cancelWorkflow': 'Workflow._cancel_workflow: read, is_completed guard, inlined set_state(CANCELLED), '
                          'output assignment, parent hand-off',
        'cacSucceedWorkflow': 'workflow_handler.check_and_complete + Workflow.check_and_complete (stale guards, '
                              'expire_all, re-read) + _succeed_workflow; except MistralException: force_fail (same tx)',
        'cacFailWorkflow': 'workflow_handler.check_and_complete + Workflow.check_and_complete (stale guards, '
                           'expire_all, re-read) + _fail_workflow; except MistralException: force_fail (same tx)',
        'cacCancelWorkflow': 'workflow_handler.check_and_complete + Workflow.check_and_complete (stale guards, '
                             'expire_all, re-read) + _cancel_workflow; except MistralException: force_fail (same tx)',
        'advanceLast': 'periodic.advance_cron_trigger, last occurrence: triggers.delete_cron_trigger -> '
                       'db_api.delete_cron_trigger (look-up, DELETE, row count = won)',
        'advanceNext': 'periodic.advance_cron_trigger, other occurrences: db_api.update_cron_trigger with '
                       'query_filter (look-up, update_on_match, (obj, 1|0))',
        'taskComplete': 'Task.complete(state, state_info) for a completed non-skipped state with Task.set_state inlined: '
                        'is_completed guard, compare-and-swap on the state read, ORM assignments, completion check and '
                        'dispatch of the next commands (winner only); RegularTask.on_action_complete ends in it (action '
                        'results and child-workflow results alike)',
        'captureJob': 'DefaultScheduler._process_store_jobs / _capture_scheduled_job: candidate read, update_on_match on '
                      'the read captured_at',
        'actionComplete': 'DefaultEngine.on_action_complete -> action_handler.on_action_complete -> '
                          'RegularAction.complete: look-up, is_completed guard (raise), ORM assignments of state / '
                          'output / accepted, hand-off to the task; no lock, no compare-and-swap on the action row',
    }
    out = ['-- GENERATED by translate/race_scripts.py from %s, %s, %s, %s, %s; do not edit.'
           % (WF_SRC + ', ' + WFH_SRC + ', ' + MOD_SRC, API_SRC, ST_SRC, PER_SRC, TRG_SRC),
           'import Mistral.Model.Race', 'namespace Mistral.Gen.RaceScripts', 'open Mistral.Race', '',
           '/-- is_completed -/', 'def completedStates : List Val := %s' % lvals(tabs['completed']),
           'def pausedStates : List Val := %s' % lvals(tabs['paused']),
           'def allStates : List Val := %s' % lvals(tabs['all'])]
    for tgt in ('SUCCESS', 'ERROR', 'CANCELLED'):
        out.append('/-- the states s with is_valid_transition(s, %s) -/' % tgt)
        out.append('def validFrom%s : List Val := %s' % (tgt.capitalize(), lvals(valid_from(tabs, tgt))))
    out.append('')
    for name in ('succeedWorkflow', 'failWorkflow', 'cancelWorkflow', 'cacSucceedWorkflow',
                 'cacFailWorkflow', 'cacCancelWorkflow', 'advanceLast', 'advanceNext', 'actionComplete', 'taskComplete',
                 'captureJob'):
        out.append(lscript(name, sc[name], docs[name]))
        out.append('')
    out.append('/-- the local decrement of advance_cron_trigger -/')
    out.append('def decrRemaining : Option Nat → Option Nat\n  | some (n + 1) => some n\n  | r => r')
    out.append('/-- `t.remaining_executions == 0` after the decrement -/')
    out.append('def isLast (r : Option Nat) : Bool := r == some 0')
    out.append('')
    out.append('def scriptNamed : String → Option Script')
    for name in sc:
        out.append('  | "%s" => some %s' % (name, name))
    out.append('  | _ => none')
    out.append('end Mistral.Gen.RaceScripts')
    return {'files': {'RaceScripts': '\n'.join(out) + '\n'},
            'sources': [WF_SRC, WFH_SRC, MOD_SRC, API_SRC, ST_SRC, PER_SRC, TRG_SRC, ACT_SRC, ACTH_SRC, ENG_SRC, TASK_SRC, SCHED_SRC]}


if __name__ == '__main__':
    import sys
    print(generate(sys.argv[1] if len(sys.argv) > 1 else '/repo')['files']['RaceScripts'])
