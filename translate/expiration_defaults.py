"""Tie A (C18): [execution_expiration_policy] option defaults and
states.TERMINAL_STATES -> lean/Mistral/Gen/ExpireDefaults.lean.

Read by AST from mistral/config.py (the list `execution_expiration_policy_opts`)
and mistral/workflow/states.py.  Fails closed: an option of another type, a
non-literal default, a missing option, or a TERMINAL_STATES expression that is
not a set display of module-level string constants raises.
"""
import ast
import os

CONFIG = 'mistral/config.py'
STATES = 'mistral/workflow/states.py'
INT_OPTS = ['evaluation_interval', 'older_than', 'max_finished_executions', 'batch_size']
LIST_OPTS = ['ignored_states']


def _opts_list(tree):
    for node in tree.body:
        if isinstance(node, ast.Assign) and len(node.targets) == 1 \
                and isinstance(node.targets[0], ast.Name) \
                and node.targets[0].id == 'execution_expiration_policy_opts':
            if not isinstance(node.value, ast.List):
                raise ValueError('execution_expiration_policy_opts is not a list display')
            return node.value.elts
    raise ValueError('execution_expiration_policy_opts not found in config.py')


def _read_opts(tree):
    res = {}
    for call in _opts_list(tree):
        if not (isinstance(call, ast.Call) and isinstance(call.func, ast.Attribute)
                and isinstance(call.func.value, ast.Name) and call.func.value.id == 'cfg'):
            raise ValueError('unexpected element in execution_expiration_policy_opts: %s' % ast.dump(call)[:80])
        typ = call.func.attr
        if not (call.args and isinstance(call.args[0], ast.Constant) and isinstance(call.args[0].value, str)):
            raise ValueError('option without literal name')
        name = call.args[0].value
        kws = {k.arg: k.value for k in call.keywords}
        unknown = set(kws) - {'default', 'help', 'min', 'max'}
        if unknown:
            raise ValueError('option %s has keywords this translator does not understand: %s' % (name, sorted(unknown)))
        default = None
        if 'default' in kws:
            default = ast.literal_eval(kws['default'])
        lo = ast.literal_eval(kws['min']) if 'min' in kws else None
        hi = ast.literal_eval(kws['max']) if 'max' in kws else None
        res[name] = {'type': typ, 'default': default, 'min': lo, 'max': hi}
    return res


def _terminal_states(tree):
    consts = {}
    term = None
    for node in tree.body:
        if isinstance(node, ast.Assign) and len(node.targets) == 1 and isinstance(node.targets[0], ast.Name):
            nm = node.targets[0].id
            if isinstance(node.value, ast.Constant) and isinstance(node.value.value, str):
                consts[nm] = node.value.value
            if nm == 'TERMINAL_STATES':
                if term is not None:
                    raise ValueError('TERMINAL_STATES assigned twice')
                term = node.value
    if term is None:
        raise ValueError('TERMINAL_STATES not found in states.py')
    if not isinstance(term, ast.Set):
        raise ValueError('TERMINAL_STATES is not a set display')
    out = []
    for e in term.elts:
        if isinstance(e, ast.Name) and e.id in consts:
            out.append(consts[e.id])
        elif isinstance(e, ast.Constant) and isinstance(e.value, str):
            out.append(e.value)
        else:
            raise ValueError('TERMINAL_STATES element not understood: %s' % ast.dump(e))
    if len(set(out)) != len(out):
        raise ValueError('TERMINAL_STATES has duplicates')
    return sorted(out), consts


def _lean_str(s):
    if not all(32 <= ord(c) < 127 and c not in '"\\' for c in s):
        raise ValueError('string not representable: %r' % s)
    return '"%s"' % s


def _opt_int(v, nat=False):
    if v is None:
        return 'none'
    if not isinstance(v, int) or isinstance(v, bool):
        raise ValueError('non-integer default %r' % (v,))
    if nat and v < 0:
        raise ValueError('negative default %r where the model has Nat' % (v,))
    return 'some %d' % v if v >= 0 else 'some (%d)' % v


def generate(repo):
    with open(os.path.join(repo, CONFIG)) as f:
        opts = _read_opts(ast.parse(f.read()))
    with open(os.path.join(repo, STATES)) as f:
        terminal, consts = _terminal_states(ast.parse(f.read()))
    for n in INT_OPTS:
        if n not in opts or opts[n]['type'] != 'IntOpt':
            raise ValueError('option %s missing or not an IntOpt' % n)
    for n in LIST_OPTS:
        if n not in opts or opts[n]['type'] != 'ListOpt':
            raise ValueError('option %s missing or not a ListOpt' % n)
    extra = set(opts) - set(INT_OPTS) - set(LIST_OPTS)
    if extra:
        raise ValueError('options this translator does not know: %s' % sorted(extra))
    for n in INT_OPTS:
        if opts[n]['min'] is not None or opts[n]['max'] is not None:
            # a bound changes which settings are reachable; the model quantifies over all of them
            raise ValueError('option %s now has min/max bounds; revisit Model/Expire' % n)
    bs = opts['batch_size']['default']
    if bs is None:
        raise ValueError('batch_size has no default; the model takes a Nat')
    ign = opts['ignored_states']['default']
    if not isinstance(ign, list) or not all(isinstance(s, str) for s in ign):
        raise ValueError('ignored_states default is not a list of strings')
    for nm in ('RUNNING', 'PAUSED', 'IDLE', 'SUCCESS', 'ERROR', 'CANCELLED'):
        if nm not in consts:
            raise ValueError('states.%s is not a literal string constant' % nm)
    text = '''-- GENERATED by translate/expiration_defaults.py from %s and %s; do not edit.
namespace Mistral.Gen.ExpireDefaults

/-- `states.TERMINAL_STATES` (sorted). -/
def terminalStates : List String := [%s]

/-- the literal values of the state constants the property names -/
def stRunning : String := %s
def stPaused : String := %s
def stIdle : String := %s

/-- defaults of the `[execution_expiration_policy]` options (`none` = the option has no default) -/
def evaluationIntervalDefault : Option Int := %s
def olderThanDefault : Option Int := %s
def maxFinishedDefault : Option Nat := %s
def batchSizeDefault : Nat := %d
def ignoredStatesDefault : List String := [%s]

end Mistral.Gen.ExpireDefaults
''' % (CONFIG, STATES,
       ', '.join(_lean_str(s) for s in terminal),
       _lean_str(consts['RUNNING']), _lean_str(consts['PAUSED']), _lean_str(consts['IDLE']),
       _opt_int(opts['evaluation_interval']['default']),
       _opt_int(opts['older_than']['default']),
       _opt_int(opts['max_finished_executions']['default'], nat=True),
       bs,
       ', '.join(_lean_str(s) for s in ign))
    return {'files': {'ExpireDefaults': text}, 'sources': [CONFIG, STATES]}
