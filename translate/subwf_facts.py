"""Tie A for C09: structural facts of the sub-workflow start path -> Lean (Gen/SubWfFacts.lean).

  * engine/actions.py  WorkflowAction.schedule: the keys of the `wf_params = {...}` literal, that `notify`
    is copied from the parent when present, and that the loop moving undeclared input keys into
    `wf_params` (and deleting them from the input) comes AFTER those assignments (so it can overwrite),
    and the names for which that loop raises InputException instead (fix f99833f3).
  * rpc/clients.py     EngineClient.start_workflow: its keyword parameter names (a param of the same name
    makes `start_workflow(..., **wf_params)` a TypeError).
  * lang/v2/workbook.py the pattern a workflow name inside a workbook must match (which ASCII characters
    it admits) and that nothing else is admitted (`additionalProperties: False`).
  * config.py          default of [api] validation_mode.
Fail closed: any shape that is not understood raises."""
import ast
import os
import re


def _parse(repo, rel):
    with open(os.path.join(repo, rel)) as f:
        return ast.parse(f.read())


def _cls(tree, name):
    for n in tree.body:
        if isinstance(n, ast.ClassDef) and n.name == name:
            return n
    raise ValueError('class %s not found' % name)


def _fn(cls, name):
    for n in cls.body:
        if isinstance(n, ast.FunctionDef) and n.name == name:
            return n
    raise ValueError('method %s.%s not found' % (cls.name, name))


def _schedule_facts(repo):
    rel = 'mistral/engine/actions.py'
    fn = _fn(_cls(_parse(repo, rel), 'WorkflowAction'), 'schedule')
    keys = None
    reserved = []
    pos_dict = pos_notify = pos_loop = None
    root_expr = None
    for i, st in enumerate(fn.body):
        if isinstance(st, ast.Assign) and len(st.targets) == 1 and isinstance(st.targets[0], ast.Name):
            tgt = st.targets[0].id
            if tgt == 'wf_params':
                if not isinstance(st.value, ast.Dict) or keys is not None:
                    raise ValueError('wf_params is not assigned exactly one dict literal')
                keys = []
                vals = {}
                for k, v in zip(st.value.keys, st.value.values):
                    if not isinstance(k, ast.Constant) or not isinstance(k.value, str):
                        raise ValueError('non-literal key in wf_params')
                    keys.append(k.value)
                    vals[k.value] = ast.unparse(v)
                pos_dict = i
                expect = {'root_execution_id': 'root_execution_id', 'task_execution_id': 'self.task_ex.id',
                          'index': 'index', 'namespace': "parent_wf_ex.params['namespace']"}
                if vals != expect:
                    raise ValueError('wf_params literal not understood: %r' % vals)
            if tgt == 'root_execution_id':
                root_expr = ast.unparse(st.value)
        if isinstance(st, ast.If) and ast.unparse(st.test) == "'notify' in parent_wf_ex.params":
            if [ast.unparse(b) for b in st.body] != ["wf_params['notify'] = parent_wf_ex.params['notify']"] or st.orelse:
                raise ValueError('notify copy not understood')
            pos_notify = i
        if isinstance(st, ast.For):
            if ast.unparse(st.iter) != 'list(input_dict.items())' or ast.unparse(st.target) != '(k, v)':
                raise ValueError('unexpected for loop in WorkflowAction.schedule: %s' % ast.unparse(st.iter))
            if len(st.body) != 1 or not isinstance(st.body[0], ast.If):
                raise ValueError('undeclared-input loop body not understood')
            cond = st.body[0]
            if ast.unparse(cond.test) != 'k not in wf_spec.get_input()' or cond.orelse:
                raise ValueError('undeclared-input loop condition not understood: %s' % ast.unparse(cond.test))
            stmts = list(cond.body)
            reserved = []
            if stmts and isinstance(stmts[0], ast.If):
                # the reserved-name check: `if k in (<names>): raise exc.InputException(...)`
                chk = stmts.pop(0)
                t = chk.test
                ok = (isinstance(t, ast.Compare) and ast.unparse(t.left) == 'k' and len(t.ops) == 1
                      and isinstance(t.ops[0], ast.In) and isinstance(t.comparators[0], (ast.Tuple, ast.List))
                      and not chk.orelse and len(chk.body) == 1 and isinstance(chk.body[0], ast.Raise)
                      and isinstance(chk.body[0].exc, ast.Call)
                      and ast.unparse(chk.body[0].exc.func) == 'exc.InputException')
                if not ok:
                    raise ValueError('reserved-name check of the undeclared-input loop not understood: %s'
                                     % ast.unparse(chk)[:200])
                reserved = [ast.literal_eval(e) for e in t.comparators[0].elts]
                if not all(isinstance(x, str) for x in reserved):
                    raise ValueError('reserved names are not string literals')
            body = [ast.unparse(b) for b in stmts]
            if body != ['wf_params[k] = v', 'del input_dict[k]']:
                raise ValueError('undeclared-input loop does not move the key into wf_params: %r' % body)
            pos_loop = i
    if keys is None or pos_notify is None or pos_loop is None:
        raise ValueError('WorkflowAction.schedule: wf_params literal / notify copy / undeclared loop not found')
    if not (pos_dict < pos_notify < pos_loop):
        raise ValueError('WorkflowAction.schedule: order of assignments changed')
    if root_expr != 'parent_wf_ex.root_execution_id or parent_wf_ex.id':
        raise ValueError('root_execution_id expression not understood: %r' % root_expr)
    return rel, keys, reserved


def _rpc_keywords(repo):
    rel = 'mistral/rpc/clients.py'
    fn = _fn(_cls(_parse(repo, rel), 'EngineClient'), 'start_workflow')
    a = fn.args
    if a.vararg is not None or a.kwonlyargs or a.kwarg is None or a.kwarg.arg != 'params':
        raise ValueError('EngineClient.start_workflow signature not understood')
    names = [x.arg for x in a.args]
    if names[0] != 'self':
        raise ValueError('EngineClient.start_workflow: no self')
    return rel, names[1:]


def _wb_names(repo):
    rel = 'mistral/lang/v2/workbook.py'
    tree = _parse(repo, rel)
    rx = None
    for n in tree.body:
        if isinstance(n, ast.Assign) and len(n.targets) == 1 and getattr(n.targets[0], 'id', None) == 'NON_VERSION_WORD_REGEX':
            rx = ast.literal_eval(n.value)
    if not isinstance(rx, str):
        raise ValueError('NON_VERSION_WORD_REGEX not found')
    cls = _cls(tree, 'WorkbookSpec')
    schema = None
    for n in cls.body:
        if isinstance(n, ast.Assign) and getattr(n.targets[0], 'id', None) == '_schema':
            schema = n.value
    if not isinstance(schema, ast.Dict):
        raise ValueError('WorkbookSpec._schema not a dict literal')

    def get(d, key):
        for k, v in zip(d.keys, d.values):
            if isinstance(k, ast.Constant) and k.value == key:
                return v
        raise ValueError('key %r missing in WorkbookSpec._schema' % key)

    wfs = get(get(schema, 'properties'), 'workflows')
    pats = get(wfs, 'patternProperties')
    pat_keys = [ast.unparse(k) for k in pats.keys]
    if sorted(pat_keys) != sorted(["'^version$'", 'NON_VERSION_WORD_REGEX']):
        raise ValueError('workflows patternProperties not understood: %r' % pat_keys)
    addl = get(wfs, 'additionalProperties')
    if not (isinstance(addl, ast.Constant) and addl.value is False):
        raise ValueError('workflows additionalProperties is not False')
    chars = [chr(c) for c in range(32, 127) if re.search(rx, 'a' + chr(c) + 'a')]
    return rel, rx, chars


def _validation_default(repo):
    rel = 'mistral/config.py'
    for node in ast.walk(_parse(repo, rel)):
        if isinstance(node, ast.Call) and getattr(node.func, 'attr', '') == 'StrOpt' and node.args \
                and isinstance(node.args[0], ast.Constant) and node.args[0].value == 'validation_mode':
            for kw in node.keywords:
                if kw.arg == 'default':
                    return rel, ast.literal_eval(kw.value)
    raise ValueError('validation_mode option not found')


def _lean_char(c):
    if c == "'":
        return "'\\''"
    if c == '\\':
        return "'\\\\'"
    return "'%s'" % c


def generate(repo):
    r1, keys, reserved = _schedule_facts(repo)
    r2, kws = _rpc_keywords(repo)
    r3, rx, chars = _wb_names(repo)
    r4, vmode = _validation_default(repo)
    text = '''-- GENERATED by translate/subwf_facts.py from %s, %s, %s, %s; do not edit.
namespace Mistral.Gen.SubWfFacts
/-- keys of the `wf_params = {...}` literal of WorkflowAction.schedule; `notify` is copied after it and
    the loop that moves undeclared input keys into wf_params runs after both (checked by the translator) -/
def scheduleBaseKeys : List String := [%s]
/-- names for which the undeclared-input loop raises InputException instead of moving the key (empty when
    the loop has no such check) -/
def reservedInputKeys : List String := [%s]
/-- parameter names of EngineClient.start_workflow (before **params) -/
def rpcKeywords : List String := [%s]
/-- pattern for a workflow name inside a workbook: %s
    the printable ASCII characters c such that "a" ++ c ++ "a" matches -/
def workbookWfNameChars : List Char := [%s]
/-- [api] validation_mode default is "mandatory" -/
def validationMandatoryByDefault : Bool := %s
end Mistral.Gen.SubWfFacts
''' % (r1, r2, r3, r4,
       ', '.join('"%s"' % k for k in keys),
       ', '.join('"%s"' % k for k in reserved),
       ', '.join('"%s"' % k for k in kws),
       rx.replace('-/', '- /'),
       ', '.join(_lean_char(c) for c in chars),
       'true' if vmode == 'mandatory' else 'false')
    return {'files': {'SubWfFacts': text}, 'sources': [r1, r2, r3, r4]}
