"""Tie A for C17: structural facts the cron theorems assume, read from /repo by AST.

* `remaining_executions = wtypes.IntegerType(minimum=N)` on the REST resource
  (mistral/api/controllers/v2/resources.py, class CronTrigger): the count a trigger can be
  created with through the API is >= N.  (Theorems need N >= 1: a stored count of 0 fires once.)
* the look-ahead of `get_next_cron_triggers` (`utcnow() + timedelta(0, S)`) in
  mistral/services/triggers.py and the comparison operator of the db query
  (`next_execution_time < time`) in mistral/db/v2/sqlalchemy/api.py.
* the minimum distance of `first_execution_time` from now (`timedelta(0, 60)`) in
  `validate_cron_trigger_input`.
Fails closed: anything that does not have exactly the expected shape raises.
"""
import ast
import os


def _parse(repo, rel):
    with open(os.path.join(repo, rel)) as f:
        return ast.parse(f.read())


def _class(tree, name):
    for n in tree.body:
        if isinstance(n, ast.ClassDef) and n.name == name:
            return n
    raise ValueError('class %s not found' % name)


def _func(tree, name):
    for n in tree.body:
        if isinstance(n, ast.FunctionDef) and n.name == name:
            return n
    raise ValueError('function %s not found' % name)


def _timedelta_seconds(call):
    """timedelta(0, S) / datetime.timedelta(0, S) / timedelta(seconds=S) -> S"""
    if not (isinstance(call, ast.Call) and
            (getattr(call.func, 'attr', None) == 'timedelta' or getattr(call.func, 'id', None) == 'timedelta')):
        raise ValueError('not a timedelta call: %s' % ast.dump(call))
    days = secs = 0
    if len(call.args) > 2:
        raise ValueError('timedelta with more than (days, seconds)')
    if len(call.args) >= 1:
        days = ast.literal_eval(call.args[0])
    if len(call.args) == 2:
        secs = ast.literal_eval(call.args[1])
    for kw in call.keywords:
        if kw.arg == 'seconds':
            secs = ast.literal_eval(kw.value)
        elif kw.arg == 'days':
            days = ast.literal_eval(kw.value)
        elif kw.arg == 'minutes':
            secs += 60 * ast.literal_eval(kw.value)
        else:
            raise ValueError('timedelta keyword %r not understood' % kw.arg)
    v = days * 86400 + secs
    if not isinstance(v, int) or v < 0:
        raise ValueError('timedelta is not a whole non-negative number of seconds: %r' % v)
    return v


def _utcnow_plus(node):
    """`timeutils.utcnow() + timedelta(..)` -> seconds"""
    if not (isinstance(node, ast.BinOp) and isinstance(node.op, ast.Add)):
        raise ValueError('expected utcnow() + timedelta(..): %s' % ast.dump(node))
    l = node.left
    if not (isinstance(l, ast.Call) and getattr(l.func, 'attr', None) == 'utcnow' and not l.args):
        raise ValueError('left operand is not utcnow(): %s' % ast.dump(l))
    return _timedelta_seconds(node.right)


def remaining_minimum(repo):
    rel = 'mistral/api/controllers/v2/resources.py'
    cls = _class(_parse(repo, rel), 'CronTrigger')
    found = None
    for n in cls.body:
        if isinstance(n, ast.Assign) and len(n.targets) == 1 and \
                getattr(n.targets[0], 'id', None) == 'remaining_executions':
            v = n.value
            if not (isinstance(v, ast.Call) and getattr(v.func, 'attr', None) == 'IntegerType'):
                raise ValueError('remaining_executions is not a wtypes.IntegerType(...): %s' % ast.dump(v))
            if v.args:
                raise ValueError('IntegerType positional arguments not understood')
            mn = None
            for kw in v.keywords:
                if kw.arg == 'minimum':
                    mn = ast.literal_eval(kw.value)
                elif kw.arg != 'maximum':
                    raise ValueError('IntegerType keyword %r not understood' % kw.arg)
            if mn is None:
                raise ValueError('remaining_executions has no minimum')
            if not isinstance(mn, int) or mn < 0:
                raise ValueError('minimum is not a natural number: %r' % mn)
            found = mn
    if found is None:
        raise ValueError('CronTrigger.remaining_executions not found')
    return found, rel


def lookahead(repo):
    rel = 'mistral/services/triggers.py'
    fn = _func(_parse(repo, rel), 'get_next_cron_triggers')
    rets = [n for n in ast.walk(fn) if isinstance(n, ast.Return)]
    if len(rets) != 1 or not isinstance(rets[0].value, ast.Call) or \
            getattr(rets[0].value.func, 'attr', None) != 'get_next_cron_triggers' or \
            len(rets[0].value.args) != 1 or rets[0].value.keywords:
        raise ValueError('get_next_cron_triggers is not `return db_api.get_next_cron_triggers(<time>)`')
    return _utcnow_plus(rets[0].value.args[0]), rel


def query_strict(repo):
    """the db query filters `next_execution_time < time` (strict) and orders by it"""
    rel = 'mistral/db/v2/sqlalchemy/api.py'
    fn = _func(_parse(repo, rel), 'get_next_cron_triggers')
    cmps = [n for n in ast.walk(fn) if isinstance(n, ast.Compare)]
    if len(cmps) != 1:
        raise ValueError('expected exactly one comparison in db get_next_cron_triggers')
    c = cmps[0]
    if getattr(c.left, 'attr', None) != 'next_execution_time' or len(c.ops) != 1 or \
            getattr(c.comparators[0], 'id', None) != 'time':
        raise ValueError('comparison is not next_execution_time <op> time')
    if isinstance(c.ops[0], ast.Lt):
        strict = True
    elif isinstance(c.ops[0], ast.LtE):
        strict = False
    else:
        raise ValueError('comparison operator not understood')
    orders = [n for n in ast.walk(fn) if isinstance(n, ast.Call) and getattr(n.func, 'attr', None) == 'order_by']
    if len(orders) != 1 or getattr(orders[0].args[0], 'attr', None) != 'next_execution_time':
        raise ValueError('query is not ordered by next_execution_time')
    return strict, rel


def first_time_margin(repo):
    rel = 'mistral/services/triggers.py'
    fn = _func(_parse(repo, rel), 'validate_cron_trigger_input')
    for n in ast.walk(fn):
        if isinstance(n, ast.Assign) and getattr(n.targets[0], 'id', None) == 'valid_min_time':
            return _utcnow_plus(n.value), rel
    raise ValueError('valid_min_time assignment not found')


def generate(repo):
    mn, s1 = remaining_minimum(repo)
    la, s2 = lookahead(repo)
    strict, s3 = query_strict(repo)
    margin, _ = first_time_margin(repo)
    text = '''-- GENERATED by translate/cron_limits.py from %s, %s, %s; do not edit.
namespace Mistral.Gen.CronLimits
/-- `remaining_executions = wtypes.IntegerType(minimum=..)` on the REST resource CronTrigger -/
def remainingExecutionsMinimum : Nat := %d
/-- `get_next_cron_triggers`: `utcnow() + timedelta(0, ..)` seconds of look-ahead -/
def lookaheadSeconds : Nat := %d
/-- the db query compares `next_execution_time < time` strictly -/
def queryStrict : Bool := %s
/-- `validate_cron_trigger_input`: first_execution_time must be at least .. seconds ahead -/
def firstTimeMarginSeconds : Nat := %d
end Mistral.Gen.CronLimits
''' % (s1, s2, s3, mn, la, 'true' if strict else 'false', margin)
    return {'files': {'CronLimits': text}, 'sources': [s1, s2, s3]}
