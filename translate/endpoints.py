"""Tie A (C16): the exposed REST controller methods of mistral, by AST.

Walks the controller tree statically from mistral/api/controllers/root.py
(`RootController`), following class attributes that are controller instances
and `_lookup` methods, and records for every *exposed* method (pecan `expose`
/ wsme `wsexpose` decorators):

  * class, python method, HTTP verb, collection path, decorators (outermost
    first), parameter names;
  * the ordered `acl.enforce(rule, <ctx>)` calls: rule name, guard
    (always / `if all_projects` / `if all_projects or project_id` /
    `if <..scope..> == 'public'`), and the calls evaluated *before* it since the
    previous enforce (or since method entry) -- the enforce's own
    `context.ctx()` argument excluded;
  * whether the method accepts `all_projects`, where that name is used before
    the guarded enforce, and whether a POST/PUT method accepts a `scope`
    (parameter, `pecan.request.GET.get('scope')`, or a wsme body resource class
    with a `scope` attribute).

Fail closed: an `acl.enforce` anywhere else than as a top-level statement of
the method or as the sole body of a top-level `if`, a non-literal rule name, an
unknown decorator on an exposed method, an exposed class that is not reachable
from the root, a `_lookup` of an unknown shape ... raise `Refuse`.

`analyse(repo)` returns the python view (used by props/C16.py), `generate(repo)`
renders lean/Mistral/Gen/Endpoints.lean.
"""
import ast
import os

CTRL_DIR = 'mistral/api/controllers'
ROOT_FILE = 'mistral/api/controllers/root.py'
ROOT_CLASS = 'RootController'
RESOURCES_FILE = 'mistral/api/controllers/v2/resources.py'

HTTP_OF = {'get': 'GET', 'get_all': 'GET', 'get_one': 'GET', 'index': 'GET',
           'post': 'POST', 'put': 'PUT', 'delete': 'DELETE', '_lookup': 'ANY'}

EXPOSE_DECOS = ('pecan.expose', 'wsme_pecan.wsexpose')
KNOWN_DECOS = EXPOSE_DECOS + (
    'rest_utils.wrap_wsme_controller_exception',
    'rest_utils.wrap_pecan_controller_exception',
    'auth_enable_check',
)
NON_EXPOSED_DECOS = ('staticmethod', 'classmethod', 'property')


class Refuse(Exception):
    pass


def _dotted(node):
    """a.b.c for Name/Attribute chains, else None."""
    parts = []
    while isinstance(node, ast.Attribute):
        parts.append(node.attr)
        node = node.value
    if isinstance(node, ast.Name):
        parts.append(node.id)
        return '.'.join(reversed(parts))
    return None


def _call_name(call):
    d = _dotted(call.func)
    if d is not None:
        return d
    return ast.unparse(call.func).replace('\n', ' ')


def _is_enforce(node):
    return isinstance(node, ast.Call) and _dotted(node.func) in ('acl.enforce', 'access_control.enforce')


def _contains_enforce(node):
    return any(_is_enforce(n) for n in ast.walk(node))


def _is_ctx_call(node):
    return (isinstance(node, ast.Call) and not node.args and not node.keywords and
            _dotted(node.func) in ('context.ctx', 'auth_ctx.ctx'))


def _calls_in(node, skip=()):
    """Names of all calls inside `node`, in source order; nested function
    definitions / lambdas / comprehensions are opaque markers."""
    out = []

    def visit(n):
        if n in skip:
            return
        if isinstance(n, (ast.FunctionDef, ast.AsyncFunctionDef, ast.Lambda, ast.ClassDef)):
            out.append('stmt:' + type(n).__name__)
            return
        if isinstance(n, (ast.For, ast.While, ast.With, ast.Try, ast.AsyncFor, ast.AsyncWith)):
            out.append('stmt:' + type(n).__name__)
        for c in ast.iter_child_nodes(n):
            visit(c)
        if isinstance(n, ast.Call):
            out.append(_call_name(n))
    visit(node)
    return out


def _uses_name(node, name, skip_log=True):
    """unparsed sub-expressions (calls or the statement) that read `name`,
    ignoring LOG.* calls."""
    uses = []

    class V(ast.NodeVisitor):
        def visit_Call(self, c):
            d = _dotted(c.func) or ''
            if skip_log and d.startswith('LOG.'):
                return
            hit = False
            for a in list(c.args) + [k.value for k in c.keywords]:
                if any(isinstance(x, ast.Name) and x.id == name for x in ast.walk(a)):
                    hit = True
            if hit:
                uses.append(_call_name(c))
            self.generic_visit(c)

        def visit_Name(self, n):
            pass
    V().visit(node)
    # bare uses outside calls (e.g. `if all_projects:` / assignments)
    in_calls = set()
    for c in ast.walk(node):
        if isinstance(c, ast.Call):
            for x in ast.walk(c):
                if isinstance(x, ast.Name):
                    in_calls.add(id(x))
    for x in ast.walk(node):
        if isinstance(x, ast.Name) and x.id == name and id(x) not in in_calls:
            uses.append('<expr>')
            break
    return uses


def _guard_of(test):
    """Classify the test of `if <test>: acl.enforce(...)`."""
    if isinstance(test, ast.Name) and test.id == 'all_projects':
        return 'allProjects'
    if (isinstance(test, ast.BoolOp) and isinstance(test.op, ast.Or) and
            len(test.values) == 2 and
            all(isinstance(v, ast.Name) for v in test.values) and
            sorted(v.id for v in test.values) == ['all_projects', 'project_id']):
        return 'allProjectsOrProjectId'
    if (isinstance(test, ast.Compare) and len(test.ops) == 1 and isinstance(test.ops[0], ast.Eq) and
            isinstance(test.comparators[0], ast.Constant) and test.comparators[0].value == 'public'):
        left = test.left
        txt = ast.unparse(left)
        ok = (
            (isinstance(left, ast.Name) and left.id == 'scope') or
            (isinstance(left, ast.Attribute) and left.attr == 'scope' and isinstance(left.value, ast.Name)) or
            (isinstance(left, ast.Call) and _dotted(left.func) is not None and
             _dotted(left.func).endswith('.get') and len(left.args) >= 1 and
             isinstance(left.args[0], ast.Constant) and left.args[0].value == 'scope')
        )
        if ok:
            return 'scopePublic'
        return 'other:' + txt
    return 'other:' + ast.unparse(test).replace('\n', ' ')


def _resource_classes_with_scope(repo):
    with open(os.path.join(repo, RESOURCES_FILE)) as f:
        tree = ast.parse(f.read())
    res = set()
    for n in tree.body:
        if isinstance(n, ast.ClassDef):
            for s in n.body:
                if isinstance(s, ast.Assign) and any(isinstance(t, ast.Name) and t.id == 'scope' for t in s.targets):
                    res.add(n.name)
    return res


class Module(object):
    def __init__(self, repo, rel):
        self.rel = rel
        with open(os.path.join(repo, rel)) as f:
            self.tree = ast.parse(f.read())
        self.imports = {}    # alias -> module relpath (only controller modules)
        self.classes = {}
        for n in self.tree.body:
            if isinstance(n, ast.ImportFrom) and n.module and n.module.startswith('mistral.api.controllers'):
                for a in n.names:
                    p = (n.module + '.' + a.name).replace('.', '/') + '.py'
                    self.imports[a.asname or a.name] = p
            elif isinstance(n, ast.ClassDef):
                self.classes[n.name] = n


def _analyse_method(fn, cls_name, scoped_resources):
    decos = []
    body_cls = None
    for d in fn.decorator_list:
        if isinstance(d, ast.Call):
            name = _dotted(d.func)
            if name == 'wsme_pecan.wsexpose':
                for k in d.keywords:
                    if k.arg == 'body':
                        body_cls = _dotted(k.value)
        else:
            name = _dotted(d)
        if name is None:
            raise Refuse('%s.%s: decorator not understood: %s' % (cls_name, fn.name, ast.unparse(d)))
        decos.append(name)
    if not any(d in EXPOSE_DECOS for d in decos):
        if all(d in NON_EXPOSED_DECOS for d in decos):
            if _contains_enforce(fn):
                raise Refuse('%s.%s: acl.enforce in a non-exposed method' % (cls_name, fn.name))
            return None
        raise Refuse('%s.%s: decorators %s on a non-exposed method' % (cls_name, fn.name, decos))
    for d in decos:
        if d not in KNOWN_DECOS:
            raise Refuse('%s.%s: unknown decorator %s on an exposed method' % (cls_name, fn.name, d))
    if fn.name not in HTTP_OF:
        raise Refuse('%s.%s: exposed method with a name that is not a REST verb' % (cls_name, fn.name))
    a = fn.args
    params = [x.arg for x in a.posonlyargs + a.args + a.kwonlyargs if x.arg != 'self']
    if a.vararg:
        params.append('*' + a.vararg.arg)
    if a.kwarg:
        params.append('**' + a.kwarg.arg)

    body = list(fn.body)
    if body and isinstance(body[0], ast.Expr) and isinstance(body[0].value, ast.Constant) \
            and isinstance(body[0].value.value, str):
        body = body[1:]

    enforces = []
    seg = []                  # calls since the previous enforce
    ap_before_guard = []      # uses of all_projects before the guarded enforce
    ap_guard_seen = False
    reads_scope_query = False

    def enforce_record(call, guard):
        if len(call.args) != 2 or call.keywords:
            raise Refuse('%s.%s: acl.enforce with unexpected arguments: %s' % (
                cls_name, fn.name, ast.unparse(call)))
        rule, ctxarg = call.args
        if not (isinstance(rule, ast.Constant) and isinstance(rule.value, str)):
            raise Refuse('%s.%s: acl.enforce rule is not a string literal' % (cls_name, fn.name))
        if not _is_ctx_call(ctxarg):
            raise Refuse('%s.%s: acl.enforce context argument is not context.ctx()' % (cls_name, fn.name))
        return {'rule': rule.value, 'guard': guard, 'before': list(seg)}

    for st in body:
        if isinstance(st, ast.Expr) and _is_enforce(st.value):
            enforces.append(enforce_record(st.value, 'always'))
            seg = []
            continue
        if isinstance(st, ast.If) and _contains_enforce(st):
            if (st.orelse or len(st.body) != 1 or not isinstance(st.body[0], ast.Expr) or
                    not _is_enforce(st.body[0].value) or _contains_enforce(st.test)):
                raise Refuse('%s.%s: conditional acl.enforce of a shape not understood (line %d)' % (
                    cls_name, fn.name, st.lineno))
            guard = _guard_of(st.test)
            seg += _calls_in(st.test)
            if guard in ('allProjects', 'allProjectsOrProjectId'):
                ap_guard_seen = True
            enforces.append(enforce_record(st.body[0].value, guard))
            seg = []
            continue
        if _contains_enforce(st):
            raise Refuse('%s.%s: acl.enforce nested in a statement not understood (line %d)' % (
                cls_name, fn.name, st.lineno))
        if isinstance(st, ast.Return) and not enforces:
            seg.append('stmt:Return')
        seg += _calls_in(st)
        if 'all_projects' in params and not ap_guard_seen:
            ap_before_guard += _uses_name(st, 'all_projects')
        for c in ast.walk(st):
            if (isinstance(c, ast.Call) and _dotted(c.func) == 'pecan.request.GET.get' and c.args and
                    isinstance(c.args[0], ast.Constant) and c.args[0].value == 'scope'):
                reads_scope_query = True
    after = seg

    http = HTTP_OF[fn.name]
    accepts_scope = False
    if http in ('POST', 'PUT'):
        if 'scope' in params or reads_scope_query:
            accepts_scope = True
        if body_cls and body_cls.split('.')[-1] in scoped_resources:
            accepts_scope = True
    return {
        'cls': cls_name, 'method': fn.name, 'http': http, 'decorators': decos,
        'params': params, 'bodyClass': body_cls or '',
        'acceptsAllProjects': 'all_projects' in params,
        'allProjectsUsedBeforeGuard': ap_before_guard,
        'acceptsScope': accepts_scope,
        'enforces': enforces, 'after': after, 'line': fn.lineno,
    }


def _lookup_children(fn, cls_name):
    """`_lookup(self, identifier, sub_resource, *remainder)`: children are the
    classes instantiated in `return X.Y(...), remainder` under
    `if sub_resource == '<lit>':`."""
    kids = []
    for st in fn.body:
        if isinstance(st, ast.If):
            t = st.test
            if (isinstance(t, ast.Compare) and isinstance(t.left, ast.Name) and t.left.id == 'sub_resource' and
                    len(t.ops) == 1 and isinstance(t.ops[0], ast.Eq) and
                    isinstance(t.comparators[0], ast.Constant)):
                seg = t.comparators[0].value
                found = False
                for n in ast.walk(st):
                    if isinstance(n, ast.Return) and isinstance(n.value, ast.Tuple) and \
                            isinstance(n.value.elts[0], ast.Call):
                        kids.append((seg, _dotted(n.value.elts[0].func)))
                        found = True
                if not found:
                    raise Refuse('%s._lookup: branch %r returns no controller' % (cls_name, seg))
            else:
                raise Refuse('%s._lookup: test not understood: %s' % (cls_name, ast.unparse(t)))
        elif isinstance(st, ast.Return):
            # return super()._lookup(...)
            if 'super(' not in ast.unparse(st):
                raise Refuse('%s._lookup: return not understood' % cls_name)
    return kids


def analyse(repo):
    scoped = _resource_classes_with_scope(repo)
    mods = {}
    sources = set()

    def mod(rel):
        if rel not in mods:
            mods[rel] = Module(repo, rel)
            sources.add(rel)
        return mods[rel]

    endpoints = []
    reached = set()

    def resolve(m, dotted):
        """class reference `alias.Class` or `Class` -> (module, class name)."""
        if dotted is None:
            return None
        parts = dotted.split('.')
        if len(parts) == 1 and parts[0] in m.classes:
            return m, parts[0]
        if len(parts) == 2 and parts[0] in m.imports:
            rel = m.imports[parts[0]]
            if os.path.exists(os.path.join(repo, rel)):
                m2 = mod(rel)
                if parts[1] in m2.classes:
                    return m2, parts[1]
        return None

    def walk(m, cname, path, depth=0):
        if depth > 8:
            raise Refuse('controller tree deeper than 8 at %s' % path)
        reached.add((m.rel, cname))
        cls = m.classes[cname]
        for st in cls.body:
            if isinstance(st, ast.FunctionDef):
                if st.name == '__init__':
                    if _contains_enforce(st):
                        raise Refuse('%s.__init__ contains acl.enforce' % cname)
                    continue
                if not st.decorator_list:
                    if _contains_enforce(st):
                        raise Refuse('%s.%s: acl.enforce in an undecorated method' % (cname, st.name))
                    continue
                info = _analyse_method(st, cname, scoped)
                if info is None:
                    continue
                info['path'] = path or '/'
                info['file'] = m.rel
                endpoints.append(info)
                if st.name == '_lookup':
                    for seg, ref in _lookup_children(st, cname):
                        r = resolve(m, ref)
                        if r is None:
                            raise Refuse('%s._lookup: cannot resolve %s' % (cname, ref))
                        walk(r[0], r[1], path + '/{id}/' + seg, depth + 1)
            elif isinstance(st, ast.Assign) and isinstance(st.value, ast.Call):
                r = resolve(m, _dotted(st.value.func))
                if r is not None:
                    if len(st.targets) != 1 or not isinstance(st.targets[0], ast.Name):
                        raise Refuse('%s: sub-controller assignment not understood' % cname)
                    seg = st.targets[0].id
                    # a sub-controller of a RestController hangs below the item: /coll/{id}/sub,
                    # except pecan "custom action"-like controllers without id (validate)
                    is_rest = any((_dotted(b) or '').endswith('RestController') for b in cls.bases)
                    sub_is_validation = r[1] == 'SpecValidationController'
                    if is_rest and not sub_is_validation:
                        walk(r[0], r[1], path + '/{id}/' + seg, depth + 1)
                    else:
                        walk(r[0], r[1], path + '/' + seg, depth + 1)

    root = mod(ROOT_FILE)
    if ROOT_CLASS not in root.classes:
        raise Refuse('root controller class not found')
    walk(root, ROOT_CLASS, '')

    # every class under api/controllers/** that has an exposed method must have been reached
    for dirpath, _, files in os.walk(os.path.join(repo, CTRL_DIR)):
        for fnm in sorted(files):
            if not fnm.endswith('.py'):
                continue
            rel = os.path.relpath(os.path.join(dirpath, fnm), repo)
            m = mod(rel)
            for cname, cls in m.classes.items():
                exposed = False
                for st in cls.body:
                    if isinstance(st, ast.FunctionDef):
                        for d in st.decorator_list:
                            nm = _dotted(d.func) if isinstance(d, ast.Call) else _dotted(d)
                            if nm in EXPOSE_DECOS:
                                exposed = True
                if exposed and (rel, cname) not in reached:
                    raise Refuse('controller class %s (%s) has exposed methods but is not '
                                 'reachable from the root controller' % (cname, rel))
            # module-level acl.enforce outside classes is not understood
            for n in m.tree.body:
                if not isinstance(n, ast.ClassDef) and _contains_enforce(n):
                    raise Refuse('%s: acl.enforce outside a controller class' % rel)

    endpoints.sort(key=lambda e: (e['path'], e['cls'], e['method']))
    for i, e in enumerate(endpoints):
        e['idx'] = i
    return {'endpoints': endpoints, 'sources': sorted(sources | {RESOURCES_FILE})}


def _ls(s):
    return '"' + s.replace('\\', '\\\\').replace('"', '\\"') + '"'


def _llist(xs):
    return '[' + ', '.join(_ls(x) for x in xs) + ']'


def _guard_lean(g):
    if g.startswith('other:'):
        return '(.other %s)' % _ls(g[6:])
    return '.' + g


def generate(repo):
    a = analyse(repo)
    rows = []
    for e in a['endpoints']:
        enf = ',\n      '.join(
            '{ rule := %s, guard := %s, before := %s }' % (_ls(x['rule']), _guard_lean(x['guard']), _llist(x['before']))
            for x in e['enforces'])
        rows.append(
            '  -- %d  %s:%d\n'
            '  { cls := %s, method := %s, http := %s, path := %s,\n'
            '    decorators := %s,\n'
            '    params := %s,\n'
            '    acceptsAllProjects := %s, allProjectsUsedBeforeGuard := %s, acceptsScope := %s,\n'
            '    enforces := [%s] }' % (
                e['idx'], e['file'], e['line'],
                _ls(e['cls']), _ls(e['method']), _ls(e['http']), _ls(e['path']),
                _llist(e['decorators']), _llist(e['params']),
                'true' if e['acceptsAllProjects'] else 'false', _llist(e['allProjectsUsedBeforeGuard']),
                'true' if e['acceptsScope'] else 'false', enf))
    text = '''-- GENERATED by translate/endpoints.py from %s/**; do not edit.
namespace Mistral.Gen.Endpoints

/-- The condition under which a conditional `acl.enforce` runs. -/
inductive Guard where
  | always | allProjects | allProjectsOrProjectId | scopePublic
  | other (text : String)
  deriving DecidableEq, Repr

/-- One `acl.enforce(rule, context.ctx())` call; `before` = the calls evaluated since the
    previous enforce (or since method entry) and before this one. -/
structure Enforce where
  rule : String
  guard : Guard
  before : List String
  deriving DecidableEq, Repr

structure Endpoint where
  cls : String
  method : String
  http : String
  path : String
  decorators : List String
  params : List String
  acceptsAllProjects : Bool
  allProjectsUsedBeforeGuard : List String
  acceptsScope : Bool
  enforces : List Enforce
  deriving DecidableEq, Repr

def endpoints : List Endpoint := [
%s
]

end Mistral.Gen.Endpoints
''' % (CTRL_DIR, ',\n'.join(rows))
    return {'files': {'Endpoints': text}, 'sources': a['sources']}


if __name__ == '__main__':
    import json
    import sys
    r = analyse(sys.argv[1] if len(sys.argv) > 1 else '/repo')
    for e in r['endpoints']:
        print(json.dumps({k: e[k] for k in ('idx', 'cls', 'method', 'http', 'path', 'decorators', 'acceptsAllProjects',
                                            'allProjectsUsedBeforeGuard', 'acceptsScope', 'enforces')}))
