"""Tie A for C13 (legacy scheduler): structural facts of the code -> Lean (fail closed).

* mistral/db/v2/sqlalchemy/api.py `get_delayed_calls_to_start(time, batch_size)`: the single
  comparison `models.DelayedCall.execution_time <op> time`, whether `filter_by(processing=False)`
  is applied, and that ORDER BY execution_time / LIMIT batch_size are there (else refuse).
* mistral/services/legacy_scheduler.py `_capture_calls`: `time_filter = utils.utc_now_sec() +
  datetime.timedelta(seconds=N)` (N whole), it is passed with `batch_size` to
  `db_api.get_delayed_calls_to_start`, and the `db_api.update_delayed_call` call sets
  values={'processing': True} (else refuse) with query_filter={'processing': False} (the CAS).
* `_process_delayed_calls`: the order of `self._capture_calls`, `self._prepare_calls`,
  `self._invoke_calls`, `self.delete_calls` in the body.
"""
import ast
import os

OPS = {ast.Lt: 'lt', ast.LtE: 'le', ast.Gt: 'gt', ast.GtE: 'ge', ast.Eq: 'eq'}
API_SRC = 'mistral/db/v2/sqlalchemy/api.py'
LS_SRC = 'mistral/services/legacy_scheduler.py'


def _funcs(tree, name):
    return [n for n in ast.walk(tree) if isinstance(n, (ast.FunctionDef, ast.AsyncFunctionDef)) and n.name == name]


def _func(tree, name, where):
    fs = _funcs(tree, name)
    if len(fs) != 1 or not isinstance(fs[0], ast.FunctionDef):
        raise ValueError('expected exactly one function %s in %s, found %d' % (name, where, len(fs)))
    return fs[0]


def _src(node):
    return ast.unparse(node)


def _calls(fn):
    return [n for n in ast.walk(fn) if isinstance(n, ast.Call)]


def _params(fn):
    a = fn.args
    if a.vararg or a.kwarg or a.posonlyargs:
        raise ValueError('unexpected parameter list of %s' % fn.name)
    return [x.arg for x in a.args + a.kwonlyargs]


def _select_facts(api):
    fn = _func(api, 'get_delayed_calls_to_start', API_SRC)
    if _params(fn)[:2] != ['time', 'batch_size']:
        raise ValueError('unexpected parameters of get_delayed_calls_to_start: %r' % _params(fn))
    # straight-line body: `query = ...` assignments and `return query.all()`
    body = [s for s in fn.body if not (isinstance(s, ast.Expr) and isinstance(s.value, ast.Constant))]
    if not body or not isinstance(body[-1], ast.Return) or _src(body[-1].value) != 'query.all()':
        raise ValueError('get_delayed_calls_to_start does not end with `return query.all()`')
    steps = []
    for st in body[:-1]:
        if not (isinstance(st, ast.Assign) and len(st.targets) == 1 and _src(st.targets[0]) == 'query'):
            raise ValueError('statement not understood in get_delayed_calls_to_start: %s' % _src(st))
        steps.append(st.value)
    if not steps or _src(steps[0]) != 'b.model_query(models.DelayedCall)':
        raise ValueError('get_delayed_calls_to_start does not start from b.model_query(models.DelayedCall)')
    op = None
    unprocessed = False
    order = limit = False
    for v in steps[1:]:
        if not (isinstance(v, ast.Call) and isinstance(v.func, ast.Attribute) and _src(v.func.value) == 'query'):
            raise ValueError('query step not understood in get_delayed_calls_to_start: %s' % _src(v))
        meth = v.func.attr
        if meth == 'filter':
            if v.keywords or len(v.args) != 1 or not isinstance(v.args[0], ast.Compare):
                raise ValueError('filter not understood: %s' % _src(v))
            c = v.args[0]
            if len(c.ops) != 1 or _src(c.left) != 'models.DelayedCall.execution_time' or \
                    _src(c.comparators[0]) != 'time' or type(c.ops[0]) not in OPS:
                raise ValueError('comparison not understood: %s' % _src(c))
            if op is not None:
                raise ValueError('more than one execution_time comparison in get_delayed_calls_to_start')
            op = OPS[type(c.ops[0])]
        elif meth == 'filter_by':
            if v.args or len(v.keywords) != 1 or v.keywords[0].arg != 'processing' or \
                    not isinstance(v.keywords[0].value, ast.Constant) or v.keywords[0].value.value is not False:
                raise ValueError('filter_by not understood: %s' % _src(v))
            if unprocessed:
                raise ValueError('filter_by(processing=False) applied twice')
            unprocessed = True
        elif meth == 'order_by':
            if _src(v) != 'query.order_by(models.DelayedCall.execution_time)' or order:
                raise ValueError('order_by not understood: %s' % _src(v))
            if limit:
                raise ValueError('LIMIT is applied before ORDER BY')
            order = True
        elif meth == 'limit':
            if _src(v) != 'query.limit(batch_size)' or limit:
                raise ValueError('limit not understood: %s' % _src(v))
            limit = True
        else:
            raise ValueError('query method not understood in get_delayed_calls_to_start: %s' % _src(v))
    if op is None:
        raise ValueError('no `execution_time <op> time` comparison in get_delayed_calls_to_start')
    if not order or not limit:
        raise ValueError('ORDER BY execution_time / LIMIT batch_size not found in get_delayed_calls_to_start')
    if len([n for n in ast.walk(fn) if isinstance(n, ast.Compare)]) != 1:
        raise ValueError('expected exactly one comparison in get_delayed_calls_to_start')
    return op, unprocessed


def _whole(node, what):
    if not isinstance(node, ast.Constant) or isinstance(node.value, bool) or \
            not isinstance(node.value, (int, float)) or int(node.value) != node.value or node.value < 0:
        raise ValueError('%s is not a whole non-negative number: %s' % (what, _src(node)))
    return int(node.value)


def _capture_facts(ls):
    fn = _func(ls, '_capture_calls', LS_SRC)
    if _params(fn) != ['batch_size']:
        raise ValueError('unexpected parameters of _capture_calls: %r' % _params(fn))
    assigns = [n for n in ast.walk(fn) if isinstance(n, ast.Assign) and
               any(_src(t) == 'time_filter' for t in n.targets)]
    if len(assigns) != 1 or len(assigns[0].targets) != 1:
        raise ValueError('expected exactly one assignment of time_filter in _capture_calls')
    v = assigns[0].value
    if not (isinstance(v, ast.BinOp) and isinstance(v.op, ast.Add) and _src(v.left) == 'utils.utc_now_sec()' and
            isinstance(v.right, ast.Call) and _src(v.right.func) == 'datetime.timedelta' and
            not v.right.args and len(v.right.keywords) == 1 and v.right.keywords[0].arg == 'seconds'):
        raise ValueError('time_filter not understood: %s' % _src(v))
    slack = _whole(v.right.keywords[0].value, 'time_filter slack')
    for n in ast.walk(fn):
        if isinstance(n, (ast.AugAssign, ast.AnnAssign, ast.NamedExpr)) and 'time_filter' in _src(n):
            raise ValueError('time_filter is modified: %s' % _src(n))
    sel = [c for c in _calls(fn) if _src(c.func) == 'db_api.get_delayed_calls_to_start']
    if len(sel) != 1 or sel[0].keywords or [_src(a) for a in sel[0].args] != ['time_filter', 'batch_size']:
        raise ValueError('expected one db_api.get_delayed_calls_to_start(time_filter, batch_size) call in '
                         '_capture_calls')
    upd = [c for c in _calls(fn) if _src(c.func) == 'db_api.update_delayed_call']
    if len(upd) != 1 or upd[0].args:
        raise ValueError('expected one db_api.update_delayed_call(keyword arguments) call in _capture_calls')
    kw = {}
    for k in upd[0].keywords:
        if k.arg is None or k.arg in kw:
            raise ValueError('update_delayed_call arguments not understood: %s' % _src(upd[0]))
        kw[k.arg] = _src(k.value)
    if set(kw) - {'id', 'values', 'query_filter'}:
        raise ValueError('unexpected update_delayed_call arguments: %r' % sorted(kw))
    if kw.get('id') != 'call.id' or kw.get('values') != "{'processing': True}":
        raise ValueError('unexpected id/values in the capture update: %r' % kw)
    # the update runs once per candidate of the select, inside the same transaction
    loops = [n for n in ast.walk(fn) if isinstance(n, ast.For)]
    if len(loops) != 1 or _src(loops[0].target) != 'call' or _src(loops[0].iter) != 'candidates' or \
            upd[0] not in list(ast.walk(loops[0])):
        raise ValueError('the capture update is not inside `for call in candidates`')
    cand = [n for n in ast.walk(fn) if isinstance(n, ast.Assign) and len(n.targets) == 1 and
            _src(n.targets[0]) == 'candidates']
    if len(cand) != 1 or cand[0].value is not sel[0]:
        raise ValueError('`candidates` is not the answer of get_delayed_calls_to_start')
    withs = [n for n in ast.walk(fn) if isinstance(n, ast.With)]
    if len(withs) != 1 or [_src(i.context_expr) for i in withs[0].items] != ['db_api.transaction()'] or \
            loops[0] not in list(ast.walk(withs[0])) or cand[0] not in list(ast.walk(withs[0])):
        raise ValueError('select and capture loop are not inside one `with db_api.transaction()`')
    return slack, kw.get('query_filter') == "{'processing': False}"


def _process_facts(ls):
    fn = _func(ls, '_process_delayed_calls', LS_SRC)
    want = ['self._capture_calls', 'self._prepare_calls', 'self._invoke_calls', 'self.delete_calls']
    pos = {}
    for idx, st in enumerate(fn.body):
        for c in _calls(st):
            name = _src(c.func)
            if name in want:
                if name in pos:
                    raise ValueError('%s is called more than once in _process_delayed_calls' % name)
                if isinstance(st, (ast.If, ast.For, ast.While, ast.Try, ast.With)):
                    raise ValueError('%s is called inside a compound statement in _process_delayed_calls' % name)
                pos[name] = idx
    missing = [w for w in want if w not in pos]
    if missing:
        raise ValueError('_process_delayed_calls does not call %s' % ', '.join(missing))
    if not (pos['self._capture_calls'] < pos['self._prepare_calls'] < pos['self._invoke_calls']) or \
            not pos['self._capture_calls'] < pos['self.delete_calls']:
        raise ValueError('unexpected order of the calls in _process_delayed_calls: %r'
                         % sorted(pos, key=pos.get))
    return pos['self._invoke_calls'] < pos['self.delete_calls']


def generate(repo):
    with open(os.path.join(repo, API_SRC)) as f:
        api = ast.parse(f.read())
    with open(os.path.join(repo, LS_SRC)) as f:
        ls = ast.parse(f.read())
    op, unprocessed = _select_facts(api)
    slack, cas = _capture_facts(ls)
    invoke_first = _process_facts(ls)

    def b(x):
        return 'true' if x else 'false'

    text = '''-- GENERATED by translate/sched_legacy_facts.py from %s, %s; do not edit.
import Mistral.Model.Sched
namespace Mistral.Gen.SchedLegacyFacts
open Mistral.Sched
/-- get_delayed_calls_to_start: `execution_time <op> time` -/
def selectExecutionTimeOp : Cmp := .%s
/-- _capture_calls: `time_filter = utc_now_sec() + timedelta(seconds=<n>)` -/
def timeFilterSlack : Nat := %d
/-- get_delayed_calls_to_start filters `processing=False` -/
def selectFiltersUnprocessed : Bool := %s
/-- _capture_calls: update_delayed_call(values={'processing': True}, query_filter={'processing': False}) -/
def captureIsCas : Bool := %s
/-- _process_delayed_calls: _capture_calls, _prepare_calls, _invoke_calls, delete_calls in this order -/
def invokeBeforeDelete : Bool := %s
end Mistral.Gen.SchedLegacyFacts
''' % (LS_SRC, API_SRC, op, slack, b(unprocessed), b(cas), b(invoke_first))
    return {'files': {'SchedLegacyFacts': text}, 'sources': [LS_SRC, API_SRC]}
