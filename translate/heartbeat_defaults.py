"""Tie A for C20: the facts of the heartbeat / integrity-check code that are tables or structure,
read from the working tree by AST (fail closed) -> lean/Mistral/Gen/HeartbeatDefaults.lean.

  * mistral/config.py: defaults (and minimum) of [action_heartbeat] max_missed_heartbeats,
    check_interval, batch_size, first_heartbeat_timeout and of [engine]
    execution_integrity_check_delay / execution_integrity_check_batch_size;
  * mistral/db/v2/sqlalchemy/api.py get_running_expired_sync_action_executions: the comparison
    operator between last_heartbeat and the expiration time, the is_sync and state filters, and
    whether the result of `query.limit(limit)` is kept (it is an expression statement whose value
    is discarded in the pinned code: the batch size is not applied);
  * mistral/db/v2/sqlalchemy/models.py ActionExecution.last_heartbeat default:
    utc_now_sec() + timedelta(seconds=CONF.action_heartbeat.first_heartbeat_timeout);
  * mistral/services/action_heartbeat_checker.py: start() is enabled by `interval and max_missed`,
    the expiration date is now - max_missed * interval, only DBEntityNotFoundError is caught per
    action and the handler is `continue`;
  * mistral/engine/default_engine.py process_action_heartbeats -> update_action_execution_heartbeat
    sets last_heartbeat to utc_now_sec();
  * mistral/engine/workflow_handler.py: the delays with which the integrity check is scheduled at
    workflow start and by itself, `delta < check_after_seconds -> continue` and
    `interval > check_after_seconds`, `check_after_seconds < 0 -> return`.
"""
import ast
import os


class Refuse(Exception):
    pass


def _parse(repo, rel):
    with open(os.path.join(repo, rel)) as f:
        return ast.parse(f.read())


def _func(tree, name):
    for n in ast.walk(tree):
        if isinstance(n, ast.FunctionDef) and n.name == name:
            return n
    raise Refuse('function %s not found' % name)


def _intopt(tree, list_name, opt):
    """default and min of cfg.IntOpt(opt, ...) inside the module-level list `list_name`."""
    for node in tree.body:
        if isinstance(node, ast.Assign) and any(isinstance(t, ast.Name) and t.id == list_name for t in node.targets):
            if not isinstance(node.value, ast.List):
                raise Refuse('%s is not a list literal' % list_name)
            for call in node.value.elts:
                if not (isinstance(call, ast.Call) and getattr(call.func, 'attr', '') == 'IntOpt'):
                    continue
                if call.args and isinstance(call.args[0], ast.Constant) and call.args[0].value == opt:
                    kw = {k.arg: k.value for k in call.keywords}
                    if 'default' not in kw:
                        raise Refuse('IntOpt %s has no default' % opt)
                    d = ast.literal_eval(kw['default'])
                    m = ast.literal_eval(kw['min']) if 'min' in kw else None
                    if not isinstance(d, int) or isinstance(d, bool):
                        raise Refuse('IntOpt %s default is not an int' % opt)
                    return d, m
            raise Refuse('IntOpt %s not found in %s' % (opt, list_name))
    raise Refuse('%s not found in config.py' % list_name)


def _group_of(tree, list_name):
    """the group constant the option list is registered under -> its string value"""
    consts = {}
    for node in tree.body:
        if isinstance(node, ast.Assign) and isinstance(node.value, ast.Constant) and isinstance(node.value.value, str):
            for t in node.targets:
                if isinstance(t, ast.Name):
                    consts[t.id] = node.value.value
    for node in ast.walk(tree):
        if isinstance(node, ast.Call) and getattr(node.func, 'attr', '') == 'register_opts' and node.args:
            if isinstance(node.args[0], ast.Name) and node.args[0].id == list_name:
                for k in node.keywords:
                    if k.arg == 'group' and isinstance(k.value, ast.Name) and k.value.id in consts:
                        return consts[k.value.id]
    raise Refuse('registration group of %s not found' % list_name)


def _query_facts(tree):
    fn = _func(tree, 'get_running_expired_sync_action_executions')
    args = [a.arg for a in fn.args.args]
    if args[:2] != ['expiration_time', 'limit']:
        raise Refuse('unexpected signature of get_running_expired_sync_action_executions: %s' % args)
    cmp_strict = None
    filters_sync = False
    filters_running = False
    limit_applied = None
    filters_seen = 0
    for st in ast.walk(fn):
        if isinstance(st, ast.Call) and getattr(st.func, 'attr', '') in ('filter', 'filter_by'):
            filters_seen += 1
            if st.func.attr == 'filter_by':
                kws = {k.arg: k.value for k in st.keywords}
                if set(kws) != {'is_sync'} or not (isinstance(kws['is_sync'], ast.Constant) and kws['is_sync'].value is True):
                    raise Refuse('unexpected filter_by(%s)' % ast.dump(st))
                filters_sync = True
                continue
            if len(st.args) != 1 or not isinstance(st.args[0], ast.Compare) or len(st.args[0].ops) != 1:
                raise Refuse('unexpected filter expression %s' % ast.dump(st))
            c = st.args[0]
            left = getattr(c.left, 'attr', None)
            op = type(c.ops[0]).__name__
            right = c.comparators[0]
            if left == 'last_heartbeat':
                if not (isinstance(right, ast.Name) and right.id == 'expiration_time'):
                    raise Refuse('last_heartbeat compared with something else than expiration_time')
                if op == 'Lt':
                    cmp_strict = True
                elif op == 'LtE':
                    cmp_strict = False
                else:
                    raise Refuse('last_heartbeat comparison operator %s' % op)
            elif left == 'state':
                if op != 'Eq' or getattr(right, 'attr', None) != 'RUNNING':
                    raise Refuse('unexpected state filter %s' % ast.dump(c))
                filters_running = True
            elif left == 'is_sync':
                if op not in ('Eq', 'Is') or not (isinstance(right, ast.Constant) and right.value is True):
                    raise Refuse('unexpected is_sync filter')
                filters_sync = True
            else:
                raise Refuse('unknown filter on %s' % left)
    # the limit: `if limit: query.limit(limit)` (value discarded) or `query = query.limit(limit)`
    for st in ast.walk(fn):
        if isinstance(st, ast.Call) and getattr(st.func, 'attr', '') == 'limit':
            if limit_applied is not None:
                raise Refuse('more than one .limit() call')
            limit_applied = False
    for st in ast.walk(fn):
        if isinstance(st, ast.Assign) and isinstance(st.value, ast.Call) and getattr(st.value.func, 'attr', '') == 'limit':
            if len(st.targets) == 1 and isinstance(st.targets[0], ast.Name) and st.targets[0].id == 'query':
                limit_applied = True
        if isinstance(st, ast.Return) and isinstance(st.value, ast.Call):
            # return query.limit(limit).all() style
            inner = st.value.func
            if getattr(inner, 'attr', '') == 'all' and isinstance(inner.value, ast.Call) and \
                    getattr(inner.value.func, 'attr', '') == 'limit':
                limit_applied = True
    if cmp_strict is None:
        raise Refuse('no last_heartbeat comparison found')
    if limit_applied is None:
        raise Refuse('no .limit() call found')
    if filters_seen != (1 if cmp_strict is not None else 0) + int(filters_sync) + int(filters_running):
        raise Refuse('filters not understood (%d seen)' % filters_seen)
    return cmp_strict, filters_sync, filters_running, limit_applied


def _first_deadline(tree):
    """ActionExecution.last_heartbeat default = utc_now_sec() + timedelta(seconds=CONF.action_heartbeat.<opt>)"""
    for cls in ast.walk(tree):
        if isinstance(cls, ast.ClassDef) and cls.name == 'ActionExecution':
            for st in cls.body:
                if isinstance(st, ast.Assign) and any(getattr(t, 'id', '') == 'last_heartbeat' for t in st.targets):
                    call = st.value
                    kws = {k.arg: k.value for k in call.keywords}
                    d = kws.get('default')
                    if d is None:
                        return None           # no default: NULL until the first heartbeat
                    if not isinstance(d, ast.Lambda) or not isinstance(d.body, ast.BinOp) or \
                            not isinstance(d.body.op, ast.Add):
                        raise Refuse('last_heartbeat default is not `now + timedelta`: %s' % ast.dump(d))
                    l, r = d.body.left, d.body.right
                    if not (isinstance(l, ast.Call) and getattr(l.func, 'attr', '') == 'utc_now_sec'):
                        raise Refuse('last_heartbeat default does not start from utc_now_sec()')
                    if not (isinstance(r, ast.Call) and getattr(r.func, 'attr', '') == 'timedelta'
                            and len(r.keywords) == 1 and r.keywords[0].arg == 'seconds' and not r.args):
                        raise Refuse('last_heartbeat default: unexpected timedelta')
                    v = r.keywords[0].value
                    if not (isinstance(v, ast.Attribute) and isinstance(v.value, ast.Attribute)
                            and v.value.attr == 'action_heartbeat'):
                        raise Refuse('last_heartbeat default: not an [action_heartbeat] option')
                    return v.attr
    raise Refuse('ActionExecution.last_heartbeat not found')


def _checker_facts(tree):
    start = _func(tree, 'start')
    enabled_expr = None
    for st in ast.walk(start):
        if isinstance(st, ast.Assign) and getattr(st.targets[0], 'id', '') == 'enabled':
            enabled_expr = st.value
    if not (isinstance(enabled_expr, ast.BoolOp) and isinstance(enabled_expr.op, ast.And)
            and sorted(getattr(v, 'id', '?') for v in enabled_expr.values) == ['interval', 'max_missed']):
        raise Refuse('start(): `enabled = interval and max_missed` not found')
    names = {}
    for fn in (start, _func(tree, 'handle_expired_actions')):
        for st in ast.walk(fn):
            if isinstance(st, ast.Assign) and isinstance(st.targets[0], ast.Name) and \
                    st.targets[0].id in ('interval', 'max_missed') and isinstance(st.value, ast.Attribute):
                names.setdefault(st.targets[0].id, set()).add(st.value.attr)
    if names != {'interval': {'check_interval'}, 'max_missed': {'max_missed_heartbeats'}}:
        raise Refuse('interval / max_missed are not read from the expected options: %s' % names)
    h = _func(tree, 'handle_expired_actions')
    # exp_date = utc_now_sec() - timedelta(seconds=max_missed * interval)
    ok = False
    for st in ast.walk(h):
        if isinstance(st, ast.Assign) and getattr(st.targets[0], 'id', '') == 'exp_date':
            v = st.value
            if isinstance(v, ast.BinOp) and isinstance(v.op, ast.Sub) and isinstance(v.right, ast.Call) \
                    and getattr(v.right.func, 'attr', '') == 'timedelta' and len(v.right.keywords) == 1 \
                    and v.right.keywords[0].arg == 'seconds':
                m = v.right.keywords[0].value
                if isinstance(m, ast.BinOp) and isinstance(m.op, ast.Mult) and \
                        sorted([getattr(m.left, 'id', '?'), getattr(m.right, 'id', '?')]) == ['interval', 'max_missed']:
                    ok = True
    if not ok:
        raise Refuse('exp_date = now - timedelta(seconds=max_missed * interval) not found')
    # per-action handlers inside the for loop
    caught = []
    for st in ast.walk(h):
        if isinstance(st, ast.For):
            for t in ast.walk(st):
                if isinstance(t, ast.Try):
                    for hd in t.handlers:
                        typ = hd.type
                        tn = getattr(typ, 'attr', getattr(typ, 'id', None)) if typ is not None else 'BaseException'
                        if isinstance(typ, ast.Tuple):
                            raise Refuse('tuple of exception types in the per-action handler')
                        last = hd.body[-1]
                        if not isinstance(last, ast.Continue):
                            raise Refuse('per-action handler does not `continue`')
                        covers_complete = any(
                            isinstance(c, ast.Call) and getattr(c.func, 'attr', '') == 'on_action_complete'
                            for b in t.body for c in ast.walk(b))
                        caught.append((tn, covers_complete))
    return caught


def _integrity_facts(tree):
    chk = _func(tree, '_check_and_fix_integrity')
    resched = None
    for st in ast.walk(chk):
        if isinstance(st, ast.Call) and getattr(st.func, 'id', '') == '_schedule_check_and_fix_integrity':
            for k in st.keywords:
                if k.arg == 'delay':
                    resched = ast.literal_eval(k.value)
    start = _func(tree, 'start_workflow')
    first = None
    for st in ast.walk(start):
        if isinstance(st, ast.Call) and getattr(st.func, 'id', '') == '_schedule_check_and_fix_integrity':
            for k in st.keywords:
                if k.arg == 'delay':
                    first = ast.literal_eval(k.value)
    if not isinstance(resched, int) or not isinstance(first, int):
        raise Refuse('integrity check scheduling delays not found')
    task_cmp = child_cmp = neg_cmp = None
    for st in ast.walk(chk):
        if isinstance(st, ast.If) and isinstance(st.test, ast.Compare) and len(st.test.ops) == 1:
            l = getattr(st.test.left, 'id', None)
            r = st.test.comparators[0]
            op = type(st.test.ops[0]).__name__
            if l == 'delta' and getattr(r, 'id', '') == 'check_after_seconds':
                if not isinstance(st.body[0], ast.Continue):
                    raise Refuse('delta test does not continue')
                task_cmp = op
            elif l == 'interval' and getattr(r, 'id', '') == 'check_after_seconds':
                child_cmp = op
            elif l == 'check_after_seconds' and isinstance(r, ast.Constant) and r.value == 0:
                if not isinstance(st.body[-1], ast.Return):
                    raise Refuse('negative delay test does not return')
                neg_cmp = op
    if task_cmp not in ('Lt', 'LtE') or child_cmp not in ('Gt', 'GtE') or neg_cmp != 'Lt':
        raise Refuse('integrity comparisons not understood: %s %s %s' % (task_cmp, child_cmp, neg_cmp))
    return resched, first, task_cmp == 'Lt', child_cmp == 'Gt'


def _heartbeat_update(tree):
    fn = _func(tree, 'update_action_execution_heartbeat')
    for st in ast.walk(fn):
        if isinstance(st, ast.Call) and getattr(st.func, 'attr', '') == 'update' and st.args and isinstance(st.args[0], ast.Dict):
            keys = [k.value for k in st.args[0].keys if isinstance(k, ast.Constant)]
            vals = st.args[0].values
            if keys == ['last_heartbeat'] and isinstance(vals[0], ast.Name) and vals[0].id == 'now':
                for a in ast.walk(fn):
                    if isinstance(a, ast.Assign) and getattr(a.targets[0], 'id', '') == 'now' and \
                            isinstance(a.value, ast.Call) and getattr(a.value.func, 'attr', '') == 'utc_now_sec':
                        return True
    raise Refuse('update_action_execution_heartbeat does not set last_heartbeat to utc_now_sec()')


def _b(x):
    return 'true' if x else 'false'


def generate(repo):
    srcs = ['mistral/config.py', 'mistral/db/v2/sqlalchemy/api.py', 'mistral/db/v2/sqlalchemy/models.py',
            'mistral/services/action_heartbeat_checker.py', 'mistral/engine/workflow_handler.py']
    cfg_t = _parse(repo, srcs[0])
    api_t = _parse(repo, srcs[1])
    mod_t = _parse(repo, srcs[2])
    chk_t = _parse(repo, srcs[3])
    wfh_t = _parse(repo, srcs[4])
    if _group_of(cfg_t, 'action_heartbeat_opts') != 'action_heartbeat':
        raise Refuse('action_heartbeat_opts not registered under [action_heartbeat]')
    mm, mm_min = _intopt(cfg_t, 'action_heartbeat_opts', 'max_missed_heartbeats')
    ci, ci_min = _intopt(cfg_t, 'action_heartbeat_opts', 'check_interval')
    bs, bs_min = _intopt(cfg_t, 'action_heartbeat_opts', 'batch_size')
    ft, ft_min = _intopt(cfg_t, 'action_heartbeat_opts', 'first_heartbeat_timeout')
    for n, v in (('max_missed_heartbeats', mm_min), ('check_interval', ci_min), ('batch_size', bs_min),
                 ('first_heartbeat_timeout', ft_min)):
        if v != 0:
            raise Refuse('[action_heartbeat] %s: min is %r, the model assumes natural numbers (min=0)' % (n, v))
    idl, _ = _intopt(cfg_t, 'engine_opts', 'execution_integrity_check_delay')
    ibs, ibs_min = _intopt(cfg_t, 'engine_opts', 'execution_integrity_check_batch_size')
    if ibs_min != 1:
        raise Refuse('execution_integrity_check_batch_size: min is %r (model assumes 1)' % ibs_min)
    strict, f_sync, f_run, lim = _query_facts(api_t)
    fd = _first_deadline(mod_t)
    if fd not in (None, 'first_heartbeat_timeout'):
        raise Refuse('last_heartbeat default uses option %s' % fd)
    caught = _checker_facts(chk_t)
    resched, first, task_lt, child_gt = _integrity_facts(wfh_t)
    _heartbeat_update(api_t)
    catches_not_found = any(t == 'DBEntityNotFoundError' and not cov for t, cov in caught)
    catches_all_around_complete = any(t in ('Exception', 'BaseException', 'MistralException') and cov for t, cov in caught)
    for t, cov in caught:
        if t not in ('DBEntityNotFoundError', 'Exception', 'BaseException', 'MistralException'):
            raise Refuse('per-action handler for %s not understood' % t)
    text = '''-- GENERATED by translate/heartbeat_defaults.py from %s; do not edit.
namespace Mistral.Gen.HeartbeatDefaults
-- [action_heartbeat] defaults (all options have min=0)
def maxMissedDefault : Nat := %d
def checkIntervalDefault : Nat := %d
def batchSizeDefault : Nat := %d
def firstTimeoutDefault : Nat := %d
-- [engine] execution_integrity_check_delay / _batch_size (min=1)
def integrityDelayDefault : Int := %s
def integrityBatchDefault : Nat := %d
-- get_running_expired_sync_action_executions
/-- `last_heartbeat < expiration_time` (true) or `<=` (false) -/
def expiryCmpStrict : Bool := %s
def queryFiltersSync : Bool := %s
def queryFiltersRunning : Bool := %s
/-- is the result of `query.limit(limit)` kept?  (pinned code: the value is discarded) -/
def queryLimitApplied : Bool := %s
/-- ActionExecution.last_heartbeat default = creation time + first_heartbeat_timeout -/
def firstDeadlineAddsTimeout : Bool := %s
-- handle_expired_actions, per action
/-- DBEntityNotFoundError of the task / workflow lookups is caught and the loop continues -/
def checkerSkipsMissingParent : Bool := %s
/-- an exception of action_handler.on_action_complete is caught per action -/
def checkerCatchesCompleteErrors : Bool := %s
-- _check_and_fix_integrity
def integrityReschedule : Nat := %d
def integrityFirstDelay : Nat := %d
/-- task skipped when `delta < delay` (true) or `delta <= delay` (false) -/
def integrityTaskCmpLt : Bool := %s
/-- fixed when `interval > delay` (true) or `interval >= delay` (false) -/
def integrityChildCmpGt : Bool := %s
end Mistral.Gen.HeartbeatDefaults
''' % (', '.join(srcs), mm, ci, bs, ft, ('(%d)' % idl), ibs, _b(strict), _b(f_sync), _b(f_run), _b(lim),
       _b(fd == 'first_heartbeat_timeout'), _b(catches_not_found), _b(catches_all_around_complete),
       resched, first, _b(task_lt), _b(child_gt))
    return {'files': {'HeartbeatDefaults': text}, 'sources': srcs}
