"""Tie A for C13: structural facts of the scheduler code -> Lean (fail closed).

* mistral/config.py: `min=`/`default=` of scheduler.captured_job_timeout, pickup_job_after,
  batch_size (the theorems need timeout >= 1).
* mistral/db/v2/sqlalchemy/api.py get_scheduled_jobs_to_start: the comparison operators of the
  WHERE clause (`execute_at < time - pickup`, `captured_at IS NULL OR captured_at <= now - timeout`),
  the ORDER BY column and that LIMIT is batch_size.
* mistral/scheduler/default_scheduler.py `_dispatcher`: the operator of `if delay > 0` where
  `delay = (execute_at - utc_now_sec()).total_seconds()`; `_capture_scheduled_job`: the CAS
  filter is `{'captured_at': scheduled_job.captured_at}` and the value `{'captured_at': now_sec}`.
"""
import ast
import os

OPS = {ast.Lt: 'lt', ast.LtE: 'le', ast.Gt: 'gt', ast.GtE: 'ge', ast.Eq: 'eq'}


def _func(tree, name):
    for node in ast.walk(tree):
        if isinstance(node, ast.FunctionDef) and node.name == name:
            return node
    raise ValueError('function %s not found' % name)


def _opt(tree, name):
    for node in ast.walk(tree):
        if isinstance(node, ast.Call) and getattr(node.func, 'attr', '').endswith('Opt'):
            if node.args and isinstance(node.args[0], ast.Constant) and node.args[0].value == name:
                kw = {k.arg: ast.literal_eval(k.value) for k in node.keywords if k.arg in ('default', 'min')}
                return node.func.attr, kw
    raise ValueError('option %r not found in config.py' % name)


def _whole(x, what):
    if x is None or isinstance(x, bool) or int(x) != x or x < 0:
        raise ValueError('%s is not a whole non-negative number: %r' % (what, x))
    return int(x)


def _src(node):
    return ast.unparse(node)


def generate(repo):
    cfg_src = 'mistral/config.py'
    api_src = 'mistral/db/v2/sqlalchemy/api.py'
    ds_src = 'mistral/scheduler/default_scheduler.py'
    with open(os.path.join(repo, cfg_src)) as f:
        cfg = ast.parse(f.read())
    _, to = _opt(cfg, 'captured_job_timeout')
    _, pk = _opt(cfg, 'pickup_job_after')
    _, bs = _opt(cfg, 'batch_size')
    if 'min' not in to or 'min' not in pk:
        raise ValueError('captured_job_timeout / pickup_job_after have no min= bound')
    if bs.get('default') is not None:
        raise ValueError('batch_size default is not None: %r' % (bs.get('default'),))

    # --- WHERE clause of get_scheduled_jobs_to_start
    with open(os.path.join(repo, api_src)) as f:
        api = ast.parse(f.read())
    fn = _func(api, 'get_scheduled_jobs_to_start')
    names = {}
    for node in ast.walk(fn):
        if isinstance(node, ast.Assign) and len(node.targets) == 1 and isinstance(node.targets[0], ast.Name):
            names[node.targets[0].id] = _src(node.value)
    if names.get('execute_at_col') != 'models.ScheduledJob.execute_at' or \
            names.get('captured_at_col') != 'models.ScheduledJob.captured_at':
        raise ValueError('unexpected column aliases in get_scheduled_jobs_to_start: %r' % names)
    if names.get('min_captured_at') != \
            'utils.utc_now_sec() - datetime.timedelta(seconds=CONF.scheduler.captured_job_timeout)':
        raise ValueError('unexpected min_captured_at: %r' % names.get('min_captured_at'))
    cmps = [n for n in ast.walk(fn) if isinstance(n, ast.Compare)]
    exec_op = cap_op = null_cmp = None
    for c in cmps:
        if len(c.ops) != 1:
            raise ValueError('chained comparison in get_scheduled_jobs_to_start')
        left, op, right = _src(c.left), type(c.ops[0]), _src(c.comparators[0])
        if left == 'execute_at_col' and \
                right == 'time - datetime.timedelta(seconds=CONF.scheduler.pickup_job_after)':
            exec_op = OPS[op]
        elif left == 'captured_at_col' and right == 'min_captured_at':
            cap_op = OPS[op]
        elif left == 'captured_at_col' and right == 'sa.null()' and op is ast.Eq:
            null_cmp = True
        else:
            raise ValueError('comparison not understood: %s' % _src(c))
    if len(cmps) != 3 or not (exec_op and cap_op and null_cmp):
        raise ValueError('WHERE clause of get_scheduled_jobs_to_start has an unexpected shape')
    ors = [n for n in ast.walk(fn) if isinstance(n, ast.Call) and _src(n.func) == 'sa.or_']
    cap_cmps = sorted(_src(c) for c in cmps if _src(c.left) == 'captured_at_col')
    if len(ors) != 1 or sorted(_src(a) for a in ors[0].args) != cap_cmps:
        raise ValueError('the captured_at alternatives are not one sa.or_ of the two comparisons')
    calls = [_src(n) for n in ast.walk(fn) if isinstance(n, ast.Call)]
    if 'query.order_by(execute_at_col)' not in calls or 'query.limit(batch_size)' not in calls:
        raise ValueError('ORDER BY execute_at / LIMIT batch_size not found')
    if sum(1 for c in calls if c.startswith('query.filter(')) != 2:
        raise ValueError('expected exactly two query.filter calls')

    # --- dispatcher comparison and capture CAS
    with open(os.path.join(repo, ds_src)) as f:
        ds = ast.parse(f.read())
    disp = _func(ds, '_dispatcher')
    dn = {}
    for node in ast.walk(disp):
        if isinstance(node, ast.Assign) and len(node.targets) == 1 and isinstance(node.targets[0], ast.Name):
            dn[node.targets[0].id] = _src(node.value)
    if dn.get('execute_at') != 'self._heap[0][0]' or \
            dn.get('delay') != '(execute_at - utils.utc_now_sec()).total_seconds()':
        raise ValueError('unexpected delay computation in _dispatcher: %r' % dn)
    dc = [n for n in ast.walk(disp) if isinstance(n, ast.Compare)]
    if len(dc) != 1 or _src(dc[0].left) != 'delay' or _src(dc[0].comparators[0]) != '0':
        raise ValueError('unexpected comparisons in _dispatcher: %r' % [_src(c) for c in dc])
    wait_op = OPS[type(dc[0].ops[0])]
    cap = _func(ds, '_capture_scheduled_job')
    upd = [n for n in ast.walk(cap) if isinstance(n, ast.Call) and _src(n.func) == 'db_api.update_scheduled_job']
    if len(upd) != 1:
        raise ValueError('expected one update_scheduled_job call in _capture_scheduled_job')
    kw = {k.arg: _src(k.value) for k in upd[0].keywords}
    cas_filter = kw.get('query_filter') == "{'captured_at': scheduled_job.captured_at}"
    cas_value = kw.get('values') == "{'captured_at': now_sec}" and kw.get('id') == 'scheduled_job.id'
    if not cas_value:
        raise ValueError('unexpected values/id in the capture update: %r' % kw)

    text = '''-- GENERATED by translate/sched_defaults.py from %s, %s, %s; do not edit.
import Mistral.Model.Sched
namespace Mistral.Gen.SchedDefaults
open Mistral.Sched
/-- `min=` of scheduler.captured_job_timeout / pickup_job_after / batch_size -/
def capturedJobTimeoutMin : Nat := %d
def pickupJobAfterMin : Nat := %d
def batchSizeMin : Nat := %d
def capturedJobTimeoutDefault : Nat := %d
def pickupJobAfterDefault : Nat := %d
/-- get_scheduled_jobs_to_start: `execute_at <op> time - pickup_job_after` -/
def selectExecuteAtOp : Cmp := .%s
/-- get_scheduled_jobs_to_start: `captured_at IS NULL OR captured_at <op> now - captured_job_timeout` -/
def selectCapturedAtOp : Cmp := .%s
/-- _dispatcher: `if delay <op> 0: wait` with delay = execute_at - now -/
def dispatcherWaitOp : Cmp := .%s
/-- _capture_scheduled_job passes query_filter={'captured_at': scheduled_job.captured_at} -/
def captureIsCas : Bool := %s
end Mistral.Gen.SchedDefaults
''' % (cfg_src, api_src, ds_src,
       _whole(to['min'], 'captured_job_timeout min'), _whole(pk['min'], 'pickup_job_after min'),
       _whole(bs.get('min', 0), 'batch_size min'),
       _whole(to.get('default'), 'captured_job_timeout default'),
       _whole(pk.get('default'), 'pickup_job_after default'),
       exec_op, cap_op, wait_op, 'true' if cas_filter else 'false')
    return {'files': {'SchedDefaults': text}, 'sources': [cfg_src, api_src, ds_src]}
