"""Tie A: mistral/engine/policies.py -> Lean tables (by AST, fail closed).

  * order         : the list returned by get_policy_factories(), as policy kinds
  * hooks         : per policy class, does it define before_task_start / after_task_complete
                    and does that definition call the base hook (= evaluate + type-check)
  * checkedFields : per policy class, the public fields assigned in __init__ that the class's
                    jsonschema `_schema` really constrains (a schema property whose name is not
                    a field of the object constrains nothing)
  * construct_policies_list / build_policies must have the documented shape
    (task-level factory first, task-defaults only when the task-level one yields nothing).
"""
import ast
import os

FACTORY_KIND = {
    'build_pause_before_policy': ('pauseBefore', 'PauseBeforePolicy'),
    'build_wait_before_policy': ('waitBefore', 'WaitBeforePolicy'),
    'build_wait_after_policy': ('waitAfter', 'WaitAfterPolicy'),
    'build_fail_on_policy': ('failOn', 'FailOnPolicy'),
    'build_retry_policy': ('retry', 'RetryPolicy'),
    'build_timeout_policy': ('timeout', 'TimeoutPolicy'),
    'build_concurrency_policy': ('concurrency', 'ConcurrencyPolicy'),
}

EXPECT_CONSTRUCT = (
    "def construct_policies_list(policies_spec, wf_policies):\n"
    "    policies = []\n"
    "    for factory in get_policy_factories():\n"
    "        policy = factory(policies_spec)\n"
    "        if wf_policies and (not policy):\n"
    "            policy = factory(wf_policies)\n"
    "        if policy:\n"
    "            policies.append(policy)\n"
    "    return policies")

EXPECT_BUILD = (
    "def build_policies(policies_spec, wf_spec):\n"
    "    task_defaults = wf_spec.get_task_defaults()\n"
    "    wf_policies = task_defaults.get_policies() if task_defaults else None\n"
    "    if not (policies_spec or wf_policies):\n"
    "        return []\n"
    "    return construct_policies_list(policies_spec, wf_policies)")


def _strip_doc(fn):
    body = [b for b in fn.body if not (isinstance(b, ast.Expr) and isinstance(b.value, ast.Constant)
                                       and isinstance(b.value.value, str))]
    f2 = ast.FunctionDef(name=fn.name, args=fn.args, body=body, decorator_list=[], returns=None,
                         type_comment=None, type_params=[])
    return ast.unparse(ast.fix_missing_locations(f2))


def _calls_super(fn, hook):
    for n in ast.walk(fn):
        if isinstance(n, ast.Call) and isinstance(n.func, ast.Attribute) and n.func.attr == hook:
            v = n.func.value
            if isinstance(v, ast.Call) and isinstance(v.func, ast.Name) and v.func.id == 'super':
                return True
    return False


def generate(repo):
    src = 'mistral/engine/policies.py'
    with open(os.path.join(repo, src)) as f:
        tree = ast.parse(f.read())
    funcs = {n.name: n for n in tree.body if isinstance(n, ast.FunctionDef)}
    classes = {n.name: n for n in tree.body if isinstance(n, ast.ClassDef)}

    gpf = funcs.get('get_policy_factories')
    if gpf is None:
        raise ValueError('get_policy_factories not found')
    body = [b for b in gpf.body if not isinstance(b, ast.Expr)]
    if len(body) != 1 or not isinstance(body[0], ast.Return) or not isinstance(body[0].value, ast.List):
        raise ValueError('get_policy_factories: not a single `return [..]`: %s' % ast.unparse(gpf))
    order = []
    for e in body[0].value.elts:
        if not isinstance(e, ast.Name) or e.id not in FACTORY_KIND:
            raise ValueError('get_policy_factories: unknown factory %s' % ast.unparse(e))
        order.append(e.id)
    if len(set(order)) != len(order):
        raise ValueError('get_policy_factories: a factory is listed twice: %s' % order)

    for name, expect in (('construct_policies_list', EXPECT_CONSTRUCT), ('build_policies', EXPECT_BUILD)):
        if name not in funcs:
            raise ValueError('%s not found' % name)
        got = _strip_doc(funcs[name])
        if got != expect:
            raise ValueError('%s changed shape:\n%s' % (name, got))

    hooks = []
    checked = []
    for fac in order:
        kind, cls_name = FACTORY_KIND[fac]
        if cls_name not in classes:
            raise ValueError('class %s not found' % cls_name)
        # the factory must build exactly that class
        built = {n.func.id for n in ast.walk(funcs[fac]) if isinstance(n, ast.Call) and isinstance(n.func, ast.Name)
                 and n.func.id.endswith('Policy')}
        if built != {cls_name}:
            raise ValueError('%s builds %s, expected %s' % (fac, sorted(built), cls_name))
        cls = classes[cls_name]
        bases = [ast.unparse(b) for b in cls.bases]
        if bases != ['base.TaskPolicy']:
            raise ValueError('%s: unexpected bases %s' % (cls_name, bases))
        meths = {n.name: n for n in cls.body if isinstance(n, ast.FunctionDef)}
        row = []
        for hook in ('before_task_start', 'after_task_complete'):
            if hook in meths:
                row.append('.own %s' % ('true' if _calls_super(meths[hook], hook) else 'false'))
            else:
                row.append('.inherited')
        hooks.append((kind, row))
        # fields assigned in __init__ that do not start with '_'
        init = meths.get('__init__')
        if init is None:
            raise ValueError('%s has no __init__' % cls_name)
        fields = []
        for n in ast.walk(init):
            if isinstance(n, ast.Assign):
                for t in n.targets:
                    if isinstance(t, ast.Attribute) and isinstance(t.value, ast.Name) and t.value.id == 'self':
                        if not t.attr.startswith('_'):
                            fields.append(t.attr)
        schema = None
        for n in cls.body:
            if isinstance(n, ast.Assign) and len(n.targets) == 1 and isinstance(n.targets[0], ast.Name) \
                    and n.targets[0].id == '_schema':
                schema = ast.literal_eval(n.value)
        if schema is None or set(schema.keys()) != {'properties'}:
            raise ValueError('%s._schema: unexpected shape %r' % (cls_name, schema))
        row2 = []
        for pname, ps in schema['properties'].items():
            if pname not in fields:
                continue
            if ps == {'type': 'integer', 'minimum': 0}:
                row2.append('("%s", .natural)' % pname)
            elif ps == {'type': 'boolean'}:
                row2.append('("%s", .boolean)' % pname)
            else:
                raise ValueError('%s._schema[%s]: unknown constraint %r' % (cls_name, pname, ps))
        checked.append((kind, sorted(row2)))

    lines = ['-- GENERATED by translate/policy_order.py from %s; do not edit.' % src,
             'import Mistral.Model.PolicyBase', 'namespace Mistral.Gen.PolicyOrder', 'open Mistral.Policy',
             'def order : List PolicyKind := [' + ', '.join('.' + FACTORY_KIND[f][0] for f in order) + ']',
             'def hooks : List (PolicyKind × Hook × Hook) := [',
             ',\n'.join('  (.%s, %s, %s)' % (k, r[0], r[1]) for k, r in hooks), ']',
             'def checkedFields : List (PolicyKind × List (String × FieldType)) := [',
             ',\n'.join('  (.%s, [%s])' % (k, ', '.join(r)) for k, r in checked), ']',
             'end Mistral.Gen.PolicyOrder', '']
    return {'files': {'PolicyOrder': '\n'.join(lines)}, 'sources': [src]}
