"""Tie A for the schema level of C14: the JSON schemas of the definition language, as the code builds them.

On every run a fresh python process imports the spec classes of `mistral/lang/v2/*.py` from the working
tree (VERIF_REPO aware) and calls the REAL `get_schema()` of every concrete spec class (the classes
`instantiate_spec` can instantiate; the merge of `_schema`, `_meta_schema` and `_definitions` is the code's).
The merged dicts are translated, keyword by keyword and in dict order, into terms of
`Mistral.Schema.Schema` (lean/Mistral/Model/Schema.lean):

  Gen/LangSchemas.lean   one `def` per spec class, per named fragment (module-level dict constants of
                         mistral/lang/types.py and mistral/lang/v2/*.py that occur in a class schema), per
                         anonymous `properties` value (`P_<property>`), per regular expression (`re_<name>`);
                         `classTable`, `fragTable`, `patTable` for the driver
  Gen/ReTables.lean      the code points python's `re` accepts for `\\w` and `\\s` (read from the running python)

Fail closed: an unknown keyword, a keyword value of an unexpected shape, a regular expression that is not
in the list of known patterns or uses a construct outside the modelled subset, `$ref` / `$schema`, a
validator class other than the one the Lean interpreter was written after (`validator_for(schema)`), an
`additionalProperties` with a sub-schema below `not` / `anyOf` / `oneOf` (set iteration order would matter)
all raise.
"""
import json
import os
import subprocess
import sys

SOURCES = ['mistral/lang/base.py', 'mistral/lang/types.py', 'mistral/lang/v2/base.py', 'mistral/lang/v2/workflows.py',
           'mistral/lang/v2/tasks.py', 'mistral/lang/v2/task_defaults.py', 'mistral/lang/v2/policies.py',
           'mistral/lang/v2/retry_policy.py', 'mistral/lang/v2/on_clause.py', 'mistral/lang/v2/publish.py',
           'mistral/lang/v2/actions.py', 'mistral/lang/v2/workbook.py', 'mistral/expressions/yaql_expression.py',
           'mistral/expressions/jinja_expression.py']

# the validator the Lean interpreter models (jsonschema.validators.validator_for(schema) for a schema
# without "$schema"); its keyword functions are jsonschema/_keywords.py
EXPECTED_VALIDATORS = ('Draft202012Validator', 'Draft201909Validator', 'Draft7Validator', 'Draft6Validator')

DUMP = r'''
import importlib, json, pkgutil, sys, warnings
warnings.filterwarnings('ignore')
repo = sys.argv[1]
sys.path.insert(0, repo)
import mistral
import os
if os.path.realpath(os.path.dirname(os.path.dirname(mistral.__file__))) != os.path.realpath(repo):
    raise SystemExit('mistral imported from %s, not from %s' % (mistral.__file__, repo))
from mistral.lang import base, types
import mistral.lang.v2 as v2
from jsonschema import validators
mods = {}
for m in pkgutil.iter_modules(v2.__path__):
    mods[m.name] = importlib.import_module('mistral.lang.v2.' + m.name)
out = {'classes': {}, 'fragments': {}, 'validators': {}, 'abstract': []}
for name in sorted(mods):
    mod = mods[name]
    for cname, cls in sorted(vars(mod).items()):
        if not (isinstance(cls, type) and issubclass(cls, base.BaseSpec) and cls.__module__ == mod.__name__):
            continue
        if name == 'base':
            continue
        if '_polymorphic_key' in vars(cls) and not hasattr(cls, '_polymorphic_value'):
            # root of a polymorphic hierarchy: instantiate_spec never instantiates it
            out['abstract'].append(cname)
            continue
        if cname in out['classes']:
            raise SystemExit('two spec classes named %s' % cname)
        # an inherited _full_schema would make get_schema() return the schema of an ancestor
        if vars(cls).get('_full_schema') is None and cls._full_schema is not None:
            raise SystemExit('%s would inherit the cached schema of an ancestor' % cname)
        schema = cls.get_schema()
        vcls = validators.validator_for(schema)
        vcls.check_schema(schema)
        out['classes'][cname] = schema
        out['validators'][cname] = vcls.__name__
def consts(mod, prefix):
    for k, v in sorted(vars(mod).items()):
        if k.isupper() and isinstance(v, dict):
            if k in out['fragments'] and json.dumps(out['fragments'][k]) != json.dumps(v):
                raise SystemExit('two different schema constants named %s' % k)
            out['fragments'][k] = v
consts(types, 'types')
for name in sorted(mods):
    consts(mods[name], name)
json.dump(out, sys.stdout)
'''

# pattern text -> Lean name.  A pattern that is not listed is refused.
PAT_NAMES = {
    r'^\w+$': 'word',
    r'^\S+$': 'nonSpace',
    r'^\w+ \w+=(.*)$': 'taskDictParam',
    r'^\w+\(\w+=(.*)\)$': 'taskFuncParam',
    r'^version$': 'versionKey',
    r'^(?!version$)[\w-]+$': 'nonVersionWord',
    r'^<%.*?%>\s*$': 'yaqlExpr',
    r'^({{(.*?)}})\s*$': 'jinjaExpr',
}

KNOWN_KEYWORDS = {'type', 'enum', 'minimum', 'minLength', 'minItems', 'minProperties', 'maxProperties', 'uniqueItems',
                  'pattern', 'required', 'properties', 'patternProperties', 'additionalProperties', 'items', 'allOf',
                  'anyOf', 'oneOf', 'not', 'description', 'definitions'}
TYPES = {'null', 'boolean', 'integer', 'number', 'string', 'array', 'object'}


class Refuse(ValueError):
    pass


def dump_schemas(repo):
    env = dict(os.environ)
    env.pop('PYTHONPATH', None)
    r = subprocess.run([sys.executable, '-c', DUMP, repo], stdout=subprocess.PIPE, stderr=subprocess.PIPE, text=True,
                       env=env, timeout=300)
    if r.returncode != 0:
        raise Refuse('cannot read the schemas from %s: %s' % (repo, (r.stderr or r.stdout)[-800:]))
    return json.loads(r.stdout)


# ------------------------------------------------------------------ Lean literals
def lstr(s):
    out = ['"']
    for ch in s:
        o = ord(ch)
        if ch == '"':
            out.append('\\"')
        elif ch == '\\':
            out.append('\\\\')
        elif ch == '\n':
            out.append('\\n')
        elif ch == '\t':
            out.append('\\t')
        elif ch == '\r':
            out.append('\\r')
        elif o < 32 or o == 127 or o > 126:
            if 0xD800 <= o <= 0xDFFF:
                raise Refuse('surrogate in a schema string')
            out.append('\\u{%x}' % o)
        else:
            out.append(ch)
    out.append('"')
    return ''.join(out)


def lchar(ch):
    o = ord(ch)
    if ch == "'":
        return "'\\''"
    if ch == '\\':
        return "'\\\\'"
    if ch == '\n':
        return "'\\n'"
    if 32 <= o < 127:
        return "'%s'" % ch
    if 0xD800 <= o <= 0xDFFF:
        raise Refuse('surrogate in a pattern')
    return "(Char.ofNat %d)" % o


def lint(i):
    return '(%d)' % i if i < 0 else '%d' % i


def numv(x):
    if isinstance(x, bool) or not isinstance(x, (int, float)):
        raise Refuse('number expected, got %r' % (x,))
    if isinstance(x, int):
        return '(.q %s 1)' % lint(x)
    if x != x:
        return '.nan'
    if x in (float('inf'), float('-inf')):
        return '.inf' if x > 0 else '.ninf'
    n, d = x.as_integer_ratio()
    return '(.q %s %d)' % (lint(n), d)


def jval(x):
    """a JSON constant of a schema (`enum` members) as a `JVal` term."""
    if x is None:
        return '.null'
    if isinstance(x, bool):
        return '(.bool %s)' % ('true' if x else 'false')
    if isinstance(x, int):
        return '(.int %s)' % lint(x)
    if isinstance(x, float):
        if x != x:
            return '(.flt .nan)'
        if x in (float('inf'), float('-inf')):
            return '(.flt .inf)' if x > 0 else '(.flt .ninf)'
        n, d = x.as_integer_ratio()
        return '(.flt (.fin %s %d))' % (lint(n), d)
    if isinstance(x, str):
        return '(.str %s)' % lstr(x)
    if isinstance(x, list):
        return '(.arr [%s])' % ', '.join(jval(e) for e in x)
    if isinstance(x, dict):
        for k in x:
            if not isinstance(k, str):
                raise Refuse('non-string key in a schema constant')
        return '(.obj [%s])' % ', '.join('(.s %s, %s)' % (lstr(k), jval(v)) for k, v in x.items())
    raise Refuse('constant not understood: %r' % (x,))


# ------------------------------------------------------------------ regular expressions
def regex_atoms(pattern):
    """python pattern text -> list of Lean `Atom` terms, through python's own regex parser."""
    import re
    try:
        from re import _parser as sre_parse, _constants as C
    except ImportError:                      # python < 3.11
        import sre_parse
        import sre_constants as C
    p = sre_parse.parse(pattern)
    flags = p.state.flags & ~re.UNICODE.value
    if flags:
        raise Refuse('regular expression flags %r in %r' % (flags, pattern))

    def cls_of(items):
        neg = False
        out = []
        for op, av in items:
            if op is C.NEGATE:
                neg = True
            elif op is C.LITERAL:
                out.append('.chr %s' % lchar(chr(av)))
            elif op is C.RANGE:
                out.append('.range %s %s' % (lchar(chr(av[0])), lchar(chr(av[1]))))
            elif op is C.CATEGORY and av is C.CATEGORY_WORD:
                out.append('.word')
            elif op is C.CATEGORY and av is C.CATEGORY_SPACE:
                out.append('.space')
            elif op is C.CATEGORY and av is C.CATEGORY_NOT_SPACE and len(items) == 1:
                return '⟨true, [.space]⟩'
            else:
                raise Refuse('character class item %r %r in %r' % (op, av, pattern))
        return '⟨%s, [%s]⟩' % ('true' if neg else 'false', ', '.join(out))

    def single_cls(sub):
        """a one-item sub-pattern consuming exactly one character, as a Cls."""
        if len(sub) != 1:
            raise Refuse('repeat of a sequence in %r' % pattern)
        op, av = sub[0]
        if op is C.ANY:
            return "⟨true, [.chr '\\n']⟩"
        if op is C.IN:
            return cls_of(av)
        if op is C.LITERAL:
            return '⟨false, [.chr %s]⟩' % lchar(chr(av))
        raise Refuse('repeat of %r in %r' % (op, pattern))

    def seq(items, top):
        out = []
        for op, av in items:
            if op is C.AT and av is C.AT_BEGINNING:
                out.append('.bos')
            elif op is C.AT and av is C.AT_END:
                out.append('.eos')
            elif op is C.LITERAL:
                out.append('.lit %s' % lchar(chr(av)))
            elif op is C.ANY:
                out.append(".cls ⟨true, [.chr '\\n']⟩")
            elif op is C.IN:
                out.append('.cls %s' % cls_of(av))
            elif op in (C.MAX_REPEAT, C.MIN_REPEAT):
                lo, hi, sub = av
                if hi is not C.MAXREPEAT or lo not in (0, 1):
                    raise Refuse('repeat {%s,%s} in %r' % (lo, hi, pattern))
                out.append('.%s %s' % ('star' if lo == 0 else 'plus', single_cls(list(sub))))
            elif op is C.SUBPATTERN:
                group, add_flags, del_flags, sub = av
                if add_flags or del_flags:
                    raise Refuse('inline flags in %r' % pattern)
                out += seq(list(sub), False)          # capture groups are transparent for matching
            elif op is C.ASSERT_NOT:
                direction, sub = av
                sub = list(sub)
                if direction != 1:
                    raise Refuse('look-behind in %r' % pattern)
                e = False
                if sub and sub[-1][0] is C.AT and sub[-1][1] is C.AT_END:
                    e = True
                    sub = sub[:-1]
                if not all(o is C.LITERAL for o, _ in sub):
                    raise Refuse('look-ahead of a non-literal in %r' % pattern)
                out.append('.nlaLit %s %s' % (lstr(''.join(chr(a) for _, a in sub)), 'true' if e else 'false'))
            else:
                raise Refuse('regular expression construct %r in %r' % (op, pattern))
        return out
    return seq(list(p), True)


# ------------------------------------------------------------------ schemas
class Emitter(object):
    def __init__(self, data):
        self.data = data
        self.named = {}            # ordered-json text -> Lean name (fragments and classes)
        self.order = []            # (name, doc, term) in emission order
        self.done = {}             # name -> True
        self.pending = {}          # name -> schema dict
        self.patterns = {}         # pattern text -> Lean name
        self.anon = {}             # ordered-json text -> P_ name
        self.stack = []

    @staticmethod
    def key(s):
        return json.dumps(s)

    def pat(self, pattern):
        if pattern not in PAT_NAMES:
            raise Refuse('unknown regular expression %r (not in the list of modelled patterns)' % pattern)
        if pattern not in self.patterns:
            self.patterns[pattern] = ('re_' + PAT_NAMES[pattern], regex_atoms(pattern))
        return self.patterns[pattern][0]

    def ref(self, sub, ctx_no_ap_schema):
        """Lean term for a sub-schema: a reference to a named def when there is one."""
        k = self.key(sub)
        if k in self.named and self.named[k] not in self.stack:
            name = self.named[k]
            self.ensure(name)
            if ctx_no_ap_schema and self.has_ap_schema(sub):
                raise Refuse('additionalProperties with a schema below not/anyOf/oneOf (set iteration order matters)')
            return name
        return self.term(sub, ctx_no_ap_schema)

    def has_ap_schema(self, s):
        if isinstance(s, dict):
            if isinstance(s.get('additionalProperties'), dict):
                return True
            for k, v in s.items():
                if k in ('properties', 'patternProperties', 'definitions') and isinstance(v, dict):
                    if any(self.has_ap_schema(x) for x in v.values()):
                        return True
                elif k in ('oneOf', 'anyOf', 'allOf') and isinstance(v, list):
                    if any(self.has_ap_schema(x) for x in v):
                        return True
                elif k in ('items', 'not', 'additionalProperties') and isinstance(v, dict):
                    if self.has_ap_schema(v):
                        return True
        return False

    def ensure(self, name):
        if name in self.done:
            return
        schema = self.pending[name]
        self.stack.append(name)
        term = self.term(schema, False)
        self.stack.pop()
        self.done[name] = True
        self.order.append((name, term))

    def term(self, s, no_ap):
        if s is True:
            return '(.mk [])'
        if not isinstance(s, dict):
            raise Refuse('schema is not a dict: %r' % (s,))
        for bad in ('$ref', '$schema', '$dynamicRef', '$id'):
            if bad in s:
                raise Refuse('%s in a schema' % bad)
        kws = []
        for k, v in s.items():
            if k not in KNOWN_KEYWORDS:
                raise Refuse('unknown schema keyword %r' % k)
            if k == 'type':
                ts = [v] if isinstance(v, str) else v
                if not isinstance(ts, list) or not ts or any(t not in TYPES for t in ts):
                    raise Refuse('type %r' % (v,))
                kws.append('.type [%s]' % ', '.join('.' + t for t in ts))
            elif k == 'enum':
                if not isinstance(v, list):
                    raise Refuse('enum %r' % (v,))
                kws.append('.enum [%s]' % ', '.join(jval(e) for e in v))
            elif k == 'minimum':
                kws.append('.minimum %s' % numv(v))
            elif k in ('minLength', 'minItems', 'minProperties', 'maxProperties'):
                if isinstance(v, bool) or not isinstance(v, int) or v < 0:
                    raise Refuse('%s %r' % (k, v))
                kws.append('.%s %d' % (k, v))
            elif k == 'uniqueItems':
                if not isinstance(v, bool):
                    raise Refuse('uniqueItems %r' % (v,))
                kws.append('.uniqueItems %s' % ('true' if v else 'false'))
            elif k == 'pattern':
                if not isinstance(v, str):
                    raise Refuse('pattern %r' % (v,))
                kws.append('.pattern %s' % self.pat(v))
            elif k == 'required':
                if not isinstance(v, list) or any(not isinstance(x, str) for x in v):
                    raise Refuse('required %r' % (v,))
                # get_schema() builds the list through set(): its order differs from process to process
                # and only orders the "required" errors among themselves
                kws.append('.required [%s]' % ', '.join(lstr(x) for x in sorted(v)))
            elif k == 'properties':
                if not isinstance(v, dict) or any(not isinstance(x, str) for x in v):
                    raise Refuse('properties %r' % (v,))
                kws.append('.properties [%s]' % ', '.join(
                    '(%s, %s)' % (lstr(pk), self.prop_ref(pk, pv, no_ap)) for pk, pv in v.items()))
            elif k == 'patternProperties':
                if not isinstance(v, dict):
                    raise Refuse('patternProperties %r' % (v,))
                kws.append('.patternProperties [%s]' % ', '.join(
                    '(%s, %s)' % (self.pat(pk), self.ref(pv, no_ap)) for pk, pv in v.items()))
            elif k == 'additionalProperties':
                names = '[%s]' % ', '.join(lstr(x) for x in s.get('properties', {}))
                pats = '[%s]' % ', '.join(self.pat(x) for x in s.get('patternProperties', {}))
                if v is False:
                    kws.append('.additionalPropertiesFalse %s %s' % (names, pats))
                elif v is True or isinstance(v, dict):
                    if no_ap:
                        raise Refuse('additionalProperties with a schema below not/anyOf/oneOf '
                                     '(set iteration order matters)')
                    kws.append('.additionalProperties %s %s %s' % (names, pats, self.ref(v, no_ap)))
                else:
                    raise Refuse('additionalProperties %r' % (v,))
            elif k == 'items':
                if not isinstance(v, dict):
                    raise Refuse('items %r (only a single schema is modelled)' % (v,))
                kws.append('.items %s' % self.ref(v, no_ap))
            elif k in ('allOf', 'anyOf', 'oneOf'):
                if not isinstance(v, list) or not v:
                    raise Refuse('%s %r' % (k, v))
                kws.append('.%s [%s]' % (k, ', '.join(self.ref(x, no_ap or k != 'allOf') for x in v)))
            elif k == 'not':
                kws.append('.not %s' % self.ref(v, True))
            elif k == 'description':
                if not isinstance(v, str):
                    raise Refuse('description %r' % (v,))
                kws.append('.annotation "description"')
            elif k == 'definitions':
                if v != {}:
                    raise Refuse('non-empty definitions (no $ref is modelled)')
                kws.append('.annotation "definitions"')
        return '(.mk [%s])' % ', '.join(kws)

    def prop_ref(self, pk, pv, no_ap):
        k = self.key(pv)
        if k in self.named or not isinstance(pv, dict):
            return self.ref(pv, no_ap)
        if k in self.anon:
            name = self.anon[k]
            self.named[k] = name
            self.pending[name] = pv
            return self.ref(pv, no_ap)
        return self.term(pv, no_ap)


def ident(s):
    return ''.join(ch if ch.isalnum() else '_' for ch in s)


def collect_anon(classes, named_keys):
    """anonymous `properties` values -> P_<prop> (qualified by the class when the same property name has
    different anonymous schemas)."""
    occ = {}        # prop -> {key: [class names]}

    def walk(s, cls):
        if not isinstance(s, dict):
            return
        for k, v in s.items():
            if k == 'properties' and isinstance(v, dict):
                for pk, pv in v.items():
                    if isinstance(pv, dict):
                        kk = json.dumps(pv)
                        if kk not in named_keys:
                            occ.setdefault(pk, {}).setdefault(kk, [])
                            if cls not in occ[pk][kk]:
                                occ[pk][kk].append(cls)
                        walk(pv, cls)
            elif k in ('patternProperties',) and isinstance(v, dict):
                for pv in v.values():
                    walk(pv, cls)
            elif k in ('oneOf', 'anyOf', 'allOf') and isinstance(v, list):
                for x in v:
                    walk(x, cls)
            elif k in ('items', 'not', 'additionalProperties') and isinstance(v, dict):
                walk(v, cls)
    for cname in sorted(classes):
        walk(classes[cname], cname)
    # content -> the property names that carry it / the classes it occurs in
    by_key = {}
    for pk, by in occ.items():
        for kk, clss in by.items():
            e = by_key.setdefault(kk, {'props': set(), 'classes': set()})
            e['props'].add(pk)
            e['classes'] |= set(clss)
    anon = {}
    taken = {}
    for kk in sorted(by_key, key=lambda k: (sorted(by_key[k]['props']), k)):
        e = by_key[kk]
        name = 'P_' + '__'.join(ident(p) for p in sorted(e['props']))
        if any(len(occ[p]) > 1 for p in e['props']):
            # the same property name carries different anonymous schemas: qualify by the (first) class
            name = 'P_%s_%s' % (ident(sorted(e['classes'])[0]), '__'.join(ident(p) for p in sorted(e['props'])))
        if name in taken:
            raise Refuse('generated name %s is ambiguous' % name)
        taken[name] = kk
        anon[kk] = name
    return anon


def ranges(pred):
    out = []
    start = None
    for c in range(0x110000):
        ok = not (0xD800 <= c <= 0xDFFF) and pred(chr(c))
        if ok and start is None:
            start = c
        elif not ok and start is not None:
            out.append((start, c - 1))
            start = None
    if start is not None:
        out.append((start, 0x10FFFF))
    return out


def re_tables():
    import re
    w = re.compile(r'\w')
    s = re.compile(r'\s')
    wr = [r for r in ranges(lambda ch: w.match(ch) is not None)]
    sr = ranges(lambda ch: s.match(ch) is not None)
    # the ASCII part of \w is hard-wired in the model (isAlphanum or '_'): check it
    asc = [c for c in range(128) if w.match(chr(c))]
    want = [c for c in range(128) if chr(c).isalnum() or chr(c) == '_']
    if asc != want:
        raise Refuse('ASCII part of \\w is not [A-Za-z0-9_]')
    lines = ['-- GENERATED by translate/lang_schemas.py from the running python (`re`, str patterns); do not edit.',
             'namespace Mistral.Gen.ReTables',
             '/-- inclusive code point ranges matched by `\\w` (surrogates excluded) -/',
             'def wordRanges : List (Nat × Nat) := [']
    lines.append(',\n'.join('  ' + ', '.join('(%d, %d)' % r for r in wr[i:i + 8]) for i in range(0, len(wr), 8)))
    lines.append(']')
    lines.append('/-- inclusive code point ranges matched by `\\s` -/')
    lines.append('def spaceRanges : List (Nat × Nat) := [%s]' % ', '.join('(%d, %d)' % r for r in sr))
    lines.append('end Mistral.Gen.ReTables')
    return '\n'.join(lines) + '\n'


def version_facts(repo):
    """(BaseSpecList.__init__ skips every item named `version`, WorkflowSpec.validate_schema rejects a task named
    `version`), read from the source (AST)."""
    import ast
    skips = None
    with open(os.path.join(repo, 'mistral/lang/base.py')) as f:
        tree = ast.parse(f.read())
    for node in tree.body:
        if isinstance(node, ast.ClassDef) and node.name == 'BaseSpecList':
            for fn in node.body:
                if isinstance(fn, ast.FunctionDef) and fn.name == '__init__':
                    loops = [n for n in ast.walk(fn) if isinstance(n, ast.For)]
                    if len(loops) != 1:
                        raise Refuse('BaseSpecList.__init__: expected one loop')
                    body = loops[0].body
                    if len(body) != 1 or not isinstance(body[0], ast.If) or body[0].orelse:
                        raise Refuse('BaseSpecList.__init__: loop body is not a single `if`')
                    cond = ast.unparse(body[0].test)
                    if cond != "k != 'version'":
                        raise Refuse('BaseSpecList.__init__: condition %r not understood' % cond)
                    skips = True
    if skips is None:
        raise Refuse('BaseSpecList.__init__ not found')
    rejects = False
    with open(os.path.join(repo, 'mistral/lang/v2/workflows.py')) as f:
        tree = ast.parse(f.read())
    found = False
    for node in tree.body:
        if isinstance(node, ast.ClassDef) and node.name == 'WorkflowSpec':
            for fn in node.body:
                if isinstance(fn, ast.FunctionDef) and fn.name == 'validate_schema':
                    found = True
                    for st in fn.body:
                        if isinstance(st, ast.If) and 'version' in ast.unparse(st.test):
                            if ast.unparse(st.test) != "'version' in self._data.get('tasks')" or \
                                    len(st.body) != 1 or not isinstance(st.body[0], ast.Raise) or st.orelse or \
                                    'InvalidModelException' not in ast.unparse(st.body[0]):
                                raise Refuse('WorkflowSpec.validate_schema: version check %r not understood' %
                                             ast.unparse(st))
                            rejects = True
    if not found:
        raise Refuse('WorkflowSpec.validate_schema not found')
    return skips, rejects


def generate(repo):
    data = dump_schemas(repo)
    skips, rejects = version_facts(repo)
    for cname, v in data['validators'].items():
        if v not in EXPECTED_VALIDATORS:
            raise Refuse('jsonschema picks %s for %s; the Lean interpreter models the draft-6+ validators' % (v, cname))
    classes = data['classes']
    if not classes:
        raise Refuse('no spec class found')
    em = Emitter(data)
    # named schemas: fragments first (so that a class schema that equals a fragment is still its own def)
    used = set()

    def subschemas(s, acc):
        if isinstance(s, dict):
            acc.add(json.dumps(s))
            for k, v in s.items():
                if k in ('properties', 'patternProperties') and isinstance(v, dict):
                    for x in v.values():
                        subschemas(x, acc)
                elif k in ('oneOf', 'anyOf', 'allOf') and isinstance(v, list):
                    for x in v:
                        subschemas(x, acc)
                elif k in ('items', 'not', 'additionalProperties') and isinstance(v, dict):
                    subschemas(v, acc)
    for cname in classes:
        subschemas(classes[cname], used)
    names = {}
    for fname in sorted(data['fragments']):
        k = json.dumps(data['fragments'][fname])
        if k in used and k not in names:
            names[k] = fname
    class_names = set(classes)
    for fname in names.values():
        if fname in class_names:
            raise Refuse('a fragment and a class are both named %s' % fname)
    for k, fname in names.items():
        em.named[k] = fname
        em.pending[fname] = json.loads(k)
    # a class schema nested in another one (RetrySpec, OnClauseSpec, PublishSpec)
    for cname in sorted(classes):
        k = json.dumps(classes[cname])
        em.pending[cname] = classes[cname]
        if k not in em.named:
            em.named[k] = cname
    em.anon = collect_anon(classes, set(em.named))
    for cname in sorted(classes):
        em.ensure(cname)
    pat_defs = sorted(em.patterns.items(), key=lambda kv: kv[1][0])
    lines = ['-- GENERATED by translate/lang_schemas.py from the real get_schema() of the spec classes of',
             '-- mistral/lang/v2/*.py (imported from the working tree in a fresh process); do not edit.',
             'import Mistral.Model.Schema',
             'open Mistral.Schema',
             'namespace Mistral.Gen.LangSchemas',
             '/-- the validator class `jsonschema.validate` picks for these schemas -/',
             'def validatorClass : String := %s' % lstr(sorted(set(data['validators'].values()))[0]),
             '/-- BaseSpecList.__init__ (mistral/lang/base.py) skips every item named `version` -/',
             'def specListSkipsVersion : Bool := %s' % ('true' if skips else 'false'),
             '/-- WorkflowSpec.validate_schema rejects a task named `version` (repo patch 27) -/',
             'def taskNamedVersionRejected : Bool := %s' % ('true' if rejects else 'false'),
             '/-- roots of polymorphic hierarchies (never instantiated, no schema of their own in use) -/',
             'def abstractClasses : List String := [%s]' % ', '.join(lstr(x) for x in sorted(data['abstract'])),
             '']
    for ptext, (pname, atoms) in pat_defs:
        lines.append('/-- python: %s -/' % json.dumps(ptext))
        lines.append('def %s : Re := [%s]' % (pname, ', '.join(atoms)))
    lines.append('')
    for name, term in em.order:
        lines.append('def %s : Schema :=\n  %s' % (name, wrap(term)))
    lines.append('')
    lines.append('/-- concrete spec class -> schema (`cls.get_schema()`) -/')
    lines.append('def classTable : List (String × Schema) := [%s]' % ', '.join(
        '(%s, %s)' % (lstr(c), c) for c in sorted(classes)))
    frs = [n for n, _ in em.order if n not in class_names]
    lines.append('/-- named fragments and anonymous property schemas occurring in the class schemas -/')
    lines.append('def fragTable : List (String × Schema) := [%s]' % ', '.join('(%s, %s)' % (lstr(c), c) for c in frs))
    lines.append('/-- (name, python pattern text, model) of every regular expression in the schemas -/')
    lines.append('def patTable : List (String × String × Re) := [%s]' % ', '.join(
        '(%s, %s, %s)' % (lstr(pname[3:]), lstr(ptext), pname) for ptext, (pname, _) in pat_defs))
    lines.append('end Mistral.Gen.LangSchemas')
    return {'files': {'ReTables': re_tables(), 'LangSchemas': '\n'.join(lines) + '\n'}, 'sources': SOURCES}


def wrap(term, width=118):
    """break a long term after commas at bracket depth <= 2 (readability of the generated file only)."""
    out = []
    line = ''
    depth = 0
    i = 0
    instr = False
    while i < len(term):
        ch = term[i]
        line += ch
        if ch == '"' and (i == 0 or term[i - 1] != '\\'):
            instr = not instr
        if not instr:
            if ch in '([':
                depth += 1
            elif ch in ')]':
                depth -= 1
            elif ch == ',' and len(line) > width - 40 and depth <= 4:
                out.append(line)
                line = '   '
        i += 1
    out.append(line)
    return '\n'.join(out)


if __name__ == '__main__':
    res = generate(sys.argv[1] if len(sys.argv) > 1 else '/repo')
    for k, v in res['files'].items():
        print('-----', k, len(v))
        if k != 'ReTables':
            print(v)
