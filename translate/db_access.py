"""Tie A for C15: the data-access layer as a table.

Reads (AST only, nothing is imported from the repository):

* mistral/db/v2/sqlalchemy/api.py   every module-level function is *abstractly interpreted*
  (local helper calls are inlined) into a summary: which model it touches, through which
  kind of query each row is looked up (`_secure_query`, `model_query`, or the
  `model_query if insecure else _secure_query` choice with the admin override
  `insecure = ctx().is_admin or insecure`), by which key, what it mutates and whether
  `check_db_obj_access` is executed unconditionally before the first mutation.
* `_secure_query`, `_get_accepted_resources`, RESOURCE_MAPPING, `check_db_obj_access`,
  `_set_project_id`/`register_secure_model_hooks`, `security.get_project_id`: recognised
  structurally (clauses are parsed; the rest of the function must have the reviewed
  skeleton) and emitted as flags.
* models.py: the non-abstract subclasses of MistralSecureModelBase.
* mistral/api, mistral/services, mistral/expressions/std_functions.py, mistral/utils/rest_utils.py:
  every use of an attribute of the db-api module (user reachability) and every call that
  passes `insecure=`.
* hand-modelled code (resource member functions, MembersController.post, rest_utils.get_all):
  a hash of the AST, so that a change of the code breaks the tie visibly.

Fail closed: a function the interpreter cannot classify becomes an entry with
`status := .unknown` (named in the table, a theorem has to exclude it by name); a
primitive whose shape is not the reviewed one makes the translator raise.
"""
import ast
import copy
import hashlib
import os

API = 'mistral/db/v2/sqlalchemy/api.py'
MODELS = 'mistral/db/v2/sqlalchemy/models.py'
MODEL_BASE = 'mistral/db/sqlalchemy/model_base.py'
DBUTILS = 'mistral/db/utils.py'
SECURITY = 'mistral/services/security.py'
MEMBER_CTL = 'mistral/api/controllers/v2/member.py'
REST_UTILS = 'mistral/utils/rest_utils.py'
STD_FUNCS = 'mistral/expressions/std_functions.py'
SCAN_DIRS = ['mistral/api', 'mistral/services']
SCAN_FILES = [STD_FUNCS, REST_UTILS]
DB_API_MODULE = 'mistral.db.v2.api'
# functions whose only caller outside SYSTEM_FILES is start-up code (checked by
# `_check_system_only`): not reachable on behalf of a tenant
SYSTEM_ONLY = {
    'delete_workflow_definitions': ('mistral/services/workflows.py', '_clear_system_workflow_db'),
    'get_next_cron_triggers': ('mistral/services/triggers.py', 'get_next_cron_triggers'),
}
# code that runs in system threads / at start-up / behind the admin-only maintenance endpoint,
# not on behalf of a tenant's request
SYSTEM_FILES = ['mistral/services/periodic.py', 'mistral/services/expiration_policy.py',
                'mistral/services/action_heartbeat_checker.py', 'mistral/services/action_heartbeat_sender.py',
                'mistral/services/legacy_scheduler.py', 'mistral/services/maintenance.py']


class Refuse(Exception):
    """translator meets something it does not understand (whole translation refused)"""


class Unknown(Exception):
    """one function cannot be classified (entry becomes `unknown`)"""


def _parse(repo, rel):
    with open(os.path.join(repo, rel)) as f:
        return ast.parse(f.read())


def _strip_doc(node):
    node = copy.deepcopy(node)
    for n in ast.walk(node):
        if isinstance(n, (ast.FunctionDef, ast.ClassDef, ast.Module)) and n.body and \
                isinstance(n.body[0], ast.Expr) and isinstance(n.body[0].value, ast.Constant) \
                and isinstance(n.body[0].value.value, str):
            n.body = n.body[1:] or [ast.Pass()]
    return node


def shape_hash(node):
    return hashlib.sha256(ast.dump(_strip_doc(node)).encode()).hexdigest()[:16]


def _func(tree, name, cls=None):
    body = tree.body
    if cls:
        for n in body:
            if isinstance(n, ast.ClassDef) and n.name == cls:
                body = n.body
                break
        else:
            raise Refuse('class %s not found' % cls)
    for n in body:
        if isinstance(n, ast.FunctionDef) and n.name == name:
            return n
    raise Refuse('function %s not found' % name)


def _src(node):
    return ast.unparse(node)


# ---------------------------------------------------------------- primitives

def _skeleton(fn, blank_calls):
    """ast dump of fn with the argument lists of the given calls blanked."""
    fn = _strip_doc(fn)
    for n in ast.walk(fn):
        if isinstance(n, ast.Call) and _src(n.func) in blank_calls:
            n.args = []
            n.keywords = []
    return hashlib.sha256(ast.dump(fn).encode()).hexdigest()[:16]


def _or_clauses(fn, call_src):
    res = []
    for n in ast.walk(fn):
        if isinstance(n, ast.Call) and _src(n.func) == call_src:
            res.append([_src(a) for a in n.args])
    return res


def secure_spec(api_tree, skel_out):
    fn = _func(api_tree, '_secure_query')
    skel_out['_secure_query'] = _skeleton(fn, {'sa.or_'})
    ors = _or_clauses(fn, 'sa.or_')
    if len(ors) != 2:
        raise Refuse('_secure_query: expected two sa.or_ criteria, found %d' % len(ors))
    flags = {'ownProject': False, 'publicScope': False, 'sharedIds': False}
    base, ext = ors
    for c in base:
        if c == 'model.project_id == security.get_project_id()':
            flags['ownProject'] = True
        elif c == "model.scope == 'public'":
            flags['publicScope'] = True
        else:
            raise Refuse('_secure_query: unknown criterion %r' % c)
    for c in ext:
        if c == 'query_criterion':
            continue
        if c == 'model.id.in_(shared_res_ids)':
            flags['sharedIds'] = True
        else:
            raise Refuse('_secure_query: unknown criterion %r' % c)
    if 'query_criterion' not in ext:
        raise Refuse('_secure_query: share criterion replaces the base criterion')
    acc = _func(api_tree, '_get_accepted_resources')
    skel_out['_get_accepted_resources'] = _skeleton(acc, {'sa.and_'})
    ands = _or_clauses(acc, 'sa.and_')
    if len(ands) != 1:
        raise Refuse('_get_accepted_resources: expected one sa.and_')
    aflags = {'accType': False, 'accStatus': False, 'accMember': False}
    for c in ands[0]:
        if c == 'models.ResourceMember.resource_type == res_type':
            aflags['accType'] = True
        elif c == "models.ResourceMember.status == 'accepted'":
            aflags['accStatus'] = True
        elif c == 'models.ResourceMember.member_id == security.get_project_id()':
            aflags['accMember'] = True
        else:
            raise Refuse('_get_accepted_resources: unknown criterion %r' % c)
    flags.update(aflags)
    # RESOURCE_MAPPING
    mapping = None
    for n in api_tree.body:
        if isinstance(n, ast.Assign) and len(n.targets) == 1 and \
                _src(n.targets[0]) == 'RESOURCE_MAPPING':
            if not isinstance(n.value, ast.Dict):
                raise Refuse('RESOURCE_MAPPING is not a dict literal')
            mapping = []
            for k, v in zip(n.value.keys, n.value.values):
                ks = _src(k)
                if not ks.startswith('models.') or not isinstance(v, ast.Constant):
                    raise Refuse('RESOURCE_MAPPING entry %s' % ks)
                mapping.append((ks[len('models.'):], v.value))
    if mapping is None:
        raise Refuse('RESOURCE_MAPPING not found')
    flags['shareTypes'] = mapping
    return flags


def owner_check_spec(repo, skel_out):
    tree = _parse(repo, DBUTILS)
    fn = _func(tree, 'check_db_obj_access')
    ifs = [n for n in fn.body if isinstance(n, ast.If)]
    # skeleton: everything but the if-tests
    sk = _strip_doc(fn)
    for n in ast.walk(sk):
        if isinstance(n, ast.If):
            n.test = ast.Constant(value=0)
    skel_out['check_db_obj_access'] = hashlib.sha256(ast.dump(sk).encode()).hexdigest()[:16]
    if len(ifs) != 2:
        raise Refuse('check_db_obj_access: expected two guards')
    res = {}
    for i, node in enumerate(ifs):
        if not (isinstance(node.test, ast.BoolOp) and isinstance(node.test.op, ast.And)):
            raise Refuse('check_db_obj_access: guard %d is not a conjunction' % i)
        terms = [_src(t) for t in node.test.values]
        if not (len(node.body) == 1 and isinstance(node.body[0], ast.Raise)) or node.orelse:
            raise Refuse('check_db_obj_access: guard %d does not just raise' % i)
        excn = _src(node.body[0].exc.func)
        if i == 0:
            known = {'not is_admin': 'adminExempt',
                     'db_obj.project_id != security.get_project_id()': 'projectMismatch',
                     "db_obj.scope != 'public'": 'onlyIfNotPublic'}
            fl = {'adminExempt': False, 'projectMismatch': False, 'onlyIfNotPublic': False}
            want = 'exc.NotAllowedException'
        else:
            known = {'not is_admin': 'sysAdminExempt',
                     "hasattr(db_obj, 'is_system')": 'sysHasAttr',
                     'db_obj.is_system': 'sysFlag'}
            fl = {'sysAdminExempt': False, 'sysHasAttr': False, 'sysFlag': False}
            want = 'exc.InvalidActionException'
        for t in terms:
            if t not in known:
                raise Refuse('check_db_obj_access: unknown term %r' % t)
            fl[known[t]] = True
        if excn != want:
            raise Refuse('check_db_obj_access: guard %d raises %s' % (i, excn))
        res.update(fl)
    # `is_admin = ctx.is_admin`
    if 'is_admin = ctx.is_admin' not in [_src(s) for s in fn.body] or \
            'ctx = context.ctx()' not in [_src(s) for s in fn.body]:
        raise Refuse('check_db_obj_access: is_admin is not ctx().is_admin')
    # the owner-only variant (optional): exactly the first guard
    res['ownerOnlyPresent'] = False
    for n in tree.body:
        if isinstance(n, ast.FunctionDef) and n.name == 'check_db_obj_owner':
            body = _strip_doc(n).body
            if not (len(body) == 1 and isinstance(body[0], ast.If) and not body[0].orelse
                    and isinstance(body[0].test, ast.BoolOp) and isinstance(body[0].test.op, ast.And)
                    and sorted(_src(t) for t in body[0].test.values) ==
                    ['db_obj.project_id != security.get_project_id()', 'not context.ctx().is_admin']
                    and len(body[0].body) == 1 and isinstance(body[0].body[0], ast.Raise)
                    and _src(body[0].body[0].exc.func) == 'exc.NotAllowedException'):
                raise Refuse('check_db_obj_owner is not the reviewed owner-only guard')
            res['ownerOnlyPresent'] = True
    return res


def project_forcing_spec(repo, skel_out):
    tree = _parse(repo, MODEL_BASE)
    fn = _func(tree, '_set_project_id')
    body = [_src(s) for s in _strip_doc(fn).body]
    forced = body == ['return security.get_project_id()']
    args = [a.arg for a in fn.args.args]
    if not forced:
        # recognised alternative: returns the given value (no forcing)
        if body == ['return value'] and 'value' in args:
            forced = False
        else:
            raise Refuse('_set_project_id: unknown body %r' % body)
    reg = _func(tree, 'register_secure_model_hooks')
    skel_out['register_secure_model_hooks'] = shape_hash(reg)
    # column default
    default_ok = False
    for n in tree.body:
        if isinstance(n, ast.ClassDef) and n.name == 'MistralSecureModelBase':
            for s in n.body:
                if isinstance(s, ast.Assign) and _src(s.targets[0]) == 'project_id':
                    for kw in s.value.keywords:
                        if kw.arg == 'default' and _src(kw.value) == 'security.get_project_id':
                            default_ok = True
    mtree = _parse(repo, MODELS)
    registered = any(isinstance(n, ast.Expr) and _src(n.value) == 'mb.register_secure_model_hooks()'
                     for n in mtree.body)
    # the registration walks the subclasses that exist WHEN IT RUNS: classes defined after the
    # call statement get no listener
    reg_line = min([n.lineno for n in mtree.body if isinstance(n, ast.Expr)
                    and _src(n.value) == 'mb.register_secure_model_hooks()'] or [0])
    late = sorted(n.name for n in mtree.body if isinstance(n, ast.ClassDef) and n.lineno > reg_line)
    sec = _parse(repo, SECURITY)
    gp = _func(sec, 'get_project_id')
    skel_out['get_project_id'] = shape_hash(gp)
    return {'setForced': forced, 'defaultCaller': default_ok, 'hooksRegistered': registered,
            'lateClasses': late}


def secure_models(repo):
    tree = _parse(repo, MODELS)
    classes = {n.name: n for n in tree.body if isinstance(n, ast.ClassDef)}
    secure = set()

    def is_secure(name, seen=()):
        n = classes.get(name)
        if n is None or name in seen:
            return False
        for b in n.bases:
            s = _src(b)
            if s == 'mb.MistralSecureModelBase':
                return True
            if is_secure(s, seen + (name,)):
                return True
        return False

    all_models = []
    for name, n in classes.items():
        has_table = any(isinstance(s, ast.Assign) and _src(s.targets[0]) == '__tablename__'
                        for s in n.body)
        if has_table:
            all_models.append(name)
            if is_secure(name):
                secure.add(name)
    has_system = set()
    for name in all_models:
        # is_system column declared in the class or a base
        def has(nm, seen=()):
            n = classes.get(nm)
            if n is None or nm in seen:
                return False
            if any(isinstance(s, ast.Assign) and _src(s.targets[0]) == 'is_system' for s in n.body):
                return True
            return any(has(_src(b), seen + (nm,)) for b in n.bases)
        if has(name):
            has_system.add(name)
    return sorted(all_models), sorted(secure), sorted(has_system)


# ---------------------------------------------------------------- abstract interpreter

OR = {('F', 'F'): 'F'}
ORDER = ['F', 'A', 'P', 'AP', 'T']


def insec_or(a, b):
    if a == 'T' or b == 'T':
        return 'T'
    s = set()
    for x in (a, b):
        if x in ('A', 'AP'):
            s.add('A')
        if x in ('P', 'AP'):
            s.add('P')
    if s == {'A', 'P'}:
        return 'AP'
    if s == {'A'}:
        return 'A'
    if s == {'P'}:
        return 'P'
    return 'F'


MODE = {'F': 'secure', 'A': 'admin', 'AP': 'adminOrParam', 'P': 'param', 'T': 'insecure'}

Q_PASS = {'filter', 'filter_by', 'order_by', 'limit', 'offset', 'join', 'with_for_update',
          'slice', 'options', 'distinct'}
OPAQUE = ('opaque',)
TRACKED = {'query', 'obj', 'new', 'list', 'session', 'stmt'}


class Interp(object):
    def __init__(self, tree):
        self.funcs = {n.name: n for n in tree.body if isinstance(n, ast.FunctionDef)}
        self.effects = None
        self.path = ()
        self.branch_counter = 0
        self.depth = 0

    # ---- entry
    def summarise(self, name):
        self.effects = []
        self.path = ()
        self.branch_counter = 0
        self.depth = 0
        self.stack = [name]
        fn = self.funcs[name]
        env = {}
        a = fn.args
        names = [x.arg for x in a.args] + [x.arg for x in a.kwonlyargs]
        for n in names:
            if n == 'insecure':
                env[n] = ('insec', 'P')
            elif n == 'session':
                env[n] = ('session',)
            elif n == 'model':
                env[n] = ('model', '<param>')
            else:
                env[n] = ('param', n)
        if a.kwarg:
            env[a.kwarg.arg] = ('kwargs',)
        if a.vararg:
            raise Unknown('*args')
        ret = self.run_body(fn.body, env)
        return ret, self.effects, names, bool(a.kwarg)

    # ---- statements
    class Return(Exception):
        def __init__(self, v):
            self.v = v

    class Raised(Exception):
        pass

    def run_body(self, body, env):
        try:
            self.block(body, env)
        except Interp.Return as r:
            return r.v
        except Interp.Raised:
            return ('raises',)
        return ('none',)

    def block(self, stmts, env):
        for s in stmts:
            self.stmt(s, env)

    def branch(self, stmts, env):
        """run stmts as a conditional branch; returns (env or None if it leaves, retval)"""
        self.branch_counter += 1
        old = self.path
        self.path = old + (self.branch_counter,)
        e = dict(env)
        try:
            self.block(stmts, e)
            return e, None
        except Interp.Return as r:
            return None, r.v
        except Interp.Raised:
            return None, None
        finally:
            self.path = old

    def merge(self, env, e1, e2, test_insec=None):
        if e1 is None and e2 is None:
            return None
        if e1 is None:
            return e2
        if e2 is None:
            return e1
        out = {}
        for k in set(e1) | set(e2):
            v1, v2 = e1.get(k), e2.get(k)
            if v1 == v2:
                out[k] = v1
            elif test_insec and v1 and v2 and v1[0] == 'query' and v2[0] == 'query' \
                    and v1[1] == v2[1] and v1[2] == 'insecure' and v2[2] == 'secure':
                out[k] = ('query', v1[1], MODE[test_insec], v1[3] | v2[3])
            elif v1 and v2 and v1[0] == v2[0] and v1[0] in ('query', 'obj', 'list') \
                    and v1[1:3] == v2[1:3]:
                out[k] = (v1[0], v1[1], v1[2], v1[3] | v2[3])
            elif v1 and v2 and v1[0] == 'crit' and v2[0] == 'crit':
                out[k] = ('crit', v1[1] | v2[1])
            elif v1 and v2 and {v1[0], v2[0]} == {'insec', 'const'}:
                a = v1 if v1[0] == 'insec' else v2
                c = v2 if v1[0] == 'insec' else v1
                cv = 'T' if c[1] else 'F'
                out[k] = a if ORDER.index(a[1]) >= ORDER.index(cv) else ('insec', cv)
            elif v1 and v2 and v1[0] == 'insec' and v2[0] == 'insec':
                # e.g. `if has_ctx(): insecure = is_admin or insecure`
                out[k] = v1 if ORDER.index(v1[1]) >= ORDER.index(v2[1]) else v2
            elif (v1 and v1[0] in TRACKED) or (v2 and v2[0] in TRACKED):
                out[k] = ('conflict', v1, v2)
            else:
                out[k] = OPAQUE
        return out

    def stmt(self, s, env):
        if isinstance(s, ast.Expr):
            self.expr(s.value, env)
        elif isinstance(s, ast.Assign):
            v = self.expr(s.value, env)
            for t in s.targets:
                self.assign(t, v, env)
        elif isinstance(s, ast.AugAssign):
            self.expr(s.value, env)
            self.assign(s.target, OPAQUE, env)
        elif isinstance(s, ast.Return):
            raise Interp.Return(self.expr(s.value, env) if s.value else ('none',))
        elif isinstance(s, ast.Raise):
            name = ''
            if s.exc is not None:
                e = s.exc.func if isinstance(s.exc, ast.Call) else s.exc
                name = _src(e)
                if isinstance(s.exc, ast.Call):
                    for a in s.exc.args:
                        self.expr(a, env)
            self.effects.append({'e': 'raise', 'exc': name, 'path': self.path})
            raise Interp.Raised()
        elif isinstance(s, ast.If):
            t = self.expr(s.test, env)
            truth = self.truth(t)
            if truth is True:
                self.block(s.body, env)
            elif truth is False:
                self.block(s.orelse, env)
            else:
                ti = t[1] if t[0] == 'insec' else None
                e1, r1 = self.branch(s.body, env)
                e2, r2 = self.branch(s.orelse, env)
                m = self.merge(env, e1, e2, ti)
                if m is None:
                    # both branches leave the function
                    rv = r1 if r1 is not None else r2
                    if rv is not None:
                        raise Interp.Return(self.join_ret(r1, r2))
                    raise Interp.Raised()
                if r1 is not None or r2 is not None:
                    self.early = getattr(self, 'early', []) + [r1 if r1 is not None else r2]
                env.clear()
                env.update(m)
        elif isinstance(s, ast.Try):
            self.block(s.body, env)
            for h in s.handlers:
                e1, r1 = self.branch(h.body, env)
                if e1 is not None:
                    m = self.merge(env, e1, dict(env))
                    env.clear()
                    env.update(m)
            self.block(s.orelse, env)
            self.block(s.finalbody, env)
        elif isinstance(s, (ast.For, ast.While)):
            if isinstance(s, ast.For):
                it = self.expr(s.iter, env)
                elem = OPAQUE
                if it[0] == 'list':
                    elem = ('obj', it[1], it[2], it[3])
                self.assign(s.target, elem, env)
            else:
                self.expr(s.test, env)
            e1, r1 = self.branch(s.body, env)
            if e1 is not None:
                m = self.merge(env, e1, dict(env))
                env.clear()
                env.update(m)
        elif isinstance(s, ast.With):
            for it in s.items:
                self.expr(it.context_expr, env)
            self.block(s.body, env)
        elif isinstance(s, (ast.Pass, ast.Global, ast.Import, ast.ImportFrom)):
            pass
        elif isinstance(s, ast.Assert):
            self.expr(s.test, env)
        else:
            raise Unknown('statement %s' % type(s).__name__)

    def join_ret(self, r1, r2):
        if r1 is None:
            return r2
        if r2 is None:
            return r1
        if r1 == r2:
            return r1
        return ('either', r1, r2)

    def assign(self, t, v, env):
        if isinstance(t, ast.Name):
            env[t.id] = v
        elif isinstance(t, (ast.Tuple, ast.List)):
            for x in t.elts:
                self.assign(x, OPAQUE, env)
        elif isinstance(t, ast.Subscript):
            base = self.expr(t.value, env)
            if base[0] in TRACKED:
                raise Unknown('subscript store on %s' % base[0])
        elif isinstance(t, ast.Attribute):
            base = self.expr(t.value, env)
            if base[0] == 'obj':
                self.effects.append({'e': 'mutate', 'kind': 'update', 'model': base[1],
                                     'mode': base[2], 'key': sorted(base[3]), 'path': self.path,
                                     'bulk': False})
            elif base[0] in TRACKED and base[0] != 'new':
                raise Unknown('attribute store on %s' % base[0])
        else:
            raise Unknown('assignment target')

    def truth(self, v):
        if v[0] == 'bool':
            return v[1]
        if v[0] == 'not':
            t = self.truth(v[1])
            return None if t is None else (not t)
        if v[0] in ('query', 'session', 'model'):
            return True
        if v[0] == 'const':
            return bool(v[1])
        if v[0] == 'insec':
            if v[1] == 'F':
                return False
            if v[1] == 'T':
                return True
        return None

    # ---- expressions
    def expr(self, e, env):
        if e is None:
            return ('none',)
        m = getattr(self, 'e_' + type(e).__name__, None)
        if m is None:
            raise Unknown('expression %s' % type(e).__name__)
        return m(e, env)

    def e_Constant(self, e, env):
        return ('const', e.value)

    def e_Name(self, e, env):
        if e.id in env:
            if env[e.id][0] == 'conflict':
                raise Unknown('%s has different tracked values on different paths' % e.id)
            return env[e.id]
        if e.id in self.funcs:
            return ('func', e.id)
        return ('global', e.id)

    def e_JoinedStr(self, e, env):
        return OPAQUE

    def e_Tuple(self, e, env):
        vals = [self.expr(x, env) for x in e.elts]
        return ('seq', tuple(vals))

    e_List = e_Tuple

    def e_Set(self, e, env):
        for x in e.elts:
            self.expr(x, env)
        return OPAQUE

    def e_Dict(self, e, env):
        for x in e.values:
            self.use(self.expr(x, env), 'dict value')
        return OPAQUE

    def e_Starred(self, e, env):
        self.expr(e.value, env)
        return OPAQUE

    def e_Lambda(self, e, env):
        return OPAQUE

    def e_Yield(self, e, env):
        v = self.expr(e.value, env) if e.value else OPAQUE
        self.yielded = v
        return OPAQUE

    def e_ListComp(self, e, env):
        env2 = dict(env)
        for g in e.generators:
            it = self.expr(g.iter, env2)
            elem = OPAQUE
            if it[0] == 'list':
                elem = ('obj', it[1], it[2], it[3])
            self.assign(g.target, elem, env2)
            for c in g.ifs:
                self.expr(c, env2)
        self.expr(e.elt, env2)
        return OPAQUE

    e_GeneratorExp = e_ListComp

    def e_Subscript(self, e, env):
        v = self.expr(e.value, env)
        self.expr(e.slice, env) if not isinstance(e.slice, ast.Slice) else None
        if v[0] == 'list':
            return ('obj', v[1], v[2], v[3])
        if v[0] == 'obj':
            return OPAQUE      # a column of a row / tuple
        if v[0] in TRACKED:
            raise Unknown('subscript of %s' % v[0])
        return OPAQUE

    def e_UnaryOp(self, e, env):
        v = self.expr(e.operand, env)
        if isinstance(e.op, ast.Not):
            return ('not', v)
        if v[0] == 'crit':
            return v
        return OPAQUE

    def e_BinOp(self, e, env):
        l, r = self.expr(e.left, env), self.expr(e.right, env)
        for v in (l, r):
            self.use(v, 'binop')
        return OPAQUE

    def e_BoolOp(self, e, env):
        vals = [self.expr(x, env) for x in e.values]
        if any(v[0] == 'insec' for v in vals):
            vals = [('insec', 'T' if v[1] else 'F') if v[0] == 'const' and isinstance(v[1], bool)
                    else v for v in vals]
        if isinstance(e.op, ast.Or) and all(v[0] == 'insec' for v in vals):
            r = 'F'
            for v in vals:
                r = insec_or(r, v[1])
            return ('insec', r)
        for v in vals:
            if v[0] == 'insec' and isinstance(e.op, ast.Or):
                raise Unknown('insecure flag mixed with %s' % [x[0] for x in vals])
            self.use(v, 'boolop') if v[0] not in ('obj', 'list', 'query') else None
        return OPAQUE

    def e_Compare(self, e, env):
        l = self.expr(e.left, env)
        rs = [self.expr(c, env) for c in e.comparators]
        cols = set()
        loaded = False
        for v in [l] + rs:
            if v[0] == 'col':
                cols.add(v[2])
            elif v[0] == 'crit':
                cols |= v[1]
            elif v[0] == 'objattr' and v[1][0] == 'obj' and v[2] == 'id':
                loaded = True
        if cols:
            if loaded and cols == {'id'}:
                cols = {'id', '@loaded'}
            return ('crit', frozenset(cols))
        if len(rs) == 1 and isinstance(e.ops[0], (ast.Is, ast.IsNot)) and rs[0] == ('const', None):
            if l[0] in ('query', 'session', 'model'):
                return ('bool', isinstance(e.ops[0], ast.IsNot))
        return OPAQUE

    def e_IfExp(self, e, env):
        t = self.expr(e.test, env)
        truth = self.truth(t)
        if truth is True:
            return self.expr(e.body, env)
        if truth is False:
            return self.expr(e.orelse, env)
        a, b = self.expr(e.body, env), self.expr(e.orelse, env)
        if t[0] == 'insec' and a[0] == 'query' and b[0] == 'query' and a[1] == b[1] \
                and a[2] == 'insecure' and b[2] == 'secure':
            return ('query', a[1], MODE[t[1]], a[3] | b[3])
        if a[0] in TRACKED or b[0] in TRACKED:
            if a == b:
                return a
            raise Unknown('conditional expression over %s/%s' % (a[0], b[0]))
        return OPAQUE

    def e_Attribute(self, e, env):
        s = _src(e)
        if s == 'context.ctx().is_admin':
            return ('insec', 'A')
        v = self.expr(e.value, env)
        if v == ('global', 'models'):
            return ('model', e.attr)
        if v[0] == 'model':
            if e.attr == '__table__':
                return ('table', v[1])
            return ('col', v[1], e.attr)
        if v[0] == 'table':
            if e.attr in ('delete', 'insert', 'update'):
                return ('tablemethod', v[1], e.attr)
            return ('col', v[1], e.attr) if e.attr != 'c' else v
        if v[0] == 'col':
            return v
        if v[0] == 'session':
            return ('sessattr', e.attr)
        if v[0] in ('query', 'list', 'stmt'):
            return ('method', v, e.attr)
        if v[0] in ('obj', 'new'):
            return ('objattr', v, e.attr)
        if v[0] == 'global':
            return ('global', s)
        if v[0] == 'crit':
            return ('method', v, e.attr)
        return ('attr', v, e.attr)

    def use(self, v, where):
        """a tracked value flows somewhere we do not interpret"""
        if v and v[0] in ('query', 'session', 'stmt'):
            raise Unknown('%s flows into %s' % (v[0], where))

    def read(self, q, how):
        self.effects.append({'e': 'read', 'model': q[1], 'mode': q[2], 'key': sorted(q[3]),
                             'how': how, 'path': self.path})

    def e_Call(self, e, env):
        fsrc = _src(e.func)
        # --- primitives recognised by source text
        if fsrc == 'context.has_ctx':
            return ('bool', True)
        if fsrc == 'context.ctx':
            return OPAQUE
        if fsrc == 'security.get_project_id':
            return OPAQUE
        if fsrc in ('b.model_query', '_secure_query'):
            args = [self.expr(a, env) for a in e.args]
            for kw in e.keywords:
                self.expr(kw.value, env)
            if not args or args[0][0] != 'model':
                raise Unknown('%s on a non-model' % fsrc)
            return ('query', args[0][1], 'insecure' if fsrc == 'b.model_query' else 'secure',
                    frozenset())
        if fsrc in ('m_dbutils.check_db_obj_access', 'm_dbutils.check_db_obj_owner'):
            v = self.expr(e.args[0], env)
            if v[0] != 'obj':
                raise Unknown('%s on %s' % (fsrc, v[0]))
            self.effects.append({'e': 'check', 'model': v[1], 'path': self.path,
                                 'system': fsrc.endswith('access')})
            return OPAQUE
        if fsrc == 'db_filters.apply_filters':
            q = self.expr(e.args[0], env)
            self.expr(e.args[1], env)
            keys = set()
            for kw in e.keywords:
                v = self.expr(kw.value, env)
                if kw.arg is None and v[0] == 'kwdict':
                    keys |= {k for k, _ in v[1]}
                elif kw.arg is None and v == ('const', {}):
                    pass
                else:
                    keys.add('**' if kw.arg is None else kw.arg)
            if q[0] != 'query':
                raise Unknown('apply_filters on %s' % q[0])
            return ('query', q[1], q[2], q[3] | keys)
        if fsrc == 'db_utils.paginate_query':
            q = self.expr(e.args[0], env)
            for a in e.args[1:]:
                self.expr(a, env)
            for kw in e.keywords:
                self.expr(kw.value, env)
            return q
        if fsrc in ('sa.and_', 'sa.or_'):
            cols = set()
            for a in e.args:
                v = self.expr(a, env)
                if v[0] == 'crit':
                    cols |= v[1]
                elif v[0] == 'opaque' or v[0] == 'const':
                    cols.add('?')
                else:
                    raise Unknown('%s over %s' % (fsrc, v[0]))
            return ('crit', frozenset([('or' if fsrc == 'sa.or_' else 'and') + '(' +
                                       ','.join(sorted(cols)) + ')']) if len(cols) > 1
                    else frozenset(cols))
        if fsrc == 'sa.null':
            return OPAQUE
        if fsrc == 'type':
            v = self.expr(e.args[0], env)
            if v[0] == 'new':
                return ('model', v[1])
            if v[0] == 'param':
                return ('model', '<param>')
            if v[0] in TRACKED:
                raise Unknown('type() of %s' % v[0])
            return OPAQUE
        if fsrc == '_get_criterion':
            for a in e.args:
                self.expr(a, env)
            return ('crit', frozenset(['<member-criterion>']))
        if fsrc == '_get_accepted_resources':
            return OPAQUE
        # --- local functions are inlined
        if isinstance(e.func, ast.Name) and e.func.id in self.funcs and e.func.id not in env:
            return self.inline(e.func.id, e, env)
        f = self.expr(e.func, env)
        args = [self.expr(a, env) for a in e.args]
        kws = {}
        for kw in e.keywords:
            kws[kw.arg] = self.expr(kw.value, env)
        if f[0] == 'model':
            # constructor; remember whether `id=` comes from a row that was loaded before
            idv = kws.get('id')
            loaded = bool(idv and idv[0] == 'objattr' and idv[1][0] == 'obj' and idv[2] == 'id')
            return ('new', f[1], loaded)
        if f[0] == 'tablemethod':
            return ('stmt', 'delete' if f[2] == 'delete' else ('create' if f[2] == 'insert' else 'update'),
                    f[1], False)
        if f[0] == 'method':
            recv, name = f[1], f[2]
            if recv[0] == 'query':
                if name in Q_PASS:
                    keys = set(recv[3])
                    for a in (args if name in ('filter', 'filter_by') else []):
                        if a[0] == 'crit':
                            keys |= a[1]
                        elif a[0] == 'col':
                            pass
                        elif name in ('filter',):
                            keys.add('?')
                    if name == 'filter_by':
                        for k in kws:
                            keys.add('**' if k is None else k)
                    return ('query', recv[1], recv[2], frozenset(keys))
                if name in ('first', 'one', 'get'):
                    self.read(recv, 'first')
                    return ('obj', recv[1], recv[2], recv[3])
                if name == 'all':
                    self.read(recv, 'all')
                    return ('list', recv[1], recv[2], recv[3])
                if name == 'count':
                    self.read(recv, 'count')
                    return ('count', recv[1], recv[2], recv[3])
                if name in ('delete', 'update', 'update_on_match'):
                    kind = {'delete': 'delete', 'update': 'update', 'update_on_match': 'cas'}[name]
                    sp = kws.get('specimen')
                    by_loaded = bool(name == 'update_on_match' and sp and sp[0] == 'new' and sp[2]) \
                        or '@loaded' in recv[3]
                    if name == 'update_on_match' and not (sp and sp[0] in ('new', 'param')):
                        raise Unknown('update_on_match specimen %s' % (sp[0] if sp else None))
                    self.effects.append({'e': 'mutate', 'kind': kind, 'model': recv[1],
                                         'mode': recv[2], 'key': sorted(recv[3]) or (['id'] if name == 'update_on_match' else []),
                                         'path': self.path, 'bulk': True,
                                         'by_loaded_id': by_loaded})
                    if name == 'update_on_match':
                        return ('obj', recv[1], recv[2], recv[3])
                    return OPAQUE
                raise Unknown('query method %s' % name)
            if recv[0] == 'list':
                return OPAQUE
            if recv[0] == 'stmt':
                if name == 'where':
                    loaded = any(a[0] == 'crit' and '@loaded' in a[1] for a in args)
                    return ('stmt', recv[1], recv[2], loaded)
                if name == 'values':
                    return recv
                raise Unknown('statement method %s' % name)
            if recv[0] == 'crit':
                return recv
        if f[0] == 'col':
            # column operators: in_, desc, like, ...
            return ('crit', frozenset([f[2]]))
        if f[0] == 'table':
            return f
        if f[0] == 'objattr':
            recv, name = f[1], f[2]
            if name == 'update' and recv[0] == 'obj':
                self.effects.append({'e': 'mutate', 'kind': 'update', 'model': recv[1],
                                     'mode': recv[2], 'key': sorted(recv[3]),
                                     'path': self.path, 'bulk': False})
                return OPAQUE
            if name == 'update' and recv[0] == 'new':
                return OPAQUE
            if name == 'save':
                if recv[0] == 'new':
                    self.effects.append({'e': 'mutate', 'kind': 'create', 'model': recv[1],
                                         'mode': 'n/a', 'key': [], 'path': self.path,
                                         'bulk': False})
                    return OPAQUE
                raise Unknown('save() of a loaded object')
            return OPAQUE
        if f[0] == 'sessattr':
            name = f[1]
            if name == 'query':
                if not args or args[0][0] != 'model':
                    raise Unknown('session.query on a non-model')
                return ('query', args[0][1], 'insecure', frozenset())
            if name == 'delete':
                v = args[0]
                if v[0] != 'obj':
                    raise Unknown('session.delete of %s' % v[0])
                self.effects.append({'e': 'mutate', 'kind': 'delete', 'model': v[1],
                                     'mode': v[2], 'key': sorted(v[3]), 'path': self.path,
                                     'bulk': False})
                return OPAQUE
            if name == 'execute':
                v = args[0]
                if v[0] == 'stmt':
                    self.effects.append({'e': 'mutate', 'kind': v[1], 'model': v[2],
                                         'mode': 'insecure', 'key': ['id'], 'path': self.path,
                                         'bulk': True, 'by_loaded_id': v[3]})
                    return OPAQUE
                raise Unknown('session.execute of %s' % v[0])
            if name in ('flush', 'refresh', 'expire_all', 'commit', 'rollback'):
                return OPAQUE
            raise Unknown('session.%s' % name)
        if fsrc.startswith('sqlite_lock.'):
            return OPAQUE
        for v in args + list(kws.values()):
            self.use(v, 'call of %s' % fsrc)
        return OPAQUE

    def inline(self, name, call, env):
        if self.depth > 12:
            raise Unknown('inlining depth')
        if name in self.stack:
            # recursive call: its effects are those of the invocation already being summarised
            for x in call.args:
                self.expr(x, env)
            return OPAQUE
        fn = self.funcs[name]
        a = fn.args
        params = [x.arg for x in a.args]
        defaults = dict(zip(params[len(params) - len(a.defaults):], a.defaults))
        new = {}
        caller_kwargs = False
        pos = [self.expr(x, env) for x in call.args]
        if len(pos) > len(params):
            raise Unknown('too many positional args to %s' % name)
        for p, v in zip(params, pos):
            new[p] = v
        extra_kw = {}
        for kw in call.keywords:
            v = self.expr(kw.value, env)
            if kw.arg is None:
                if v[0] == 'kwargs':
                    caller_kwargs = True
                elif v[0] == 'kwdict':
                    for k, val in v[1]:
                        if k in params:
                            new[k] = val
                        elif a.kwarg:
                            extra_kw[k] = val
                        else:
                            raise Unknown('unexpected keyword %s to %s' % (k, name))
                elif v == ('const', {}):
                    pass
                else:
                    raise Unknown('** of %s' % v[0])
            elif kw.arg in params:
                new[kw.arg] = v
            elif a.kwarg:
                extra_kw[kw.arg] = v
            else:
                raise Unknown('unexpected keyword %s to %s' % (kw.arg, name))
        for p in params:
            if p in new:
                continue
            if caller_kwargs:
                # may be supplied by the (user-reachable) caller through **kwargs
                new[p] = ('insec', 'P') if p == 'insecure' else ('param', p)
            elif p == 'session':
                new[p] = ('session',)
            elif p in defaults:
                new[p] = self.expr(defaults[p], {})
                if p == 'insecure' and new[p] == ('const', False):
                    new[p] = ('insec', 'F')
                if p == 'insecure' and new[p] == ('const', True):
                    new[p] = ('insec', 'T')
            else:
                raise Unknown('missing argument %s to %s' % (p, name))
        if 'insecure' in new and new['insecure'][0] == 'const':
            new['insecure'] = ('insec', 'T' if new['insecure'][1] else 'F')
        if a.kwarg:
            new[a.kwarg.arg] = ('kwargs',) if (caller_kwargs or extra_kw) else ('const', {})
            if extra_kw and not caller_kwargs:
                new[a.kwarg.arg] = ('kwdict', tuple(sorted(extra_kw.items())))
        self.depth += 1
        self.stack.append(name)
        try:
            is_gen = any(isinstance(n, (ast.Yield, ast.YieldFrom)) for n in ast.walk(fn))
            ret = self.run_body(fn.body, new)
            if is_gen:
                return getattr(self, 'yielded', OPAQUE)
            if ret == ('raises',):
                raise Interp.Raised()
            return ret
        finally:
            self.depth -= 1
            self.stack.pop()


def _kw_keys(v):
    return v


def classify(name, ret, effects, params, has_kwargs, secure_set):
    """summary -> table entry"""
    if ret and ret[0] == 'query':
        # an un-executed query is handed to the caller
        effects = effects + [{'e': 'read', 'model': ret[1], 'mode': ret[2], 'key': sorted(ret[3]),
                              'how': 'all', 'path': ()}]
    reads = [x for x in effects if x['e'] == 'read']
    muts = [x for x in effects if x['e'] == 'mutate']
    checks = [x for x in effects if x['e'] == 'check']
    raises = [x for x in effects if x['e'] == 'raise']
    not_found = any(r['exc'] == 'exc.DBEntityNotFoundError' for r in raises)
    models = []
    for x in reads + muts:
        if x['model'] not in models:
            models.append(x['model'])
    entry = {'name': name, 'model': '', 'kind': 'other', 'key': 'none', 'read': 'none',
             'mut': 'none', 'bulk': False, 'ownerCheck': False, 'notFound': not_found,
             'insecureParam': False, 'extra': [], 'status': 'ok', 'params': params,
             'kwargs': has_kwargs, 'sysCheck': False}
    if not models:
        entry['kind'] = 'infra'
        return entry
    # primary model: that of the first mutation on a loaded/new row, else of the first read
    prim = None
    firsts = [x for x in reads if x['how'] == 'first']
    if firsts:
        prim = firsts[0]['model']
    elif muts:
        prim = muts[0]['model']
    else:
        prim = reads[0]['model']
    # wrappers `create_or_update_*`: first read decides
    if name.startswith('create_or_update_') and reads:
        prim = reads[0]['model']
    entry['model'] = prim
    p_reads = [x for x in reads if x['model'] == prim]
    p_muts = [x for x in muts if x['model'] == prim]
    for x in reads + muts:
        if x['model'] != prim:
            entry['extra'].append('%s:%s:%s' % (x['e'] if x['e'] == 'read' else x['kind'],
                                                x['model'], x['mode']))
    entry['extra'] = sorted(set(entry['extra']))
    modes = []
    for x in p_reads + [m for m in p_muts if m['bulk'] and not m.get('by_loaded_id')]:
        if x['mode'] not in modes:
            modes.append(x['mode'])
    if len(modes) > 1:
        # the weakest lookup decides what can be reached
        order = ['secure', 'admin', 'param', 'adminOrParam', 'insecure']
        entry['extra'].append('mixed-modes:' + '/'.join(modes))
        modes = [max(modes, key=order.index)]
    entry['read'] = modes[0] if modes else 'none'
    if name.startswith('create_or_update_') and p_reads:
        # the probe decides between create and update
        entry['read'] = p_reads[0]['mode']
    entry['insecureParam'] = entry['read'] in ('param', 'adminOrParam')
    # key
    keys = set()
    for x in (p_reads[:1] if (name.startswith('create_or_update_') and p_reads) else p_reads + p_muts):
        keys |= set(x['key'])
    keys.discard('?')
    keys.discard('@loaded')

    def keyshape(ks):
        ks = set(ks)
        if not ks:
            return 'none'
        if '**' in ks:
            # caller-supplied filters; a built-in extra criterion makes it a special query
            return 'filters' if ks == {'**'} else 'special'
        flat = ','.join(sorted(ks))
        has_id = 'id' in flat.replace('workflow_execution_id', '').replace('task_execution_id', '')
        has_name = 'name' in flat.replace('namespace', '')
        if '<member-criterion>' in flat:
            return 'member'
        if has_id and has_name:
            return 'ident'
        if has_id:
            return 'id'
        if has_name:
            return 'name'
        return 'special'
    entry['key'] = keyshape(keys)
    # kind
    kinds = [m['kind'] for m in p_muts]
    uncond_paths = lambda x: x['path']
    if not p_muts:
        hows = [r['how'] for r in p_reads]
        if all(h == 'first' for h in hows):
            entry['kind'] = 'get' if not_found else 'load'
        elif all(h == 'all' for h in hows) or (set(hows) <= {'all', 'count'} and 'all' in hows):
            entry['kind'] = 'list'
        elif all(h == 'count' for h in hows):
            entry['kind'] = 'count'
        else:
            raise Unknown('mixed read kinds %s' % hows)
        if ret[0] == 'query':
            entry['kind'] = 'list'
    else:
        if 'create' in kinds and len(set(kinds)) > 1:
            if not name.startswith('create_or_update_'):
                raise Unknown('create mixed with %s' % kinds)
            entry['kind'] = 'createOrUpdate'
            entry['mut'] = 'update'
        elif set(kinds) == {'create'}:
            entry['kind'] = 'create'
            entry['mut'] = 'create'
        elif set(kinds) <= {'update', 'cas'}:
            entry['kind'] = 'update'
            entry['mut'] = 'cas' if 'cas' in kinds else 'update'
        elif set(kinds) == {'delete'}:
            entry['kind'] = 'deleteAll' if entry['key'] in ('filters', 'none') else 'delete'
            entry['mut'] = 'delete'
        else:
            raise Unknown('mutations %s' % kinds)
        entry['bulk'] = any(m['bulk'] and not m.get('by_loaded_id') for m in p_muts)
        first = None
        for i, x in enumerate(effects):
            if x['e'] == 'mutate' and x['model'] == prim and x['kind'] != 'create':
                first = i
                break
        if first is not None:
            mp = effects[first]['path']
            for i, x in enumerate(effects[:first]):
                if x['e'] == 'check' and x['model'] == prim and mp[:len(x['path'])] == x['path']:
                    entry['ownerCheck'] = True
                    entry['sysCheck'] = entry['sysCheck'] or x['system']
        if entry['kind'] == 'createOrUpdate':
            # the update branch's check
            ups = [i for i, x in enumerate(effects) if x['e'] == 'mutate' and x['kind'] in ('update', 'cas')]
            entry['ownerCheck'] = False
            if ups:
                mp = effects[ups[0]]['path']
                cks = [x for x in effects[:ups[0]]
                       if x['e'] == 'check' and x['model'] == prim and mp[:len(x['path'])] == x['path']]
                entry['ownerCheck'] = bool(cks)
                entry['sysCheck'] = any(x['system'] for x in cks)
    return entry


def db_functions(api_tree, secure_set):
    it = Interp(api_tree)
    entries = []
    for n in api_tree.body:
        if not isinstance(n, ast.FunctionDef) or n.name.startswith('_'):
            continue
        try:
            it.early = []
            it.yielded = OPAQUE
            ret, effects, params, has_kwargs = it.summarise(n.name)
            e = classify(n.name, ret, effects, params, has_kwargs, secure_set)
        except Unknown as u:
            e = {'name': n.name, 'model': '', 'kind': 'other', 'key': 'none', 'read': 'none',
                 'mut': 'none', 'bulk': False, 'ownerCheck': False, 'notFound': False,
                 'insecureParam': False, 'extra': [], 'status': 'unknown', 'reason': str(u),
                 'sysCheck': False,
                 'params': [a.arg for a in n.args.args], 'kwargs': bool(n.args.kwarg)}
            # best effort model name for the report
            ms = sorted({_src(x)[7:] for x in ast.walk(n) if isinstance(x, ast.Attribute)
                         and _src(x).startswith('models.') and _src(x).count('.') == 1})
            e['model'] = ms[0] if len(ms) == 1 else ''
        except RecursionError:
            raise Refuse('recursion while interpreting %s' % n.name)
        entries.append(e)
    return entries


# ---------------------------------------------------------------- reachability scan

def scan_uses(repo):
    files = []
    for d in SCAN_DIRS:
        for root, _, fs in os.walk(os.path.join(repo, d)):
            for f in sorted(fs):
                if f.endswith('.py'):
                    files.append(os.path.relpath(os.path.join(root, f), repo))
    files += SCAN_FILES
    files = sorted(set(files))
    uses = {}        # fn -> set(files)
    insecure_sites = []
    for rel in files:
        tree = _parse(repo, rel)
        aliases = set()
        for n in ast.walk(tree):
            if isinstance(n, ast.ImportFrom) and n.module in ('mistral.db.v2', 'mistral.db.v2.sqlalchemy'):
                # (the sqlalchemy module has the same function names as the facade)
                for a in n.names:
                    if a.name == 'api':
                        aliases.add(a.asname or a.name)
            elif isinstance(n, ast.Import):
                for a in n.names:
                    if a.name == DB_API_MODULE:
                        if a.asname:
                            aliases.add(a.asname)
                        else:
                            raise Refuse('%s: plain `import %s`' % (rel, DB_API_MODULE))
            elif isinstance(n, ast.ImportFrom) and n.module == DB_API_MODULE:
                raise Refuse('%s: `from %s import ...` (names cannot be tracked)' % (rel, DB_API_MODULE))
        if not aliases:
            continue

        def walk(node, qual):
            for ch in ast.iter_child_nodes(node):
                q = qual
                if isinstance(ch, (ast.FunctionDef, ast.ClassDef, ast.AsyncFunctionDef)):
                    q = (qual + '.' if qual else '') + ch.name
                if isinstance(ch, ast.Attribute) and isinstance(ch.value, ast.Name) \
                        and ch.value.id in aliases:
                    uses.setdefault(ch.attr, set()).add(rel)
                if isinstance(ch, ast.Name) and ch.id in aliases and \
                        not isinstance(node, ast.Attribute):
                    raise Refuse('%s: db api module used as a value in %s' % (rel, qual))
                if isinstance(ch, ast.Call):
                    for kw in ch.keywords:
                        if kw.arg == 'insecure':
                            insecure_sites.append((rel, qual, _src(ch.func), _src(kw.value)))
                walk(ch, q)
        walk(tree, '')
    return uses, sorted(set(insecure_sites)), files


# ---------------------------------------------------------------- Lean output

def lstr(s):
    return '"' + s.replace('\\', '\\\\').replace('"', '\\"') + '"'


def lbool(b):
    return 'true' if b else 'false'


def _check_system_only(repo):
    """each SYSTEM_ONLY function is used in exactly the named function of the named file"""
    for fn, (rel, where) in SYSTEM_ONLY.items():
        tree = _parse(repo, rel)
        for top in tree.body:
            for n in ast.walk(top):
                if isinstance(n, ast.Attribute) and n.attr == fn and isinstance(n.value, ast.Name) \
                        and n.value.id.startswith('db_api'):
                    if not (isinstance(top, ast.FunctionDef) and top.name == where):
                        raise Refuse('%s is used outside %s:%s' % (fn, rel, where))


def build(repo):
    _check_system_only(repo)
    api_tree = _parse(repo, API)
    skel = {}
    spec = secure_spec(api_tree, skel)
    own = owner_check_spec(repo, skel)
    forcing = project_forcing_spec(repo, skel)
    all_models, secure, has_system = secure_models(repo)
    entries = db_functions(api_tree, set(secure))
    if any(e['ownerCheck'] and not e['sysCheck'] for e in entries) and not own['ownerOnlyPresent']:
        raise Refuse('check_db_obj_owner is called but not defined in %s' % DBUTILS)
    uses, insecure_sites, scanned = scan_uses(repo)
    names = {e['name'] for e in entries}
    # the facade mistral/db/v2/api.py must forward 1:1
    facade = _parse(repo, 'mistral/db/v2/api.py')
    fac = {}
    for n in facade.body:
        if isinstance(n, ast.FunctionDef):
            calls = [x for x in ast.walk(n) if isinstance(x, ast.Attribute)
                     and isinstance(x.value, ast.Name) and x.value.id == 'IMPL']
            tg = sorted({c.attr for c in calls})
            fac[n.name] = tg
    for e in entries:
        fs = sorted(set().union(*[uses.get(f, set()) for f, tg in fac.items() if tg == [e['name']]] or [set()]))
        e['usedIn'] = fs
        e['reachable'] = any(f not in SYSTEM_FILES for f in fs) and e['name'] not in SYSTEM_ONLY
        e['facade'] = sorted(f for f, tg in fac.items() if e['name'] in tg)
    odd = {f: tg for f, tg in fac.items() if tg and (len(tg) != 1 or tg[0] != f)}
    for f in uses:
        if f not in fac:
            raise Refuse('use of db_api.%s which the facade does not define' % f)
    shapes = {}
    for nm in ('_get_criterion', 'create_resource_member', 'get_resource_member',
               'get_resource_members', 'update_resource_member', 'delete_resource_member'):
        shapes[nm] = shape_hash(_func(api_tree, nm))
    mt = _parse(repo, MEMBER_CTL)
    for nm in ('post', 'put', 'delete'):
        shapes['MembersController.' + nm] = shape_hash(_func(mt, nm, 'MembersController'))
    shapes['rest_utils.get_all'] = shape_hash(_func(_parse(repo, REST_UTILS), 'get_all'))
    for k, v in skel.items():
        shapes['skeleton:' + k] = v
    return {'spec': spec, 'own': own, 'forcing': forcing, 'all_models': all_models,
            'secure': secure, 'has_system': has_system, 'entries': entries,
            'insecure_sites': insecure_sites, 'scanned': scanned, 'shapes': shapes,
            'facade_odd': odd}


KIND = {'get': '.get', 'load': '.load', 'list': '.list', 'count': '.count', 'create': '.create',
        'update': '.update', 'delete': '.delete', 'deleteAll': '.deleteAll',
        'createOrUpdate': '.createOrUpdate', 'other': '.other', 'infra': '.infra'}
KEY = {'id': '.id', 'name': '.name', 'ident': '.ident', 'filters': '.filters', 'none': '.none',
       'member': '.member', 'special': '.special'}
READ = {'secure': '.secure', 'admin': '.admin', 'adminOrParam': '.adminOrParam',
        'param': '.param', 'insecure': '.insecure', 'none': '.none', 'n/a': '.none'}
MUT = {'none': '.none', 'create': '.create', 'update': '.update', 'delete': '.delete',
       'cas': '.cas'}


def render(t):
    sp, own, fo = t['spec'], t['own'], t['forcing']
    out = []
    out.append('-- GENERATED by translate/db_access.py from %s (+ models.py, model_base.py, '
               'db/utils.py, security.py, api/, services/, std_functions.py); do not edit.' % API)
    out.append('import Mistral.Model.Access')
    out.append('namespace Mistral.Gen.DbAccess')
    out.append('open Mistral.Access')
    out.append('')
    out.append('/-- `_secure_query` / `_get_accepted_resources` / RESOURCE_MAPPING -/')
    out.append('def secureSpec : SecureSpec := {')
    out.append('  ownProject := %s, publicScope := %s, sharedIds := %s,' % (
        lbool(sp['ownProject']), lbool(sp['publicScope']), lbool(sp['sharedIds'])))
    out.append('  accType := %s, accStatus := %s, accMember := %s,' % (
        lbool(sp['accType']), lbool(sp['accStatus']), lbool(sp['accMember'])))
    out.append('  shareTypes := [%s],' % ', '.join('(%s, %s)' % (lstr(a), lstr(b)) for a, b in sp['shareTypes']))
    out.append('  secureModels := [%s] }' % ', '.join(lstr(m) for m in t['secure']))
    out.append('')
    out.append('/-- `check_db_obj_access` -/')
    out.append('def ownerSpec : OwnerSpec := {')
    out.append('  adminExempt := %s, projectMismatch := %s, onlyIfNotPublic := %s,' % (
        lbool(own['adminExempt']), lbool(own['projectMismatch']), lbool(own['onlyIfNotPublic'])))
    out.append('  sysAdminExempt := %s, sysFlag := %s,' % (lbool(own['sysAdminExempt']), lbool(own['sysFlag'] and own['sysHasAttr'])))
    out.append('  systemModels := [%s] }' % ', '.join(lstr(m) for m in t['has_system']))
    out.append('')
    out.append('/-- `_set_project_id` listener, column default, hook registration -/')
    out.append('def forcingSpec : ForcingSpec := { setForced := %s, defaultCaller := %s, hooksRegistered := %s, unhooked := [%s] }' % (
        lbool(fo['setForced']), lbool(fo['defaultCaller']), lbool(fo['hooksRegistered']),
        ', '.join(lstr(m) for m in fo['lateClasses'] if m in t['secure'])))
    out.append('')
    out.append('def allModels : List String := [%s]' % ', '.join(lstr(m) for m in t['all_models']))
    out.append('')
    out.append('def fns : List FnInfo := [')
    rows = []
    for e in t['entries']:
        rows.append('  { name := %s, model := %s, kind := %s, key := %s, read := %s, mutn := %s, '
                    'bulk := %s, ownerCheck := %s, sysCheck := %s, notFound := %s, reachable := %s, known := %s }'
                    % (lstr(e['name']), lstr(e['model']), KIND[e['kind']], KEY[e['key']],
                       READ[e['read']], MUT[e['mut']], lbool(e['bulk']), lbool(e['ownerCheck']),
                       lbool(e['sysCheck']), lbool(e['notFound']), lbool(e['reachable']), lbool(e['status'] == 'ok')))
    out.append(',\n'.join(rows))
    out.append(']')
    out.append('')
    out.append('/-- functions the interpreter could not classify (fail closed: named here) -/')
    out.append('def unknownFns : List (String × String) := [%s]' % ', '.join(
        '(%s, %s)' % (lstr(e['name']), lstr(e.get('reason', ''))) for e in t['entries'] if e['status'] != 'ok'))
    out.append('')
    out.append('/-- secondary effects of a function on other models (kind:model:mode) -/')
    out.append('def extraEffects : List (String × List String) := [')
    out.append(',\n'.join('  (%s, [%s])' % (lstr(e['name']), ', '.join(lstr(x) for x in e['extra']))
                          for e in t['entries'] if e['extra']))
    out.append(']')
    out.append('')
    out.append('/-- where each reachable function is used (files) -/')
    out.append('def usedIn : List (String × List String) := [')
    out.append(',\n'.join('  (%s, [%s])' % (lstr(e['name']), ', '.join(lstr(x) for x in e['usedIn']))
                          for e in t['entries'] if e['usedIn']))
    out.append(']')
    out.append('')
    out.append('/-- call sites in api/, services/, std_functions.py, rest_utils.py that pass `insecure=` -/')
    out.append('def insecureSites : List (String × String × String × String) := [')
    out.append(',\n'.join('  (%s, %s, %s, %s)' % tuple(lstr(x) for x in s) for s in t['insecure_sites']))
    out.append(']')
    out.append('')
    out.append('/-- AST hashes of code that is modelled by hand -/')
    out.append('def shapes : List (String × String) := [')
    out.append(',\n'.join('  (%s, %s)' % (lstr(k), lstr(v)) for k, v in sorted(t['shapes'].items())))
    out.append(']')
    out.append('')
    out.append('end Mistral.Gen.DbAccess')
    return '\n'.join(out) + '\n'


def generate(repo):
    t = build(repo)
    return {'files': {'DbAccess': render(t)},
            'sources': [API, MODELS, MODEL_BASE, DBUTILS, SECURITY, MEMBER_CTL, REST_UTILS, STD_FUNCS,
                        'mistral/db/v2/api.py']}


if __name__ == '__main__':
    import json
    import sys
    t = build(sys.argv[1] if len(sys.argv) > 1 else '/repo')
    for e in t['entries']:
        print('%-48s %-24s %-14s %-8s %-13s %-7s bulk=%d own=%d nf=%d reach=%d %s %s' % (
            e['name'], e['model'], e['kind'], e['key'], e['read'], e['mut'], e['bulk'],
            e['ownerCheck'], e['notFound'], e['reachable'], e['status'],
            e.get('reason', '') or ' '.join(e['extra'])))
    print(json.dumps({k: t[k] for k in ('spec', 'own', 'forcing', 'secure', 'has_system', 'shapes',
                                         'insecure_sites', 'facade_odd')}, indent=1))
