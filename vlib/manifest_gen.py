"""Generates MANIFEST.json from the property modules present (keeps it valid at all times)."""
import importlib
import json
import os
import sys

VERIF = os.path.dirname(os.path.dirname(os.path.abspath(__file__)))
sys.path.insert(0, VERIF)

ALL = ['C%02d' % i for i in range(1, 21)]

BASELINE_OFF = ("cd /repo && env -u OPENSTACK_MISTRAL_VERIF /venv/bin/python -m pytest -ra -q "
                "-p no:cacheprovider --timeout=900 --continue-on-collection-errors")


def main():
    checks = []
    na = []
    for pid in ALL:
        path = os.path.join(VERIF, 'props', pid + '.py')
        if not os.path.exists(path):
            na.append({'property_id': pid,
                       'reason': 'not yet claimed: model/theorems/correspondence for this property '
                                 'are not built yet (work in progress, see DESIGN.md section 5)'})
            continue
        src = open(path).read()
        meta = {}
        # MANIFEST dict literal in the module, read without importing mistral
        import ast
        tree = ast.parse(src)
        for node in tree.body:
            if isinstance(node, ast.Assign) and getattr(node.targets[0], 'id', '') == 'MANIFEST':
                meta = ast.literal_eval(node.value)
        checks.append({
            'property_id': pid,
            'quick_cmd': './check %s --tier quick' % pid,
            'thorough_cmd': './check %s --tier thorough' % pid,
            'replay_cmd_template': './check %s --replay {path}' % pid,
            'evidence_file': '/verif/evidence/%s.json' % pid,
            'engine': meta.get('engine', 'lean-model'),
            'level_claimed': {'category': 'proof', 'text': meta.get('text', ''),
                              'design_ref': meta.get('design_ref', 'DESIGN.md section 5 ' + pid)},
            'level_note': meta.get('note', ''),
            'technique': meta.get('technique', 'Lean 4 theorems over an executable model + '
                                               'model/implementation correspondence check'),
        })
    man = {
        'version': 1,
        'setup_cmd': 'cd /verif && ./check --setup',
        'hooks': {
            'guard': 'OPENSTACK_MISTRAL_VERIF',
            'enable': 'no source hook is needed: the harness drives the real code in-process by '
                      'monkeypatching (post-commit thread, RPC client, scheduler, executor, clock); '
                      'checks export OPENSTACK_MISTRAL_VERIF=1 anyway',
            'baseline_off_cmd': BASELINE_OFF,
            'source_commits': [],
            'add_only': True,
        },
        'engines': [
            {'name': 'lean-model', 'path': 'lean/', 'kind_free_text':
             'Lean 4 executable model (Mistral/Model), regenerated tables (Mistral/Gen), property '
             'theorems (Mistral/Props), compiled line-protocol driver (Driver.lean)'},
            {'name': 'translators', 'path': 'translate/', 'kind_free_text':
             'Tie A: python AST/import translators from /repo sources to Lean tables'},
            {'name': 'harness', 'path': 'harness/', 'kind_free_text':
             'Tie B: deterministic in-process drivers of the real implementation, generators, monitors'},
        ],
        'checks': checks,
        'not_applicable': na,
        'notes': 'single CLI ./check; see DESIGN.md. fix: commits in /repo are listed in known_findings.json',
    }
    with open(os.path.join(VERIF, 'MANIFEST.json'), 'w') as f:
        json.dump(man, f, indent=1)
    print('MANIFEST: %d checks, %d not_applicable' % (len(checks), len(na)))


if __name__ == '__main__':
    main()
