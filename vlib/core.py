"""Core of the /verif check machinery.

One check run = translate (Tie A) -> prove (lake build + axiom audit) ->
correspond (Tie B: Lean driver vs implementation) -> monitor -> verdict ->
evidence.  See DESIGN.md section 2.4.

Exit codes: 0 held, 1 violation (with a VIOLATION line), 2 infrastructure.
"""
import fcntl
import hashlib
import importlib
import json
import os
import random
import re
import subprocess
import sys
import time
import traceback

VERIF = os.path.dirname(os.path.dirname(os.path.abspath(__file__)))
REPO = os.environ.get('VERIF_REPO', '/repo')
LEAN_DIR = os.path.join(VERIF, 'lean')
GEN_DIR = os.path.join(LEAN_DIR, 'Mistral', 'Gen')
OUT_DIR = os.path.join(VERIF, 'out')
EVID_DIR = os.path.join(VERIF, 'evidence')
DRIVER_BIN = os.path.join(LEAN_DIR, '.lake', 'build', 'bin', 'driver')
ALLOWED_AXIOMS = {'propext', 'Classical.choice', 'Quot.sound'}
FORBIDDEN = re.compile(
    r'\bsorry\b|\badmit\b|^axiom |native_decide|bv_decide|implemented_by|'
    r'\bunsafe |maxHeartbeats 0', re.M)

TRUSTED_COMMON = [
    "Lean 4.33.0 kernel; axioms allowed per theorem: propext, "
    "Classical.choice, Quot.sound (audited by #print axioms on every run); "
    "no native_decide / bv_decide / sorry / added axioms (grep on every run)",
]


class Infra(Exception):
    """Infrastructure failure (exit 2, never a VIOLATION)."""


def sha(path):
    try:
        with open(path, 'rb') as f:
            return hashlib.sha256(f.read()).hexdigest()[:16]
    except OSError:
        return None


def canon(obj):
    return json.dumps(obj, sort_keys=True, separators=(',', ':'),
                      default=str)


class BuildLock(object):
    def __enter__(self):
        os.makedirs(os.path.join(LEAN_DIR, '.lake'), exist_ok=True)
        self.f = open(os.path.join(LEAN_DIR, '.lake', 'verif.lock'), 'w')
        fcntl.flock(self.f, fcntl.LOCK_EX)
        return self

    def __exit__(self, *a):
        fcntl.flock(self.f, fcntl.LOCK_UN)
        self.f.close()


def strip_lean_comments(src):
    # remove /- ... -/ (nested) and -- ... comments
    out = []
    i = 0
    depth = 0
    n = len(src)
    while i < n:
        if src.startswith('/-', i):
            depth += 1
            i += 2
        elif depth and src.startswith('-/', i):
            depth -= 1
            i += 2
        elif depth:
            i += 1
        elif src.startswith('--', i):
            while i < n and src[i] != '\n':
                i += 1
        else:
            out.append(src[i])
            i += 1
    return ''.join(out)


class Driver(object):
    """Line protocol to the compiled Lean model driver."""

    def __init__(self):
        if not os.path.exists(DRIVER_BIN):
            raise Infra('driver binary missing: %s' % DRIVER_BIN)
        self.p = subprocess.Popen([DRIVER_BIN], stdin=subprocess.PIPE,
                                  stdout=subprocess.PIPE, bufsize=1 << 20)
        self.calls = 0

    def call(self, fn, args):
        line = canon({'fn': fn, 'args': args})
        self.p.stdin.write(line.encode() + b'\n')
        self.p.stdin.flush()
        out = self.p.stdout.readline()
        self.calls += 1
        if not out:
            raise Infra('driver died on %s' % line[:300])
        return json.loads(out)

    def batch(self, fn, arg_list):
        """Send many calls, then read the answers (pipelined)."""
        res = []
        CH = 2000
        for i in range(0, len(arg_list), CH):
            chunk = arg_list[i:i + CH]
            data = b''.join(canon({'fn': fn, 'args': a}).encode() + b'\n'
                            for a in chunk)
            # write in a thread-free way: driver answers line by line, and
            # pipes have finite buffers, so interleave for big chunks
            import threading
            t = threading.Thread(target=self._w, args=(data,))
            t.start()
            for _ in chunk:
                out = self.p.stdout.readline()
                if not out:
                    raise Infra('driver died in batch %s' % fn)
                res.append(json.loads(out))
            t.join()
            self.calls += len(chunk)
        return res

    def _w(self, data):
        self.p.stdin.write(data)
        self.p.stdin.flush()

    def close(self):
        try:
            self.p.stdin.close()
            self.p.wait(timeout=5)
        except Exception:
            self.p.kill()


class Ctx(object):
    def __init__(self, prop, tier, seed):
        self.prop = prop
        self.tier = tier
        self.seed = seed
        self.rng = random.Random('%s-%s' % (prop, seed))
        self.t0 = time.time()
        self.mod = importlib.import_module('props.%s' % prop)
        self.violations = []       # concrete, replayable
        self.known_hit = []
        self.broken = []           # obligations / correspondences that no longer check
        self.cov = {
            'evaluations': 0, 'distinct_nontrivial': 0, 'rule': '',
            'samples': [], 'obligations': 0, 'discharged': 0,
            'checker_cmd': '', 'trusted_base': list(TRUSTED_COMMON),
            'disagreements_checked': 0, 'streams': {}, 'gen_tables': {},
            'partial': [], 'theorems': [],
        }
        self.assumptions = []
        self._driver = None
        self._nontrivial = set()
        self.known = self._load_known()
        self._printed = set()

    # ------------------------------------------------------------ helpers
    def thorough(self):
        return self.tier == 'thorough'

    def n(self, quick, thorough):
        return thorough if self.thorough() else quick

    def driver(self):
        if self._driver is None:
            self._driver = Driver()
        return self._driver

    def _load_known(self):
        import glob
        res = []
        for p in [os.path.join(VERIF, 'known_findings.json')] + sorted(
                glob.glob(os.path.join(VERIF, 'known_findings.d', '*.json'))):
            try:
                with open(p) as f:
                    res += [e for e in json.load(f)['findings']
                            if e.get('status') == 'known']
            except OSError:
                pass
        return res

    # ------------------------------------------------------------ Tie A
    def translate(self, names):
        """Regenerate Gen/<Name>.lean for each translator name."""
        from vlib import genroot
        genroot.generate()
        ok = True
        for name in names:
            try:
                mod = importlib.import_module('translate.%s' % name)
                importlib.reload(mod)
                outs = mod.generate(REPO)   # {LeanModuleName: text}, sources
                for lean_name, text in outs['files'].items():
                    path = os.path.join(GEN_DIR, lean_name + '.lean')
                    old = None
                    if os.path.exists(path):
                        with open(path) as f:
                            old = f.read()
                    if old != text:
                        with open(path, 'w') as f:
                            f.write(text)
                    self.cov['gen_tables'][lean_name] = {
                        'lean_sha': sha(path),
                        'sources': {s: sha(os.path.join(REPO, s))
                                    for s in outs.get('sources', [])}}
            except Exception as e:
                ok = False
                self.broken_tie('translator', name,
                                'translator %s refused: %s: %s' % (
                                    name, type(e).__name__, e))
        return ok

    # ------------------------------------------------------------ prove
    def prove(self, prop_modules=None, extra_targets=()):
        """lake build the property module(s) and the driver, then audit."""
        mods = prop_modules or ['Mistral.Props.%s' % self.prop]
        cmd = ['lake', 'build'] + mods + ['driver'] + list(extra_targets)
        self.cov['checker_cmd'] = 'cd lean && ' + ' '.join(cmd) + \
            ' && lake env lean .audit/<module>.lean  (#print axioms)'
        r = subprocess.run(cmd, cwd=LEAN_DIR, stdout=subprocess.PIPE,
                           stderr=subprocess.STDOUT, text=True)
        build_ok = r.returncode == 0
        build_log = r.stdout
        if not build_ok:
            # is the driver itself still buildable?
            r2 = subprocess.run(['lake', 'build', 'driver'], cwd=LEAN_DIR,
                                stdout=subprocess.PIPE,
                                stderr=subprocess.STDOUT, text=True)
            if r2.returncode != 0:
                self.broken_tie('build', 'driver',
                                'model driver does not build:\n' +
                                r2.stdout[-3000:])
        total = 0
        done = 0
        for m in mods:
            t, d = self._audit(m, build_ok, build_log)
            total += t
            done += d
        self.cov['obligations'] = total
        self.cov['discharged'] = done
        return build_ok

    def _theorems_of(self, module):
        path = os.path.join(LEAN_DIR, *module.split('.')) + '.lean'
        with open(path) as f:
            src = f.read()
        code = strip_lean_comments(src)
        bad = FORBIDDEN.findall(code)
        names = []
        ns = []
        for line in code.split('\n'):
            m = re.match(r'\s*namespace\s+(\S+)', line)
            if m:
                ns.append(m.group(1))
                continue
            m = re.match(r'\s*end\s+(\S+)', line)
            if m and ns and ns[-1] == m.group(1):
                ns.pop()
                continue
            m = re.match(r'\s*(?:@\[[^\]]*\]\s*)?(?:private\s+|protected\s+)?theorem\s+(\S+)', line)
            if m:
                names.append('.'.join(ns + [m.group(1)]))
        return names, bad, code

    def _imports_closure(self, module, seen):
        """project-local import closure of a module (for the forbidden grep)."""
        if module in seen or not module.startswith('Mistral'):
            return
        path = os.path.join(LEAN_DIR, *module.split('.')) + '.lean'
        if not os.path.exists(path):
            return
        seen.add(module)
        with open(path) as f:
            for line in f:
                m = re.match(r'\s*(?:public\s+)?import\s+(\S+)', line)
                if m:
                    self._imports_closure(m.group(1), seen)

    def _audit(self, module, build_ok, build_log):
        names, bad, _ = self._theorems_of(module)
        self.cov['theorems'] += names
        self.cov['partial'] += [n for n in names if n.endswith('_partial')]
        closure = set()
        self._imports_closure(module, closure)
        for m in sorted(closure):
            _, b, _ = self._theorems_of(m)
            if b:
                self.broken_tie('forbidden', m,
                                'forbidden construct(s) %s in %s' % (sorted(set(b)), m))
        if not build_ok:
            # which theorem broke? take error lines
            errs = [l for l in build_log.split('\n') if 'error' in l][:20]
            self.broken_tie('theorem', module,
                            'lake build of %s failed:\n%s' % (module, '\n'.join(errs) or build_log[-2000:]))
            return len(names), 0
        adir = os.path.join(LEAN_DIR, '.audit')
        os.makedirs(adir, exist_ok=True)
        afile = os.path.join(adir, module.replace('.', '_') + '.lean')
        with open(afile, 'w') as f:
            f.write('import %s\n' % module)
            for n in names:
                f.write('#print axioms %s\n' % n)
        r = subprocess.run(['lake', 'env', 'lean', afile], cwd=LEAN_DIR,
                           stdout=subprocess.PIPE, stderr=subprocess.STDOUT,
                           text=True)
        out = r.stdout
        done = 0
        # output blocks: "'X' depends on axioms: [a, b]" or "'X' does not depend on any axioms"
        flat = re.sub(r'\s+', ' ', out)
        for n in names:
            m = re.search(r"'%s' depends on axioms: \[([^\]]*)\]" % re.escape(n), flat)
            if m:
                axs = {a.strip() for a in m.group(1).split(',') if a.strip()}
                if axs <= ALLOWED_AXIOMS:
                    done += 1
                else:
                    self.broken_tie('axioms', n, 'theorem %s depends on %s' % (n, sorted(axs - ALLOWED_AXIOMS)))
            elif re.search(r"'%s' does not depend on any axioms" % re.escape(n), flat):
                done += 1
            else:
                self.broken_tie('audit', n, 'no #print axioms line for %s: %s' % (n, out[-500:]))
        return len(names), done

    # ------------------------------------------------------------ reporting
    def stream(self, name):
        return self.cov['streams'].setdefault(
            name, {'evaluations': 0, 'distinct_nontrivial': 0,
                   'distribution': {}, 'disagreements': 0})

    def count(self, stream, key, k=1):
        d = self.stream(stream)['distribution']
        d[key] = d.get(key, 0) + k

    def evaluated(self, stream, case_key=None, nontrivial=False, k=1):
        s = self.stream(stream)
        s['evaluations'] += k
        self.cov['evaluations'] += k
        if nontrivial and case_key is not None:
            h = hashlib.sha1(canon([stream, case_key]).encode()).hexdigest()
            if h not in self._nontrivial:
                self._nontrivial.add(h)
                s['distinct_nontrivial'] += 1
                self.cov['distinct_nontrivial'] += 1

    def sample(self, obj, limit=6):
        if len(self.cov['samples']) < limit:
            self.cov['samples'].append(obj)

    def broken_tie(self, kind, name, detail):
        self.broken.append({'kind': kind, 'name': name, 'detail': detail})

    def disagree(self, stream, case, model_out, impl_out):
        """Model and implementation differ on a case (not yet a violation)."""
        self.stream(stream)['disagreements'] += 1
        if len([b for b in self.broken if b['kind'] == 'correspondence'
                and b['name'] == stream]) < 5:
            self.broken_tie('correspondence', stream, {
                'case': case, 'model': model_out, 'impl': impl_out})

    def violation(self, what, replay, signature=None):
        """A concrete input/history on which the property fails on the
        implementation.  signature identifies the class for known_findings."""
        signature = signature or {}
        for k in self.known:
            if k['property'] == self.prop and k['signature'] == signature:
                key = canon(signature)
                if key not in self._printed:
                    self._printed.add(key)
                    print('KNOWN-FINDING: property=%s %s' % (self.prop, k['what']))
                    self.known_hit.append(k['what'])
                return False
        self.violations.append({'what': what, 'signature': signature,
                                'replay': replay})
        return True

    # ------------------------------------------------------------ finish
    def finish(self):
        if self._driver:
            self._driver.close()
        os.makedirs(OUT_DIR, exist_ok=True)
        os.makedirs(EVID_DIR, exist_ok=True)
        rc = 0
        lines = []
        if self.violations:
            rc = 1
            seen = set()
            for v in self.violations:
                key = canon(v['signature']) if v['signature'] else canon(v['what'])
                if key in seen:
                    continue
                seen.add(key)
                h = hashlib.sha1(canon(v).encode()).hexdigest()[:10]
                path = os.path.join(OUT_DIR, '%s-%s.json' % (self.prop, h))
                with open(path, 'w') as f:
                    json.dump({'property': self.prop, 'seed': self.seed,
                               'tier': self.tier, **v,
                               'broken_obligations': self.broken}, f,
                              indent=1, default=str)
                lines.append('VIOLATION property=%s replay=%s' % (self.prop, path))
        elif self.broken:
            rc = 1
            h = hashlib.sha1(canon(self.broken).encode()).hexdigest()[:10]
            path = os.path.join(OUT_DIR, '%s-broken-%s.json' % (self.prop, h))
            with open(path, 'w') as f:
                json.dump({'property': self.prop, 'seed': self.seed,
                           'tier': self.tier,
                           'no_longer_checks': self.broken,
                           'note': 'a proof obligation or the model/implementation '
                                   'correspondence no longer checks and the failing-input '
                                   'search found no concrete failing input'},
                          f, indent=1, default=str)
            lines.append('VIOLATION property=%s replay=%s no-failing-input-found'
                         % (self.prop, path))
        cov = self.cov
        cov['known_findings_hit'] = self.known_hit
        cov['broken'] = [{'kind': b['kind'], 'name': b['name']} for b in self.broken]
        if not cov['rule']:
            cov['rule'] = getattr(self.mod, 'RULE', '')
        ev = {
            'property_id': self.prop, 'tier': self.tier, 'seed': self.seed,
            'level': 'proof', 'coverage': cov,
            'assumptions': self.assumptions + getattr(self.mod, 'ASSUMPTIONS', []),
            'wall_s': round(time.time() - self.t0, 2),
            'violations': len(lines),
        }
        with open(os.path.join(EVID_DIR, '%s.json' % self.prop), 'w') as f:
            json.dump(ev, f, indent=1, default=str)
        for l in lines:
            print(l)
        print('%s tier=%s seed=%s obligations=%d discharged=%d evaluations=%d '
              'nontrivial=%d broken=%d violations=%d known=%d wall=%.1fs' % (
                  self.prop, self.tier, self.seed, cov['obligations'],
                  cov['discharged'], cov['evaluations'],
                  cov['distinct_nontrivial'], len(self.broken),
                  len(self.violations), len(self.known_hit), ev['wall_s']))
        return rc


def run_check(prop, tier, seed, replay=None):
    sys.path.insert(0, VERIF)
    if os.environ.get('VERIF_REPO'):
        # run against a scratch copy of the repository (mutation testing of the checks)
        sys.path.insert(0, REPO)
    ctx = Ctx(prop, tier, seed)
    mod = ctx.mod
    try:
        if replay:
            with open(replay) as f:
                rep = json.load(f)
            with BuildLock():
                ctx.translate(getattr(mod, 'GEN', []))
                ctx.prove(getattr(mod, 'LEAN_MODULES', None))
            mod.replay(ctx, rep)
            return ctx.finish()
        with BuildLock():
            ctx.translate(getattr(mod, 'GEN', []))
            ctx.prove(getattr(mod, 'LEAN_MODULES', None))
        ctx.cov['trusted_base'] += getattr(mod, 'TRUSTED', [])
        mod.correspond(ctx)
        if ctx.broken and not ctx.violations and hasattr(mod, 'search'):
            # failing-input search (DESIGN 2.4)
            mod.search(ctx)
        return ctx.finish()
    except Infra as e:
        print('INFRA-ERROR %s: %s' % (prop, e))
        return 2
    except Exception:
        traceback.print_exc()
        print('INFRA-ERROR %s: unexpected exception in the check machinery' % prop)
        return 2
