"""Run stream chunks in worker processes (each owns its sqlite DB and Lean driver) and merge
what they report into the parent Ctx."""
import hashlib
import importlib
import multiprocessing as mp
import os
import random
import sys
import traceback

from vlib import core


class SubCtx(object):
    """Worker-side stand-in for core.Ctx (same reporting API, picklable result)."""

    def __init__(self, prop, tier, seed, chunk):
        self.prop = prop
        self.tier = tier
        self.seed = seed
        self.chunk = chunk
        self.rng = random.Random('%s-%s-%s' % (prop, seed, chunk))
        self.streams = {}
        self.samples = []
        self.disagreements = []
        self.violations = []
        self.broken = []
        self.nontrivial = set()
        self._driver = None
        self.evaluations = 0

    def thorough(self):
        return self.tier == 'thorough'

    def n(self, quick, thorough):
        return thorough if self.thorough() else quick

    def driver(self):
        if self._driver is None:
            self._driver = core.Driver()
        return self._driver

    def stream(self, name):
        return self.streams.setdefault(name, {'evaluations': 0, 'distribution': {}, 'disagreements': 0})

    def count(self, stream, key, k=1):
        d = self.stream(stream)['distribution']
        d[key] = d.get(key, 0) + k

    def evaluated(self, stream, case_key=None, nontrivial=False, k=1):
        self.stream(stream)['evaluations'] += k
        if nontrivial and case_key is not None:
            h = hashlib.sha1(core.canon([stream, case_key]).encode()).hexdigest()
            self.nontrivial.add((stream, h))

    def sample(self, obj, limit=3):
        if len(self.samples) < limit:
            self.samples.append(obj)

    def disagree(self, stream, case, model_out, impl_out):
        self.stream(stream)['disagreements'] += 1
        if len(self.disagreements) < 5:
            self.disagreements.append((stream, case, model_out, impl_out))

    def broken_tie(self, kind, name, detail):
        self.broken.append((kind, name, detail))

    def violation(self, what, replay, signature=None):
        if len(self.violations) < 20:
            self.violations.append((what, replay, signature))
        return True

    def dump(self):
        if self._driver:
            self._driver.close()
        return {'streams': self.streams, 'samples': self.samples, 'disagreements': self.disagreements,
                'violations': self.violations, 'nontrivial': list(self.nontrivial), 'broken': self.broken}


def _worker(args):
    prop, tier, seed, chunk, modname, fnname, kw, repo = args
    try:
        sys.path.insert(0, core.VERIF)
        if repo:
            sys.path.insert(0, repo)
        import warnings
        warnings.filterwarnings('ignore')
        sub = SubCtx(prop, tier, seed, chunk)
        mod = importlib.import_module(modname)
        getattr(mod, fnname)(sub, **kw)
        return sub.dump()
    except Exception:
        return {'error': traceback.format_exc()}


def run_parallel(ctx, modname, fnname, chunks, nproc=None):
    """chunks: list of kwargs dicts, one per work item."""
    nproc = nproc or min(len(chunks), int(os.environ.get('VERIF_NPROC', '14')))
    repo = os.environ.get('VERIF_REPO')
    args = [(ctx.prop, ctx.tier, ctx.seed, i, modname, fnname, kw, repo) for i, kw in enumerate(chunks)]
    mpctx = mp.get_context('spawn')
    with mpctx.Pool(nproc, maxtasksperchild=4) as pool:
        results = pool.map(_worker, args, chunksize=1)
    for r in results:
        if 'error' in r:
            raise core.Infra('stream worker failed:\n' + r['error'])
        for name, s in r['streams'].items():
            t = ctx.stream(name)
            t['evaluations'] += s['evaluations']
            ctx.cov['evaluations'] += s['evaluations']
            for k, v in s['distribution'].items():
                t['distribution'][k] = t['distribution'].get(k, 0) + v
        for (stream, h) in r['nontrivial']:
            if h not in ctx._nontrivial:
                ctx._nontrivial.add(h)
                ctx.stream(stream)['distinct_nontrivial'] += 1
                ctx.cov['distinct_nontrivial'] += 1
        for smp in r['samples']:
            ctx.sample(smp)
        for (stream, case, mo, io) in r['disagreements']:
            ctx.disagree(stream, case, mo, io)
        for (kind, name, detail) in r['broken']:
            ctx.broken_tie(kind, name, detail)
        for (what, replay, sig) in r['violations']:
            ctx.violation(what, replay, sig)
