/- Line protocol: one JSON object {"fn":..,"args":..} per line in, one JSON value per line out.
   Unknown input is answered with "bad-op", never defaulted. -/
import Lean.Data.Json
import Mistral.Drv.Egress
open Lean

def handlers : List (String → Json → Option (Except String Json)) :=
  [Mistral.Drv.Egress.handle]

def dispatch (fn : String) (args : Json) : Json :=
  let rec go : List (String → Json → Option (Except String Json)) → Json
    | [] => Json.str "bad-op"
    | h :: hs => match h fn args with
      | some (.ok j) => j
      | some (.error e) => Json.mkObj [("bad-args", Json.str e)]
      | none => go hs
  go handlers

partial def loop (hin hout : IO.FS.Stream) : IO Unit := do
  let line ← hin.getLine
  if line.isEmpty then return ()
  let out := match Json.parse line with
    | .error _ => Json.str "bad-op"
    | .ok j => match j.getObjValAs? String "fn", j.getObjVal? "args" with
      | .ok fn, .ok args => dispatch fn args
      | _, _ => Json.str "bad-op"
  hout.putStrLn out.compress
  hout.flush
  loop hin hout

def main : IO Unit := do
  loop (← IO.getStdin) (← IO.getStdout)
