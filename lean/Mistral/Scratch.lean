import Mistral.Lemmas.Race
import Mistral.Gen.RaceScripts
open Mistral.Race Mistral.Gen.RaceScripts

set_option maxRecDepth 4000
set_option linter.unusedSimpArgs false

theorem succeed_atomic (sched : Nat → Intf) (vars : Fields) (row0 : Row) :
    let x := runWith succeedWorkflow sched vars row0
    let rr := pre sched 1 row0
    let rc := pre sched 4 row0
    (x.sh.db = pre sched 11 row0 ∧ x.l.flags 0 = false ∧ x.l.emitted = []) ∨
    (rr.alive = true ∧ memVals validFromSuccess (rr.f 0) = true ∧ rc.alive = true ∧ rc.f 0 = rr.f 0 ∧
      x.sh.db = between sched 4 7 (winRow (.str "SUCCESS") (vars 1) (vars 2) rr rc) ∧ x.l.flags 0 = true ∧
      x.l.emitted = if (rr.f 4).truthy then [1] else []) := by
  intro x rr rc
  by_cases h1 : (pre sched 1 row0).alive = true
  · by_cases h2 : memVals validFromSuccess ((pre sched 1 row0).f 0) = true
    · by_cases h3 : (pre sched 4 row0).alive = true ∧ (pre sched 4 row0).f 0 = (pre sched 1 row0).f 0
      · right
        obtain ⟨h3a, h3b⟩ := h3
        refine ⟨h1, h2, h3a, h3b, ?_⟩
        simp only [pre, validFromSuccess] at h1 h2 h3a h3b
        simp only [x, rr, rc, succeedWorkflow]
        by_cases h4 : vars 1 = (sched 0 row0).f 1 <;> by_cases h5 : Val.bool true = (sched 0 row0).f 3 <;>
          by_cases h6 : ((sched 0 row0).f 4).truthy = true <;>
          (race_simp [h1, h2, h3a, h3b, h4, h5, h6, winRow]
           try race_rows)
        all_goals trace_state
        all_goals sorry
      · left
        simp only [pre, validFromSuccess] at h1 h2 h3
        simp only [x, succeedWorkflow]
        race_simp [h1, h2, h3]
    · left
      simp only [pre, validFromSuccess] at h1 h2
      simp only [x, succeedWorkflow]
      race_simp [h1, h2]
  · left
    simp only [pre] at h1
    simp only [x, succeedWorkflow]
    race_simp [h1]
