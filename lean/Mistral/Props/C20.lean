/-
C20 — Lost executors and stuck tasks are detected and the run moves on exactly once.

Property theorems only.  Model: Mistral/Model/Heartbeat.lean (tied to the real
`handle_expired_actions`, `process_action_heartbeats`, `on_action_complete` and
`_check_and_fix_integrity` by the `heartbeat` correspondence stream, one transaction at a time);
the comparison operators, filters, caught exceptions, scheduling delays and option defaults are
regenerated from the source into Mistral/Gen/HeartbeatDefaults.lean on every run (Tie A), the state
predicates into Mistral/Gen/States.lean.  Lemmas: Mistral/Lemmas/Heartbeat.lean.
-/
import Mistral.Model.Heartbeat
import Mistral.Lemmas.Heartbeat

namespace Mistral.Props.C20
open Mistral Mistral.Heartbeat Mistral.Gen.HeartbeatDefaults

/-! ## "A running synchronous action whose executor stops sending heartbeats is failed after the
configured number of missed intervals (or the first-heartbeat grace period)" -/

/-- The checker's query returns a row exactly when it is an action execution that is RUNNING,
    synchronous, and whose last heartbeat is *strictly* older than `now − max_missed·interval`. -/
theorem expired_iff (cfg : Config) (now : Int) (a : Action) :
    expired cfg now a = true ↔
      a.isWf = false ∧ a.state = .RUNNING ∧ a.isSync = true ∧
      a.lastHeartbeat < now - ((cfg.maxMissed * cfg.checkInterval : Nat) : Int) := by
  simp only [expired, olderThan, threshold, expiryCmpStrict, queryFiltersSync, queryFiltersRunning,
    if_true, Bool.not_true, Bool.or_false, Bool.and_eq_true, Bool.not_eq_true', beq_iff_eq]
  constructor
  · rintro ⟨⟨⟨h1, h2⟩, h3⟩, h4⟩; exact ⟨h1, h4, h3, of_decide_eq_true h2⟩
  · rintro ⟨h1, h4, h3, h2⟩; exact ⟨⟨⟨h1, decide_eq_true h2⟩, h3⟩, h4⟩

/-- "the first-heartbeat grace period": a new action execution starts with its deadline at
    creation time + `first_heartbeat_timeout`. -/
theorem first_deadline (cfg : Config) (t0 : Int) (sync : Bool) (task : Option Nat) :
    (spawn cfg t0 sync task).lastHeartbeat = t0 + cfg.firstTimeout ∧
    (spawn cfg t0 sync task).state = .RUNNING := by
  simp [spawn, firstDeadlineAddsTimeout]

/-- An action that never sends a heartbeat is returned by the query exactly from
    `creation + first_heartbeat_timeout + max_missed·interval + 1` on. -/
theorem silent_action_expired_iff (cfg : Config) (t0 now : Int) (task : Option Nat) :
    expired cfg now (spawn cfg t0 true task) = true ↔
      t0 + cfg.firstTimeout + ((cfg.maxMissed * cfg.checkInterval : Nat) : Int) < now := by
  rw [expired_iff]
  simp only [spawn, firstDeadlineAddsTimeout, if_true, true_and]
  omega

/-- `process_action_heartbeats` sets `last_heartbeat = now`: afterwards the action survives exactly
    `max_missed·interval` further seconds. -/
theorem heartbeat_refreshes (w : World) (ids : List Nat) (i : Nat) (a : Action)
    (ha : w.actions[i]? = some a) (hi : i ∈ ids) (hwf : a.isWf = false) :
    (heartbeatStep w ids).actions[i]? = some { a with lastHeartbeat := w.now } := by
  simp [heartbeatStep, ha, hi, hwf]

theorem heartbeated_expired_iff (cfg : Config) (now t : Int) (a : Action)
    (hr : a.state = .RUNNING) (hs : a.isSync = true) (hwf : a.isWf = false) :
    expired cfg now { a with lastHeartbeat := t } = true ↔
      t + ((cfg.maxMissed * cfg.checkInterval : Nat) : Int) < now := by
  rw [expired_iff]
  simp only [hr, hs, hwf, true_and]
  omega

/-- With the *generated* defaults the checker is enabled, and a silent action created at `t0` is
    returned exactly when `t0 + first_heartbeat_timeout + max_missed·check_interval < now`
    (3600 + 15·20 in the pinned tree). -/
theorem default_enabled_and_deadline (t0 now : Int) (task : Option Nat) :
    enabled defaultConfig = true ∧
    (expired defaultConfig now (spawn defaultConfig t0 true task) = true ↔
      t0 + (firstTimeoutDefault : Int) + ((maxMissedDefault * checkIntervalDefault : Nat) : Int) < now) := by
  refine ⟨by decide, ?_⟩
  exact silent_action_expired_iff defaultConfig t0 now task

/-- The full sentence is FALSE of the code (candidate defect R, confirmed): an expired action
    execution without a task (ad-hoc `start_action(..., save_result=True)`) is skipped by every
    pass (`get_task_execution(None)` raises DBEntityNotFoundError → `continue`), so it stays RUNNING
    forever. -/
theorem expired_action_failed_full_fails :
    ¬ (∀ (cfg : Config) (w : World) (i : Nat) (a : Action), w.actions[i]? = some a →
        expired cfg w.now a = true →
        ∃ a', (checkerPass cfg w).actions[i]? = some a' ∧ a'.state = .ERROR) := by
  intro h
  have := h ⟨1, 1, 0, 0, 20, 5⟩
    { now := 100, tasks := [],
      actions := [{ state := .RUNNING, isSync := true, lastHeartbeat := 0, hasParent := false,
                    task := none, updatedAt := 0 }] } 0 _ rfl (by decide)
  revert this
  decide

/-- …and it holds for every expired action whose task and workflow exist and whose definition is
    known, provided no action of the batch poisons the pass (see `broken_action_…` below): it is
    failed (ERROR, result accepted) by the next pass, through the same `accept` the engine applies
    to an executor's error result. -/
theorem expired_action_failed_partial (cfg : Config) (w : World) (i : Nat) (a : Action)
    (ha : w.actions[i]? = some a) (he : expired cfg w.now a = true)
    (hp : a.hasParent = true) (hd : a.defKnown = true) (hab : passAborts cfg w = false) :
    (checkerPass cfg w).actions[i]? = some (accept w.now a .error) ∧
    (accept w.now a .error).state = .ERROR ∧ (accept w.now a .error).accepted = true := by
  rw [checkerPass_action cfg w i a ha]
  have hs : selected cfg w i a = true := by simp [selected, he, queryLimitApplied]
  simp [hab, hs, processable, hp, hd, accept, resState]

/-- non-vacuity of `expired_action_failed_partial` -/
example : ∃ (cfg : Config) (w : World) (i : Nat) (a : Action), w.actions[i]? = some a ∧
    expired cfg w.now a = true ∧ a.hasParent = true ∧ a.defKnown = true ∧ passAborts cfg w = false :=
  ⟨⟨2, 5, 7, 0, 20, 5⟩,
   { now := 18, tasks := [{ state := .RUNNING, updatedAt := 0 }],
     actions := [{ state := .RUNNING, isSync := true, lastHeartbeat := 7, hasParent := true,
                   task := some 0, updatedAt := 0 }] }, 0, _, rfl, by decide, rfl, rfl, by decide⟩

/-! ## "its task and workflow then follow their normal error handling" -/

/-- The expiry is an ordinary error result: for a plain task the pass leaves the action row and its
    task exactly as `engine.on_action_complete(id, Result(error=…))` would (the workflow-level
    consequences are those of that task completion; checked end to end by the twin-run monitor of
    the `heartbeat` stream). -/
theorem expiry_is_error_result (cfg : Config) (w : World) (i t : Nat) (a : Action) (tk : Task)
    (ha : w.actions[i]? = some a) (ht : w.tasks[t]? = some tk) (hat : a.task = some t)
    (he : expired cfg w.now a = true) (hp : a.hasParent = true) (hd : a.defKnown = true)
    (hab : passAborts cfg w = false) (hplain : tk.withItems = false) :
    (checkerPass cfg w).actions[i]? = (resultStep w i .error).actions[i]? ∧
    ((checkerPass cfg w).tasks[t]?.map (·.state)) = ((resultStep w i .error).tasks[t]?.map (·.state)) := by
  have hwf : a.isWf = false := ((expired_iff cfg w.now a).1 he).1
  have hnc : isCompleted a.state = false := expired_not_completed cfg w.now a he
  have hrr : (resultReject w i).isSome = false := by
    simp [resultReject, ha, hwf, hd, hnc]
  have hs : selected cfg w i a = true := by simp [selected, he, queryLimitApplied]
  have hlt : i < w.actions.length := by
    rcases List.getElem?_eq_some_iff.1 ha with ⟨h, _⟩; exact h
  constructor
  · rw [(expired_action_failed_partial cfg w i a ha he hp hd hab).1]
    simp only [resultStep, ha, hrr, Bool.false_eq_true, if_false]
    rw [List.getElem?_set_self hlt]
  · have hany : (w.actions.zipIdx.any fun (x : Action × Nat) =>
        (selected cfg w x.2 x.1 && processable x.1) && x.1.task == some t) = true := by
      rw [List.any_eq_true]
      refine ⟨(a, i), ?_, ?_⟩
      · rw [List.mem_zipIdx_iff_getElem?]; simpa using ha
      · simp [hs, processable, hp, hd, hat]
    simp only [checkerPass, hab, Bool.false_eq_true, if_false, List.getElem?_mapIdx, ht, Option.map_some,
      hany, if_true, resultStep, ha, hrr, hat, beq_self_eq_true]
    simp [scheduleHandling, hplain, handleTask, finalState, accept, resState]

/-! ## "a genuine result arriving later does not act a second time" (and the symmetric race) -/

/-- `RegularAction.complete` rejects a completed action: a result for a finished row raises and
    leaves every row as it was. -/
theorem late_result_inert (cfg : Config) (w : World) (i : Nat) (r : Res) (a : Action)
    (ha : w.actions[i]? = some a) (hc : isCompleted a.state = true) :
    step cfg w (.result i r) = w ∧ raises cfg w (.result i r) = true := by
  have := result_done_inert w i r ⟨a, ha, hc⟩
  exact ⟨this.1, this.2⟩

/-- Expiry first, genuine result second: once a pass has failed the action, then after ANY further
    history (ticks, heartbeats, passes, other results, integrity checks, direct DB updates …) a
    result for it is rejected and changes nothing. -/
theorem expiry_then_result_rejected (cfg : Config) (w : World) (i : Nat) (a : Action) (evs : List Event) (r : Res)
    (ha : w.actions[i]? = some a) (he : expired cfg w.now a = true)
    (hp : a.hasParent = true) (hd : a.defKnown = true) (hab : passAborts cfg w = false) :
    let w' := run cfg (checkerPass cfg w) evs
    step cfg w' (.result i r) = w' ∧ raises cfg w' (.result i r) = true := by
  intro w'
  have h1 := (expired_action_failed_partial cfg w i a ha he hp hd hab).1
  have hd0 : DoneAt (checkerPass cfg w) i := ⟨_, h1, by simp [accept, resState_completed]⟩
  have hd1 : DoneAt w' i := run_done cfg evs _ i hd0
  have := result_done_inert w' i r hd1
  exact ⟨this.1, this.2⟩

/-- Genuine result first, expiry second: once a result has been accepted, then after any further
    history no pass touches the row again (a finished action is never returned by the query). -/
theorem result_then_expiry_rejected (cfg : Config) (w : World) (i : Nat) (r : Res) (evs : List Event)
    (hacc : (resultReject w i).isSome = false) :
    let w' := run cfg (resultStep w i r) evs
    ∃ a', w'.actions[i]? = some a' ∧ isCompleted a'.state = true ∧
      (checkerPass cfg w').actions[i]? = some a' := by
  intro w'
  have hd0 : DoneAt (resultStep w i r) i := by
    cases hi : w.actions[i]? with
    | none => simp [resultReject, hi] at hacc
    | some a =>
      have hlt : i < w.actions.length := by
        rcases List.getElem?_eq_some_iff.1 hi with ⟨h, _⟩; exact h
      refine ⟨accept w.now a r, ?_, by simp [accept, resState_completed]⟩
      simp only [resultStep, hi, hacc, Bool.false_eq_true, if_false]
      rw [List.getElem?_set_self hlt]
  obtain ⟨a', ha', hc'⟩ := run_done cfg evs _ i hd0
  refine ⟨a', ha', hc', ?_⟩
  apply checkerPass_untouched cfg w' i a' ha'
  cases he : expired cfg w'.now a' with
  | false => rfl
  | true => rw [expired_not_completed cfg w'.now a' he] at hc'; cases hc'

/-- `expiry_vs_result_once`, the invariant (init / step / reachable): over ALL orders of checker
    passes, late results, heartbeats, ticks, integrity checks and direct DB updates, every action
    accepts at most one result (`accepts` counts the calls of `RegularAction.complete` that took
    effect, whether for the heartbeat error or for a genuine result). -/
theorem accepted_once_inv_init (w : World) (h : ∀ a ∈ w.actions, a.accepts = 0) :
    ∀ a ∈ w.actions, ActOk a := by
  intro a ha
  exact ⟨fun _ => h a ha, by rw [h a ha]; exact Nat.zero_le 1⟩

theorem accepted_once_inv_step (cfg : Config) (w : World) (ev : Event)
    (h : ∀ a ∈ w.actions, ActOk a) : ∀ a ∈ (step cfg w ev).actions, ActOk a :=
  step_ok cfg w ev h

theorem accepted_once_inv_reachable (cfg : Config) (w : World) (evs : List Event)
    (h : ∀ a ∈ w.actions, a.accepts = 0) : ∀ a ∈ (run cfg w evs).actions, a.accepts ≤ 1 := by
  intro a ha
  exact (run_ok cfg evs w (accepted_once_inv_init w h) a ha).2

/-- non-vacuity: expiry and a genuine result race on the same action, in both orders; one accept. -/
example :
    let cfg : Config := ⟨2, 5, 7, 0, 20, 5⟩
    let w : World := { now := 18, tasks := [{ state := .RUNNING, updatedAt := 0 }],
                       actions := [{ state := .RUNNING, isSync := true, lastHeartbeat := 7,
                                        hasParent := true, task := some 0, updatedAt := 0 }] }
    ((run cfg w [.checkerPass, .result 0 .success]).actions.map (fun a => (a.state, a.accepts)) = [(.ERROR, 1)]) ∧
    ((run cfg w [.result 0 .success, .checkerPass]).actions.map (fun a => (a.state, a.accepts)) = [(.SUCCESS, 1)]) ∧
    ((run cfg w [.checkerPass, .result 0 .success]).tasks.map (fun t => (t.state, t.handled)) = [(.ERROR, 1)]) := by
  decide

/-! ## "actions with fresh heartbeats, asynchronous actions and finished actions are never expired" -/

/-- Such a row is not returned by the query, and a pass leaves it exactly as it is. -/
theorem fresh_async_finished_never_expired (cfg : Config) (w : World) (i : Nat) (a : Action)
    (ha : w.actions[i]? = some a)
    (h : w.now - ((cfg.maxMissed * cfg.checkInterval : Nat) : Int) ≤ a.lastHeartbeat ∨
         a.isSync = false ∨ isCompleted a.state = true) :
    expired cfg w.now a = false ∧ (checkerPass cfg w).actions[i]? = some a ∧
    (step cfg w .checkerLoop).actions[i]? = some a := by
  have hne : expired cfg w.now a = false := by
    cases he : expired cfg w.now a with
    | false => rfl
    | true =>
      have h4 := (expired_iff cfg w.now a).1 he
      rcases h with h | h | h
      · omega
      · rw [h4.2.2.1] at h; cases h
      · rw [h4.2.1] at h; revert h; decide
  refine ⟨hne, checkerPass_untouched cfg w i a ha hne, ?_⟩
  simp only [step]
  split
  · exact checkerPass_untouched cfg w i a ha hne
  · exact ha

/-- boundary: a heartbeat exactly `max_missed·interval` seconds old is still fresh -/
example : expired ⟨2, 5, 7, 0, 20, 5⟩ 17
    { state := .RUNNING, isSync := true, lastHeartbeat := 7, hasParent := true, task := some 0, updatedAt := 0 } = false ∧
  expired ⟨2, 5, 7, 0, 20, 5⟩ 18
    { state := .RUNNING, isSync := true, lastHeartbeat := 7, hasParent := true, task := some 0, updatedAt := 0 } = true := by
  decide

/-! ## "all heartbeat … settings including disabled" -/

/-- The service is disabled exactly when `check_interval` or `max_missed_heartbeats` is 0;
    `batch_size` and `first_heartbeat_timeout` do not disable it. -/
theorem enabled_iff (cfg : Config) :
    enabled cfg = true ↔ cfg.checkInterval ≠ 0 ∧ cfg.maxMissed ≠ 0 := by
  simp [enabled]

/-- Disabled: an iteration of the service does nothing, and a whole history with the service
    iterations removed ends in the same world — no action is ever failed by the checker. -/
theorem disabled_means_never (cfg : Config) (h : enabled cfg = false) (evs : List Event) :
    ∀ w : World, step cfg w .checkerLoop = w ∧
      run cfg w evs = run cfg w (evs.filter (fun e => e != Event.checkerLoop)) := by
  induction evs with
  | nil => intro w; simp [step, h, run]
  | cons e es ih =>
    intro w
    refine ⟨by simp [step, h], ?_⟩
    by_cases he : e = Event.checkerLoop
    · subst he
      have : step cfg w .checkerLoop = w := by simp [step, h]
      simp only [run, List.foldl_cons, this]
      have h2 := (ih w).2
      simp only [run] at h2
      rw [h2]
      simp
    · have hb : (e != Event.checkerLoop) = true := by simpa using he
      simp only [run, List.foldl_cons, List.filter_cons, hb, if_true]
      have h2 := (ih (step cfg w e)).2
      simp only [run] at h2
      exact h2

/-- non-vacuity: both ways of disabling -/
example : enabled ⟨0, 5, 7, 0, 20, 5⟩ = false ∧ enabled ⟨2, 0, 7, 0, 20, 5⟩ = false ∧
    enabled ⟨2, 5, 0, 0, 20, 5⟩ = true := by decide

/-! ## "one broken action does not prevent the others in the batch from being processed" -/

/-- FALSE of the code in full (new finding): the per-action handler only catches
    `DBEntityNotFoundError` of the task / workflow lookups; an expired action whose definition can
    no longer be found (`_build_action` raises InvalidActionException outside the `try`) lets the
    exception escape, the transaction of the whole pass is rolled back, and — since the same batch is
    selected again — no other expired action is ever failed. -/
theorem broken_action_does_not_block_batch_full_fails :
    ¬ (∀ (cfg : Config) (w : World) (i : Nat) (a : Action), w.actions[i]? = some a →
        expired cfg w.now a = true → a.hasParent = true → a.defKnown = true →
        (checkerPass cfg w).actions[i]? = some (accept w.now a .error)) := by
  intro h
  have := h ⟨1, 1, 0, 0, 20, 5⟩
    { now := 100, tasks := [{ state := .RUNNING, updatedAt := 0 }, { state := .RUNNING, updatedAt := 0 }],
      actions := [{ state := .RUNNING, isSync := true, lastHeartbeat := 0, hasParent := true, defKnown := false,
                    task := some 0, updatedAt := 0 },
                  { state := .RUNNING, isSync := true, lastHeartbeat := 0, hasParent := true,
                    task := some 1, updatedAt := 0 }] } 1 _ rfl (by decide) rfl rfl
  revert this
  decide

/-- What does hold: an action that is broken because its task or workflow cannot be found is
    skipped, and every healthy expired action of the batch is still failed — whatever else is in
    the batch, as long as no action with an unknown definition is. -/
theorem broken_action_does_not_block_batch_partial (cfg : Config) (w : World)
    (hnp : ∀ b ∈ w.actions, expired cfg w.now b = true → b.hasParent = true → b.defKnown = true)
    (i : Nat) (a : Action) (ha : w.actions[i]? = some a)
    (he : expired cfg w.now a = true) (hp : a.hasParent = true) :
    (checkerPass cfg w).actions[i]? = some (accept w.now a .error) := by
  have hab : passAborts cfg w = false := by
    cases hx : passAborts cfg w with
    | false => rfl
    | true =>
      exfalso
      simp only [passAborts, List.any_eq_true] at hx
      obtain ⟨⟨b, j⟩, hm, hb⟩ := hx
      have hbm : b ∈ w.actions := by
        rw [List.mem_zipIdx_iff_getElem?] at hm
        exact List.mem_of_getElem? hm
      simp only [Bool.and_eq_true] at hb
      have hbe := selected_expired cfg w j b hb.1
      have hpo := hb.2
      simp only [poison, checkerSkipsMissingParent, checkerCatchesCompleteErrors, Bool.not_true,
        Bool.and_false, Bool.false_or, Bool.not_false, Bool.and_true, Bool.and_eq_true,
        Bool.not_eq_true'] at hpo
      have := hnp b hbm hbe hpo.1
      rw [this] at hpo
      cases hpo.2
  exact (expired_action_failed_partial cfg w i a ha he hp (hnp a (List.mem_of_getElem? ha) he hp) hab).1

/-- non-vacuity: a batch with a task-less (broken, skipped) action and two healthy ones -/
example :
    let cfg : Config := ⟨1, 1, 0, 0, 20, 5⟩
    let w : World := { now := 100, tasks := [{ state := .RUNNING, updatedAt := 0 }, { state := .RUNNING, updatedAt := 0 }],
                       actions := [{ state := .RUNNING, isSync := true, lastHeartbeat := 0, hasParent := true, task := some 0, updatedAt := 0 },
                                        { state := .RUNNING, isSync := true, lastHeartbeat := 0, hasParent := false, task := none, updatedAt := 0 },
                                        { state := .RUNNING, isSync := true, lastHeartbeat := 0, hasParent := true, task := some 1, updatedAt := 0 }] }
    (checkerPass cfg w).actions.map (·.state) = [.ERROR, .RUNNING, .ERROR] ∧
    (checkerPass cfg w).tasks.map (·.state) = [.ERROR, .ERROR] := by
  decide

/-! ## "A task left RUNNING although all its actions or sub-workflows have finished is completed by
the integrity check after the configured delay" -/

/-- A stuck task that the check examines gets its completion handling re-triggered: a plain task is
    completed at once with the state of its last child; for a with-items task the keyed
    `_scheduled_on_action_complete` job is scheduled.  Running the check again right away changes
    nothing for that plain task (it is no longer RUNNING). -/
theorem integrity_completes_stuck_once (cfg : Config) (w : World) (t : Nat) (tk : Task)
    (ht : w.tasks[t]? = some tk) (hr : integrityRuns cfg w = true)
    (hex : examined cfg w t tk = true) (hst : stuck cfg w t tk = true) (hok : TaskOk tk) :
    (tk.withItems = false →
      ∃ tk', (integrityStep cfg w).tasks[t]? = some tk' ∧ isCompleted tk'.state = true ∧
        tk'.state = lastState (childrenOf w.actions t) ∧ tk'.handled = 1 ∧
        (integrityStep cfg (integrityStep cfg w)).tasks[t]? = some tk') ∧
    (tk.withItems = true →
      (integrityStep cfg w).tasks[t]? = some { tk with pendingJob := true }) := by
  have hrun : tk.state = .RUNNING := by
    simp only [stuck, runningInWf, Bool.and_eq_true, beq_iff_eq] at hst
    exact hst.1.1.2
  have hnc : isCompleted tk.state = false := by rw [hrun]; decide
  have h0 : tk.handled = 0 := hok.1 hnc
  have htrig := stuck_trigger cfg w t tk hst
  constructor
  · intro hplain
    have h1 : (integrityStep cfg w).tasks[t]? =
        some { tk with state := lastState (childrenOf w.actions t), updatedAt := w.now, handled := tk.handled + 1 } := by
      rw [integrity_task cfg w t tk ht]
      simp [hr, hex, hst, scheduleHandling, hplain, handleTask, hnc, finalState]
    refine ⟨_, h1, htrig, rfl, by simp [h0], ?_⟩
    rw [integrity_task cfg (integrityStep cfg w) t _ h1]
    have : stuck cfg (integrityStep cfg w) t
        { tk with state := lastState (childrenOf w.actions t), updatedAt := w.now, handled := tk.handled + 1 } = false := by
      have hne : (lastState (childrenOf w.actions t) == St.RUNNING) = false := by
        cases hl : lastState (childrenOf w.actions t) <;> simp_all <;> revert htrig <;> decide
      simp [stuck, runningInWf, hne]
    simp [this]
  · intro hwi
    rw [integrity_task cfg w t tk ht]
    simp [hr, hex, hst, scheduleHandling, hwi]

/-- …exactly once, over ALL histories: the completion handling of a task takes effect at most once
    whatever the order of passes, results, jobs and integrity checks (init / step / reachable). -/
theorem handled_once_inv_init (w : World) (h : ∀ tk ∈ w.tasks, tk.handled = 0) :
    ∀ tk ∈ w.tasks, TaskOk tk := by
  intro tk htk
  exact ⟨fun _ => h tk htk, by rw [h tk htk]; exact Nat.zero_le 1⟩

theorem handled_once_inv_step (cfg : Config) (w : World) (ev : Event)
    (h : ∀ tk ∈ w.tasks, TaskOk tk) : ∀ tk ∈ (step cfg w ev).tasks, TaskOk tk :=
  step_tasks_ok cfg w ev h

theorem handled_once_inv_reachable (cfg : Config) (w : World) (evs : List Event)
    (h : ∀ tk ∈ w.tasks, tk.handled = 0) : ∀ tk ∈ (run cfg w evs).tasks, tk.handled ≤ 1 := by
  intro tk htk
  exact (run_tasks_ok cfg evs w (handled_once_inv_init w h) tk htk).2

/-- A task that is not stuck (not RUNNING, too young, no children, an unfinished child, or the last
    child finished too recently) is left exactly as it is; the check never touches an action row. -/
theorem integrity_untouched_if_not_stuck (cfg : Config) (w : World) (t : Nat) (tk : Task)
    (ht : w.tasks[t]? = some tk) (hns : stuck cfg w t tk = false) :
    (integrityStep cfg w).tasks[t]? = some tk ∧ (integrityStep cfg w).actions = w.actions := by
  refine ⟨?_, integrity_actions cfg w⟩
  rw [integrity_task cfg w t tk ht]
  simp [hns]

/-- What "stuck … after the configured delay" is, exactly as the code decides it: RUNNING, last
    update at least `delay` seconds ago, at least one child, every child completed, and the most
    recently updated child updated MORE than `delay` seconds ago. -/
theorem stuck_iff (cfg : Config) (w : World) (t : Nat) (tk : Task) :
    stuck cfg w t tk = true ↔
      tk.inWf = true ∧ tk.state = .RUNNING ∧ cfg.integrityDelay ≤ w.now - tk.updatedAt ∧
      childrenOf w.actions t ≠ [] ∧ (∀ c ∈ childrenOf w.actions t, isCompleted c.state = true) ∧
      cfg.integrityDelay < w.now - maxUpdated (childrenOf w.actions t) := by
  simp only [stuck, runningInWf, taskOldEnough, childrenOldEnough, integrityTaskCmpLt, integrityChildCmpGt,
    if_true, Bool.and_eq_true, beq_iff_eq, Bool.not_eq_true', decide_eq_false_iff_not, decide_eq_true_eq,
    List.all_eq_true, List.isEmpty_eq_false_iff, gt_iff_lt, Int.not_lt]
  constructor
  · rintro ⟨⟨⟨h1, h2⟩, h3⟩, ⟨h4, h5⟩, h6⟩; exact ⟨h1, h2, h3, h4, h5, h6⟩
  · rintro ⟨h1, h2, h3, h4, h5, h6⟩; exact ⟨⟨⟨h1, h2⟩, h3⟩, ⟨h4, h5⟩, h6⟩

/-- The check keeps itself alive (`delay=120` in the pinned tree) while the workflow is unfinished,
    and is switched off by a negative delay or a finished workflow. -/
theorem integrity_self_rescheduling (cfg : Config) (w : World) :
    (integrityRuns cfg w = true →
      (integrityStep cfg w).nextIntegrity = some (w.now + (integrityReschedule : Int))) ∧
    ((cfg.integrityDelay < 0 ∨ w.wfCompleted = true) → integrityStep cfg w = w) := by
  constructor
  · intro h; simp [integrityStep, h]
  · intro h
    have : integrityRuns cfg w = false := by
      rcases h with h | h <;> simp [integrityRuns, h]
    simp [integrityStep, this]

/-- FALSE of the code in full (finding): only the first `execution_integrity_check_batch_size`
    RUNNING tasks in id order are examined, the same ones at every check, so a stuck task behind
    that many legitimately running tasks is not repaired while they run. -/
theorem integrity_completes_stuck_full_fails :
    ¬ (∀ (cfg : Config) (w : World) (t : Nat) (tk : Task), w.tasks[t]? = some tk →
        integrityRuns cfg w = true → stuck cfg w t tk = true → tk.withItems = false →
        ∃ tk', (integrityStep cfg w).tasks[t]? = some tk' ∧ isCompleted tk'.state = true) := by
  intro h
  have := h ⟨1, 1, 0, 0, 5, 1⟩
    { now := 100,
      tasks := [{ state := .RUNNING, updatedAt := 0 }, { state := .RUNNING, updatedAt := 0 }],
      actions := [{ state := .RUNNING, isSync := false, lastHeartbeat := 0, hasParent := true, task := some 0, updatedAt := 0 },
                  { state := .SUCCESS, isSync := true, lastHeartbeat := 0, hasParent := true, task := some 1, updatedAt := 0 }] }
    1 _ rfl (by decide) (by decide) rfl
  revert this
  decide

/-- non-vacuity of `integrity_completes_stuck_once` / `integrity_untouched_if_not_stuck`: delay 5;
    task 0 stuck since 6 s → fixed; task 1's child finished exactly 5 s ago → untouched;
    task 2 still has a running child → untouched. -/
example :
    let cfg : Config := ⟨1, 1, 0, 0, 5, 5⟩
    let w : World := { now := 106,
                       tasks := [{ state := .RUNNING, updatedAt := 90 }, { state := .RUNNING, updatedAt := 90 }, { state := .RUNNING, updatedAt := 90 }],
                       actions := [{ state := .SUCCESS, isSync := true, lastHeartbeat := 0, hasParent := true, task := some 0, updatedAt := 100 },
                                        { state := .ERROR, isSync := true, lastHeartbeat := 0, hasParent := true, task := some 1, updatedAt := 101 },
                                        { state := .RUNNING, isSync := false, lastHeartbeat := 0, hasParent := true, task := some 2, updatedAt := 90 }] }
    (integrityStep cfg w).tasks.map (fun t => (t.state, t.handled)) = [(.SUCCESS, 1), (.RUNNING, 0), (.RUNNING, 0)] ∧
    (integrityStep cfg w).nextIntegrity = some 226 := by
  decide

end Mistral.Props.C20
