/-
C05, "... visible to a task (AND TO THE WORKFLOW OUTPUT)": the workflow's final context
(`DirectWorkflowController.evaluate_workflow_final_context`, Model/Hist.lean `finalContext`) is the fold of
the version merge over ALL end tasks, whatever the batch size of the database reads, and the workflow output
(`evaluate_workflow_output`, `workflowOutput`) reads it first.
-/
import Mistral.Lemmas.HistFinal

namespace Mistral.Props.C05Final
open Mistral Mistral.Dict Mistral.Ctx Mistral.Hist

/-- For EVERY batch size >= 1 and EVERY number of end tasks the final context is one n-ary fold
    (`evaluate_upstream_context`) over a PERMUTATION of all the end tasks: no row is skipped, none is
    merged twice (the last row of the first batch is the base, every other row of every batch is merged in). -/
theorem final_context_folds_all (size : Nat) (hs : 1 ≤ size) (ends : List Ctx) :
    finalContext size ends = upstream (finalOrder size ends) ∧ (finalOrder size ends).Perm ends :=
  ⟨finalContext_eq_upstream size hs ends, finalOrder_perm size ends⟩

/-- the version of every path in the final context dominates its version in EVERY end task's outbound
    context (the seeded change that drops one row per batch breaks exactly this) -/
theorem final_version_dominates_all (size : Nat) (hs : 1 ≤ size) (ends : List Ctx)
    (hu : ∀ c ∈ ends, UniqueKeys c.vers) (k : String) :
    ∀ c ∈ ends, ver c.vers k ≤ ver (finalContext size ends).vers k := by
  intro c hc
  rw [finalContext_eq_upstream size hs]
  exact ver_upstream_ge k _ (fun d hd => hu d ((mem_finalOrder size ends d).mp hd)) c
    ((mem_finalOrder size ends c).mpr hc)

/-- "the one published by the latest task on the causal path", for the workflow output: the leaf the final
    context holds at a path is the leaf of an end task whose version of the path is MAXIMAL among all end
    tasks (by `C05Causal.stale_copy_never_visible` the leaf of each end task is that of a maximal publisher
    among ITS ancestors; a higher version = a longer chain of publishers) -/
theorem final_leaf_from_max_end (size : Nat) (hs : 1 ≤ size) (ends : List Ctx) (k0 : String) (rest : List String)
    (hk : k0 ≠ "__task_execution") (hsh : ∀ c ∈ ends, ShapeOK k0 rest c)
    (x : Val) (hx : getPath (finalContext size ends).data k0 rest = some x) :
    ∃ c ∈ ends, getPath c.data k0 rest = some x ∧
      ∀ d ∈ ends, ver d.vers (keyOf (esc k0) rest) ≤ ver c.vers (keyOf (esc k0) rest) := by
  rw [finalContext_eq_upstream size hs] at hx
  have hsh' : ∀ c ∈ finalOrder size ends, ShapeOK k0 rest c :=
    fun c hc => hsh c ((mem_finalOrder size ends c).mp hc)
  obtain ⟨c, hc, h1, h2⟩ := upstream_witness k0 rest hk _ hsh' x hx
  refine ⟨c, (mem_finalOrder size ends c).mp hc, h1, ?_⟩
  intro d hd
  have := ver_upstream_ge (keyOf (esc k0) rest) _ (fun e he => (hsh' e he).2.1) d ((mem_finalOrder size ends d).mpr hd)
  omega

/-- a leaf that some end task holds is in the final context ("every variable published by an end task ... is
    in the output"): nothing is lost, whatever the batch size -/
theorem final_keeps_every_leaf (size : Nat) (hs : 1 ≤ size) (ends : List Ctx) (k0 : String) (rest : List String)
    (hk : k0 ≠ "__task_execution") (hsh : ∀ c ∈ ends, ShapeOK k0 rest c)
    (c : Ctx) (hc : c ∈ ends) (hp : getPath c.data k0 rest ≠ none) :
    getPath (finalContext size ends).data k0 rest ≠ none := by
  rw [finalContext_eq_upstream size hs]
  exact upstream_present k0 rest hk _ (fun d hd => hsh d ((mem_finalOrder size ends d).mp hd)) c
    ((mem_finalOrder size ends c).mpr hc) hp

/-- BATCH-SIZE INDEPENDENCE: for any two batch sizes >= 1 (and any number of end tasks) the final context
    holds the same leaf with the same version at every path at which the end tasks are consistent (equal
    versions carry equal leaves: no two concurrent publishers of the path). -/
theorem final_batch_size_independent (s1 s2 : Nat) (h1 : 1 ≤ s1) (h2 : 1 ≤ s2) (ends : List Ctx)
    (k0 : String) (rest : List String) (hk : k0 ≠ "__task_execution") (hsh : ∀ c ∈ ends, ShapeOK k0 rest c)
    (hcons : ∀ c1 ∈ ends, ∀ c2 ∈ ends, ∀ x1 x2, getPath c1.data k0 rest = some x1 →
      getPath c2.data k0 rest = some x2 → ver c1.vers (keyOf (esc k0) rest) = ver c2.vers (keyOf (esc k0) rest) → x1 = x2) :
    getPath (finalContext s1 ends).data k0 rest = getPath (finalContext s2 ends).data k0 rest ∧
    ver (finalContext s1 ends).vers (keyOf (esc k0) rest) = ver (finalContext s2 ends).vers (keyOf (esc k0) rest) := by
  rw [finalContext_eq_upstream s1 h1, finalContext_eq_upstream s2 h2]
  apply upstream_order_independent k0 rest hk
  · intro c; rw [mem_finalOrder, mem_finalOrder]
  · intro c hc; exact hsh c ((mem_finalOrder s1 ends c).mp hc)
  · intro c1 hc1 c2 hc2
    exact hcons c1 ((mem_finalOrder s1 ends c1).mp hc1) c2 ((mem_finalOrder s1 ends c2).mp hc2)

/-- the same for a JOIN with any number of inbound tasks: the order in which the database lists the rows is
    irrelevant (n-ary generalisation of `merge_order_independent_partial` + `merge_associative`) -/
theorem join_rows_order_independent (k0 : String) (rest : List String) (hk : k0 ≠ "__task_execution")
    (l1 l2 : List Ctx) (hp : l1.Perm l2) (hs : ∀ c ∈ l1, ShapeOK k0 rest c)
    (hcons : ∀ c1 ∈ l1, ∀ c2 ∈ l1, ∀ x1 x2, getPath c1.data k0 rest = some x1 → getPath c2.data k0 rest = some x2 →
      ver c1.vers (keyOf (esc k0) rest) = ver c2.vers (keyOf (esc k0) rest) → x1 = x2) :
    getPath (upstream l1).data k0 rest = getPath (upstream l2).data k0 rest :=
  (upstream_order_independent k0 rest hk l1 l2 (fun _ => hp.mem_iff) hs hcons).1

/-- `evaluate_workflow_output`: an output that refers to a variable the final context holds shows the final
    context's value (not the input / vars / environment of the same name) -/
theorem output_reads_final_context_first (final : Ctx) (layers : List Dict) (o v : String) (x : Val)
    (hx : get? final.data v = some x) :
    workflowOutput [(o, v)] final layers = some [(o, x)] := by
  simp [workflowOutput, viewLookup, hx]

/-- ... and without an `output:` clause the output is the whole final context -/
theorem output_default_is_final_context (final : Ctx) (layers : List Dict) :
    workflowOutput [] final layers = some final.data := by
  simp [workflowOutput]

/-! ### non-vacuity: five end tasks, batch sizes 2 and 20 -/

def e0 : Ctx := ⟨[("k", .num 1)], [("k", 1)]⟩               -- carries the older k
def e1 : Ctx := ⟨[("k", .num 2)], [("k", 2)]⟩               -- the branch that published k again
def e2 : Ctx := ⟨[("a", .str "x")], [("a", 1)]⟩             -- never saw k
def e3 : Ctx := ⟨[("d", .obj [("m", .num 7)])], [("d.m", 1)]⟩
def e4 : Ctx := ⟨[("k", .num 1), ("b", .null)], [("k", 1), ("b", 1)]⟩

example : ∀ c ∈ [e0, e1, e2, e3, e4], ShapeOK "k" [] c := by decide
example : getPath (finalContext 2 [e0, e1, e2, e3, e4]).data "k" [] = some (.num 2) := by rfl
example : getPath (finalContext 20 [e0, e1, e2, e3, e4]).data "k" [] = some (.num 2) := by rfl
example : getPath (finalContext 3 [e2, e0, e1, e4, e3]).data "d" ["m"] = some (.num 7) := by rfl
/-- the hypotheses of `final_batch_size_independent` are met by these end tasks at `k` -/
example : getPath (finalContext 2 [e0, e1, e2, e3, e4]).data "k" [] = getPath (finalContext 20 [e0, e1, e2, e3, e4]).data "k" [] := by
  refine (final_batch_size_independent 2 20 (by decide) (by decide) _ "k" [] (by decide) (by decide) ?_).1
  intro c1 h1 c2 h2 x1 x2 g1 g2 hv
  simp only [List.mem_cons, List.mem_nil_iff, or_false] at h1 h2
  have hk : esc "k" = "k" := by decide
  rcases h1 with rfl | rfl | rfl | rfl | rfl <;> rcases h2 with rfl | rfl | rfl | rfl | rfl <;>
    simp_all [e0, e1, e2, e3, e4, getPath, getPathVal, Dict.get?, ver, keyOf]

end Mistral.Props.C05Final
