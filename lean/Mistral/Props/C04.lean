/-
C04 — No task starts before its prerequisites; a join runs exactly once.
Property theorems (L1: join logic of direct_workflow.py as modelled in
Mistral/Model/Join.lean, tied to the code by the `join` correspondence stream).
-/
import Mistral.Lemmas.Join
import Mistral.Lemmas.EngineJoin
import Mistral.Lemmas.EngineStart

namespace Mistral.Props.C04
open Mistral Mistral.Join

/-- number of inbound tasks that have completed *and routed to the join* -/
def routedCount (g : Graph) (rows : List Row) (j : String) : Nat :=
  ((inbound g j).filter (routedTo rows j)).length

/-- number of inbound tasks that can no longer route to the join -/
def deadCount (g : Graph) (rows : List Row) (fuel : Nat) (j : String) : Nat :=
  ((inbound g j).filter (deadFor g rows fuel j)).length

theorem logical_of_decide (g : Graph) (rows : List Row) (fuel : Nat) (j : String) (k : JoinKind)
    (L : Logical) (hne : (inbound g j).isEmpty = false)
    (h : joinLogicalState g rows fuel j k = some L) :
    ∃ xs, L = Join.decide k xs ∧ xs.length = (inbound g j).length ∧
      countState xs .RUNNING = routedCount g rows j ∧
      countState xs .ERROR = deadCount g rows fuel j := by
  unfold joinLogicalState at h
  simp only [hne] at h
  cases hm : (inbound g j).mapM (fun t => inducedState g rows fuel t j) with
  | none => simp [hm] at h
  | some xs =>
    simp [hm] at h
    refine ⟨xs, h.symm, ?_, ?_, ?_⟩
    · exact (mapM_count g rows fuel j .RUNNING (routedTo rows j)
        (fun t i hi => induced_running_iff g rows fuel t j i hi) _ xs hm).2
    · exact (mapM_count g rows fuel j .RUNNING (routedTo rows j)
        (fun t i hi => induced_running_iff g rows fuel t j i hi) _ xs hm).1
    · exact (mapM_count g rows fuel j .ERROR (deadFor g rows fuel j)
        (fun t i hi => induced_error_iff g rows fuel t j i hi) _ xs hm).1

/-- "a join task starts only after the required number of inbound tasks (… N, or one) have
    completed and routed to it": for `join: N` the logical state is RUNNING exactly when at
    least N inbound tasks have completed and routed to the join. -/
theorem join_running_iff_count (g : Graph) (rows : List Row) (fuel : Nat) (j : String) (n : Nat)
    (L : Logical) (hne : (inbound g j).isEmpty = false)
    (h : joinLogicalState g rows fuel j (.count n) = some L) :
    L.state = .RUNNING ↔ n ≤ routedCount g rows j := by
  obtain ⟨xs, hL, _, hr, _⟩ := logical_of_decide g rows fuel j _ L hne h
  subst hL
  unfold Join.decide
  simp only [hr]
  by_cases h1 : routedCount g rows j ≥ n
  · simp [h1]
  · simp only [h1, if_false]
    split <;> simp <;> omega

/-- … and for `join: all` exactly when *every* inbound task has completed and routed to it. -/
theorem join_running_iff_all (g : Graph) (rows : List Row) (fuel : Nat) (j : String)
    (L : Logical) (hne : (inbound g j).isEmpty = false)
    (h : joinLogicalState g rows fuel j .all = some L) :
    L.state = .RUNNING ↔ routedCount g rows j = (inbound g j).length := by
  obtain ⟨xs, hL, hlen, hr, _⟩ := logical_of_decide g rows fuel j _ L hne h
  subst hL
  unfold Join.decide
  simp only [hr, hlen]
  by_cases h1 : (inbound g j).length = routedCount g rows j
  · simp [h1]
  · have : ((inbound g j).length == routedCount g rows j) = false := by simpa using h1
    simp only [this]
    have h2 : routedCount g rows j ≠ (inbound g j).length := fun e => h1 e.symm
    simp only [Bool.false_eq_true, if_false]
    split <;> simp [h2]

/-- "fails instead of waiting forever once that number can no longer be reached": for
    `join: N` (validation guarantees N ≤ number of inbound tasks) the logical state is ERROR
    exactly when fewer than N have routed and fewer than N inbound tasks can still do so. -/
theorem join_error_iff_count (g : Graph) (rows : List Row) (fuel : Nat) (j : String) (n : Nat)
    (L : Logical) (hne : (inbound g j).isEmpty = false)
    (hn : n ≤ (inbound g j).length)
    (h : joinLogicalState g rows fuel j (.count n) = some L) :
    L.state = .ERROR ↔
      routedCount g rows j < n ∧ (inbound g j).length - deadCount g rows fuel j < n := by
  obtain ⟨xs, hL, hlen, hr, he⟩ := logical_of_decide g rows fuel j _ L hne h
  subst hL
  have hd : deadCount g rows fuel j ≤ (inbound g j).length := by
    unfold deadCount; exact List.length_filter_le _ _
  unfold Join.decide
  simp only [hr, he, hlen]
  by_cases h1 : routedCount g rows j ≥ n
  · simp [h1]; omega
  · simp only [h1, if_false]
    split <;> simp <;> omega

/-- for `join: all`: ERROR exactly when not all have routed and at least one never can. -/
theorem join_error_iff_all (g : Graph) (rows : List Row) (fuel : Nat) (j : String)
    (L : Logical) (hne : (inbound g j).isEmpty = false)
    (h : joinLogicalState g rows fuel j .all = some L) :
    L.state = .ERROR ↔
      routedCount g rows j ≠ (inbound g j).length ∧ 0 < deadCount g rows fuel j := by
  obtain ⟨xs, hL, hlen, hr, he⟩ := logical_of_decide g rows fuel j _ L hne h
  subst hL
  unfold Join.decide
  simp only [hr, he, hlen]
  by_cases h1 : (inbound g j).length = routedCount g rows j
  · simp [h1]
  · have : ((inbound g j).length == routedCount g rows j) = false := by simpa using h1
    simp only [this]
    have h2 : routedCount g rows j ≠ (inbound g j).length := fun e => h1 e.symm
    simp only [Bool.false_eq_true, if_false]
    split <;> simp [h2] <;> omega

/-- In every other case the join keeps WAITING (the three verdicts are exhaustive). -/
theorem join_waiting_otherwise (g : Graph) (rows : List Row) (fuel : Nat) (j : String) (k : JoinKind)
    (L : Logical) (h : joinLogicalState g rows fuel j k = some L) :
    L.state = .RUNNING ∨ L.state = .ERROR ∨ L.state = .WAITING := by
  unfold joinLogicalState at h
  simp only at h
  split at h
  · cases h; simp
  · split at h
    · simp at h
    · cases h
      unfold Join.decide
      cases k <;> simp only <;> (split <;> try simp) <;> (split <;> simp)

/-- A join with no inbound transition is runnable at once. -/
theorem join_no_inbound_runs (g : Graph) (rows : List Row) (fuel : Nat) (j : String) (k : JoinKind)
    (h : (inbound g j).isEmpty = true) :
    (joinLogicalState g rows fuel j k).map (·.state) = some .RUNNING := by
  simp [joinLogicalState, h]

/-! ### Termination of the route search (finding B) -/

/-- the unreachable cycle  t0 → j,  a → [j, b],  b → a,  j: join all  (accepted by validation:
    t0 is a start task). -/
def cyc : Graph := {
  tasks := [
    ⟨"t0", none, ["j"], [], [], []⟩,
    ⟨"a", none, ["j", "b"], [], [], []⟩,
    ⟨"b", none, ["a"], [], [], []⟩,
    ⟨"j", some .all, [], [], [], []⟩ ],
  defaults := none }

theorem cyc_inbound_a : inbound cyc "a" = [⟨"b", none, ["a"], [], [], []⟩] := by
  simp [inbound, cyc, outNames, clause]
theorem cyc_inbound_b : inbound cyc "b" = [⟨"a", none, ["j", "b"], [], [], []⟩] := by
  simp [inbound, cyc, outNames, clause]

theorem cyc_route_none (rows : List Row) (ha : findRow rows "a" = none) (hb : findRow rows "b" = none) :
    ∀ fuel d, possibleRoute cyc rows fuel "a" d = none ∧ possibleRoute cyc rows fuel "b" d = none := by
  intro fuel
  induction fuel with
  | zero => intro d; simp [possibleRoute]
  | succ n ih =>
    intro d
    constructor
    · unfold possibleRoute
      simp only [cyc_inbound_a, List.isEmpty_cons]
      simp [possibleRoute.loop, hb, (ih (d + 1)).2]
    · unfold possibleRoute
      simp only [cyc_inbound_b, List.isEmpty_cons]
      simp [possibleRoute.loop, ha, (ih (d + 1)).1]

/-- `possible_route_terminates` at full strength is FALSE of the code: on this accepted
    definition the route search from `a` never returns, whatever the recursion budget
    (the implementation raises RecursionError). -/
theorem possibleRoute_full_fails :
    ¬ (∀ (g : Graph) (rows : List Row) (t : String), ∃ fuel, possibleRoute g rows fuel t 1 ≠ none) := by
  intro hall
  obtain ⟨fuel, hf⟩ := hall cyc [] "a"
  exact hf (cyc_route_none [] rfl rfl fuel 1).1

/-- … so while only `t0` has completed the join's logical state is undefined on the
    implementation (RecursionError inside the refresh job): the join neither starts nor fails.
    This is the concrete witness replayed on the real engine (known finding B). -/
theorem cyc_join_state_undefined (fuel : Nat) :
    joinLogicalState cyc [⟨"t0", .SUCCESS, [("j", "on-success")]⟩] fuel "j" .all = none := by
  have hin : inbound cyc "j" = [⟨"t0", none, ["j"], [], [], []⟩, ⟨"a", none, ["j", "b"], [], [], []⟩] := by
    simp [inbound, cyc, outNames, clause]
  have hr := (cyc_route_none [⟨"t0", .SUCCESS, [("j", "on-success")]⟩] (by simp [findRow]) (by simp [findRow]) fuel 1).1
  unfold joinLogicalState
  simp only [hin, List.isEmpty_cons]
  have : inducedState cyc [⟨"t0", .SUCCESS, [("j", "on-success")]⟩] fuel ⟨"a", none, ["j", "b"], [], [], []⟩ "j" = none := by
    simp [inducedState, findRow, hr]
  simp [List.mapM_cons, this]

/-- The route search terminates on graphs whose inbound relation is well-founded (acyclic):
    with a rank that strictly decreases along inbound edges, fuel `rk t + 1` suffices.
    (The provable part of `possible_route_terminates`; cyclic predecessor graphs are excluded.) -/
theorem possibleRoute_terminates_partial (g : Graph) (rows : List Row) (rk : String → Nat)
    (hrk : ∀ t, ∀ p ∈ inbound g t, rk p.name < rk t) :
    ∀ (fuel : Nat) (t : String) (d : Nat), rk t < fuel → possibleRoute g rows fuel t d ≠ none := by
  intro fuel
  induction fuel with
  | zero => intro t d h; omega
  | succ n ih =>
    intro t d h
    unfold possibleRoute
    simp only
    split
    · simp
    · have hl : ∀ (l : List TaskG) (d : Nat), (∀ p ∈ l, rk p.name < rk t) →
          possibleRoute.loop g rows n t l d ≠ none := by
        intro l
        induction l with
        | nil => intro d _; simp [possibleRoute.loop]
        | cons p ps ihl =>
          intro d hp
          unfold possibleRoute.loop
          have hpn : rk p.name < n := by
            have := hp p (List.mem_cons_self); omega
          have hps : ∀ q ∈ ps, rk q.name < rk t := fun q hq => hp q (List.mem_cons_of_mem _ hq)
          split
          · have := ih p.name (d + 1) hpn
            split
            · contradiction
            · simp
            · exact ihl _ hps
          · split
            · simp
            · split
              · simp
              · exact ihl _ hps
      exact hl _ d (hrk t)

/-- non-vacuity: a concrete fork/join where the hypotheses of the iff-theorems hold and the
    join is RUNNING after both branches routed to it, WAITING after one, ERROR when one
    branch completed without routing. -/
def fj : Graph := {
  tasks := [⟨"a", none, ["b", "c"], [], [], []⟩, ⟨"b", none, ["j"], [], [], []⟩,
            ⟨"c", none, ["j"], ["x"], [], []⟩, ⟨"x", none, [], [], [], []⟩, ⟨"j", some .all, [], [], [], []⟩],
  defaults := none }

example : (joinLogicalState fj [⟨"a", .SUCCESS, [("b", "on-success"), ("c", "on-success")]⟩,
    ⟨"b", .SUCCESS, [("j", "on-success")]⟩, ⟨"c", .SUCCESS, [("j", "on-success")]⟩] 10 "j" .all).map (·.state)
    = some .RUNNING := by decide
example : (joinLogicalState fj [⟨"a", .SUCCESS, [("b", "on-success"), ("c", "on-success")]⟩,
    ⟨"b", .SUCCESS, [("j", "on-success")]⟩, ⟨"c", .RUNNING, []⟩] 10 "j" .all).map (·.state)
    = some .WAITING := by decide
example : (joinLogicalState fj [⟨"a", .SUCCESS, [("b", "on-success"), ("c", "on-success")]⟩,
    ⟨"b", .SUCCESS, [("j", "on-success")]⟩, ⟨"c", .ERROR, [("x", "on-error")]⟩] 10 "j" .all).map (·.state)
    = some .ERROR := by decide
example : (inbound fj "j").isEmpty = false := by decide

/-! ### engine level (Mistral.Engine, tied by the `core` stream) -/
open Mistral.Engine in
/-- "a join task … starts at most once per run however many branches trigger it" — first half:
    however many branches trigger it, and whatever the delivery order, a join task never has
    more than one execution row (`Task.defer` creates it only when none exists; every other
    handler only updates rows in place).  Invariant: holds initially, preserved by every
    event, hence in every reachable world. -/
theorem join_created_once_step (sp : Spec) (w : World) (ev : Event) (h : JoinRowsUnique sp w) :
    JoinRowsUnique sp (step sp w ev) := by
  have hset : ∀ (w' : World) (r : TaskRow), JoinRowsUnique sp w' →
      JoinRowsUnique sp { w' with tasks := setTask w'.tasks r } := fun w' r h' => JRU_setTask sp _ _ h'
  cases ev with
  | start =>
    simp only [step]
    split
    · exact h
    · exact dispatch_jru sp _ _ h
  | pause => exact h
  | stop t => exact h
  | execute t ok => simp only [step]; split <;> exact h
  | resume =>
    simp only [step]
    split
    · exact h
    · split
      · exact h
      · have hmark : JRU sp (w.tasks.map fun t =>
            if isCompleted t.state && !t.processed then { t with processed := true } else t) := by
          intro n hn
          have : countL (w.tasks.map fun t =>
              if isCompleted t.state && !t.processed then { t with processed := true } else t) n = countL w.tasks n := by
            rw [countL_names, countL_names]
            have hm : (w.tasks.map fun t =>
                if isCompleted t.state && !t.processed then { t with processed := true } else t).map (·.name)
                = w.tasks.map (·.name) := by
              rw [List.map_map]
              apply List.map_congr_left
              intro t _
              simp only [Function.comp]
              split <;> rfl
            rw [hm]
          rw [this]; exact h n hn
        split
        · unfold JoinRowsUnique
          rw [checkAndComplete_tasks]; exact hmark
        · apply dispatch_jru
          show JoinRowsUnique sp _
          unfold JoinRowsUnique
          show JRU sp (dispatch sp _ _).tasks
          exact dispatch_jru sp _ _ hmark
  | deliver it =>
    simp only [step]
    split
    · exact h
    · cases it with
      | postStartTask t f => exact h
      | postRunAction t => exact h
      | runAction t => exact h
      | postCheck => simp only; unfold JoinRowsUnique; rw [checkAndComplete_tasks]; exact h
      | postSchedRefresh t => simp only; split <;> exact h
      | rpcStartTask t firstRun =>
        simp only
        split
        · exact h
        · split
          · split
            · exact JRU_setTask sp _ _ h
            · split
              · split <;> exact h
              · exact checkAffected_jru sp _ t h
          · split
            · exact h
            · split
              · exact checkAffected_jru sp _ t h
              · split
                · exact h
                · exact JRU_setTask sp _ _ h
      | rpcResult t ok =>
        simp only
        split
        · exact h
        · exact completeTask_jru sp _ _ _ h
      | jobRefresh t =>
        simp only
        split
        · exact h
        · split
          · exact h
          · split
            · exact h
            · split
              · exact h
              · split
                · exact h
                · split
                  · split
                    · exact JRU_setTask sp _ _ (JRU_setTask sp _ _ h)
                    · exact JRU_setTask sp _ _ (JRU_setTask sp _ _ h)
                  · split
                    · exact completeTask_jru sp _ _ _ (JRU_setTask sp _ _ h)
                    · exact JRU_setTask sp _ _ h

open Mistral.Engine in
theorem join_created_once_reachable (sp : Spec) (evs : List Event) :
    JoinRowsUnique sp (run sp evs) := by
  unfold run
  have hall : ∀ (evs : List Event) (w : World), JoinRowsUnique sp w → JoinRowsUnique sp (evs.foldl (step sp) w) := by
    intro evs
    induction evs with
    | nil => intro w h; exact h
    | cons e rest ih => intro w h; exact ih _ (join_created_once_step sp w e h)
  apply hall
  intro n _
  simp [init, countL]

open Mistral.Engine in
/-- joins are never IDLE and never the subject of a re-run request, in every reachable state -/
theorem join_inv_reachable (sp : Spec) (evs : List Event) : JoinInv sp (run sp evs) := by
  unfold run
  have hall : ∀ (evs : List Event) (w : World), JoinInv sp w → JoinInv sp (evs.foldl (step sp) w) := by
    intro evs
    induction evs with
    | nil => intro w h; exact h
    | cons e rest ih => intro w h; exact ih _ (step_ji sp w e h)
  exact hall _ _ (init_ji sp)

open Mistral.Engine in
/-- C04, engine level, for every reachable state and every next event: an execution of a join that
    is not RUNNING becomes RUNNING only through its own `_refresh_task_state` job, and only when
    the join verdict computed on the task rows of that very moment is RUNNING — which by
    `join_running_iff_count` / `join_running_iff_all` means that the required number of inbound
    tasks have completed and routed to it.  No other event (a trigger from a branch, a `start_task`
    RPC, resume, an action result, a completion check) starts a join. -/
theorem join_starts_only_when_ready (sp : Spec) (evs : List Event) (ev : Event) (t : Tid) (k : JoinKind)
    (hj : isJoin sp t.1 = some k)
    (hnot : ∀ r ∈ (run sp evs).tasks, (r.name, r.occ) = t → r.state ≠ .RUNNING)
    (r' : TaskRow) (hr' : r' ∈ (step sp (run sp evs) ev).tasks) (hid : (r'.name, r'.occ) = t)
    (hs : r'.state = .RUNNING) :
    ev = .deliver (.jobRefresh t) ∧
    ∃ L, joinLogicalState sp.graph (rowsOf (run sp evs)) (fuelFor sp) t.1 k = some L ∧ L.state = .RUNNING := by
  have hinv := join_inv_reachable sp evs
  generalize run sp evs = w at *
  have h : RunningWithin (fun t' => ∃ r ∈ w.tasks, (r.name, r.occ) = t' ∧ r.state = .RUNNING) w.tasks :=
    fun r hr hs => ⟨r, hr, rfl, hs⟩
  have := step_running sp w ev _ h r' hr' hs
  rw [hid] at this
  rcases this with ⟨r, hr, hrid, hrs⟩ | ⟨f, r, hev, hp, hfind, hidle⟩ | ⟨hev, k', L, hk', hL, hLs⟩
  · exact absurd hrs (hnot r hr hrid)
  · exfalso
    cases f with
    | false =>
      have := hinv.2 _ hp rfl t false (Or.inr rfl)
      rw [hj] at this; cases this
    | true =>
      have hmem := findTask_mem _ _ _ hfind
      have hrid := findTask_id _ _ _ hfind
      have hn : r.name = t.1 := by rw [← hrid]
      exact hinv.1 r hmem (by rw [hn, hj]; rfl) (hidle rfl)
  · rw [hj] at hk'
    cases hk'
    exact ⟨hev, L, hL, hLs⟩

/-- non-vacuity of `join_starts_only_when_ready`: two start tasks routing to a `join: all`; after
    both completed, the refresh job starts the join (and before that it is WAITING) -/
def g2 : Graph := { tasks := [⟨"a", none, ["j"], [], [], []⟩, ⟨"b", none, ["j"], [], [], []⟩,
                              ⟨"j", some .all, [], [], [], []⟩], defaults := none }
def sp2 : Engine.Spec := { graph := g2, live := [⟨"a", ["j"], [], []⟩, ⟨"b", ["j"], [], []⟩, ⟨"j", [], [], []⟩] }
open Mistral.Engine in
def evs2 : List Event := [.start,
  .deliver (.postStartTask ("a", 0) true), .deliver (.rpcStartTask ("a", 0) true),
  .deliver (.postRunAction ("a", 0)), .execute ("a", 0) true, .deliver (.rpcResult ("a", 0) true),
  .deliver (.postStartTask ("b", 0) true), .deliver (.rpcStartTask ("b", 0) true),
  .deliver (.postRunAction ("b", 0)), .execute ("b", 0) true, .deliver (.rpcResult ("b", 0) true),
  .deliver (.postSchedRefresh ("j", 0))]
open Mistral.Engine in
example : ((run sp2 evs2).tasks.map fun r => (r.name, r.occ, r.state)) =
    [("a", 0, .SUCCESS), ("b", 0, .SUCCESS), ("j", 0, .WAITING)] ∧
    ((step sp2 (run sp2 evs2) (.deliver (.jobRefresh ("j", 0)))).tasks.map fun r => (r.name, r.occ, r.state)) =
    [("a", 0, .SUCCESS), ("b", 0, .SUCCESS), ("j", 0, .RUNNING)] := by decide

end Mistral.Props.C04
