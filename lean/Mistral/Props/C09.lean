/- C09 — a sub-workflow and its parent task stay consistent.

   Statement (properties.jsonl): "A task that runs a sub-workflow ends SUCCESS with the sub-workflow's
   output as its result iff the sub-workflow succeeded, ERROR iff it failed and CANCELLED iff it was
   cancelled, and the parent continues exactly once per sub-workflow completion.  Every descendant
   execution records the same root execution and the caller's namespace, evaluates its expressions
   against the root execution's environment, and input not declared by the child definition is passed
   on as execution parameters rather than silently dropped."

   Model: Mistral/Model/SubWf.lean; helper lemmas: Mistral/Lemmas/SubWf.lean; structural facts of the
   source regenerated on every run: Mistral/Gen/SubWfFacts.lean. -/
import Mistral.Model.SubWf
import Mistral.Lemmas.SubWf
import Mistral.Lemmas.SubWfRerun
import Mistral.Gen.SubWfFacts
set_option linter.unusedSimpArgs false
namespace Mistral.Props.C09
open Mistral Mistral.SubWf

/-! ## "ends SUCCESS ... iff the sub-workflow succeeded, ERROR iff it failed, CANCELLED iff cancelled" -/

/-- The parent task state prescribed for a finished child is SUCCESS iff the child is SUCCESS, ERROR iff
    ERROR, CANCELLED iff CANCELLED, and nothing is prescribed for a child that is not finished. -/
theorem parent_state_follows_child (c : St) :
    (parentState c = some .SUCCESS ↔ c = .SUCCESS) ∧
    (parentState c = some .ERROR ↔ c = .ERROR) ∧
    (parentState c = some .CANCELLED ↔ c = .CANCELLED) ∧
    (parentState c = none ↔ isFinal c = false) := by
  cases c <;> simp [parentState, isFinal]

/-- What the code does (RegularTask.on_action_complete reads the CHILD ROW's state, Task.complete skips a
    completed task) is that prescription: a not-yet-completed task takes exactly `parentState child` and
    the completion logic runs; a completed task is left alone and nothing runs. -/
theorem task_takes_child_state (taskState child : St) (hfin : isFinal child = true) :
    (isCompleted taskState = false →
      taskOnChildComplete taskState child = (child, true) ∧ parentState child = some child) ∧
    (isCompleted taskState = true → taskOnChildComplete taskState child = (taskState, false)) := by
  constructor
  · intro h
    refine ⟨by simp [taskOnChildComplete, h], ?_⟩
    cases child <;> simp_all [parentState, isFinal]
  · intro h; simp [taskOnChildComplete, h]

/-- The message `_send_result_to_parent_workflow` registers agrees with the row the task reads: for every
    final child state a message exists, the Result the engine builds from it stands for that same state,
    and for SUCCESS it carries the child's output (loaded from the row). -/
theorem result_message_agrees_with_row (s : St) (info : Option String) (dflt : String) (out : Val)
    (hfin : isFinal s = true) :
    ∃ payload, sendResult s info dflt = some payload ∧
      resultState (engineResult payload out) = s ∧
      (s = .SUCCESS → (engineResult payload out).data = out) := by
  cases s <;> simp_all [isFinal, sendResult, engineResult, resultState, Result.isSuccess,
    Result.isError, Result.isCancel]

/-- no message for a state that is not final (the code raises RuntimeError) -/
theorem no_message_unless_final (s : St) (info : Option String) (dflt : String)
    (h : isFinal s = false) : sendResult s info dflt = none := by
  cases s <;> simp_all [isFinal, sendResult]

/-- "with the sub-workflow's output as its result": the result of a plain task with one accepted child
    is that child's output. -/
theorem task_result_is_child_output (c : ChildRow) (h : c.accepted = true) :
    taskResult false [c] = c.output := by
  simp [taskResult, sortByIndex, insertByIndex, h]

/-- with-items callers: CANCELLED iff some accepted child is CANCELLED; otherwise ERROR iff some accepted
    child is ERROR; otherwise SUCCESS. -/
theorem with_items_state_follows_children (ch : List ChildRow) :
    (withItemsFinalState ch = .CANCELLED ↔ ch.any (fun c => c.accepted && c.state == .CANCELLED) = true) ∧
    (withItemsFinalState ch = .ERROR ↔
      ch.any (fun c => c.accepted && c.state == .CANCELLED) = false ∧
      ch.any (fun c => c.accepted && c.state == .ERROR) = true) ∧
    (withItemsFinalState ch = .SUCCESS ↔
      ch.any (fun c => c.accepted && c.state == .CANCELLED) = false ∧
      ch.any (fun c => c.accepted && c.state == .ERROR) = false) := by
  unfold withItemsFinalState
  cases h1 : ch.any (fun c => c.accepted && c.state == .CANCELLED) <;>
    cases h2 : ch.any (fun c => c.accepted && c.state == .ERROR) <;> simp

example : withItemsFinalState [⟨0, .SUCCESS, true, .null⟩, ⟨1, .ERROR, true, .null⟩] = .ERROR := by decide
example : taskResult true [⟨1, .SUCCESS, true, .num 1⟩, ⟨0, .SUCCESS, true, .num 0⟩] = .list [.num 0, .num 1] := by
  rfl

/-- In every reachable state of the execution tree, under every order and any number of (re)deliveries:
    a task whose completion logic ran has a child that is final, has exactly that child's state and that
    child's output as result. -/
theorem parent_task_follows_child_reachable (ns0 : String) (env0 : Dict) (evs : List Ev)
    (t : Nat) (tk : PTask) (h : (run (init ns0 env0) evs).tasks[t]? = some tk) (hc : tk.continued = 1) :
    ∃ (c : Nat) (e : Exec), (run (init ns0 env0) evs).execs[c]? = some e ∧ e.parentTask = some t ∧
      isFinal e.state = true ∧ parentState e.state = some tk.state ∧ tk.result = e.output := by
  obtain ⟨c, e, h1, h2, h3, h4, h5⟩ := (handInv_reachable ns0 env0 evs).follows t tk h hc
  refine ⟨c, e, h1, h2, h3, ?_, h5⟩
  rw [h4]; revert h3; cases e.state <;> simp [parentState, isFinal]

/-! ## "the parent continues exactly once per sub-workflow completion" -/

/-- exactly one result message is ever registered for a finished child that has a parent task, none for
    an unfinished one (the CAS in `Workflow.set_state`: only the RUNNING -> final move registers). -/
theorem report_once (ns0 : String) (env0 : Dict) (evs : List Ev) (c : Nat) (e : Exec)
    (h : (run (init ns0 env0) evs).execs[c]? = some e) (hp : e.parentTask.isSome = true) :
    (run (init ns0 env0) evs).sent.count c = if isFinal e.state then 1 else 0 := by
  have := (handInv_reachable ns0 env0 evs).sentCount c
  simp only [expectedSent, h, hp, Bool.and_true] at this
  exact this

/-- the completion logic of a task runs at most once, whatever is delivered, duplicated or reordered; it
    has run exactly when the task is completed. -/
theorem parent_continues_once (ns0 : String) (env0 : Dict) (evs : List Ev) (t : Nat) (tk : PTask)
    (h : (run (init ns0 env0) evs).tasks[t]? = some tk) :
    tk.continued ≤ 1 ∧ (tk.continued = 1 ↔ isCompleted tk.state = true) := by
  rcases (handInv_reachable ns0 env0 evs).cont t tk h with ⟨h0, h1⟩ | ⟨h0, h1⟩
  · refine ⟨by omega, ⟨fun hh => by omega, fun hh => by rw [h1] at hh; cases hh⟩⟩
  · exact ⟨by omega, ⟨fun _ => h1, fun _ => h0⟩⟩

/-- a duplicate delivery of the child's result message is a no-op, in every reachable state -/
theorem duplicate_delivery_noop (ns0 : String) (env0 : Dict) (evs : List Ev) (c : Nat) :
    step (step (run (init ns0 env0) evs) (.deliver c)) (.deliver c) =
      step (run (init ns0 env0) evs) (.deliver c) :=
  deliver_twice _ c (fun e h hs => reachable_sent_final ns0 env0 evs c e h hs)

/-- non-vacuity: a root starts a task, the task spawns a child, the child succeeds, its message is
    delivered three times: the task is SUCCESS with the child's output and continued exactly once. -/
example :
    let w := run (init "ns" [("k", .str "rootenv")])
      [.newTask 0, .spawn 0 [], .finish 1 .SUCCESS (.num 7), .deliver 1, .deliver 1, .deliver 1]
    (w.tasks.map fun t => (t.state, t.continued, t.child)) = [(.SUCCESS, 1, some 1)] ∧ w.sent = [1] := by
  decide

/-! ## "every descendant execution records the same root execution and the caller's namespace" -/

/-- `root_execution_id or id`: a child of the root records the root's id, a child of a descendant the id
    its parent recorded. -/
theorem root_of_cases (pid r : String) (hr : r ≠ "") :
    rootOf none pid = pid ∧ rootOf (some "") pid = pid ∧ rootOf (some r) pid = r := by
  refine ⟨rfl, rfl, ?_⟩
  have : r.isEmpty = false := by
    cases h : r.isEmpty with
    | false => rfl
    | true => exact absurd (String.isEmpty_iff.1 h) hr
  simp [rootOf, this]

/-- the root id recorded along a path root -> d1 -> d2 -> ...: each execution applies `rootOf` to its
    parent's (recorded root, id) -/
def recordedRoots (parentRoot : Option String) (parentId : String) : List String → List String
  | [] => []
  | d :: ds => rootOf parentRoot parentId :: recordedRoots (some (rootOf parentRoot parentId)) d ds

/-- root_id_propagates (induction on depth): along any path below a root execution with a non-empty id,
    every descendant records the root's id. -/
theorem root_id_propagates_path (rootId : String) (h : rootId ≠ "") (path : List String) :
    ∀ r ∈ recordedRoots none rootId path, r = rootId := by
  have gen : ∀ (path : List String) (pr : Option String) (pid : String),
      rootOf pr pid = rootId → ∀ r ∈ recordedRoots pr pid path, r = rootId := by
    intro path
    induction path with
    | nil => intro pr pid _ r hr; cases hr
    | cons d ds ih =>
      intro pr pid hp r hr
      simp only [recordedRoots, List.mem_cons] at hr
      rcases hr with hr | hr
      · rw [hr, hp]
      · refine ih (some (rootOf pr pid)) d ?_ r hr
        rw [hp]; exact (root_of_cases d rootId h).2.2
  exact gen path none rootId rfl

example : recordedRoots none "R" ["c", "g", "gg"] = ["R", "R", "R"] := by decide

/-- root_id_propagates / namespace_inherited, on the execution tree under all event orders: every
    execution other than the root records the root (index 0), the namespace the root was started in,
    and a parent task; the root records no root. -/
theorem root_and_namespace_reachable (ns0 : String) (env0 : Dict) (evs : List Ev) (i : Nat) (e : Exec)
    (h : (run (init ns0 env0) evs).execs[i]? = some e) :
    (i = 0 → e.root = none ∧ e.ns = ns0) ∧
    (0 < i → e.root = some 0 ∧ e.ns = ns0 ∧ e.parentTask.isSome = true) := by
  have inv := treeInv_reachable ns0 env0 evs
  constructor
  · intro h0
    subst h0
    obtain ⟨r, hr0, hr1, _, hr3, _⟩ := inv.root0
    rw [hr0] at h; cases h
    exact ⟨hr1, hr3⟩
  · intro hi
    exact inv.desc i e hi h

/-! ## "evaluates its expressions against the root execution's environment" -/

/-- env_from_root: `get_workflow_environment_dict` of ANY execution of the tree (whatever `env` parameter
    the execution itself was given, e.g. through an undeclared `env` input) is the environment the root
    was started with; two levels of the python recursion suffice. -/
theorem env_from_root (ns0 : String) (env0 : Dict) (evs : List Ev) (i : Nat) (e : Exec)
    (h : (run (init ns0 env0) evs).execs[i]? = some e) (fuel : Nat) :
    envDict (run (init ns0 env0) evs) (fuel + 2) i = some env0 :=
  envDict_of_treeInv ns0 env0 _ (treeInv_reachable ns0 env0 evs) i e h fuel

/-- non-vacuity: a grandchild started with its own `env` parameter still sees the root's -/
example :
    let w := run (init "" [("k", .str "rootenv")])
      [.newTask 0, .spawn 0 [("k", .str "childenv")], .newTask 1, .spawn 1 [("k", .str "gc")]]
    (envDict w 2 2).map (fun d => d.map (·.1)) = some ["k"] ∧ w.execs.length = 3 ∧
      (w.execs.map (·.root)) = [none, some 0, some 0] := by
  decide

/-! ## "input not declared by the child definition is passed on as execution parameters" -/

/-- undeclared_input_becomes_params, exact characterisation of the move (python dict: keys unique):
    the child's params hold, for every key, the value of the undeclared input key of that name if there
    is one, else what the engine had assigned (`base`); the child's input keeps exactly the declared
    keys.  Nothing is dropped. -/
theorem undeclared_input_becomes_params (declared : List String) (input base : Dict) (k : String)
    (hn : (input.map (·.1)).Nodup) :
    Dict.get? (moveUndeclared declared input base).2 k =
      (if k ∈ declared then Dict.get? base k
       else match Dict.get? input k with
         | some v => some v
         | none => Dict.get? base k) ∧
    Dict.get? (moveUndeclared declared input base).1 k =
      (if k ∈ declared then Dict.get? input k else none) := by
  constructor
  · exact split_params_fold declared input (input, base) k hn
  · have := split_input_fold declared input (input, base) k
    simp only [moveUndeclared]
    rw [this]
    by_cases hd : k ∈ declared
    · simp [hd]
    · by_cases hm : k ∈ input.map (·.1)
      · simp [hd, hm]
      · simp [hd, hm, get?_none_of_not_mem_keys input k hm]

/-- nothing is dropped: every input pair ends in exactly one of the two dictionaries, with its value -/
theorem split_is_partition (declared : List String) (input base : Dict) (k : String) (v : Val)
    (hn : (input.map (·.1)).Nodup) (h : (k, v) ∈ input) :
    (k ∈ declared → Dict.get? (moveUndeclared declared input base).1 k = some v) ∧
    (k ∉ declared → Dict.get? (moveUndeclared declared input base).2 k = some v ∧
                     Dict.get? (moveUndeclared declared input base).1 k = none) := by
  have hg := get?_some_of_mem input k v hn h
  have := undeclared_input_becomes_params declared input base k hn
  constructor
  · intro hd; rw [this.2]; simp [hd, hg]
  · intro hd; rw [this.1, this.2]; simp [hd, hg]

/-- a parameter the engine assigned survives the move when no undeclared input key has its name -/
theorem move_keeps_unshadowed (declared : List String) (input base : Dict) (r : String)
    (hn : (input.map (·.1)).Nodup) (hfree : r ∈ declared ∨ r ∉ input.map (·.1)) :
    Dict.get? (moveUndeclared declared input base).2 r = Dict.get? base r := by
  rw [(undeclared_input_becomes_params declared input base r hn).1]
  rcases hfree with hd | hm
  · simp [hd]
  · simp [get?_none_of_not_mem_keys input r hm]

/-- the loop is the move unless an undeclared key has a reserved name, in which case it is refused with
    the declared InputException (the task fails; nothing is started, nothing silently dropped) -/
theorem split_refuses_iff (declared : List String) (input base : Dict) :
    (collides declared input = true → splitInput declared input base = .error .inputError) ∧
    (collides declared input = false →
      splitInput declared input base = .ok (moveUndeclared declared input base)) := by
  unfold splitInput
  constructor <;> intro h <;> simp [h]

/-- reserved_params_kept (full, after fix f99833f3): for EVERY input either the schedule is refused with
    the declared error or the four parameters linking the child to its parent are the engine's. -/
theorem reserved_params_kept (declared : List String) (input base : Dict)
    (hn : (input.map (·.1)).Nodup) :
    splitInput declared input base = .error .inputError ∨
    (splitInput declared input base = .ok (moveUndeclared declared input base) ∧
      ∀ r ∈ reservedKeys, Dict.get? (moveUndeclared declared input base).2 r = Dict.get? base r) := by
  cases hc : collides declared input with
  | true => left; exact (split_refuses_iff declared input base).1 hc
  | false =>
    right
    refine ⟨(split_refuses_iff declared input base).2 hc, ?_⟩
    intro r hr
    apply move_keeps_unshadowed declared input base r hn
    by_cases hm : r ∈ input.map (·.1)
    · left
      obtain ⟨kv, hkv, hk⟩ := List.mem_map.1 hm
      have hall := List.any_eq_false.1 hc kv hkv
      subst hk
      have hres : kv.1 ∈ reservedKeys := hr
      have hall' : ¬ kv.1 ∈ declared → ¬ kv.1 ∈ reservedKeys := by simpa using hall
      exact Classical.byContradiction (fun hnd => hall' hnd hres)
    · right; exact hm

/-- non-vacuity: both outcomes occur -/
example : splitInput ["x"] [("x", .num 1), ("namespace", .str "zz")] [("namespace", .str "")]
    = .error .inputError := by rfl
example : (splitInput ["x"] [("x", .num 1), ("extra", .num 5)] [("namespace", .str "")]).toOption.map
    (fun r => (r.1.map (·.1), r.2.map (·.1))) = some (["x"], ["namespace", "extra"]) := by rfl

/-- the refused names are those of the source (Tie A) and exactly the link parameters -/
theorem reserved_keys_match_source : reservedKeys = Gen.SubWfFacts.reservedInputKeys := by decide

theorem reserved_keys_are_base_keys : reservedKeys = baseKeys := by decide

/-- the keys the engine assigns before the undeclared keys are moved are those of the source (Tie A) -/
theorem base_keys_match_source : baseKeys = Gen.SubWfFacts.scheduleBaseKeys := by decide

theorem rpc_keywords_match_source : rpcKeywords = Gen.SubWfFacts.rpcKeywords := by decide

/-- which parameters the engine has assigned when the undeclared keys are moved -/
theorem base_params_keys (pp : Dict) (rootId taskId : String) (index : Nat) (p : Dict)
    (h : baseParams pp rootId taskId index = .ok p) :
    p.map (·.1) = baseKeys ∨ p.map (·.1) = baseKeys ++ ["notify"] := by
  unfold baseParams at h
  split at h
  · cases h
  · split at h
    · cases h; right; simp [Dict.set, baseKeys]
    · cases h; left; rfl

theorem base_params_get (pp : Dict) (rootId tid : String) (index : Nat) (base : Dict)
    (h : baseParams pp rootId tid index = .ok base) :
    Dict.get? base "root_execution_id" = some (.str rootId) ∧
    Dict.get? base "task_execution_id" = some (.str tid) ∧
    Dict.get? base "index" = some (.num index) ∧
    Dict.get? base "namespace" = Dict.get? pp "namespace" ∧
    (Dict.get? pp "namespace").isSome = true := by
  unfold baseParams at h
  split at h
  · cases h
  · rename_i ns hns
    split at h
    · cases h
      refine ⟨?_, ?_, ?_, ?_, by simp [hns]⟩
      · rw [Dict.get?_set_other _ _ _ _ (by decide)]; rfl
      · rw [Dict.get?_set_other _ _ _ _ (by decide)]; rfl
      · rw [Dict.get?_set_other _ _ _ _ (by decide)]; rfl
      · rw [Dict.get?_set_other _ _ _ _ (by decide), hns]; rfl
    · cases h
      exact ⟨rfl, rfl, rfl, by rw [hns]; rfl, by simp [hns]⟩

/-- child_row_records_caller (full, after fix f99833f3): whenever the in-process schedule produces a child
    row at all, the row records the root from `rootOf`, the caller's task, the item index and the caller's
    namespace, for EVERY input (an input that would overwrite them is refused, `reserved_params_kept`). -/
theorem child_row_records_caller (pp : Dict) (pr : Option String) (pid tid : String) (index : Nat)
    (declared : List String) (input : Dict) (defNs : String) (rec : ExecRec)
    (hn : (input.map (·.1)).Nodup)
    (h : schedule pp pr pid tid index declared input false defNs = .ok rec) :
    rec.rootExecId = .str (rootOf pr pid) ∧ rec.taskExecId = .str tid ∧ rec.index = .num index ∧
    Dict.get? rec.params "namespace" = Dict.get? pp "namespace" := by
  unfold schedule at h
  cases hb : baseParams pp (rootOf pr pid) tid index with
  | error e => simp [hb, bind, Except.bind] at h
  | ok base =>
    obtain ⟨b1, b2, b3, b4, b5⟩ := base_params_get pp _ tid index base hb
    rcases reserved_params_kept declared input base hn with hs | ⟨hs, hk⟩
    · simp [hb, hs, bind, Except.bind] at h
    · have k1 := hk "root_execution_id" (by decide)
      have k2 := hk "task_execution_id" (by decide)
      have k3 := hk "index" (by decide)
      have k4 := hk "namespace" (by decide)
      have hhas : Dict.has (moveUndeclared declared input base).2 "namespace" = true := by
        simp only [Dict.has, k4, b4]; exact b5
      simp only [hb, hs, bind, Except.bind, startParams, hhas, if_true, Bool.false_eq_true, if_false] at h
      unfold createExecution at h
      cases he : getEnvironment (moveUndeclared declared input base).2 with
      | error e => simp [he, bind, Except.bind] at h
      | ok env =>
        simp only [he, bind, Except.bind, pure, Except.pure] at h
        cases h
        refine ⟨by simp [k1, b1], by simp [k2, b2], by simp [k3, b3], ?_⟩
        simp only []
        rw [Dict.get?_set_other _ _ _ _ (by decide), k4, b4]

/-- the input the fix refuses: no child row, a declared error (before the fix: a row with namespace zz) -/
example : (schedule [("namespace", .str "")] none "P" "T" 0 ["x"]
    [("x", .num 1), ("namespace", .str "zz")] false "").toOption.isNone = true := by rfl

/-- STILL DEVIATING (known finding `rpc-start-keyword-clash`): "undeclared input never prevents the start"
    fails through the message bus ... -/
theorem rpc_start_total_full_fails :
    ¬ (∀ (defNs : String) (params : Dict), ∃ p, startParams true defNs params = .ok p) := by
  intro h
  obtain ⟨p, hp⟩ := h "" [("description", .str "d")]
  revert hp; simp [startParams, rpcKeywords]

/-- ... and holds when no parameter is named like a keyword of `EngineClient.start_workflow` -/
theorem rpc_start_total_partial (defNs : String) (params : Dict)
    (h : params.any (fun kv => rpcKeywords.contains kv.1) = false) :
    ∃ p, startParams true defNs params = .ok p := by
  unfold startParams
  rw [h]
  exact ⟨_, rfl⟩

/-- non-vacuity of the hypotheses: an undeclared `extra` and an undeclared `env` go to params, the reserved
    ones stay -/
example :
    (schedule [("namespace", .str "ns1")] none "P" "T" 2 ["x"]
      [("x", .num 1), ("extra", .num 5)] false "ns1").toOption.map
      (fun r => (r.params.map (·.1), r.input.map (·.1))) =
    some (["root_execution_id", "task_execution_id", "index", "namespace", "extra", "env"], ["x"]) := by
  rfl

/-- a parameter named like a keyword of `EngineClient.start_workflow` makes the start through the message
    bus fail (TypeError in a post-commit operation: the child never starts); the in-process start never
    fails on parameters. -/
theorem rpc_keyword_clash (defNs : String) (params : Dict) :
    (startParams true defNs params = .error .typeError ↔
      params.any (fun kv => rpcKeywords.contains kv.1) = true) ∧
    (∃ p, startParams false defNs params = .ok p) := by
  constructor
  · unfold startParams
    cases h : params.any (fun kv => rpcKeywords.contains kv.1) <;> simp [h]
  · unfold startParams
    simp

/-! ## "by name, workbook-relative name or expression": resolve_workflow_definition -/

/-- resolve_name_correct (full, after fix 52ef6286): for EVERY workbook name, parent spec name (dots
    included) and child name, a parent stored as `wb.spec` looks up `wb.child`, then `child`. -/
theorem resolve_name_correct (wb spec child : List Char) :
    wbNameOf (fullName wb spec) spec = wb ∧
    candidates (fullName wb spec) spec child = intendedCandidates wb child := by
  have h1 : wbNameOf (fullName wb spec) spec = wb := by
    unfold wbNameOf fullName
    have h : ('.' :: spec).isSuffixOf (wb ++ '.' :: spec) = true :=
      List.isSuffixOf_iff_suffix.2 (List.suffix_append wb ('.' :: spec))
    rw [if_pos h]
    have : (wb ++ '.' :: spec).length - spec.length - 1 = wb.length := by simp; omega
    rw [this]; simp
  refine ⟨h1, ?_⟩
  have hne : (fullName wb spec != spec) = true := by
    have : fullName wb spec ≠ spec := by
      intro e
      have := congrArg List.length e
      simp [fullName] at this
      omega
    simpa using this
  simp only [candidates, hne, if_true, h1, intendedCandidates, List.singleton_append]

/-- the former counter-witness (workbook `wb`, workflow `a.b`, child `c`) now resolves inside the workbook -/
example : candidates "wb.a.b".toList "a.b".toList "c".toList = ["wb.c".toList, "c".toList] := by decide

/-- the old expression survives only on the branch where the execution name does not end with
    "." ++ spec name (never the case for a workbook workflow); there it still is a character-set strip,
    correct when the spec name has no '.' -/
theorem old_rstrip_branch (wb spec : List Char) (hdot : '.' ∉ spec) :
    (rstripChars (fullName wb spec) spec).dropLast = wb := by
  unfold fullName
  rw [rstrip_suffix wb spec hdot]
  simp

/-- Tie A: the pattern a workflow name inside a workbook must match admits no '.' (so before the fix only
    unvalidated definitions were affected) -/
theorem workbook_wf_names_dotless : '.' ∉ Gen.SubWfFacts.workbookWfNameChars := by decide

/-- ... and validation is mandatory by default -/
theorem validation_mandatory_by_default : Gen.SubWfFacts.validationMandatoryByDefault = true := by decide

/-- a standalone parent (execution name = spec name) looks up the global name only -/
theorem resolve_standalone (spec child : List Char) : candidates spec spec child = [child] := by
  simp [candidates]

/-- lookup order: the caller's namespace first, then the default namespace, else not found -/
theorem lookup_order (defs : List (List Char × String)) (name : List Char) (ns : String) :
    ((name, ns) ∈ defs → lookupDef defs name ns = some (name, ns)) ∧
    ((name, ns) ∉ defs → (name, "") ∈ defs → lookupDef defs name ns = some (name, "")) ∧
    ((name, ns) ∉ defs → (name, "") ∉ defs → lookupDef defs name ns = none) := by
  unfold lookupDef
  refine ⟨fun h => by simp [h], fun h1 h2 => by simp [h1, h2], fun h1 h2 => by simp [h1, h2]⟩

/-- workbook-relative first, then global: with the two intended candidates, the global definition is
    used only when no `wb.child` exists in the caller's or the default namespace. -/
theorem resolve_workbook_first (defs : List (List Char × String)) (ns : String) (wb child : List Char) :
    (lookupDef defs (fullName wb child) ns ≠ none →
      resolveIn defs ns (intendedCandidates wb child) = lookupDef defs (fullName wb child) ns) ∧
    (lookupDef defs (fullName wb child) ns = none →
      resolveIn defs ns (intendedCandidates wb child) = lookupDef defs child ns) := by
  constructor
  · intro h
    cases h1 : lookupDef defs (fullName wb child) ns with
    | none => exact absurd h1 h
    | some d => simp [intendedCandidates, resolveIn, h1]
  · intro h
    cases h2 : lookupDef defs child ns <;> simp [intendedCandidates, resolveIn, h, h2]

example : resolve [("wb.c".toList, ""), ("c".toList, "")] "wb.w1".toList "w1".toList "" "c".toList
    = some ("wb.c".toList, "") := by decide
example : resolve [("wb.c".toList, ""), ("c".toList, "")] "wb.a.b".toList "a.b".toList "" "c".toList
    = some ("wb.c".toList, "") := by decide


/-! ## an execution that is not completed is not accepted — inner reruns included -/

/-- "ends SUCCESS … iff the sub-workflow succeeded … and the parent continues exactly once per
    sub-workflow completion", the accepted flag behind it: over ALL histories of the execution tree —
    new tasks, spawns, completions, (re)deliveries AND reruns of a task inside a failed or cancelled
    sub-workflow (`_recursive_rerun`: the execution and all its ancestors go back to RUNNING) — every
    accepted execution is completed.  A with-items parent counts accepted children only, so a child
    that was re-opened from the inside (RUNNING again) is never taken for a finished item. -/
theorem running_child_not_accepted (ns0 : String) (env0 : Dict) (evs : List EvR) (i : Nat) (e : Exec)
    (he : (runR (init ns0 env0) evs).execs[i]? = some e) (hnf : isFinal e.state = false) :
    e.accepted = false := by
  cases ha : e.accepted with
  | false => rfl
  | true =>
    have := accFinal_runR (accFinal_init ns0 env0) evs e (List.mem_of_getElem? he) ha
    rw [hnf] at this; cases this

-- non-vacuity: a child fails (accepted), its inner task is rerun: child and root RUNNING, not accepted
example : ((runR (init "" []) [.base (.newTask 0), .base (.spawn 0 []), .base (.finish 1 .ERROR .null),
      .rerun 1]).execs.map fun e => (e.state, e.accepted)) = [(.RUNNING, false), (.RUNNING, false)] ∧
    ((runR (init "" []) [.base (.newTask 0), .base (.spawn 0 []), .base (.finish 1 .ERROR .null)]).execs.map
      fun e => (e.state, e.accepted)) = [(.RUNNING, false), (.ERROR, true)] := by decide

end Mistral.Props.C09
