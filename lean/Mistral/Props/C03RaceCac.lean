/- C03 / C11 at statement granularity, the COMPLETION CHECK transaction:
   `workflow_handler.check_and_complete` + `Workflow.check_and_complete` + `_succeed_workflow`,
   with the `except MistralException: force_fail_workflow` handler that runs in the SAME
   transaction (script `cacSucceedWorkflow`, regenerated on every run).

   The guards (`is_completed`, `is_paused_or_completed`) are evaluated on the copy loaded at the
   start; `db_api.expire_all()` then makes the next access re-read the row, and `set_state` uses
   THAT state as the expected value of its compare-and-swap.  Between the two reads anything may
   commit. -/
import Mistral.Lemmas.Race
import Mistral.Gen.RaceScripts
namespace Mistral.Props.C03RaceCac
open Mistral.Race Mistral.Gen.RaceScripts

set_option maxRecDepth 8000
set_option linter.unusedSimpArgs false

/-- executions are not deleted while they complete -/
def KeepsAlive (sched : Nat → Intf) : Prop := ∀ k r, r.alive = true → (sched k r).alive = true

theorem pre_alive (sched : Nat → Intf) (row0 : Row) (h0 : row0.alive = true) (hk : KeepsAlive sched) :
    ∀ n, (pre sched n row0).alive = true
  | 0 => h0
  | n + 1 => hk n _ (pre_alive sched row0 h0 hk n)

/-- The completion check under arbitrary interference (rows not deleted) does exactly one of:
    NOTHING (the committed row is the interferers' row);
    the SUCCESS completion, atomically, on the row `rc` of its compare-and-swap, whose state is the
    state the RE-READ `r2` showed: neither paused nor finished (the guard repeated after
    `expire_all`, repo fix 3b5c318a, and the guard of `_succeed_workflow`, repo fix ce9b9520) and a valid
    source of SUCCESS, i.e. RUNNING;
    the FORCE-FAIL of the exception handler, atomically, on the row `rh`, when the re-read showed
    a state that is neither paused, finished nor a valid source of SUCCESS (IDLE / DELAYED: states a
    started workflow execution never has). -/
theorem cac_succeed_atomic (sched : Nat → Intf) (vars : Fields) (row0 : Row)
    (h0 : row0.alive = true) (hk : KeepsAlive sched) :
    ((runWith cacSucceedWorkflow sched vars row0).sh.db = pre sched 27 row0 ∧
      (runWith cacSucceedWorkflow sched vars row0).l.emitted = []) ∨
    (memVals (pausedStates ++ completedStates) ((pre sched 1 row0).f 0) = false ∧
      memVals (pausedStates ++ completedStates) ((pre sched 4 row0).f 0) = false ∧
      memVals validFromSuccess ((pre sched 4 row0).f 0) = true ∧
      (pre sched 9 row0).f 0 = (pre sched 4 row0).f 0 ∧
      (runWith cacSucceedWorkflow sched vars row0).sh.db =
        between sched 9 18 (winRow (.str "SUCCESS") (vars 1) (vars 2) (pre sched 4 row0) (pre sched 9 row0))) ∨
    (memVals (pausedStates ++ completedStates) ((pre sched 1 row0).f 0) = false ∧
      memVals (pausedStates ++ completedStates) ((pre sched 4 row0).f 0) = false ∧
      memVals validFromSuccess ((pre sched 4 row0).f 0) = false ∧
      memVals validFromError ((pre sched 4 row0).f 0) = true ∧
      (pre sched 20 row0).f 0 = (pre sched 4 row0).f 0 ∧
      (runWith cacSucceedWorkflow sched vars row0).sh.db =
        between sched 20 7 (winRow (.str "ERROR") (vars 3) (vars 4) (pre sched 4 row0) (pre sched 20 row0))) := by
  have a1 := pre_alive sched row0 h0 hk 1
  have a4 := pre_alive sched row0 h0 hk 4
  have a9 := pre_alive sched row0 h0 hk 9
  have a20 := pre_alive sched row0 h0 hk 20
  by_cases g1 : memVals completedStates ((pre sched 1 row0).f 0) = true
  · left
    simp only [pre, completedStates] at a1 g1
    simp only [cacSucceedWorkflow]
    race_simp [a1, g1]
  by_cases g2 : memVals (pausedStates ++ completedStates) ((pre sched 1 row0).f 0) = true
  · left
    simp only [pre, completedStates, pausedStates, List.cons_append, List.nil_append] at a1 g1 g2
    simp only [cacSucceedWorkflow]
    race_simp [a1, g1, g2]
  by_cases g3 : memVals (pausedStates ++ completedStates) ((pre sched 4 row0).f 0) = true
  · left
    simp only [pre, completedStates, pausedStates, List.cons_append, List.nil_append] at a1 a4 g1 g2 g3
    simp only [cacSucceedWorkflow]
    race_simp [a1, a4, g1, g2, g3]
  by_cases c : memVals completedStates ((pre sched 4 row0).f 0) = true
  · left
    simp only [pre, completedStates, pausedStates, List.cons_append, List.nil_append] at a1 a4 g1 g2 g3 c
    simp only [cacSucceedWorkflow]
    race_simp [a1, a4, g1, g2, g3, c]
  by_cases v : memVals validFromSuccess ((pre sched 4 row0).f 0) = true
  · by_cases m : (pre sched 9 row0).f 0 = (pre sched 4 row0).f 0
    · right; left
      refine ⟨by simpa using g2, by simpa using g3, v, m, ?_⟩
      simp only [pre, completedStates, pausedStates, validFromSuccess, List.cons_append, List.nil_append] at a1 a4 a9 g1 g2 g3 c v m
      simp only [cacSucceedWorkflow]
      by_cases h4 : vars 1 = (sched 3 (sched 2 (sched 1 (sched 0 row0)))).f 1 <;>
        by_cases h5 : Val.bool true = (sched 3 (sched 2 (sched 1 (sched 0 row0)))).f 3 <;>
        by_cases h6 : ((sched 3 (sched 2 (sched 1 (sched 0 row0)))).f 4).truthy = true <;>
        (race_simp [a1, a4, a9, g1, g2, g3, c, v, m, h4, h5, h6, winRow]
         try race_rows)
    · left
      simp only [pre, completedStates, pausedStates, validFromSuccess, List.cons_append, List.nil_append] at a1 a4 a9 g1 g2 g3 c v m
      simp only [cacSucceedWorkflow]
      race_simp [a1, a4, a9, g1, g2, g3, c, v, m]
  · by_cases e : memVals validFromError ((pre sched 4 row0).f 0) = true
    · by_cases mh : (pre sched 20 row0).f 0 = (pre sched 4 row0).f 0
      · right; right
        refine ⟨by simpa using g2, by simpa using g3, by simpa using v, e, mh, ?_⟩
        simp only [pre, completedStates, pausedStates, validFromSuccess, validFromError, List.cons_append, List.nil_append]
          at a1 a4 a20 g1 g2 g3 v c e mh
        simp only [cacSucceedWorkflow]
        by_cases h4 : vars 3 = (sched 3 (sched 2 (sched 1 (sched 0 row0)))).f 1 <;>
          by_cases h5 : Val.bool true = (sched 3 (sched 2 (sched 1 (sched 0 row0)))).f 3 <;>
          by_cases h6 : ((sched 3 (sched 2 (sched 1 (sched 0 row0)))).f 4).truthy = true <;>
          (race_simp [a1, a4, a20, g1, g2, g3, v, c, e, mh, h4, h5, h6, winRow]
           try race_rows)
      · left
        simp only [pre, completedStates, pausedStates, validFromSuccess, validFromError, List.cons_append, List.nil_append]
          at a1 a4 a20 g1 g2 g3 v c e mh
        simp only [cacSucceedWorkflow]
        race_simp [a1, a4, a20, g1, g2, g3, v, c, e, mh]
    · left
      simp only [pre, completedStates, pausedStates, validFromSuccess, validFromError, List.cons_append, List.nil_append]
        at a1 a4 g1 g2 g3 v c e
      simp only [cacSucceedWorkflow]
      race_simp [a1, a4, g1, g2, g3, v, c, e]

/-! ### the sentences of C03 / C11 for the completion check, and where the code falls short -/

def rowRunning : Row :=
  { alive := true, f := fun k => if k = 0 then .str "RUNNING" else if k = 2 then .str "{}" else
      if k = 3 then .bool false else .null }
def scriptVars : Fields := fun k =>
  if k = 2 then .str "script-out" else if k = 3 then .str "force-fail" else if k = 4 then .str "force-fail-out" else .null
/-- `stop_workflow(SUCCESS, "by operator")` of another process, as one committed transaction -/
def opSuccess : Intf := fun r =>
  if r.f 0 = .str "RUNNING" then
    { r with f := ((r.f.set 0 (.str "SUCCESS")).set 1 (.str "by operator")).set 2 (.str "op-out") |>.set 3 (.bool true) }
  else r
/-- `pause_workflow` of another process -/
def opPause : Intf := fun r => if r.f 0 = .str "RUNNING" then { r with f := r.f.set 0 (.str "PAUSED") } else r
def at3 (g : Intf) : Nat → Intf := fun j => if j = 3 then g else fun r => r

theorem at3_keeps (g : Intf) (hg : ∀ r, r.alive = true → (g r).alive = true) : KeepsAlive (at3 g) := by
  intro k r h; unfold at3; split
  · exact hg r h
  · exact h

/-- "once a workflow is finished its state and output are not altered": if the row is finished at
    the instant of the compare-and-swap the script attempts (success path: gap 8, force-fail handler:
    gap 19), the script leaves no trace.  Before repo fix ce9b9520 this was FALSE
    (`cac_succeed_keeps_finished_full_fails`: a stop(SUCCESS, msg) committing between the stale guard
    and the re-read was rewritten through SUCCESS -> SUCCESS); with the is_completed guard of
    `_succeed_workflow`, evaluated on the RE-READ copy, it is the full statement. -/
theorem cac_succeed_keeps_finished (sched : Nat → Intf) (vars : Fields) (row0 : Row)
    (h0 : row0.alive = true) (hk : KeepsAlive sched) :
    (memVals completedStates ((pre sched 9 row0).f 0) = true →
      (runWith cacSucceedWorkflow sched vars row0).sh.db = pre sched 27 row0 ∨
      memVals completedStates ((pre sched 20 row0).f 0) = false) ∧
    (memVals completedStates ((pre sched 9 row0).f 0) = true →
      memVals completedStates ((pre sched 20 row0).f 0) = true →
      (runWith cacSucceedWorkflow sched vars row0).sh.db = pre sched 27 row0) := by
  have sub : ∀ v : Val, memVals (pausedStates ++ completedStates) v = false → memVals completedStates v = false := by
    intro v hv
    simp [memVals, pausedStates, completedStates] at hv ⊢
    exact ⟨hv.2.1, hv.2.2.1, hv.2.2.2.1, hv.2.2.2.2⟩
  have key : memVals completedStates ((pre sched 9 row0).f 0) = true →
      (runWith cacSucceedWorkflow sched vars row0).sh.db = pre sched 27 row0 ∨
      memVals completedStates ((pre sched 20 row0).f 0) = false := by
    intro hfin
    rcases cac_succeed_atomic sched vars row0 h0 hk with h | ⟨_, hc, _, hm, _⟩ | ⟨_, hc, _, _, hm, _⟩
    · exact Or.inl h.1
    · rw [hm] at hfin; rw [sub _ hc] at hfin; cases hfin
    · right; rw [hm]; exact sub _ hc
  refine ⟨key, ?_⟩
  intro h7 h18
  rcases key h7 with h | h
  · exact h
  · rw [h] at h18; cases h18

/-- the states a STARTED workflow execution can show (IDLE is left by `start`; DELAYED, WAITING,
    SKIPPED are task states) -/
def startedWfStates : List Val := [.str "RUNNING", .str "PAUSED", .str "SUCCESS", .str "ERROR", .str "CANCELLED"]

/-- "exactly one of completer / stopper determines (state, output)": whatever commits in between
    (pause, stop, another completion check ...), the committed row is the interferers' row untouched,
    or carries the completion's SUCCESS and output, installed at one instant.  Before repo fix 3b5c318a this
    was FALSE (`cac_one_party_full_fails`: a pause committing between the stale guard and the re-read
    made set_state(SUCCESS) raise and the handler force-failed the PAUSED execution); with the guard
    repeated after `expire_all` it holds for every state a started execution can show. -/
theorem cac_one_party (sched : Nat → Intf) (vars : Fields) (row0 : Row)
    (h0 : row0.alive = true) (hk : KeepsAlive sched)
    (hre : memVals startedWfStates ((pre sched 4 row0).f 0) = true) :
    (runWith cacSucceedWorkflow sched vars row0).sh.db = pre sched 27 row0 ∨
    ∃ W : Row, (runWith cacSucceedWorkflow sched vars row0).sh.db = between sched 9 18 W ∧
      W.f 0 = .str "SUCCESS" ∧ W.f 2 = vars 2 := by
  rcases cac_succeed_atomic sched vars row0 h0 hk with h | ⟨_, _, _, _, h⟩ | ⟨_, hp, hv, _⟩
  · exact Or.inl h.1
  · exact Or.inr ⟨_, h, by simp [winRow], by simp [winRow]⟩
  · exfalso
    simp [memVals, startedWfStates, pausedStates, completedStates, validFromSuccess] at hre hp hv
    rcases hre with h | h | h | h | h <;> simp_all

/-- regression (the former `cac_one_party_full_fails` witness): the operator PAUSES between the stale
    guard and the re-read; the hypothesis holds and the execution stays PAUSED, untouched -/
example : memVals startedWfStates ((pre (at3 opPause) 4 rowRunning).f 0) = true ∧
    (runWith cacSucceedWorkflow (at3 opPause) scriptVars rowRunning).sh.db.f 0 = .str "PAUSED" ∧
    (runWith cacSucceedWorkflow (at3 opPause) scriptVars rowRunning).sh.db.f 1 = .null := by
  simp only [cacSucceedWorkflow, startedWfStates]
  race_simp [memVals, Val.truthy, at3, opPause, rowRunning, scriptVars]

/-- non-vacuity of `cac_succeed_keeps_finished`: the operator CANCELS (or stops with SUCCESS) between
    the two reads; the hypotheses hold and the row keeps the operator's state, message and output -/
def opCancel : Intf := fun r =>
  if r.f 0 = .str "RUNNING" then
    { r with f := ((r.f.set 0 (.str "CANCELLED")).set 1 (.str "by operator")).set 2 (.str "op-out") |>.set 3 (.bool true) }
  else r

example : memVals completedStates ((pre (at3 opCancel) 9 rowRunning).f 0) = true ∧
    memVals completedStates ((pre (at3 opCancel) 20 rowRunning).f 0) = true ∧
    (runWith cacSucceedWorkflow (at3 opCancel) scriptVars rowRunning).sh.db.f 2 = .str "op-out" := by
  simp only [cacSucceedWorkflow, completedStates]
  race_simp [memVals, Val.truthy, at3, opCancel, rowRunning, scriptVars]

example : memVals completedStates ((pre (at3 opSuccess) 9 rowRunning).f 0) = true ∧
    (runWith cacSucceedWorkflow (at3 opSuccess) scriptVars rowRunning).sh.db.f 1 = .str "by operator" := by
  simp only [cacSucceedWorkflow, completedStates]
  race_simp [memVals, Val.truthy, at3, opSuccess, rowRunning, scriptVars]

/-- without interference the completion check wins -/
example : (runWith cacSucceedWorkflow (fun _ r => r) scriptVars rowRunning).sh.db.f 0 = .str "SUCCESS" ∧
    (runWith cacSucceedWorkflow (fun _ r => r) scriptVars rowRunning).sh.db.f 2 = .str "script-out" := by
  simp only [cacSucceedWorkflow]
  race_simp [memVals, Val.truthy, rowRunning, scriptVars]

end Mistral.Props.C03RaceCac
