/-
C04 over the engine core WITH ENGINE COMMANDS (`stepXg`, any order of sibling commands that only rearranges
them; `stepX` = the code's): "a join task has at most one execution, however many branches trigger it" - also
when the command for the join is saved to the backlog by a `pause` command and restored on resume (since
repo_patches/32 the restored command keeps `wait` / `unique_key`; before, this statement was FALSE of the code:
finding join-created-idle).  The invariant: join rows unique, never IDLE, all carry their unique key; no re-run
request and no RunExistingTask command (in flight or in the backlog) names a join.
-/
import Mistral.Props.C04
import Mistral.Props.C11X
namespace Mistral.Props.C04X
open Mistral Mistral.Engine Mistral.Join Mistral.Lifecycle

/-- every execution of a join carries its unique key -/
def KJ (sp : Spec) (ts : List TaskRow) : Prop := ∀ r ∈ ts, (isJoin sp r.name).isSome = true → r.keyed = true

/-- a RunExistingTask command never names a join (joins are never IDLE) -/
def CmdOK (sp : Spec) (c : Cmd) : Prop := ∀ t, c.existing = some t → isJoin sp t.1 = none ∧ isJoin sp c.target = none

def CmdsOK (sp : Spec) (cs : List Cmd) : Prop := ∀ c ∈ cs, CmdOK sp c

def JX (sp : Spec) (w : World) : Prop :=
  JRU sp w.tasks ∧ NoIdleJoin sp w.tasks ∧ PendOK sp w.pending ∧ KJ sp w.tasks ∧ CmdsOK sp w.backlog

/-- the sorter only rearranges (drops / invents nothing) -/
def SorterOK (srt : Sorter) : Prop := ∀ f l, ∀ c ∈ srt f l, c ∈ l

theorem pySorter_ok : SorterOK pySorter := fun f l c hc => ((pySort_perm (cmdLT f) l).2 c).mp hc

theorem idSorter_ok : SorterOK idSorter := fun _ _ _ hc => hc

theorem kj_setTask (sp : Spec) (ts : List TaskRow) (r : TaskRow) (h : KJ sp ts)
    (hr : (isJoin sp r.name).isSome = true → r.keyed = true) : KJ sp (setTask ts r) := by
  intro x hx hj
  rcases mem_setTask ts r x hx with h1 | h1
  · exact h x h1 hj
  · subst h1; exact hr hj

theorem kj_append (sp : Spec) (ts : List TaskRow) (r : TaskRow) (h : KJ sp ts)
    (hr : (isJoin sp r.name).isSome = true → r.keyed = true) : KJ sp (ts ++ [r]) := by
  intro x hx hj
  rcases List.mem_append.mp hx with h1 | h1
  · exact h x h1 hj
  · have : x = r := by simpa using h1
    subst this; exact hr hj

theorem findKeyed_some (w : World) (n : String) (r : TaskRow) (h : findKeyed w n = some r) :
    r ∈ w.tasks ∧ r.name = n ∧ r.keyed = true := by
  unfold findKeyed at h
  have hm := List.mem_of_getLast? h
  have := List.mem_filter.mp hm
  have h2 : (r.name == n && r.keyed) = true := this.2
  simp only [Bool.and_eq_true, beq_iff_eq] at h2
  exact ⟨this.1, h2.1, h2.2⟩

theorem findKeyed_none (sp : Spec) (w : World) (n : String) (hk : KJ sp w.tasks) (hj : (isJoin sp n).isSome = true)
    (h : findKeyed w n = none) : countL w.tasks n = 0 := by
  unfold findKeyed at h
  have hnil := List.getLast?_eq_none_iff.mp h
  unfold countL
  rw [List.length_eq_zero_iff, List.filter_eq_nil_iff]
  intro r hr hn
  have hn' : r.name = n := by simpa using hn
  have hkeyed := hk r hr (by rw [hn']; exact hj)
  have := List.filter_eq_nil_iff.mp hnil r hr
  simp [hn', hkeyed] at this

theorem single_harmless (y : Item) (hy : harmless y = true) : ∀ x ∈ [y], harmless x = true := by
  intro x hx; rw [List.mem_singleton.mp hx]; exact hy

theorem dispatchTask_jx (sp : Spec) (w : World) (c : Cmd) (h : JX sp w) : JX sp (dispatchTask sp w c) := by
  obtain ⟨h1, h2, h3, h4, h5⟩ := h
  unfold dispatchTask
  simp only
  cases hj : isJoin sp c.target with
  | none =>
    simp only
    refine ⟨JRU_append_nonjoin sp _ _ hj h1, nij_append sp _ _ h2 ?_, pendOK_append sp _ _ h3 (single_harmless _ rfl),
      kj_append sp _ _ h4 (fun _ => rfl), h5⟩
    intro hx; simp [newRow, hj] at hx
  | some k =>
    simp only
    have hjs : (isJoin sp c.target).isSome = true := by rw [hj]; rfl
    cases hf : findKeyed w c.target with
    | none =>
      simp only
      refine ⟨JRU_append_newjoin sp _ _ (findKeyed_none sp w c.target h4 hjs hf) h1, nij_append sp _ _ h2 ?_,
        pendOK_append sp _ _ h3 (single_harmless _ rfl), kj_append sp _ _ h4 (fun _ => rfl), h5⟩
      intro _; simp [newRow]
    | some r =>
      simp only
      have hr := findKeyed_some w c.target r hf
      by_cases hw : (r.state != St.WAITING) = true
      · simp only [hw, if_true]
        exact ⟨JRU_setTask sp _ _ h1, nij_setTask sp _ _ h2 (by simp), pendOK_append sp _ _ h3 (single_harmless _ rfl),
          kj_setTask sp _ _ h4 (fun _ => hr.2.2), h5⟩
      · simp only [hw, if_false]
        exact ⟨h1, h2, pendOK_append sp _ _ h3 (single_harmless _ rfl), h4, h5⟩

theorem dispatchPlain_jx (sp : Spec) (w : World) (c : Cmd) (hnj : isJoin sp c.target = none) (h : JX sp w) :
    JX sp (dispatchPlain w c) := by
  obtain ⟨h1, h2, h3, h4, h5⟩ := h
  unfold dispatchPlain
  refine ⟨JRU_append_nonjoin sp _ _ hnj h1, nij_append sp _ _ h2 ?_, pendOK_append sp _ _ h3 (single_harmless _ rfl),
    kj_append sp _ _ h4 ?_, h5⟩
  · intro hx; simp [newRow, hnj] at hx
  · intro hx; simp [newRow, hnj] at hx

theorem dispatchOneX_jx (sp : Spec) (r : Bool) (w : World) (c : Cmd) (hc : CmdOK sp c) (h : JX sp w) :
    JX sp (dispatchOneX sp r w c) := by
  unfold dispatchOneX
  split
  · exact h
  · split
    · obtain ⟨h1, h2, h3, h4, h5⟩ := h
      refine ⟨h1, h2, h3, h4, ?_⟩
      intro x hx
      rcases List.mem_append.mp hx with hx | hx
      · exact h5 x hx
      · rw [List.mem_singleton.mp hx]; exact hc
    · cases hk : cmdKind c.target with
      | noop => exact h
      | pause => exact h
      | fail => exact h
      | succeed => exact h
      | task =>
        simp only
        cases he : c.existing with
        | none => exact dispatchTask_jx sp w c h
        | some t =>
          simp only
          have hct := hc t he
          split
          · exact dispatchPlain_jx sp w c hct.2 h
          · obtain ⟨h1, h2, h3, h4, h5⟩ := h
            refine ⟨h1, h2, pendOK_append' sp _ _ h3 ?_, h4, h5⟩
            intro x hx _ t' f' hxt
            rw [List.mem_singleton.mp hx] at hxt
            rcases hxt with hxt | hxt
            · injection hxt with e1 _; rw [← e1]; exact hct.1
            · cases hxt

theorem foldl_jx (sp : Spec) (r : Bool) (cs : List Cmd) :
    ∀ (w : World), CmdsOK sp cs → JX sp w → JX sp (cs.foldl (dispatchOneX sp r) w) := by
  induction cs with
  | nil => intro w _ h; exact h
  | cons c cs ih =>
    intro w hc h
    exact ih _ (fun x hx => hc x (List.mem_cons_of_mem _ hx)) (dispatchOneX_jx sp r w c (hc c List.mem_cons_self) h)

theorem splitState_mem : ∀ (cs p t : List Cmd) (s : Option Cmd), splitState cs = (p, s, t) →
    (∀ c ∈ p, c ∈ cs) ∧ (∀ c, s = some c → c ∈ cs) ∧ (∀ c ∈ t, c ∈ cs) := by
  intro cs
  induction cs with
  | nil =>
    intro p t s h
    simp only [splitState] at h
    injection h with e1 e2; injection e2 with e2 e3
    subst e1; subst e2; subst e3
    exact ⟨fun _ h => h, fun _ h => (by cases h), fun _ h => h⟩
  | cons c cs ih =>
    intro p t s h
    have stop : splitState (c :: cs) = ([], some c, cs) →
        (∀ x ∈ p, x ∈ c :: cs) ∧ (∀ x, s = some x → x ∈ c :: cs) ∧ (∀ x ∈ t, x ∈ c :: cs) := by
      intro h'
      rw [h'] at h
      injection h with e1 e2; injection e2 with e2 e3
      subst e1; subst e2; subst e3
      refine ⟨fun _ h => (by cases h), ?_, fun x hx => List.mem_cons_of_mem _ hx⟩
      intro x hx; injection hx with hx; subst hx; exact List.mem_cons_self
    have go : splitState (c :: cs) = (c :: (splitState cs).1, (splitState cs).2.1, (splitState cs).2.2) →
        (∀ x ∈ p, x ∈ c :: cs) ∧ (∀ x, s = some x → x ∈ c :: cs) ∧ (∀ x ∈ t, x ∈ c :: cs) := by
      intro h'
      rw [h'] at h
      injection h with e1 e2; injection e2 with e2 e3
      have := ih _ _ _ (rfl : splitState cs = ((splitState cs).1, (splitState cs).2.1, (splitState cs).2.2))
      subst e1; subst e2; subst e3
      refine ⟨?_, fun x hx => List.mem_cons_of_mem _ (this.2.1 x hx), fun x hx => List.mem_cons_of_mem _ (this.2.2 x hx)⟩
      intro x hx
      rcases List.mem_cons.mp hx with hx | hx
      · rw [hx]; exact List.mem_cons_self
      · exact List.mem_cons_of_mem _ (this.1 x hx)
    cases hk : cmdKind c.target with
    | pause => exact stop (by simp only [splitState, hk])
    | fail => exact stop (by simp only [splitState, hk])
    | succeed => exact stop (by simp only [splitState, hk])
    | noop => exact go (by simp only [splitState, hk])
    | task => exact go (by simp only [splitState, hk])

theorem rearrange_mem (srt : List Cmd → List Cmd) (hs : ∀ l, ∀ c ∈ srt l, c ∈ l) (cmds : List Cmd) :
    ∀ c ∈ rearrange srt cmds, c ∈ cmds := by
  intro c hc
  unfold rearrange at hc
  simp only at hc
  have hsp := splitState_mem (cmds.filter fun c => cmdKind c.target != .noop) _ _ _ rfl
  have hfil : ∀ x ∈ (cmds.filter fun c => cmdKind c.target != .noop), x ∈ cmds := fun x hx => (List.mem_filter.mp hx).1
  split at hc
  · rename_i pre _ heq
    rw [heq] at hsp
    exact hfil c (hsp.1 c (hs _ c hc))
  · rename_i pre s tail heq
    rw [heq] at hsp
    rcases List.mem_append.mp hc with hc | hc
    · exact hfil c (hsp.1 c (hs _ c hc))
    · rcases List.mem_cons.mp hc with hc | hc
      · rw [hc]; exact hfil s (hsp.2.1 s rfl)
      · split at hc
        · exact hfil c (hsp.2.2 c hc)
        · cases hc

theorem processX_jx (srt : Sorter) (hsrt : SorterOK srt) (sp : Spec) (r : Bool) (w : World) (cs : List Cmd)
    (hc : CmdsOK sp cs) (h : JX sp w) : JX sp (processX srt sp r w cs) := by
  unfold processX
  apply foldl_jx sp r _ w _ h
  intro c hcm
  exact hc c (rearrange_mem _ (hsrt _) cs c hcm)

theorem dispatchX_jx (srt : Sorter) (hsrt : SorterOK srt) (sp : Spec) (w : World) (cs : List Cmd)
    (hc : CmdsOK sp cs) (h : JX sp w) : JX sp (dispatchX srt sp w cs) := by
  unfold dispatchX
  apply processX_jx srt hsrt sp false _ cs hc
  apply processX_jx srt hsrt sp true _ _ h.2.2.2.2
  exact ⟨h.1, h.2.1, h.2.2.1, h.2.2.2.1, fun _ hx => by cases hx⟩

theorem checkAffected_jx (sp : Spec) (w : World) (t : Tid) (h : JX sp w) : JX sp (checkAffected sp w t) := by
  obtain ⟨h1, h2, h3, h4, h5⟩ := h
  have hji := checkAffected_ji sp w t ⟨h2, h3⟩
  refine ⟨?_, hji.1, hji.2, ?_, ?_⟩
  · rw [(checkAffected_tasks sp w t).1]; exact h1
  · rw [(checkAffected_tasks sp w t).1]; exact h4
  · rw [Props.C11X.checkAffected_backlog]; exact h5

theorem cac_backlog (w : World) : (checkAndComplete w).backlog = w.backlog := by
  unfold checkAndComplete
  repeat' split
  all_goals rfl

theorem checkAndComplete_jx (sp : Spec) (w : World) (h : JX sp w) : JX sp (checkAndComplete w) := by
  unfold JX
  rw [checkAndComplete_tasks, checkAndComplete_pending, cac_backlog]; exact h

theorem jx_ite (sp : Spec) (c : Prop) [Decidable c] (a b : World) (ha : JX sp a) (hb : JX sp b) :
    JX sp (if c then a else b) := by
  split <;> assumption

theorem nextCmds_ok (sp : Spec) (l : List (String × String)) (src : Tid) :
    CmdsOK sp (l.map fun (n, e) => ({ target := n, src := some (src, e) } : Cmd)) := by
  intro c hc t ht
  rcases List.mem_map.mp hc with ⟨x, _, rfl⟩
  cases ht

theorem completeTaskX_jx (srt : Sorter) (hsrt : SorterOK srt) (sp : Spec) (w : World) (r : TaskRow) (s : St)
    (hs : s ≠ .IDLE) (hr : (isJoin sp r.name).isSome = true → r.keyed = true) (h : JX sp w) :
    JX sp (completeTaskX srt sp w r s) := by
  unfold completeTaskX
  split
  · exact checkAffected_jx sp w _ h
  · apply checkAffected_jx
    obtain ⟨h1, h2, h3, h4, h5⟩ := h
    simp only
    split
    · exact ⟨JRU_setTask sp _ _ h1, nij_setTask sp _ _ h2 hs, h3, kj_setTask sp _ _ h4 hr, h5⟩
    · apply dispatchX_jx srt hsrt sp _ _ (nextCmds_ok sp _ _)
      apply jx_ite
      · exact ⟨JRU_setTask sp _ _ (JRU_setTask sp _ _ h1), nij_setTask sp _ _ (nij_setTask sp _ _ h2 hs) hs,
          pendOK_append sp _ _ h3 (single_harmless _ rfl), kj_setTask sp _ _ (kj_setTask sp _ _ h4 hr) hr, h5⟩
      · exact ⟨JRU_setTask sp _ _ (JRU_setTask sp _ _ h1), nij_setTask sp _ _ (nij_setTask sp _ _ h2 hs) hs, h3,
          kj_setTask sp _ _ (kj_setTask sp _ _ h4 hr) hr, h5⟩


theorem countL_map (ts : List TaskRow) (f : TaskRow → TaskRow) (hf : ∀ t, (f t).name = t.name) (n : String) :
    countL (ts.map f) n = countL ts n := by
  rw [countL_names, countL_names, List.map_map]
  have : (ts.map ((fun x => x.name) ∘ f)) = ts.map (·.name) := by
    apply List.map_congr_left
    intro t _
    exact hf t
  rw [this]

theorem jx_mapRows (sp : Spec) (w : World) (f : TaskRow → TaskRow)
    (hf : ∀ t, (f t).state = t.state ∧ (f t).name = t.name ∧ (f t).keyed = t.keyed) (s : St) (h : JX sp w) :
    JX sp { w with wf := s, tasks := w.tasks.map f } := by
  obtain ⟨h1, h2, h3, h4, h5⟩ := h
  refine ⟨?_, nij_map sp _ _ h2 (fun t => ⟨(hf t).1, (hf t).2.1⟩), h3, ?_, h5⟩
  · intro n hn
    show countL (w.tasks.map f) n ≤ 1
    rw [countL_map _ _ (fun t => (hf t).2.1)]
    exact h1 n hn
  · intro x hx hj
    rcases List.mem_map.mp hx with ⟨y, hy, rfl⟩
    rw [(hf y).2.2]
    rw [(hf y).2.1] at hj
    exact h4 y hy hj

theorem startCmds_ok (sp : Spec) (l : List String) :
    CmdsOK sp (l.map fun n => ({ target := n, src := none } : Cmd)) := by
  intro c hc t ht
  rcases List.mem_map.mp hc with ⟨x, _, rfl⟩
  cases ht

/-- the invariant is preserved by EVERY event of the engine with commands -/
theorem stepXg_jx (srt : Sorter) (hsrt : SorterOK srt) (sp : Spec) (w : World) (ev : Event) (h : JX sp w) :
    JX sp (stepXg srt sp w ev) := by
  cases ev with
  | start =>
    simp only [stepXg]
    split
    · exact h
    · exact dispatchX_jx srt hsrt sp _ _ (startCmds_ok sp _) h
  | pause => exact h
  | stop t => exact h
  | execute t ok =>
    simp only [stepXg]
    split
    · exact h
    · obtain ⟨h1, h2, h3, h4, h5⟩ := h
      exact ⟨h1, h2, pendOK_append sp _ _ (pendOK_removeFirst sp _ _ h3) (single_harmless _ rfl), h4, h5⟩
  | resume =>
    simp only [stepXg]
    split
    · exact h
    · split
      · exact h
      · have hm := jx_mapRows sp w
          (fun t => if isCompleted t.state && !t.processed then { t with processed := true } else t)
          (by intro t; split <;> exact ⟨rfl, rfl, rfl⟩) (Lifecycle.wfApply w.wf Lifecycle.WfOp.resume).1 h
        split
        · exact checkAndComplete_jx sp _ hm
        · apply dispatchX_jx srt hsrt sp _ _ _ hm
          intro c hc
          rcases List.mem_append.mp hc with hc | hc
          · rcases List.mem_map.mp hc with ⟨t, ht, rfl⟩
            rcases List.mem_map.mp ht with ⟨row, hrow, rfl⟩
            have hrow' := List.mem_filter.mp hrow
            have hidle : row.state = .IDLE := by simpa using hrow'.2
            have hnj : isJoin sp row.name = none := by
              apply isJoin_none_of_not_some
              intro hj
              exact h.2.1 row hrow'.1 hj hidle
            intro t' ht'
            injection ht' with ht'
            subst ht'
            exact ⟨hnj, hnj⟩
          · have hc1 := (List.mem_filter.mp hc).1
            have hc2 := (List.mem_filter.mp hc1).1
            rcases List.mem_flatMap.mp hc2 with ⟨row, _, hc3⟩
            rcases List.mem_map.mp hc3 with ⟨x, _, rfl⟩
            intro t' ht'
            cases ht'
  | deliver it =>
    obtain ⟨h1, h2, h3, h4, h5⟩ := h
    have hrm : PendOK sp (removeFirst w.pending it) := pendOK_removeFirst sp _ _ h3
    cases it with
    | postStartTask t f =>
      simp only [stepXg]
      split
      · exact ⟨h1, h2, h3, h4, h5⟩
      · rename_i hp
        have hp' : Item.postStartTask t f ∈ w.pending := by simpa using hp
        refine ⟨h1, h2, pendOK_append' sp _ _ hrm ?_, h4, h5⟩
        intro x hx hh t' f' hxt
        rw [List.mem_singleton.mp hx] at hh hxt
        rcases hxt with hxt | hxt
        · cases hxt
        · injection hxt with e1 e2
          subst e1; subst e2
          cases f with
          | true => simp [harmless] at hh
          | false => exact h3 _ hp' rfl t false (Or.inl rfl)
    | postRunAction t =>
      simp only [stepXg]; split
      · exact ⟨h1, h2, h3, h4, h5⟩
      · exact ⟨h1, h2, pendOK_append sp _ _ hrm (single_harmless _ rfl), h4, h5⟩
    | runAction t => simp only [stepXg]; split; exact ⟨h1, h2, h3, h4, h5⟩; exact ⟨h1, h2, hrm, h4, h5⟩
    | postCheck =>
      simp only [stepXg]; split
      · exact ⟨h1, h2, h3, h4, h5⟩
      · exact checkAndComplete_jx sp _ ⟨h1, h2, hrm, h4, h5⟩
    | postSchedRefresh t =>
      simp only [stepXg]; split
      · exact ⟨h1, h2, h3, h4, h5⟩
      · split
        · exact ⟨h1, h2, hrm, h4, h5⟩
        · exact ⟨h1, h2, pendOK_append sp _ _ hrm (single_harmless _ rfl), h4, h5⟩
    | rpcResult t ok =>
      simp only [stepXg]
      split
      · exact ⟨h1, h2, h3, h4, h5⟩
      · split
        · exact ⟨h1, h2, hrm, h4, h5⟩
        · rename_i r hr
          have hmem : r ∈ w.tasks := findTask_mem _ _ _ hr
          refine completeTaskX_jx srt hsrt sp _ _ _ ?_ (h4 r hmem) ⟨h1, h2, hrm, h4, h5⟩
          split <;> decide
    | rpcStartTask t f =>
      simp only [stepXg]
      split
      · exact ⟨h1, h2, h3, h4, h5⟩
      · split
        · exact ⟨h1, h2, hrm, h4, h5⟩
        · rename_i r hr
          have hmem : r ∈ w.tasks := findTask_mem _ _ _ hr
          split
          · split
            · exact ⟨JRU_setTask sp _ _ h1, nij_setTask sp _ _ h2 (by simp),
                pendOK_append sp _ _ hrm (single_harmless _ rfl), kj_setTask sp _ _ h4 (h4 r hmem), h5⟩
            · split
              · split
                · exact ⟨h1, h2, hrm, h4, h5⟩
                · exact ⟨h1, h2, pendOK_append sp _ _ hrm (single_harmless _ rfl), h4, h5⟩
              · exact checkAffected_jx sp _ _ ⟨h1, h2, hrm, h4, h5⟩
          · split
            · exact ⟨h1, h2, hrm, h4, h5⟩
            · split
              · exact checkAffected_jx sp _ _ ⟨h1, h2, hrm, h4, h5⟩
              · split
                · exact ⟨h1, h2, hrm, h4, h5⟩
                · exact ⟨JRU_setTask sp _ _ h1, nij_setTask sp _ _ h2 (by simp),
                    pendOK_append sp _ _ hrm (single_harmless _ rfl), kj_setTask sp _ _ h4 (h4 r hmem), h5⟩
    | jobRefresh t =>
      simp only [stepXg]
      split
      · exact ⟨h1, h2, h3, h4, h5⟩
      · split
        · exact ⟨h1, h2, hrm, h4, h5⟩
        · rename_i r hr
          have hmem : r ∈ w.tasks := findTask_mem _ _ _ hr
          have hkr := h4 r hmem
          split
          · exact ⟨h1, h2, hrm, h4, h5⟩
          · split
            · exact ⟨h1, h2, hrm, h4, h5⟩
            · split
              · exact ⟨h1, h2, hrm, h4, h5⟩
              · rename_i k hk
                have hid := findTask_id _ _ _ hr
                have hnidle : r.state ≠ .IDLE := by
                  apply h2 r hmem
                  have : r.name = t.1 := by rw [← hid]
                  rw [this, hk]; rfl
                split
                · exact ⟨h1, h2, hrm, h4, h5⟩
                · split
                  · split
                    · exact ⟨JRU_setTask sp _ _ (JRU_setTask sp _ _ h1),
                        nij_setTask sp _ _ (nij_setTask sp _ _ h2 hnidle) (by simp), hrm,
                        kj_setTask sp _ _ (kj_setTask sp _ _ h4 hkr) hkr, h5⟩
                    · exact ⟨JRU_setTask sp _ _ (JRU_setTask sp _ _ h1),
                        nij_setTask sp _ _ (nij_setTask sp _ _ h2 hnidle) (by simp),
                        pendOK_append sp _ _ hrm (single_harmless _ rfl),
                        kj_setTask sp _ _ (kj_setTask sp _ _ h4 hkr) hkr, h5⟩
                  · split
                    · exact completeTaskX_jx srt hsrt sp _ _ _ (by decide) hkr
                        ⟨JRU_setTask sp _ _ h1, nij_setTask sp _ _ h2 hnidle, hrm, kj_setTask sp _ _ h4 hkr, h5⟩
                    · exact ⟨JRU_setTask sp _ _ h1, nij_setTask sp _ _ h2 hnidle, hrm, kj_setTask sp _ _ h4 hkr, h5⟩

theorem init_jx (sp : Spec) : JX sp init := by
  refine ⟨?_, ?_, ?_, ?_, ?_⟩
  · intro n _; simp [init, countL]
  · intro r hr; simp [init] at hr
  · intro x hx; simp [init] at hx
  · intro r hr; simp [init] at hr
  · intro c hc; simp [init] at hc

/-- C04 "a join task starts at most once per run however many branches trigger it", ENGINE COMMANDS INCLUDED:
    in every reachable world of the engine as the code runs it (`stepX`: dispatcher sort, `pause` / `fail` /
    `succeed` / `noop` commands, the command backlog and its restoration on resume) a join task has at most one
    execution, it is never IDLE (its start always goes through the join check) and it carries its unique key. -/
theorem join_created_once_reachableX (sp : Spec) (evs : List Event) :
    JoinRowsUnique sp (runX sp evs) ∧ NoIdleJoin sp (runX sp evs).tasks ∧ KJ sp (runX sp evs).tasks := by
  have hall : ∀ (evs : List Event) (w : World), JX sp w → JX sp (evs.foldl (stepX sp) w) := by
    intro evs
    induction evs with
    | nil => intro w h; exact h
    | cons e rest ih => intro w h; exact ih _ (stepXg_jx pySorter pySorter_ok sp w e h)
  have := hall evs init (init_jx sp)
  exact ⟨this.1, this.2.1, this.2.2.2.1⟩

/-- the same for every order of sibling commands -/
theorem join_created_once_reachableXg (srt : Sorter) (hsrt : SorterOK srt) (sp : Spec) (evs : List Event) :
    JoinRowsUnique sp (runXg srt sp evs) := by
  have hall : ∀ (evs : List Event) (w : World), JX sp w → JX sp (evs.foldl (stepXg srt sp) w) := by
    intro evs
    induction evs with
    | nil => intro w h; exact h
    | cons e rest ih => intro w h; exact ih _ (stepXg_jx srt hsrt sp w e h)
  exact (hall evs init (init_jx sp)).1



theorem rw_ite (S : Tid → Prop) (c : Prop) [Decidable c] (a b : World) (ha : RunningWithin S a.tasks)
    (hb : RunningWithin S b.tasks) : RunningWithin S (if c then a else b).tasks := by
  split <;> assumption

/-! ### which steps can make a task execution RUNNING (engine with commands) -/

theorem dispatchTask_rw (S : Tid → Prop) (sp : Spec) (w : World) (c : Cmd) (h : RunningWithin S w.tasks) :
    RunningWithin S (dispatchTask sp w c).tasks := by
  unfold dispatchTask
  simp only
  split
  · split
    · exact rw_append S _ _ h (by intro hs; simp [newRow] at hs)
    · split
      · exact rw_setTask S _ _ h (by intro hs; simp at hs)
      · exact h
  · exact rw_append S _ _ h (by intro hs; simp [newRow] at hs)

theorem dispatchOneX_rw (S : Tid → Prop) (sp : Spec) (r : Bool) (w : World) (c : Cmd) (h : RunningWithin S w.tasks) :
    RunningWithin S (dispatchOneX sp r w c).tasks := by
  unfold dispatchOneX
  split
  · exact h
  · split
    · exact h
    · split
      · exact h
      · exact h
      · exact h
      · exact h
      · split
        · split
          · exact rw_append S _ _ h (by intro hs; simp [newRow] at hs)
          · exact h
        · exact dispatchTask_rw S sp w c h

theorem foldlX_rw (S : Tid → Prop) (sp : Spec) (r : Bool) (cs : List Cmd) :
    ∀ w, RunningWithin S w.tasks → RunningWithin S (cs.foldl (dispatchOneX sp r) w).tasks := by
  induction cs with
  | nil => intro w h; exact h
  | cons c rest ih => intro w h; simp only [List.foldl_cons]; exact ih _ (dispatchOneX_rw S sp r w c h)

theorem dispatchX_rw (S : Tid → Prop) (srt : Sorter) (sp : Spec) (w : World) (cs : List Cmd)
    (h : RunningWithin S w.tasks) : RunningWithin S (dispatchX srt sp w cs).tasks := by
  unfold dispatchX processX
  exact foldlX_rw S sp false _ _ (foldlX_rw S sp true _ _ h)

theorem completeTaskX_rw (S : Tid → Prop) (srt : Sorter) (sp : Spec) (w : World) (r : TaskRow) (s : St)
    (hs : s ≠ .RUNNING) (h : RunningWithin S w.tasks) : RunningWithin S (completeTaskX srt sp w r s).tasks := by
  unfold completeTaskX
  split
  · exact checkAffected_rw S sp w _ h
  · simp only
    apply checkAffected_rw
    split
    · refine rw_setTask S _ _ h ?_
      intro hx; exact absurd hx hs
    · apply dispatchX_rw
      have h2 : ∀ (r1 r2 : TaskRow), r1.state = s → r2.state = s →
          RunningWithin S (setTask (setTask w.tasks r1) r2) := by
        intro r1 r2 e1 e2
        refine rw_setTask S _ _ (rw_setTask S _ _ h ?_) ?_
        · intro hx; rw [e1] at hx; exact absurd hx hs
        · intro hx; rw [e2] at hx; exact absurd hx hs
      apply rw_ite
      · exact h2 _ _ rfl rfl
      · exact h2 _ _ rfl rfl

/-- one step makes RUNNING only the executions it has a start cause for -/
theorem stepXg_running (srt : Sorter) (sp : Spec) (w : World) (ev : Event) (S : Tid → Prop) (h : RunningWithin S w.tasks) :
    RunningWithin (fun t => S t ∨ StartCause sp w ev t) (stepXg srt sp w ev).tasks := by
  have h0 : RunningWithin (fun t => S t ∨ StartCause sp w ev t) w.tasks := rw_mono _ _ _ h (fun _ => Or.inl)
  cases ev with
  | start =>
    simp only [stepXg]
    split
    · exact h0
    · exact dispatchX_rw _ srt sp _ _ h0
  | pause => exact h0
  | stop t => exact h0
  | execute t ok =>
    simp only [stepXg]
    split <;> exact h0
  | resume =>
    simp only [stepXg]
    split
    · exact h0
    · split
      · exact h0
      · have hm : RunningWithin (fun t => S t ∨ StartCause sp w Event.resume t)
            (w.tasks.map fun t => if isCompleted t.state && !t.processed then { t with processed := true } else t) := by
          apply rw_map _ _ _ h0
          intro t
          split <;> exact ⟨rfl, rfl, rfl⟩
        split
        · exact checkAndComplete_rw _ _ hm
        · exact dispatchX_rw _ srt sp _ _ hm
  | deliver it =>
    cases it with
    | postStartTask t f => simp only [stepXg]; split <;> exact h0
    | postRunAction t => simp only [stepXg]; split <;> exact h0
    | runAction t => simp only [stepXg]; split <;> exact h0
    | postCheck => simp only [stepXg]; split; exact h0; exact checkAndComplete_rw _ _ h0
    | postSchedRefresh t => simp only [stepXg]; split; exact h0; split <;> exact h0
    | rpcResult t ok =>
      simp only [stepXg]
      split
      · exact h0
      · split
        · exact h0
        · refine completeTaskX_rw _ srt sp _ _ _ ?_ h0
          split <;> decide
    | rpcStartTask t f =>
      simp only [stepXg]
      split
      · exact h0
      · split
        · exact h0
        · rename_i r hr
          have hid := findTask_id _ _ _ hr
          rename_i hp _
          have hp' : Item.rpcStartTask t f ∈ w.pending := by simpa using hp
          have hc : (f = true → r.state = .IDLE) →
              StartCause sp w (Event.deliver (Item.rpcStartTask t f)) (r.name, r.occ) := by
            intro hf
            rw [hid]; exact Or.inl ⟨f, r, rfl, hp', hr, hf⟩
          split
          · split
            · rename_i hidle
              exact rw_setTask _ _ _ h0 (fun _ => Or.inr (hc (fun _ => by simpa using hidle)))
            · split
              · split <;> exact h0
              · exact checkAffected_rw _ sp _ _ h0
          · rename_i hf
            split
            · exact h0
            · split
              · exact checkAffected_rw _ sp _ _ h0
              · split
                · exact h0
                · exact rw_setTask _ _ _ h0 (fun _ => Or.inr (hc (fun hft => absurd hft hf)))
    | jobRefresh t =>
      simp only [stepXg]
      split
      · exact h0
      · split
        · exact h0
        · rename_i r hr
          have hid := findTask_id _ _ _ hr
          split
          · exact h0
          · split
            · exact h0
            · split
              · exact h0
              · rename_i k hk
                split
                · exact h0
                · rename_i L hL
                  have hrn : r.state ≠ .RUNNING := by
                    rename_i hnr _ _ _
                    intro hx; rw [hx] at hnr; simp at hnr
                  split
                  · rename_i hLs
                    have hc : StartCause sp w (Event.deliver (Item.jobRefresh t)) (r.name, r.occ) := by
                      rw [hid]
                      exact Or.inr ⟨rfl, k, L, hk, hL, by simpa using hLs⟩
                    split
                    · refine rw_setTask _ _ _ (rw_setTask _ _ _ h0 ?_) (fun _ => Or.inr hc)
                      intro hx; exact absurd hx hrn
                    · refine rw_setTask _ _ _ (rw_setTask _ _ _ h0 ?_) (fun _ => Or.inr hc)
                      intro hx; exact absurd hx hrn
                  · split
                    · refine completeTaskX_rw _ srt sp _ _ _ (by decide) (rw_setTask _ _ _ h0 ?_)
                      intro hx; exact absurd hx hrn
                    · refine rw_setTask _ _ _ h0 ?_
                      intro hx; exact absurd hx hrn


/-- C04 `join_starts_only_when_ready`, ENGINE COMMANDS INCLUDED: in every reachable world of the engine with
    commands and for every next event, an execution of a join that is not RUNNING becomes RUNNING only through its
    own `_refresh_task_state` job, and only when the join verdict on the rows of that moment is RUNNING.  No
    trigger, restored backlog command, RunExistingTask command, `start_task` RPC, resume, result or completion
    check starts a join. -/
theorem join_starts_only_when_readyX (sp : Spec) (evs : List Event) (ev : Event) (t : Tid) (k : JoinKind)
    (hj : isJoin sp t.1 = some k)
    (hnot : ∀ r ∈ (runX sp evs).tasks, (r.name, r.occ) = t → r.state ≠ .RUNNING)
    (r' : TaskRow) (hr' : r' ∈ (stepX sp (runX sp evs) ev).tasks) (hid : (r'.name, r'.occ) = t)
    (hs : r'.state = .RUNNING) :
    ev = .deliver (.jobRefresh t) ∧
    ∃ L, joinLogicalState sp.graph (rowsOf (runX sp evs)) (fuelFor sp) t.1 k = some L ∧ L.state = .RUNNING := by
  have hinv : JX sp (runX sp evs) := by
    have hall : ∀ (evs : List Event) (w : World), JX sp w → JX sp (evs.foldl (stepX sp) w) := by
      intro evs
      induction evs with
      | nil => intro w h; exact h
      | cons e rest ih => intro w h; exact ih _ (stepXg_jx pySorter pySorter_ok sp w e h)
    exact hall evs init (init_jx sp)
  generalize runX sp evs = w at *
  have h : RunningWithin (fun t' => ∃ r ∈ w.tasks, (r.name, r.occ) = t' ∧ r.state = .RUNNING) w.tasks :=
    fun r hr hs => ⟨r, hr, rfl, hs⟩
  have := stepXg_running pySorter sp w ev _ h r' hr' hs
  rw [hid] at this
  rcases this with ⟨r, hr, hrid, hrs⟩ | ⟨f, r, hev, hp, hfind, hidle⟩ | ⟨hev, k', L, hk', hL, hLs⟩
  · exact absurd hrs (hnot r hr hrid)
  · exfalso
    cases f with
    | false =>
      have := hinv.2.2.1 _ hp rfl t false (Or.inr rfl)
      rw [hj] at this; cases this
    | true =>
      have hmem := findTask_mem _ _ _ hfind
      have hrid := findTask_id _ _ _ hfind
      have hn : r.name = t.1 := by rw [← hrid]
      exact hinv.2.1 r hmem (by rw [hn, hj]; rfl) (hidle rfl)
  · rw [hj] at hk'
    cases hk'
    exact ⟨hev, L, hL, hLs⟩

/-- non-vacuity, the regression of the finding join-created-idle (corpus/core/restored_join.json): a: on-success
    [pause, j], b: [j], j: join all.  a completes (PAUSED, the command for j saved to the backlog), resume restores
    it: j is created WAITING by its unique key and refreshed - it keeps WAITING, b has not routed to it; b completes
    and triggers j regularly: the SAME execution is found; one execution of j, started once, SUCCESS at the end.
    Before repo_patches/32 the code created j IDLE on resume, ran it at once, and created j#1 afterwards. -/
def rjSpec : Spec :=
  { graph := { tasks := [⟨"a", none, ["pause", "j"], [], [], []⟩, ⟨"b", none, ["j"], [], [], []⟩,
                         ⟨"j", some .all, [], [], [], []⟩], defaults := none },
    live := [⟨"a", ["pause", "j"], [], []⟩, ⟨"b", ["j"], [], []⟩, ⟨"j", [], [], []⟩] }

def rjEvs1 : List Event := [.start, .deliver (.postStartTask ("b", 0) true), .deliver (.postStartTask ("a", 0) true),
  .deliver (.rpcStartTask ("b", 0) true), .deliver (.rpcStartTask ("a", 0) true), .deliver (.postRunAction ("a", 0)),
  .execute ("a", 0) true, .deliver (.rpcResult ("a", 0) true), .resume, .deliver (.postStartTask ("j", 0) true),
  .deliver (.rpcStartTask ("j", 0) true), .deliver (.jobRefresh ("j", 0))]

def rjEvs2 : List Event := [.deliver (.postRunAction ("b", 0)), .execute ("b", 0) true, .deliver (.rpcResult ("b", 0) true),
  .deliver (.postStartTask ("j", 0) true), .deliver (.postSchedRefresh ("j", 0)), .deliver (.rpcStartTask ("j", 0) true),
  .deliver (.jobRefresh ("j", 0)), .deliver (.postRunAction ("j", 0)), .execute ("j", 0) true,
  .deliver (.rpcResult ("j", 0) true), .deliver .postCheck]

example : ((runX rjSpec rjEvs1).tasks.map fun r => (r.name, r.occ, r.state, r.keyed)) =
      [("b", 0, .RUNNING, true), ("a", 0, .SUCCESS, true), ("j", 0, .WAITING, true)] ∧
    (runX rjSpec rjEvs1).backlog = [] ∧
    ((runX rjSpec (rjEvs1 ++ rjEvs2)).tasks.map fun r => (r.name, r.occ, r.state)) =
      [("b", 0, .SUCCESS), ("a", 0, .SUCCESS), ("j", 0, .SUCCESS)] ∧
    (runX rjSpec (rjEvs1 ++ rjEvs2)).wf = .SUCCESS ∧ (runX rjSpec (rjEvs1 ++ rjEvs2)).pending = [] := by decide +kernel

end Mistral.Props.C04X
