/-
C02 — The result of a run does not depend on event order, timing or engine caches.
The whole-run statement is decided by the paired-schedule monitor on the real engine (same
program, two schedules, with and without cache eviction / restart) and by the `core` stream
(every schedule explored must match the one model).  Proved here: the order-insensitivity of the
three places where the engine reads a *set* of rows whose listing order is arbitrary.
-/
import Mistral.Lemmas.Engine
import Mistral.Props.C05

namespace Mistral.Props.C02
open Mistral Mistral.Engine Mistral.Join

/-! ### the join verdict reads rows only through "latest row of that name" -/

theorem possibleRoute_congr (g : Graph) (r1 r2 : List Row) (h : ∀ n, findRow r1 n = findRow r2 n) :
    ∀ fuel t d, possibleRoute g r1 fuel t d = possibleRoute g r2 fuel t d := by
  intro fuel
  induction fuel with
  | zero => intro t d; simp [possibleRoute]
  | succ n ih =>
    intro t d
    unfold possibleRoute
    simp only
    split
    · rfl
    · have hl : ∀ (l : List TaskG) (d : Nat),
          possibleRoute.loop g r1 n t l d = possibleRoute.loop g r2 n t l d := by
        intro l
        induction l with
        | nil => intro d; simp [possibleRoute.loop]
        | cons p ps ihl =>
          intro d
          unfold possibleRoute.loop
          rw [h p.name, ih p.name (d + 1)]
          split
          · split
            · rfl
            · rfl
            · exact ihl _
          · split
            · rfl
            · split
              · rfl
              · exact ihl _
      exact hl _ d

theorem inducedState_congr (g : Graph) (r1 r2 : List Row) (h : ∀ n, findRow r1 n = findRow r2 n)
    (fuel : Nat) (t : TaskG) (j : String) : inducedState g r1 fuel t j = inducedState g r2 fuel t j := by
  unfold inducedState
  rw [h t.name, possibleRoute_congr g r1 r2 h]

/-- The verdict on a join does not depend on the order in which the database lists the task
    rows, nor on rows of unrelated tasks: two listings that agree on the latest row of every
    task give the same verdict (state, cardinality, triggered-by, messages). -/
theorem join_verdict_order_independent (g : Graph) (r1 r2 : List Row)
    (h : ∀ n, findRow r1 n = findRow r2 n) (fuel : Nat) (j : String) (k : JoinKind) :
    joinLogicalState g r1 fuel j k = joinLogicalState g r2 fuel j k := by
  unfold joinLogicalState
  have : (fun t => inducedState g r1 fuel t j) = (fun t => inducedState g r2 fuel t j) := by
    funext t; exact inducedState_congr g r1 r2 h fuel t j
  rw [this]

/-! ### the completion verdict reads the task rows as a set -/

theorem verdict_order_independent (w1 w2 : World) (hwf : w1.wf = w2.wf) (hp : w1.tasks.Perm w2.tasks) :
    (checkAndComplete w1).wf = (checkAndComplete w2).wf := by
  unfold checkAndComplete
  rw [hwf]
  have ha : ∀ f : TaskRow → Bool, w1.tasks.any f = w2.tasks.any f := fun f => hp.any_eq
  have hb : ∀ f : TaskRow → Bool, w1.tasks.all f = w2.tasks.all f := fun f => hp.all_eq
  simp only [ha, hb]
  split
  · exact hwf
  · split
    · exact hwf
    · split
      · rfl
      · split <;> rfl

/-- the version merge at a join does not depend on which branch is listed first (re-export of the
    C05 theorem, which is the data-flow half of this property) -/
theorem merge_order_independent (a b : Ctx.Ctx)
    (hfa : Ctx.FlatD (Ctx.stripInternal a.data)) (hua : Ctx.UniqueKeys (Ctx.stripInternal a.data))
    (hfb : Ctx.FlatD (Ctx.stripInternal b.data)) (hub : Ctx.UniqueKeys (Ctx.stripInternal b.data))
    (k : String)
    (hcons : ∀ va vb, Dict.get? (Ctx.stripInternal a.data) k = some va →
      Dict.get? (Ctx.stripInternal b.data) k = some vb → Ctx.ver a.vers k = Ctx.ver b.vers k → va = vb) :
    Dict.get? (Ctx.mergeByVersion a b).data k = Dict.get? (Ctx.mergeByVersion b a).data k :=
  Mistral.Props.C05.merge_order_independent_partial a b hfa hua hfb hub k hcons

end Mistral.Props.C02
