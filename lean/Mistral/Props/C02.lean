/-
C02 — The result of a run does not depend on event order, timing or engine caches.
The whole-run statement is decided by the paired-schedule monitor on the real engine (same
program, two schedules, with and without cache eviction / restart) and by the `core` stream
(every schedule explored must match the one model).  Proved here: the order-insensitivity of the
three places where the engine reads a *set* of rows whose listing order is arbitrary.
-/
import Mistral.Lemmas.Engine
import Mistral.Props.C05
import Mistral.Props.C05Causal
import Mistral.Props.C05Final

namespace Mistral.Props.C02
open Mistral Mistral.Engine Mistral.Join

/-! ### the join verdict reads rows only through "latest row of that name" -/

theorem possibleRoute_congr (g : Graph) (r1 r2 : List Row) (h : ∀ n, findRow r1 n = findRow r2 n) :
    ∀ fuel t d, possibleRoute g r1 fuel t d = possibleRoute g r2 fuel t d := by
  intro fuel
  induction fuel with
  | zero => intro t d; simp [possibleRoute]
  | succ n ih =>
    intro t d
    unfold possibleRoute
    simp only
    split
    · rfl
    · have hl : ∀ (l : List TaskG) (d : Nat),
          possibleRoute.loop g r1 n t l d = possibleRoute.loop g r2 n t l d := by
        intro l
        induction l with
        | nil => intro d; simp [possibleRoute.loop]
        | cons p ps ihl =>
          intro d
          unfold possibleRoute.loop
          rw [h p.name, ih p.name (d + 1)]
          split
          · split
            · rfl
            · rfl
            · exact ihl _
          · split
            · rfl
            · split
              · rfl
              · exact ihl _
      exact hl _ d

theorem inducedState_congr (g : Graph) (r1 r2 : List Row) (h : ∀ n, findRow r1 n = findRow r2 n)
    (fuel : Nat) (t : TaskG) (j : String) : inducedState g r1 fuel t j = inducedState g r2 fuel t j := by
  unfold inducedState
  rw [h t.name, possibleRoute_congr g r1 r2 h]

/-- The verdict on a join does not depend on the order in which the database lists the task
    rows, nor on rows of unrelated tasks: two listings that agree on the latest row of every
    task give the same verdict (state, cardinality, triggered-by, messages). -/
theorem join_verdict_order_independent (g : Graph) (r1 r2 : List Row)
    (h : ∀ n, findRow r1 n = findRow r2 n) (fuel : Nat) (j : String) (k : JoinKind) :
    joinLogicalState g r1 fuel j k = joinLogicalState g r2 fuel j k := by
  unfold joinLogicalState
  have : (fun t => inducedState g r1 fuel t j) = (fun t => inducedState g r2 fuel t j) := by
    funext t; exact inducedState_congr g r1 r2 h fuel t j
  rw [this]

/-! ### the completion verdict reads the task rows as a set -/

theorem verdict_order_independent (w1 w2 : World) (hwf : w1.wf = w2.wf) (hp : w1.tasks.Perm w2.tasks) :
    (checkAndComplete w1).wf = (checkAndComplete w2).wf := by
  unfold checkAndComplete
  rw [hwf]
  have ha : ∀ f : TaskRow → Bool, w1.tasks.any f = w2.tasks.any f := fun f => hp.any_eq
  have hb : ∀ f : TaskRow → Bool, w1.tasks.all f = w2.tasks.all f := fun f => hp.all_eq
  simp only [ha, hb]
  split
  · exact hwf
  · split
    · exact hwf
    · split
      · rfl
      · split <;> rfl

/-- the version merge at a join does not depend on which branch is listed first, for ARBITRARILY NESTED
    values, at every leaf path the two contexts hold (or lack the variable of): both merge orders give the
    same leaf and the same version whenever equal versions carry equal leaves (no two concurrent branches
    published the path) - re-export of the C05 theorem, which is the data-flow half of this property -/
theorem merge_order_independent (a b : Ctx.Ctx) (k0 : String) (rest : List String)
    (hk : k0 ≠ "__task_execution") (ha : Hist.ShapeOK k0 rest a) (hb : Hist.ShapeOK k0 rest b)
    (hcons : ∀ va vb, Hist.getPath a.data k0 rest = some va → Hist.getPath b.data k0 rest = some vb →
      Ctx.ver a.vers (Hist.keyOf (Ctx.esc k0) rest) = Ctx.ver b.vers (Hist.keyOf (Ctx.esc k0) rest) → va = vb) :
    Hist.getPath (Ctx.mergeByVersion a b).data k0 rest = Hist.getPath (Ctx.mergeByVersion b a).data k0 rest ∧
    Ctx.ver (Ctx.mergeByVersion a b).vers (Hist.keyOf (Ctx.esc k0) rest) =
      Ctx.ver (Ctx.mergeByVersion b a).vers (Hist.keyOf (Ctx.esc k0) rest) :=
  Mistral.Props.C05.merge_order_independent_partial a b k0 rest hk ha hb hcons

/-- ... nor on how a join with three or more inbound tasks groups them (no tie hypothesis) -/
theorem merge_grouping_independent (a b c : Ctx.Ctx) (k0 : String) (rest : List String)
    (hk : k0 ≠ "__task_execution") (ha : Hist.ShapeOK k0 rest a) (hb : Hist.ShapeOK k0 rest b)
    (hc : Hist.ShapeOK k0 rest c) :
    Hist.getPath (Ctx.mergeByVersion (Ctx.mergeByVersion a b) c).data k0 rest =
      Hist.getPath (Ctx.mergeByVersion a (Ctx.mergeByVersion b c)).data k0 rest :=
  (Mistral.Props.C05.merge_associative a b c k0 rest hk ha hb hc).1

/-- over WHOLE histories: two runs of the same fork/join DAG that list the rows of every join in different
    orders show every task the same leaf whenever its publishers have a causally latest one (re-export of
    C05Causal.visible_order_independent) -/
theorem published_data_order_independent (h1 h2 : List Hist.Task)
    (s : Hist.SameUpToOrder h1 h2)
    (k0 : String) (rest : List String) (hk : k0 ≠ "__task_execution")
    (hs : Hist.StableHist k0 rest h1)
    (i : Nat) (r1 r2 : Hist.Row) (hr1 : (Hist.runRows h1)[i]? = some r1) (hr2 : (Hist.runRows h2)[i]? = some r2)
    (qs : Nat) (ts : Hist.Task) (hq : Hist.Anc h1 qs i) (hts : h1[qs]? = some ts)
    (hp : Hist.Publishes k0 ts)
    (hmax : ∀ q' t', Hist.Anc h1 q' i → h1[q']? = some t' →
      Hist.Publishes k0 t' → q' = qs ∨ Hist.Anc h1 q' qs) :
    Hist.leafAt r1.inb.data k0 rest = Hist.leafAt r2.inb.data k0 rest :=
  Mistral.Props.C05Causal.visible_order_independent h1 h2 s k0 rest hk hs i r1 r2 hr1 hr2 qs ts hq hts hp hmax

/-- ... for a join with ANY number of inbound tasks (and for the workflow's final context over any number of
    end tasks read in batches of any size): listing the rows in another order shows the same leaf at every path at
    which the rows are consistent (re-export of C05Final.join_rows_order_independent / final_batch_size_independent) -/
theorem join_rows_order_independent (k0 : String) (rest : List String) (hk : k0 ≠ "__task_execution")
    (l1 l2 : List Ctx.Ctx) (hp : l1.Perm l2) (hs : ∀ c ∈ l1, Hist.ShapeOK k0 rest c)
    (hcons : ∀ c1 ∈ l1, ∀ c2 ∈ l1, ∀ x1 x2, Hist.getPath c1.data k0 rest = some x1 →
      Hist.getPath c2.data k0 rest = some x2 →
      Ctx.ver c1.vers (Hist.keyOf (Ctx.esc k0) rest) = Ctx.ver c2.vers (Hist.keyOf (Ctx.esc k0) rest) → x1 = x2) :
    Hist.getPath (Ctx.upstream l1).data k0 rest = Hist.getPath (Ctx.upstream l2).data k0 rest :=
  Mistral.Props.C05Final.join_rows_order_independent k0 rest hk l1 l2 hp hs hcons

end Mistral.Props.C02
