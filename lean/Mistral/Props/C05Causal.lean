/-
C05, the CAUSAL theorem: over WHOLE publish histories (Model/Hist.lean: a fork/join DAG of tasks, every
inbound context the fold of `merge_context_by_version` over the parents' outbound contexts in the order
the rows happen to be listed, every outbound context the inbound one updated with `published` and the
versions of the published leaf paths bumped), for arbitrarily nested values, one leaf path at a time.

"The value of a variable visible to a task is the one published by the latest task on the causal path
leading to it, falling back to workflow input, vars and environment; a value published inside one
branch is never replaced at a join by a stale copy another branch merely inherited."

`Anc h q i` (Lemmas/HistAnc.lean): q is a strict causal ancestor of i - only the SET of parents of a task
matters.  `StableHist k0 rest h`: the explicit decidable hypothesis (shape-stable republication of the
path; its negation is what known finding G needs).  `Publishes k0 t`: the task publishes the variable.
-/
import Mistral.Lemmas.HistAnc

namespace Mistral.Props.C05Causal
open Mistral Mistral.Dict Mistral.Ctx Mistral.Hist

/-! ### the invariant, over every history -/

/-- `inv_reachable`: every run of a history that is shape-stable at the path satisfies the invariant
    `Hist.Good` (well-shaped contexts; the version a task sees dominates the outbound version of every
    causal ancestor; the leaf a task sees is the publication of an ancestor whose outbound version equals
    the version seen).  Induction over the (topological) task list; parents folded in ANY listed order. -/
theorem inv_reachable (k0 : String) (rest : List String) (hk : k0 ≠ "__task_execution")
    (h : List Task) (hs : StableHist k0 rest h) : Good k0 rest (runRows h) :=
  good_run k0 rest hk h hs

/-- "a value published inside one branch is never replaced at a join by a stale copy another branch
    merely inherited" - for every DAG, every task `i` and every leaf path: the leaf VISIBLE to the task
    (in its inbound context) is the one published by a causal ancestor `q` that is MAXIMAL among the
    publishers: `q` is not a strict causal ancestor of any other ancestor of `i` that publishes the
    variable.  No assumption on how many publishers there are or on the order parents are listed. -/
theorem stale_copy_never_visible (h : List Task) (k0 : String) (rest : List String)
    (hk : k0 ≠ "__task_execution") (hs : StableHist k0 rest h)
    (i : Nat) (r : Row) (hr : (runRows h)[i]? = some r) (x : Val) (hx : leafAt r.inb.data k0 rest = some x) :
    ∃ q tq, Anc h q i ∧ h[q]? = some tq ∧ leafAt tq.pub k0 rest = some x ∧
      ∀ q' t', Anc h q' i → h[q']? = some t' → Publishes k0 t' → ¬ Anc h q q' := by
  have g := good_run k0 rest hk h hs
  have tie := tied_run h
  rw [leafAt_of_shape (g.shapeIn i r hr)] at hx
  obtain ⟨q, hq, rq, hrq, hpub, hver⟩ := g.witIn i r hr x hx
  refine ⟨q, rq.task, (tie.anc i r hr q).mp hq, tie.task q rq hrq, ?_, ?_⟩
  · rw [leafAt_of_stable (g.stable q rq hrq)]; exact hpub
  · intro q' t' ha' ht' hp' haq
    have hq'l : q' < (runRows h).length := by rw [tie.len]; exact lookup_lt ht'
    obtain ⟨rq', hrq'⟩ : ∃ rq', (runRows h)[q']? = some rq' := ⟨(runRows h)[q'], by simp [hq'l]⟩
    have htask : rq'.task = t' := by
      have := tie.task q' rq' hrq'
      rw [ht'] at this; exact (Option.some.inj this).symm
    -- ver out(q) ≤ ver in(q') < ver out(q') ≤ ver in(i) = ver out(q)
    have h1 := g.domIn q' rq' hrq' q ((tie.anc q' rq' hrq' q).mpr haq) rq hrq
    have h2 : ver rq'.inb.vers (keyOf (esc k0) rest) < ver rq'.out.vers (keyOf (esc k0) rest) := by
      rw [g.outOfIn q' rq' hrq']
      exact (outbound_at_path k0 rest _ _ (g.stable q' rq' hrq') (g.shapeIn q' rq' hrq')).2.2.2
        (by rw [htask]; exact hp')
    have h3 := g.domIn i r hr q' ((tie.anc i r hr q').mpr ha') rq' hrq'
    omega

/-- "The value of a variable visible to a task is the one published by the latest task on the causal
    path leading to it": when the publishers of the variable among the causal ancestors of task `i` have a
    LATEST one `qs` (every other one is an ancestor of `qs`: no two incomparable publishers) the leaf
    visible to `i` is exactly the one `qs` published - whatever the DAG and the order of the rows. -/
theorem latest_publisher_visible (h : List Task) (k0 : String) (rest : List String)
    (hk : k0 ≠ "__task_execution") (hs : StableHist k0 rest h)
    (i : Nat) (r : Row) (hr : (runRows h)[i]? = some r)
    (qs : Nat) (ts : Task) (hq : Anc h qs i) (hts : h[qs]? = some ts) (hp : Publishes k0 ts)
    (hmax : ∀ q' t', Anc h q' i → h[q']? = some t' → Publishes k0 t' → q' = qs ∨ Anc h q' qs) :
    leafAt r.inb.data k0 rest = leafAt ts.pub k0 rest := by
  have g := good_run k0 rest hk h hs
  have tie := tied_run h
  -- the leaf is present: the version seen is at least the (positive) outbound version of qs
  have hqsl : qs < (runRows h).length := by rw [tie.len]; exact lookup_lt hts
  obtain ⟨rqs, hrqs⟩ : ∃ rqs, (runRows h)[qs]? = some rqs := ⟨(runRows h)[qs], by simp [hqsl]⟩
  have htask : rqs.task = ts := by
    have := tie.task qs rqs hrqs
    rw [hts] at this; exact (Option.some.inj this).symm
  have hpos : 0 < ver rqs.out.vers (keyOf (esc k0) rest) := by
    rw [g.outOfIn qs rqs hrqs]
    have := (outbound_at_path k0 rest _ _ (g.stable qs rqs hrqs) (g.shapeIn qs rqs hrqs)).2.2.2
      (by rw [htask]; exact hp)
    omega
  have hdom := g.domIn i r hr qs ((tie.anc i r hr qs).mpr hq) rqs hrqs
  obtain ⟨x, hx⟩ := (g.shapeIn i r hr).present (by omega)
  have hxl : leafAt r.inb.data k0 rest = some x := by rw [leafAt_of_shape (g.shapeIn i r hr)]; exact hx
  obtain ⟨q, tq, haq, htq, hval, hnot⟩ := stale_copy_never_visible h k0 rest hk hs i r hr x hxl
  have hpq : Publishes k0 tq := by
    have hst : StablePub k0 rest tq.pub := hs tq (List.mem_of_getElem? htq)
    rw [leafAt_of_stable hst] at hval
    exact publishes_of_getPath hval
  rcases hmax q tq haq htq hpq with rfl | hlt
  · rw [hts] at htq; cases htq
    rw [hxl, hval]
  · exact absurd hlt (hnot qs ts hq hts hp)

/-- "... falling back to workflow input, vars and environment": a variable that no causal ancestor
    publishes is not in the inbound context at all, so the ContextView lookup goes on to the next layers
    (environment, workflow context = vars, input). -/
theorem unpublished_falls_back (h : List Task) (k0 : String) (rest : List String)
    (hk : k0 ≠ "__task_execution") (hs : StableHist k0 rest h)
    (i : Nat) (r : Row) (hr : (runRows h)[i]? = some r)
    (hnone : ∀ q t', Anc h q i → h[q]? = some t' → ¬ Publishes k0 t') (layers : List Dict) :
    get? r.inb.data k0 = none ∧ viewLookup (r.inb.data :: layers) k0 = viewLookup layers k0 := by
  have g := good_run k0 rest hk h hs
  have tie := tied_run h
  have hn : get? r.inb.data k0 = none := by
    cases hg : get? r.inb.data k0 with
    | none => rfl
    | some v =>
      exfalso
      have hsh := (g.shapeIn i r hr).2.2
      simp only [hg] at hsh
      obtain ⟨x, hx, _⟩ := LeafPath.get rest v hsh
      have hgp : getPath r.inb.data k0 rest = some x := by rw [getPath_of_get?, hg]; exact hx
      obtain ⟨q, hq, rq, hrq, hpub, _⟩ := g.witIn i r hr x hgp
      exact hnone q rq.task ((tie.anc i r hr q).mp hq) (tie.task q rq hrq) (publishes_of_getPath hpub)
  refine ⟨hn, ?_⟩
  rw [viewLookup, hn]

/-! ### independence of the order in which parents are folded -/

/-- "... independent of the order in which parents are folded" (the data half of C02): two runs of the
    same DAG that list the parents of every task in different orders show every task the same leaf,
    whenever the publishers among its causal ancestors have a latest one. -/
theorem visible_order_independent (h1 h2 : List Task) (s : SameUpToOrder h1 h2)
    (k0 : String) (rest : List String) (hk : k0 ≠ "__task_execution") (hs : StableHist k0 rest h1)
    (i : Nat) (r1 r2 : Row) (hr1 : (runRows h1)[i]? = some r1) (hr2 : (runRows h2)[i]? = some r2)
    (qs : Nat) (ts : Task) (hq : Anc h1 qs i) (hts : h1[qs]? = some ts) (hp : Publishes k0 ts)
    (hmax : ∀ q' t', Anc h1 q' i → h1[q']? = some t' → Publishes k0 t' → q' = qs ∨ Anc h1 q' qs) :
    leafAt r1.inb.data k0 rest = leafAt r2.inb.data k0 rest := by
  have hs2 : StableHist k0 rest h2 := by
    intro t ht
    obtain ⟨j, hj⟩ := List.mem_iff_getElem?.mp ht
    have hl : j < h1.length := by rw [s.1]; exact lookup_lt hj
    have h1j : h1[j]? = some h1[j] := by simp [hl]
    rw [← (s.2 j _ t h1j hj).1]
    exact hs _ (List.mem_of_getElem? h1j)
  have hl : qs < h2.length := by rw [← s.1]; exact lookup_lt hts
  have h2qs : h2[qs]? = some h2[qs] := by simp [hl]
  have hpubeq := (s.2 qs ts _ hts h2qs).1
  rw [latest_publisher_visible h1 k0 rest hk hs i r1 hr1 qs ts hq hts hp hmax,
    latest_publisher_visible h2 k0 rest hk hs2 i r2 hr2 qs h2[qs] (anc_congr s hq) h2qs
      (by unfold Publishes; rw [← hpubeq]; exact hp) ?_, hpubeq]
  intro q' t' ha' ht' hp'
  have hl' : q' < h1.length := by rw [s.1]; exact lookup_lt ht'
  have h1q' : h1[q']? = some h1[q'] := by simp [hl']
  have hpe := (s.2 q' _ t' h1q' ht').1
  rcases hmax q' h1[q'] (anc_congr s.symm ha') h1q' (by unfold Publishes; rw [hpe]; exact hp') with e | a
  · exact Or.inl e
  · exact Or.inr (anc_congr s a)

/-! ### non-vacuity: a nested dict published before a fork, one leaf republished in a branch, two chained
joins each of which meets a branch that merely inherited the copy from before the fork -/

/-- t0 publishes d = {x: 0, y: 0}; fork: t1 republishes d with x = "A", t2 and t3 merely inherit (t3 publishes
    another variable); t4 = join(t2, t1); t5 = join(t4, t3) -/
def exH : List Task := [
  ⟨[], [("d", .obj [("x", .num 0), ("y", .num 0)])]⟩,
  ⟨[0], [("d", .obj [("x", .str "A"), ("y", .num 0)])]⟩,
  ⟨[0], []⟩,
  ⟨[0], [("w", .num 1)]⟩,
  ⟨[2, 1], []⟩,
  ⟨[4, 3], []⟩ ]

/-- the same DAG with the rows of both joins listed in the other order -/
def exH' : List Task := [
  ⟨[], [("d", .obj [("x", .num 0), ("y", .num 0)])]⟩,
  ⟨[0], [("d", .obj [("x", .str "A"), ("y", .num 0)])]⟩,
  ⟨[0], []⟩,
  ⟨[0], [("w", .num 1)]⟩,
  ⟨[1, 2], []⟩,
  ⟨[3, 4], []⟩ ]

example : StableHist "d" ["x"] exH := by decide
example : StableHist "d" ["y"] exH := by decide
example : StableHist "w" [] exH := by decide

theorem exH_anc_1_5 : Anc exH 1 5 :=
  Anc.trans (p := 4) (t := ⟨[4, 3], []⟩) rfl (by decide) (by decide)
    (Anc.parent (t := ⟨[2, 1], []⟩) rfl (by decide) (by decide))

theorem exH_latest (q' : Nat) (t' : Task) (ha : Anc exH q' 5) (ht : exH[q']? = some t') (hp : Publishes "d" t') :
    q' = 1 ∨ Anc exH q' 1 := by
  have hlt := anc_lt ha
  match q', hlt with
  | 0, _ => exact Or.inr (Anc.parent (t := ⟨[0], [("d", .obj [("x", .str "A"), ("y", .num 0)])]⟩) rfl (by decide) (by decide))
  | 1, _ => exact Or.inl rfl
  | 2, _ => simp [exH] at ht; subst ht; exact absurd hp (by decide)
  | 3, _ => simp [exH] at ht; subst ht; exact absurd hp (by decide)
  | 4, _ => simp [exH] at ht; subst ht; exact absurd hp (by decide)

/-- the hypotheses of `latest_publisher_visible` are met by the second join of `exH` (the latest publisher of
    d.x among its ancestors is t1, the branch t3 still carries t0's copy) and the theorem gives the value -/
example (r : Row) (hr : (runRows exH)[5]? = some r) : leafAt r.inb.data "d" ["x"] = some (.str "A") := by
  rw [latest_publisher_visible exH "d" ["x"] (by decide) (by decide) 5 r hr 1 _ exH_anc_1_5 rfl (by decide)
    exH_latest]
  rfl

/-- ... which is what the model computes, in both row orders (evaluation, not the theorem) -/
example : ((runRows exH)[5]?).map (fun r => leafAt r.inb.data "d" ["x"]) = some (some (.str "A")) := by rfl
example : ((runRows exH')[5]?).map (fun r => leafAt r.inb.data "d" ["x"]) = some (some (.str "A")) := by rfl
/-- the stale copy is really there to be beaten: the inheriting branch t3 hands on x = 0 -/
example : ((runRows exH)[3]?).map (fun r => leafAt r.out.data "d" ["x"]) = some (some (.num 0)) := by rfl

example : SameUpToOrder exH exH' := by
  refine ⟨rfl, ?_⟩
  intro i t1 t2 h1 h2
  match i with
  | 0 | 1 | 2 | 3 => simp [exH, exH'] at h1 h2; subst h1; subst h2; exact ⟨rfl, fun p => Iff.rfl⟩
  | 4 => simp [exH, exH'] at h1 h2; subst h1; subst h2; exact ⟨rfl, fun p => by simp; exact Or.comm⟩
  | 5 => simp [exH, exH'] at h1 h2; subst h1; subst h2; exact ⟨rfl, fun p => by simp; exact Or.comm⟩
  | n + 6 => simp [exH] at h1

/-- `unpublished_falls_back`: nobody before the first join publishes `w` on the path of t2 -/
example (r : Row) (hr : (runRows exH)[2]? = some r) : get? r.inb.data "w" = none := by
  refine (unpublished_falls_back exH "w" [] (by decide) (by decide) 2 r hr ?_ []).1
  intro q t' ha ht
  have hlt := anc_lt ha
  match q, hlt with
  | 0, _ => simp [exH] at ht; subst ht; decide
  | 1, _ => simp [exH] at ht; subst ht; cases ha with
    | parent hi hp _ => simp [exH] at hi; subst hi; simp at hp
    | trans hi hp _ a' => simp [exH] at hi; subst hi; simp at hp; subst hp; exact absurd (anc_lt a') (by omega)

end Mistral.Props.C05Causal
