/-
C02 — The result of a run does not depend on event order, timing or engine caches.
C10 — (last sentence) After resume the run continues and, for a deterministic workflow, finishes
      with the same final state, task results and output as if it had never been paused.

SCHEDULE INDEPENDENCE OF THE OUTCOME AS A THEOREM OF THE ENGINE MODEL.
`Mistral.Sem` (Model/Sem.lean) is a declarative semantics of the data-free direct workflows the
engine core `Mistral.Engine` models: the set of tasks that run, their final states and next_tasks
and the final workflow state as a function of the DEFINITION (`Spec`) and the RESULTS OF THE ACTIONS
(`orc`) only - no schedule appears in it.  The theorems below say that the engine model REFINES it:
under EVERY history (deliveries in any order, pause / resume anywhere) the engine's rows are sound
w.r.t. the semantics at every moment and equal to it at quiescence.  Two quiescent histories
therefore have the same outcome, with or without pause / resume.

Class of definitions: `SpecOK sp rk` (WP-A: unique names, satisfiable `join: N`, fired routes among
the transitions, acyclic within the recursion budget, walk budget of the model), a start task,
known targets - joins of EVERY kind (all / one / N), forks, on-error / on-complete routes, guards
that do not fire, tasks activated several times, partial joins re-run by late branches: the
outcome is compared as the workflow state and the SET of rows (name, state, next_tasks).
Class of histories: `Plain` (no stop, no action lost at its executor - C20 -, executor results =
the oracle's) and, for the theorems named `_partial`, two explicit exclusions, both genuine defects
of the code replayed on the real engine:
  * `NoStaleRestart`: no `start_task(first_run=False)` request (queued by `resume` for a task that was
    still IDLE) is delivered to a task that has meanwhile FAILED - `_run_existing` runs the failed
    task again, and if the workflow has finished in between its row is rewritten
    (`outcome_schedule_independent_full_fails`, corpus/C02/stale_restart_after_finish.json);
  * `pausedCleanRun` (C01, WP-A): no re-opened join is unfinished at a pause
    (`Props.C01.no_stuck_acyclic_full_fails`).
-/
import Mistral.Lemmas.SemRun
import Mistral.Lemmas.SemNoPause
import Mistral.Lemmas.SemNoFail
import Mistral.Lemmas.SemWitness
namespace Mistral.Props.C02Sem
open Mistral Mistral.Join Mistral.Engine Mistral.Engine.Live Mistral.Sem Mistral.Sem.Wit

/-! ### histories and outcomes -/

/-- every event is plain: no stop, no action lost at its executor, executor results = the oracle's -/
def Plain (orc : String → Bool) (evs : List Event) : Prop := ∀ e ∈ evs, plainB orc e = true

instance (orc : String → Bool) (evs : List Event) : Decidable (Plain orc evs) := by
  unfold Plain; exact inferInstance

/-- no stale re-start of a failed task anywhere along the history -/
def NoStaleRestart (sp : Spec) (evs : List Event) : Prop := noStaleFrom sp init evs = true

instance (sp : Spec) (evs : List Event) : Decidable (NoStaleRestart sp evs) := by
  unfold NoStaleRestart; exact inferInstance

/-- nothing in flight and not waiting for the operator -/
def Quiescent (w : World) : Prop := w.pending = [] ∧ w.wf ≠ .PAUSED

instance (w : World) : Decidable (Quiescent w) := by unfold Quiescent; exact inferInstance

/-- the outcome of a run: the workflow state and the SET of task rows (name, state, next_tasks) -/
def SameOutcome (w1 w2 : World) : Prop :=
  w1.wf = w2.wf ∧ ∀ x : SRow, x ∈ w1.tasks.map rowTriple ↔ x ∈ w2.tasks.map rowTriple

/-- the hypotheses on a definition -/
structure DetClass (sp : Spec) (rk : String → Nat) : Prop where
  ok : SpecOK sp rk
  starts : startTasks sp ≠ []
  known : TargetsKnown sp

theorem adm_of_plain (sp : Spec) (orc : String → Bool) (evs : List Event) :
    ∀ (w : World), (∀ e ∈ evs, plainB orc e = true) → noStaleFrom sp w evs = true → admB sp orc w evs = true := by
  induction evs with
  | nil => intro w _ _; rfl
  | cons e es ih =>
    intro w hp hs
    have hs' : staleB w e = false ∧ noStaleFrom sp (step sp w e) es = true := by
      simpa [noStaleFrom] using hs
    have h1 : admissibleB orc w e = true := by
      unfold admissibleB
      rw [hp e List.mem_cons_self, hs'.1]; rfl
    have h2 := ih (step sp w e) (fun e' he' => hp e' (List.mem_cons_of_mem _ he')) hs'.2
    simp [admB, h1, h2]

/-! ### (a) soundness -/

/-- (a) SOUNDNESS, at every moment of every history: every row of the engine is a task of the
    semantic set, and every completed row has the state and the next_tasks the semantics
    prescribes.  (Joins of every kind, several activations; no hypothesis on pause / resume; the
    liveness work of WP-A is not used.) -/
theorem sound (sp : Spec) (rk : String → Nat) (hsp : SpecOK sp rk) (orc : String → Bool) (evs : List Event)
    (hp : Plain orc evs) (hns : NoStaleRestart sp evs) :
    ∀ r ∈ (run sp evs).tasks, sem sp orc r.name ≠ none ∧
      (isCompleted r.state = true → sem sp orc r.name = some r.state ∧ r.nextTasks = nextOf sp r.name r.state) := by
  have h := run_sinv sp orc rk (semSpec_of_specOK sp rk hsp) evs (adm_of_plain sp orc evs init hp hns)
  intro r hr
  exact ⟨(h.rows r hr).1, (h.rows r hr).2.1⟩

/-- … and every action result in flight is the oracle's, for a task that executes its action in
    the semantics (a join that the semantics fails structurally never runs its action) -/
theorem sound_actions (sp : Spec) (rk : String → Nat) (hsp : SpecOK sp rk) (orc : String → Bool) (evs : List Event)
    (hp : Plain orc evs) (hns : NoStaleRestart sp evs) (t : Tid) (ok : Bool)
    (h : Item.rpcResult t ok ∈ (run sp evs).pending) : sem sp orc t.1 = some (res orc t.1) ∧ ok = orc t.1 :=
  (run_sinv sp orc rk (semSpec_of_specOK sp rk hsp) evs (adm_of_plain sp orc evs init hp hns)).items _ h

/-! ### (b) completeness at quiescence -/

/-- (b) COMPLETENESS AT QUIESCENCE: when nothing is pending and the workflow is not PAUSED, the
    workflow is completed, its state is the semantic verdict and its rows are EXACTLY the semantic
    set (as a set of (name, state, next_tasks)). -/
theorem complete_at_quiescence_partial (sp : Spec) (rk : String → Nat) (hd : DetClass sp rk) (orc : String → Bool)
    (evs : List Event) (hp : Plain orc evs) (hns : NoStaleRestart sp (.start :: evs))
    (hc : Props.C01.pausedCleanRun sp (.start :: evs)) (hq : Quiescent (run sp (.start :: evs))) :
    (run sp (.start :: evs)).wf = semVerdict sp orc ∧
      ∀ x : SRow, x ∈ (run sp (.start :: evs)).tasks.map rowTriple ↔ x ∈ semRows sp orc := by
  have hp' : ∀ e ∈ Event.start :: evs, plainB orc e = true := by
    intro e he
    rcases List.mem_cons.mp he with rfl | he
    · rfl
    · exact hp e he
  have hq' := run_qinv sp orc rk hd.ok hd.starts evs (adm_of_plain sp orc _ init hp' hns) hc
  exact (quiescent_complete sp orc rk hd.ok hd.known _ hq' hq.1 hq.2).2

/-! ### (c) schedule independence of the outcome -/

/-- (c) `outcome_schedule_independent`, proved part: two quiescent histories of the same
    definition under the same action results - deliveries in any order, pause / resume anywhere -
    have the same outcome. -/
theorem outcome_schedule_independent_partial (sp : Spec) (rk : String → Nat) (hd : DetClass sp rk)
    (orc : String → Bool) (evs1 evs2 : List Event)
    (hp1 : Plain orc evs1) (hp2 : Plain orc evs2)
    (hns1 : NoStaleRestart sp (.start :: evs1)) (hns2 : NoStaleRestart sp (.start :: evs2))
    (hc1 : Props.C01.pausedCleanRun sp (.start :: evs1)) (hc2 : Props.C01.pausedCleanRun sp (.start :: evs2))
    (hq1 : Quiescent (run sp (.start :: evs1))) (hq2 : Quiescent (run sp (.start :: evs2))) :
    SameOutcome (run sp (.start :: evs1)) (run sp (.start :: evs2)) := by
  obtain ⟨v1, r1⟩ := complete_at_quiescence_partial sp rk hd orc evs1 hp1 hns1 hc1 hq1
  obtain ⟨v2, r2⟩ := complete_at_quiescence_partial sp rk hd orc evs2 hp2 hns2 hc2 hq2
  exact ⟨v1.trans v2.symm, fun x => (r1 x).trans (r2 x).symm⟩

/-! ### (d) pause / resume -/

/-- a history without operator commands -/
def isOp : Event → Bool
  | .pause => true
  | .resume => true
  | _ => false

def NoPauseResume (evs : List Event) : Prop := ∀ e ∈ evs, isOp e = false

theorem NoPauseResume.ne (evs : List Event) (h : NoPauseResume evs) (e : Event) (he : e ∈ evs) :
    e ≠ .pause ∧ e ≠ .resume := by
  have := h e he
  constructor <;> (intro hc; subst hc; cases this)

instance (evs : List Event) : Decidable (NoPauseResume evs) := by unfold NoPauseResume; exact inferInstance

theorem noStale_of_norerun (sp : Spec) (evs : List Event) :
    ∀ (w : World), NoRerun w → (∀ e ∈ evs, e ≠ .resume) → noStaleFrom sp w evs = true := by
  induction evs with
  | nil => intro w _ _; rfl
  | cons e es ih =>
    intro w h hn
    have h1 := norerun_not_stale w e h
    have h2 := ih (step sp w e) (step_norerun sp w e h (hn e List.mem_cons_self))
      (fun e' he' => hn e' (List.mem_cons_of_mem _ he'))
    simp [noStaleFrom, h1, h2]

/-- a history without pause / resume is inside both history classes: the workflow is never PAUSED
    and no re-run request is ever in flight -/
theorem nopause_in_class (sp : Spec) (evs : List Event) (h : NoPauseResume evs) :
    NoStaleRestart sp (.start :: evs) ∧ Props.C01.pausedCleanRun sp (.start :: evs) := by
  constructor
  · apply noStale_of_norerun sp _ init
    · intro it hi; simp [init] at hi
    · intro e he
      rcases List.mem_cons.mp he with rfl | he
      · intro hc; cases hc
      · exact (h.ne evs e he).2
  · apply nopause_clean
    intro e he
    rcases List.mem_cons.mp he with rfl | he
    · intro hc; cases hc
    · exact (h.ne evs e he).1

/-- (d) `pause_resume_same_outcome` (C10: "after resume the run … finishes with the same final
    state, task results and output as if it had never been paused"), proved part: a quiescent
    history with pause / resume anywhere has the same outcome as ANY quiescent history without
    them (any delivery order). -/
theorem pause_resume_same_outcome_partial (sp : Spec) (rk : String → Nat) (hd : DetClass sp rk)
    (orc : String → Bool) (evs1 evs2 : List Event)
    (hp1 : Plain orc evs1) (hp2 : Plain orc evs2) (hnp2 : NoPauseResume evs2)
    (hns1 : NoStaleRestart sp (.start :: evs1)) (hc1 : Props.C01.pausedCleanRun sp (.start :: evs1))
    (hq1 : Quiescent (run sp (.start :: evs1))) (hq2 : Quiescent (run sp (.start :: evs2))) :
    SameOutcome (run sp (.start :: evs1)) (run sp (.start :: evs2)) := by
  obtain ⟨hns2, hc2⟩ := nopause_in_class sp evs2 hnp2
  exact outcome_schedule_independent_partial sp rk hd orc evs1 evs2 hp1 hp2 hns1 hns2 hc1 hc2 hq1 hq2

/-- without operator commands the statement holds at full strength: ANY two quiescent histories
    of deliveries (any order) have the same outcome -/
theorem outcome_schedule_independent_nopause (sp : Spec) (rk : String → Nat) (hd : DetClass sp rk)
    (orc : String → Bool) (evs1 evs2 : List Event)
    (hp1 : Plain orc evs1) (hp2 : Plain orc evs2) (hnp1 : NoPauseResume evs1) (hnp2 : NoPauseResume evs2)
    (hq1 : Quiescent (run sp (.start :: evs1))) (hq2 : Quiescent (run sp (.start :: evs2))) :
    SameOutcome (run sp (.start :: evs1)) (run sp (.start :: evs2)) := by
  obtain ⟨hns1, hc1⟩ := nopause_in_class sp evs1 hnp1
  exact pause_resume_same_outcome_partial sp rk hd orc evs1 evs2 hp1 hp2 hnp2 hns1 hc1 hq1 hq2

/-! ### when no plain task fails the stale re-start is impossible -/

/-- if no action of a task that is not a join fails (joins may fail, by their action or
    structurally), EVERY plain history is free of stale re-starts -/
theorem nofail_in_class (sp : Spec) (rk : String → Nat) (hsp : SpecOK sp rk) (orc : String → Bool)
    (hok : PlainTasksSucceed sp orc) (evs : List Event) (hp : Plain orc evs) : NoStaleRestart sp evs :=
  noStale_of_plainok sp orc rk (semSpec_of_specOK sp rk hsp) hok evs init (sinv_init sp orc) (Imp.ji_init sp) hp

/-- (c) / (d) for oracles under which no plain task fails: ANY two plain quiescent histories -
    pause / resume anywhere in both - inside WP-A's class have the same outcome.  (The stale
    re-start is the ONLY obstacle to the full statement besides the C01 finding.) -/
theorem outcome_schedule_independent_nofail (sp : Spec) (rk : String → Nat) (hd : DetClass sp rk)
    (orc : String → Bool) (hok : PlainTasksSucceed sp orc) (evs1 evs2 : List Event)
    (hp1 : Plain orc evs1) (hp2 : Plain orc evs2)
    (hc1 : Props.C01.pausedCleanRun sp (.start :: evs1)) (hc2 : Props.C01.pausedCleanRun sp (.start :: evs2))
    (hq1 : Quiescent (run sp (.start :: evs1))) (hq2 : Quiescent (run sp (.start :: evs2))) :
    SameOutcome (run sp (.start :: evs1)) (run sp (.start :: evs2)) := by
  have hp' : ∀ (evs : List Event), Plain orc evs → Plain orc (.start :: evs) := by
    intro evs hp e he
    rcases List.mem_cons.mp he with rfl | he
    · rfl
    · exact hp e he
  exact outcome_schedule_independent_partial sp rk hd orc evs1 evs2 hp1 hp2
    (nofail_in_class sp rk hd.ok orc hok _ (hp' evs1 hp1)) (nofail_in_class sp rk hd.ok orc hok _ (hp' evs2 hp2))
    hc1 hc2 hq1 hq2

/-- non-vacuity: under the all-success oracle no plain task of the fork / join definition fails -/
example : PlainTasksSucceed fjSpec (fun _ => true) := fun _ _ => rfl

/-! ### the statements at full strength are FALSE of the code: the stale re-start -/

open Mistral.Sem.Wit

theorem s_plain1 : Plain sOrc sPlain := by decide
theorem s_plain2 : Plain sOrc sStale := by decide
theorem s_q1 : Quiescent (run sSpec (.start :: sPlain)) := by decide +kernel
theorem s_q2 : Quiescent (run sSpec (.start :: sStale)) := by decide +kernel
theorem s_rows1 : (run sSpec (.start :: sPlain)).tasks.map rowTriple =
    [("t0", .ERROR, [("t1", "on-error")]), ("t1", .SUCCESS, [])] := by decide +kernel
/-- after the stale re-start inside the finished workflow the row of t0 has lost its next_tasks
    (and its `error_handled` flag: the workflow is SUCCESS with an unhandled ERROR task) -/
theorem s_rows2 : (run sSpec (.start :: sStale)).tasks.map rowTriple =
    [("t0", .ERROR, []), ("t1", .SUCCESS, [])] := by decide +kernel
theorem s_handled2 : (run sSpec (.start :: sStale)).wf = .SUCCESS ∧
    ((run sSpec (.start :: sStale)).tasks.map fun r => (r.name, r.errorHandled)) = [("t0", false), ("t1", false)] := by
  decide +kernel

theorem s_differ : ¬ SameOutcome (run sSpec (.start :: sPlain)) (run sSpec (.start :: sStale)) := by
  intro h
  have h1 : (("t0", St.ERROR, [("t1", "on-error")]) : SRow) ∈ (run sSpec (.start :: sPlain)).tasks.map rowTriple := by
    rw [s_rows1]; simp
  have h2 := (h.2 _).mp h1
  rw [s_rows2] at h2
  simp at h2

/-- (c) `outcome_schedule_independent` AT FULL STRENGTH - every definition of the class, every
    oracle, EVERY two plain quiescent histories - is FALSE of the code.  Witness: task t0 fails and
    has an on-error route to t1.  History 1: no operator command.  History 2: pause / resume while
    t0 is still IDLE (`resume` queues a second start request, `first_run=False`); the original
    request starts t0, t0 fails, t1 runs, the workflow finishes SUCCESS; THEN the second request
    is delivered: `_run_existing` runs the failed t0 again inside the finished workflow, and its
    second completion rewrites the row (next_tasks = [], error_handled = False).  The same event
    list replayed on the real engine gives the same rows after every event
    (corpus/C02/stale_restart_after_finish.json): known finding. -/
theorem outcome_schedule_independent_full_fails :
    ¬ (∀ (sp : Spec) (rk : String → Nat), DetClass sp rk → ∀ (orc : String → Bool) (evs1 evs2 : List Event),
        Plain orc evs1 → Plain orc evs2 →
        Quiescent (run sp (.start :: evs1)) → Quiescent (run sp (.start :: evs2)) →
        SameOutcome (run sp (.start :: evs1)) (run sp (.start :: evs2))) := by
  intro hall
  exact s_differ (hall sSpec sRank ⟨s_ok, s_starts, s_known⟩ sOrc sPlain sStale s_plain1 s_plain2 s_q1 s_q2)

/-- (d) `pause_resume_same_outcome` AT FULL STRENGTH is FALSE of the code, by the same witness:
    the history with the pause / resume round ends with another row for t0 than the history that
    was never paused. -/
theorem pause_resume_same_outcome_full_fails :
    ¬ (∀ (sp : Spec) (rk : String → Nat), DetClass sp rk → ∀ (orc : String → Bool) (evs1 evs2 : List Event),
        Plain orc evs1 → Plain orc evs2 → NoPauseResume evs2 →
        Quiescent (run sp (.start :: evs1)) → Quiescent (run sp (.start :: evs2)) →
        SameOutcome (run sp (.start :: evs1)) (run sp (.start :: evs2))) := by
  intro hall
  have h := hall sSpec sRank ⟨s_ok, s_starts, s_known⟩ sOrc sStale sPlain s_plain2 s_plain1 (by decide) s_q2 s_q1
  exact s_differ ⟨h.1.symm, fun x => (h.2 x).symm⟩

/-- … and the witness history is outside the class of the proved theorems exactly at the
    delivery of the stale request -/
theorem witness_is_stale : ¬ NoStaleRestart sSpec (.start :: sStale) ∧ NoStaleRestart sSpec (.start :: sStale.take 14) := by
  decide +kernel

/-! ### non-vacuity: a fork / join with a failing branch and an on-error route -/

/-- the declarative semantics of the fork / join definition when branch b fails: a, c succeed,
    b is ERROR and routes to its on-error task h, the `join: all` task j is ERROR (b never routes
    to it), k never runs; the unhandled error of j makes the workflow ERROR -/
example : semRows fjSpec fjOrc =
      [("a", .SUCCESS, [("b", "on-success"), ("c", "on-success")]), ("b", .ERROR, [("h", "on-error")]),
       ("c", .SUCCESS, [("j", "on-success")]), ("j", .ERROR, []), ("h", .SUCCESS, [])] ∧
    semVerdict fjSpec fjOrc = .ERROR := by decide +kernel

/-- … and when every action succeeds: the join runs, then k; the workflow is SUCCESS -/
example : semRows fjSpec (fun _ => true) =
      [("a", .SUCCESS, [("b", "on-success"), ("c", "on-success")]), ("b", .SUCCESS, [("j", "on-success")]),
       ("c", .SUCCESS, [("j", "on-success")]), ("j", .SUCCESS, [("k", "on-success")]), ("k", .SUCCESS, [])] ∧
    semVerdict fjSpec (fun _ => true) = .SUCCESS := by decide +kernel

/-- `complete_at_quiescence_partial` / `pause_resume_same_outcome_partial` apply to the history with
    the pause / resume round (both branches complete while PAUSED, the join is created by `resume`)
    and to the first-in first-out history without operator commands: all hypotheses hold … -/
example : DetClass fjSpec fjRank ∧ Plain fjOrc fjPaused ∧ Plain fjOrc fjFifo ∧ NoPauseResume fjFifo ∧
    NoStaleRestart fjSpec (.start :: fjPaused) ∧ Props.C01.pausedCleanRun fjSpec (.start :: fjPaused) ∧
    Quiescent (run fjSpec (.start :: fjPaused)) ∧ Quiescent (run fjSpec (.start :: fjFifo)) :=
  ⟨⟨fj_ok, fj_starts, fj_known⟩, by decide, by decide, by decide, by decide +kernel,
   cleanFromB_sound fjSpec _ init (by decide +kernel), by decide +kernel, by decide +kernel⟩

/-- … and the common outcome is the semantic one (ERROR; five rows) -/
example : (run fjSpec (.start :: fjPaused)).wf = .ERROR ∧
    (run fjSpec (.start :: fjPaused)).tasks.map rowTriple =
      [("a", .SUCCESS, [("b", "on-success"), ("c", "on-success")]), ("b", .ERROR, [("h", "on-error")]),
       ("c", .SUCCESS, [("j", "on-success")]), ("h", .SUCCESS, []), ("j", .ERROR, [])] := by decide +kernel

/-- `sound` applies in the middle of the paused run (after the failing branch completed while
    PAUSED): hypotheses hold, three rows exist, none of the join yet -/
example : Plain fjOrc (.start :: fjPaused.take 16) ∧ NoStaleRestart fjSpec (.start :: fjPaused.take 16) ∧
    (run fjSpec (.start :: fjPaused.take 16)).wf = .PAUSED ∧
    (run fjSpec (.start :: fjPaused.take 16)).tasks.map rowTriple =
      [("a", .SUCCESS, [("b", "on-success"), ("c", "on-success")]), ("b", .ERROR, [("h", "on-error")]),
       ("c", .SUCCESS, [("j", "on-success")])] := by
  refine ⟨by decide, by decide +kernel, by decide +kernel, by decide +kernel⟩

end Mistral.Props.C02Sem
