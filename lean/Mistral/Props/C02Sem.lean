/-
C02 — The result of a run does not depend on event order, timing or engine caches.
C10 — (last sentence) After resume the run continues and, for a deterministic workflow, finishes
      with the same final state, task results and output as if it had never been paused.

SCHEDULE INDEPENDENCE OF THE OUTCOME AS A THEOREM OF THE ENGINE MODEL, AT FULL STRENGTH.
`Mistral.Sem` (Model/Sem.lean) is a declarative semantics of the data-free direct workflows the
engine core `Mistral.Engine` models: the set of tasks that run, their final states and next_tasks
and the final workflow state as a function of the DEFINITION (`Spec`) and the RESULTS OF THE ACTIONS
(`orc`) only - no schedule appears in it.  The theorems below say that the engine model REFINES it:
under EVERY plain history (deliveries in any order, pause / resume anywhere) the engine's rows are
sound w.r.t. the semantics at every moment and equal to it at quiescence.  Two quiescent histories
therefore have the same outcome, with or without pause / resume.

Class of definitions `DetClass`: `SpecOK sp rk` (WP-A: unique names, satisfiable `join: N`, fired
routes among the transitions, acyclic within the recursion budget, walk budget of the model), a start
task, known targets - joins of EVERY kind (all / one / N), forks, on-error / on-complete routes,
guards that do not fire, tasks activated several times, partial joins re-run by late branches: the
outcome is compared as the workflow state and the SET of rows (name, state, next_tasks).
Class of histories: `Plain` = no stop, no action lost at its executor (C20), executor results = the
oracle's.  NO further restriction: the two exclusions of the first version of these theorems were
genuine defects of the code, both repaired since -
  * the re-opened join that kept `processed = True` (C01, fix acd6a089: `PausedClean` is an invariant),
  * the stale start request: `resume` re-queues `start_task(first_run=False)` for a task that is
    still IDLE; delivered after the task had FAILED, `_run_existing` ran the failed task again
    (repo_patches/20: such a request is now ignored; the former counter-witness is the regression
    `stale_request_regression` below and corpus/C02/stale_restart_after_finish.json).
-/
import Mistral.Lemmas.SemRun
import Mistral.Lemmas.SemWitness
namespace Mistral.Props.C02Sem
open Mistral Mistral.Join Mistral.Engine Mistral.Engine.Live Mistral.Sem Mistral.Sem.Wit

/-! ### histories and outcomes -/

/-- every event is plain: no stop, no action lost at its executor, executor results = the oracle's -/
def Plain (orc : String → Bool) (evs : List Event) : Prop := ∀ e ∈ evs, plainB orc e = true

instance (orc : String → Bool) (evs : List Event) : Decidable (Plain orc evs) := by
  unfold Plain; exact inferInstance

/-- nothing in flight and not waiting for the operator -/
def Quiescent (w : World) : Prop := w.pending = [] ∧ w.wf ≠ .PAUSED

instance (w : World) : Decidable (Quiescent w) := by unfold Quiescent; exact inferInstance

/-- the outcome of a run: the workflow state and the SET of task rows (name, state, next_tasks) -/
def SameOutcome (w1 w2 : World) : Prop :=
  w1.wf = w2.wf ∧ ∀ x : SRow, x ∈ w1.tasks.map rowTriple ↔ x ∈ w2.tasks.map rowTriple

/-- the hypotheses on a definition -/
structure DetClass (sp : Spec) (rk : String → Nat) : Prop where
  ok : SpecOK sp rk
  starts : startTasks sp ≠ []
  known : TargetsKnown sp

theorem adm_of_plain (sp : Spec) (orc : String → Bool) (evs : List Event) :
    ∀ (w : World), (∀ e ∈ evs, plainB orc e = true) → admB sp orc w evs = true := by
  induction evs with
  | nil => intro w _; rfl
  | cons e es ih =>
    intro w hp
    have h1 : admissibleB orc w e = true := hp e List.mem_cons_self
    have h2 := ih (step sp w e) (fun e' he' => hp e' (List.mem_cons_of_mem _ he'))
    simp [admB, h1, h2]

theorem plain_start (orc : String → Bool) (evs : List Event) (hp : Plain orc evs) : Plain orc (.start :: evs) := by
  intro e he
  rcases List.mem_cons.mp he with rfl | he
  · rfl
  · exact hp e he

/-! ### (a) soundness -/

/-- (a) SOUNDNESS, at every moment of every plain history (deliveries in any order, pause / resume
    anywhere): every row of the engine is a task of the semantic set, and every completed row has
    the state and the next_tasks the semantics prescribes.  (Joins of every kind, several
    activations; the liveness work of WP-A is not used.) -/
theorem sound (sp : Spec) (rk : String → Nat) (hsp : SpecOK sp rk) (orc : String → Bool) (evs : List Event)
    (hp : Plain orc evs) :
    ∀ r ∈ (run sp evs).tasks, sem sp orc r.name ≠ none ∧
      (isCompleted r.state = true → sem sp orc r.name = some r.state ∧ r.nextTasks = nextOf sp r.name r.state) := by
  have h := run_sinv sp orc rk (semSpec_of_specOK sp rk hsp) evs (adm_of_plain sp orc evs init hp)
  intro r hr
  exact ⟨(h.rows r hr).1, (h.rows r hr).2.1⟩

/-- … and every action result in flight is the oracle's, for a task that executes its action in
    the semantics (a join that the semantics fails structurally never runs its action) -/
theorem sound_actions (sp : Spec) (rk : String → Nat) (hsp : SpecOK sp rk) (orc : String → Bool) (evs : List Event)
    (hp : Plain orc evs) (t : Tid) (ok : Bool)
    (h : Item.rpcResult t ok ∈ (run sp evs).pending) : sem sp orc t.1 = some (res orc t.1) ∧ ok = orc t.1 :=
  (run_sinv sp orc rk (semSpec_of_specOK sp rk hsp) evs (adm_of_plain sp orc evs init hp)).items _ h

/-! ### (b) completeness at quiescence -/

/-- (b) COMPLETENESS AT QUIESCENCE, every plain history: when nothing is pending and the workflow
    is not PAUSED, the workflow is completed, its state is the semantic verdict and its rows are
    EXACTLY the semantic set (as a set of (name, state, next_tasks)). -/
theorem complete_at_quiescence (sp : Spec) (rk : String → Nat) (hd : DetClass sp rk) (orc : String → Bool)
    (evs : List Event) (hp : Plain orc evs) (hq : Quiescent (run sp (.start :: evs))) :
    (run sp (.start :: evs)).wf = semVerdict sp orc ∧
      ∀ x : SRow, x ∈ (run sp (.start :: evs)).tasks.map rowTriple ↔ x ∈ semRows sp orc := by
  have hq' := run_qinv sp orc rk hd.ok hd.starts evs (adm_of_plain sp orc _ init (plain_start orc evs hp))
  exact (quiescent_complete sp orc rk hd.ok hd.known _ hq' hq.1 hq.2).2

/-- … and the workflow is then in a final state -/
theorem quiescent_is_final (sp : Spec) (rk : String → Nat) (hd : DetClass sp rk) (orc : String → Bool)
    (evs : List Event) (hp : Plain orc evs) (hq : Quiescent (run sp (.start :: evs))) :
    isCompleted (run sp (.start :: evs)).wf = true := by
  have hq' := run_qinv sp orc rk hd.ok hd.starts evs (adm_of_plain sp orc _ init (plain_start orc evs hp))
  exact (quiescent_complete sp orc rk hd.ok hd.known _ hq' hq.1 hq.2).1

/-- number of executions per task at quiescence (towards the multiset reading of the outcome): a
    task outside the semantic set has no execution, a task of the semantic set at least one, and
    a JOIN of the semantic set EXACTLY ONE - in every plain history, for every definition of the
    class (for a task that is not a join the number of executions is that of the routes that fired
    to it, which is a property of the definition: one for single-activation definitions; not proved) -/
theorem executions_per_task (sp : Spec) (rk : String → Nat) (hd : DetClass sp rk) (orc : String → Bool)
    (evs : List Event) (hp : Plain orc evs) (hq : Quiescent (run sp (.start :: evs))) (n : String) :
    (sem sp orc n = none → countL (run sp (.start :: evs)).tasks n = 0) ∧
    (sem sp orc n ≠ none → 1 ≤ countL (run sp (.start :: evs)).tasks n) ∧
    ((isJoin sp n).isSome = true → sem sp orc n ≠ none → countL (run sp (.start :: evs)).tasks n = 1) := by
  have hq' := run_qinv sp orc rk hd.ok hd.starts evs (adm_of_plain sp orc _ init (plain_start orc evs hp))
  exact quiescent_row_counts sp orc rk hd.ok _ hq' hq.1 hq.2 n

/-! ### the multiset reading: number of executions of a task -/

/-- the single-activation class (`singleActGen` in Model/Sem.lean): (A) no task routes twice to the
    same target, (B) a task that is not a join has at most one router, (C) a join has at most as many
    routers as it needs (no partial join with a late branch) -/
def SingleActivation (sp : Spec) (orc : String → Bool) : Prop := singleActWideB sp orc = true

instance (sp : Spec) (orc : String → Bool) : Decidable (SingleActivation sp orc) := by
  unfold SingleActivation; exact inferInstance

/-- … and the STRICT class: moreover (C'') a join has at most one router or all its inbound tasks
    are routers (it can not fail structurally while another router is still to come) -/
def SingleActivationStrict (sp : Spec) (orc : String → Bool) : Prop := singleActB sp orc = true

instance (sp : Spec) (orc : String → Bool) : Decidable (SingleActivationStrict sp orc) := by
  unfold SingleActivationStrict; exact inferInstance

/-- "Each task of a single-activation definition is executed exactly once" is FALSE of the code, also
    for `join: all`: j (join all) has the inbound tasks p1, p2 (route to j) and q (its on-error clause,
    the only route to j, does not fire).  History `eLate`: q and p1 complete, the join FAILS EARLY
    ("not triggered"), its on-error task e runs; then the late branch p2 completes: `Task.defer`
    re-opens the finished join, `_refresh_task_state` fails it again and e runs a SECOND time.
    History `eFifo`: the join fails once, e runs once.  Both are plain and quiescent; workflow state
    and the SET of rows agree (`outcome_schedule_independent`), the number of executions of e does
    not.  Replayed on the real engine (corpus/C02/early_error_join_rerun.json, real = model after
    every event): known finding `failed-join-reopened-by-late-branch`.  In the strict class no
    violation was found (43 M worlds explored); the statement is not proved there. -/
theorem executions_once_full_fails :
    ¬ (∀ (sp : Spec) (rk : String → Nat), DetClass sp rk → ∀ (orc : String → Bool), SingleActivation sp orc →
        ∀ (evs : List Event), Plain orc evs → Quiescent (run sp (.start :: evs)) →
        ∀ n, sem sp orc n ≠ none → countL (run sp (.start :: evs)).tasks n = 1) := by
  intro hall
  have h := hall eSpec eRank ⟨e_ok, e_starts, e_known⟩ eOrc (by decide +kernel) eLate (by decide)
    (by decide +kernel) "e" (by decide +kernel)
  revert h
  decide +kernel

/-- the two histories spelled out: same workflow state, same set of rows, e executed twice / once;
    the definition is in the wide but not in the strict single-activation class -/
example : Quiescent (run eSpec (.start :: eFifo)) ∧ Plain eOrc eFifo ∧
    countL (run eSpec (.start :: eLate)).tasks "e" = 2 ∧ countL (run eSpec (.start :: eFifo)).tasks "e" = 1 ∧
    (run eSpec (.start :: eLate)).wf = (run eSpec (.start :: eFifo)).wf ∧
    SingleActivation eSpec eOrc ∧ ¬ SingleActivationStrict eSpec eOrc := by
  refine ⟨by decide +kernel, by decide, by decide +kernel, by decide +kernel, by decide +kernel,
    by decide +kernel, by decide +kernel⟩

/-! ### (c) schedule independence of the outcome -/

/-- (c) "the final state, task states … are a function of the definition, the input and the action
    results only; reordering concurrent action completions, engine messages and scheduler jobs,
    delaying any of them … never changes them": ANY two plain quiescent histories of the same
    definition under the same action results - deliveries in any order, pause / resume anywhere in
    both - have the same outcome. -/
theorem outcome_schedule_independent (sp : Spec) (rk : String → Nat) (hd : DetClass sp rk)
    (orc : String → Bool) (evs1 evs2 : List Event) (hp1 : Plain orc evs1) (hp2 : Plain orc evs2)
    (hq1 : Quiescent (run sp (.start :: evs1))) (hq2 : Quiescent (run sp (.start :: evs2))) :
    SameOutcome (run sp (.start :: evs1)) (run sp (.start :: evs2)) := by
  obtain ⟨v1, r1⟩ := complete_at_quiescence sp rk hd orc evs1 hp1 hq1
  obtain ⟨v2, r2⟩ := complete_at_quiescence sp rk hd orc evs2 hp2 hq2
  exact ⟨v1.trans v2.symm, fun x => (r1 x).trans (r2 x).symm⟩

/-! ### (d) pause / resume -/

def isOp : Event → Bool
  | .pause => true
  | .resume => true
  | _ => false

/-- a history without operator commands -/
def NoPauseResume (evs : List Event) : Prop := ∀ e ∈ evs, isOp e = false

instance (evs : List Event) : Decidable (NoPauseResume evs) := by unfold NoPauseResume; exact inferInstance

/-- (d) C10: "after resume the run continues and … finishes with the same final state, task results
    and output as if it had never been paused": a quiescent history with pause / resume ANYWHERE
    has the same outcome as ANY quiescent history that was never paused (in any delivery order). -/
theorem pause_resume_same_outcome (sp : Spec) (rk : String → Nat) (hd : DetClass sp rk)
    (orc : String → Bool) (evs1 evs2 : List Event) (hp1 : Plain orc evs1) (hp2 : Plain orc evs2)
    (_hnp2 : NoPauseResume evs2)
    (hq1 : Quiescent (run sp (.start :: evs1))) (hq2 : Quiescent (run sp (.start :: evs2))) :
    SameOutcome (run sp (.start :: evs1)) (run sp (.start :: evs2)) :=
  outcome_schedule_independent sp rk hd orc evs1 evs2 hp1 hp2 hq1 hq2

/-! ### regression: the stale start request -/

theorem s_plain1 : Plain sOrc sPlain := by decide
theorem s_plain2 : Plain sOrc sStale := by decide

/-- The former counter-witness of (c) / (d).  Task t0 fails and has an on-error route to t1.
    History `sStale`: pause / resume while t0 is still IDLE (`resume` queues a second start request,
    `first_run=False`); the original request starts t0, t0 fails, t1 runs, the workflow finishes
    SUCCESS; THEN the second request is delivered.  Before repo_patches/20 `_run_existing` ran the
    failed t0 again inside the finished workflow and rewrote its row (next_tasks = [],
    error_handled = False); now the request is ignored: the history is quiescent after it, and its
    rows are those of the history without operator commands - the semantic ones. -/
theorem stale_request_regression :
    Quiescent (run sSpec (.start :: sStale)) ∧ Quiescent (run sSpec (.start :: sPlain)) ∧
    (run sSpec (.start :: sStale)).wf = .SUCCESS ∧
    (run sSpec (.start :: sStale)).tasks.map rowTriple =
      [("t0", .ERROR, [("t1", "on-error")]), ("t1", .SUCCESS, [])] ∧
    (run sSpec (.start :: sPlain)).tasks.map rowTriple = (run sSpec (.start :: sStale)).tasks.map rowTriple ∧
    ((run sSpec (.start :: sStale)).tasks.map fun r => (r.name, r.errorHandled)) = [("t0", true), ("t1", false)] ∧
    semRows sSpec sOrc = [("t0", .ERROR, [("t1", "on-error")]), ("t1", .SUCCESS, [])] := by
  decide +kernel

/-- the stale request is really delivered in that history (the last event is a stale start
    request in the sense of `staleB`: pending, for a task in state ERROR) -/
example : staleB (run sSpec (.start :: sStale.take 14)) (.deliver (.rpcStartTask ("t0", 0) false)) = true ∧
    sStale.drop 14 = [.deliver (.rpcStartTask ("t0", 0) false)] := ⟨by decide +kernel, rfl⟩

/-- `outcome_schedule_independent` applies to it -/
example : SameOutcome (run sSpec (.start :: sStale)) (run sSpec (.start :: sPlain)) :=
  outcome_schedule_independent sSpec sRank ⟨s_ok, s_starts, s_known⟩ sOrc sStale sPlain s_plain2 s_plain1
    stale_request_regression.1 stale_request_regression.2.1

/-! ### non-vacuity: a fork / join with a failing branch and an on-error route -/

/-- the declarative semantics of the fork / join definition when branch b fails: a, c succeed,
    b is ERROR and routes to its on-error task h, the `join: all` task j is ERROR (b never routes
    to it), k never runs; the unhandled error of j makes the workflow ERROR -/
example : semRows fjSpec fjOrc =
      [("a", .SUCCESS, [("b", "on-success"), ("c", "on-success")]), ("b", .ERROR, [("h", "on-error")]),
       ("c", .SUCCESS, [("j", "on-success")]), ("j", .ERROR, []), ("h", .SUCCESS, [])] ∧
    semVerdict fjSpec fjOrc = .ERROR := by decide +kernel

/-- … and when every action succeeds: the join runs, then k; the workflow is SUCCESS -/
example : semRows fjSpec (fun _ => true) =
      [("a", .SUCCESS, [("b", "on-success"), ("c", "on-success")]), ("b", .SUCCESS, [("j", "on-success")]),
       ("c", .SUCCESS, [("j", "on-success")]), ("j", .SUCCESS, [("k", "on-success")]), ("k", .SUCCESS, [])] ∧
    semVerdict fjSpec (fun _ => true) = .SUCCESS := by decide +kernel

/-- `complete_at_quiescence` / `pause_resume_same_outcome` apply to the history with the pause /
    resume round (both branches complete while PAUSED, the join is created by `resume`) and to the
    first-in first-out history without operator commands: all hypotheses hold … -/
example : DetClass fjSpec fjRank ∧ Plain fjOrc fjPaused ∧ Plain fjOrc fjFifo ∧ NoPauseResume fjFifo ∧
    Quiescent (run fjSpec (.start :: fjPaused)) ∧ Quiescent (run fjSpec (.start :: fjFifo)) :=
  ⟨⟨fj_ok, fj_starts, fj_known⟩, by decide, by decide, by decide, by decide +kernel, by decide +kernel⟩

/-- … and the common outcome is the semantic one (ERROR; five rows) -/
example : (run fjSpec (.start :: fjPaused)).wf = .ERROR ∧
    (run fjSpec (.start :: fjPaused)).tasks.map rowTriple =
      [("a", .SUCCESS, [("b", "on-success"), ("c", "on-success")]), ("b", .ERROR, [("h", "on-error")]),
       ("c", .SUCCESS, [("j", "on-success")]), ("h", .SUCCESS, []), ("j", .ERROR, [])] := by decide +kernel

/-- `sound` applies in the middle of the paused run (after the failing branch completed while
    PAUSED): hypotheses hold, three rows exist, none of the join yet -/
example : Plain fjOrc (.start :: fjPaused.take 16) ∧
    (run fjSpec (.start :: fjPaused.take 16)).wf = .PAUSED ∧
    (run fjSpec (.start :: fjPaused.take 16)).tasks.map rowTriple =
      [("a", .SUCCESS, [("b", "on-success"), ("c", "on-success")]), ("b", .ERROR, [("h", "on-error")]),
       ("c", .SUCCESS, [("j", "on-success")])] := by
  refine ⟨by decide, by decide +kernel, by decide +kernel⟩

end Mistral.Props.C02Sem
