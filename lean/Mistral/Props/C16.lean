/-
C16 — Every REST operation is authorised and guarded before it has any effect.
Property theorems only.  `Gen/Endpoints`, `Gen/Policies`, `Gen/RestTables` are regenerated from
the repository on every run (Tie A); `Model/Rest` is tied to the controllers by the `rest` and
`guards` correspondence streams (Tie B).
-/
import Mistral.Model.Rest
import Mistral.Gen.Endpoints
import Mistral.Gen.Policies
import Mistral.Gen.RestTables
import Mistral.Lemmas.Rest

namespace Mistral.Props.C16
open Mistral.Rest Mistral.Gen.Endpoints Mistral.Gen.RestTables Mistral.Lemmas.Rest

/-! ### the explicit lists the statements are relative to -/

/-- Methods that are deliberately not subject to a policy rule: API roots, `/info`,
    `/maintenance`, the definition validators (parse only) and pecan's `_lookup` router. -/
def unauthenticated : List (String × String) :=
  [("RootController", "index"), ("Controller", "index"), ("InfoController", "get"),
   ("MaintenanceController", "get"), ("MaintenanceController", "put"),
   ("SpecValidationController", "post"), ("WorkflowsController", "_lookup")]

def isUnauth (e : Endpoint) : Bool := unauthenticated.contains (e.cls, e.method)

/-- Decorators that run before the method body and cannot touch the database:
    the exception mappers, the expose decorators, and `auth_enable_check` (reads the config). -/
def harmlessDecorators : List String :=
  ["rest_utils.wrap_wsme_controller_exception", "rest_utils.wrap_pecan_controller_exception",
   "wsme_pecan.wsexpose", "pecan.expose", "auth_enable_check"]

/-- Calls that may precede a *conditional* enforce: logging, reading the request, argument
    normalisation / validation of the request alone.  None of them reads or writes the
    database. -/
def harmlessCalls : List String :=
  ["LOG.debug", "LOG.info", "pecan.request.GET.get", "resources.Action.validate_scope",
   "resources.Workflow.validate_scope", "cron_trigger.to_dict", "event_trigger.to_dict",
   "values.get", "cut", "wsme_pecan.pecan.request.body.decode", "json.loads", "definition.pop",
   "self._validate_environment", "exceptions.InputException", "exc.EventTriggerException", "set",
   "db_models.WorkflowExecution.check_allowed_none_values"]

def harmless (n : String) : Bool := harmlessCalls.contains n

/-- The documented rule family of each controller class (sub-resource controllers use the
    family of the resource they list). -/
def ruleFamily : List (String × String) :=
  [("ActionExecutionsController", "action_executions"), ("TasksActionExecutionController", "action_executions"),
   ("ActionsController", "actions"), ("CodeSourcesController", "code_sources"),
   ("CronTriggersController", "cron_triggers"), ("DynamicActionsController", "dynamic_actions"),
   ("EnvironmentController", "environments"), ("EventTriggersController", "event_triggers"),
   ("ExecutionsController", "executions"), ("SubExecutionsController", "executions"),
   ("ExecutionReportController", "executions"), ("TaskExecutionsController", "executions"),
   ("ExecutionTasksController", "tasks"), ("TasksController", "tasks"),
   ("WorkbooksController", "workbooks"), ("WorkflowsController", "workflows"),
   ("MembersController", "members")]

def actionOf : String → Option String
  | "get" => some "get" | "get_all" => some "list" | "post" => some "create"
  | "put" => some "update" | "delete" => some "delete" | _ => none

def documentedRule (e : Endpoint) : Option String :=
  match (ruleFamily.find? (fun p => p.1 == e.cls)), actionOf e.method with
  | some p, some a => some (p.2 ++ ":" ++ a)
  | _, _ => none

def familyOf (e : Endpoint) : String :=
  match ruleFamily.find? (fun p => p.1 == e.cls) with
  | some p => p.2
  | none => ""

/-! ### "Each REST operation checks its documented policy rule before reading or changing
anything" -/

/-- The first statement of the method is an unconditional `acl.enforce`, nothing is evaluated
    before it, and the decorators in front of the body are harmless. -/
def firstIsEnforce (e : Endpoint) : Bool :=
  (match e.enforces with
   | [] => false
   | x :: _ => x.guard == .always && x.before.isEmpty) &&
  e.decorators.all harmlessDecorators.contains

theorem first_statement_is_enforce :
    ∀ e ∈ endpoints, isUnauth e = false → firstIsEnforce e = true := by
  decide +kernel

/-- ... and that first enforce names the documented rule of the operation. -/
theorem first_enforce_is_documented_rule :
    ∀ e ∈ endpoints, isUnauth e = false →
      (e.enforces.head?.map (·.rule)) = documentedRule e ∧ documentedRule e ≠ none := by
  decide +kernel

/-- Every enforced rule is registered in the policy registry. -/
theorem enforced_rules_registered :
    ∀ e ∈ endpoints, ∀ x ∈ e.enforces, (Mistral.Gen.Policies.lookup x.rule).isSome = true := by
  decide +kernel

/-- The allow-list is not a loophole for methods that *do* have a rule: an unauthenticated
    method has no enforce at all. -/
theorem unauthenticated_have_no_rule :
    ∀ e ∈ endpoints, isUnauth e = true → e.enforces = [] := by
  decide +kernel

/-- Between the first enforce and every later (conditional) enforce only harmless calls are
    evaluated, and every guard is one the model understands. -/
def onlyHarmlessBefore (e : Endpoint) : Bool :=
  e.enforces.all (fun x => x.before.all harmless &&
    (match x.guard with | .other _ => false | _ => true))

theorem only_harmless_before_enforces :
    ∀ e ∈ endpoints, onlyHarmlessBefore e = true := by
  decide +kernel

example : ∃ e ∈ endpoints, ∃ x ∈ e.enforces, x.before ≠ [] ∧ x.guard = .scopePublic := by
  decide +kernel

/-- "so a caller denied by policy gets 403 and the database is unchanged": for every
    generated method that is not on the allow-list, every database, every behaviour of the
    non-harmless calls and of the body, every policy and every request: if some enforce of
    the method applies to the request and its rule is denied, the answer is 403 and the
    database is exactly the one before the request. -/
theorem denied_no_effect {α : Type} :
    ∀ e ∈ endpoints, isUnauth e = false →
    ∀ (eff : String → α → α) (body : α → Nat × α) (allowed : String → Bool) (r : Req) (db : α),
      (∃ x ∈ e.enforces, guardHolds x.guard r = true ∧ allowed x.rule = false) →
      run harmless eff body allowed r (program e) db = (403, db) := by
  intro e he _ eff body allowed r db hx
  have hh : onlyHarmlessBefore e = true := only_harmless_before_enforces e he
  exact run_denied harmless eff body allowed r e.enforces db
    (by
      intro x hxm
      have := List.all_eq_true.mp hh x hxm
      simp only [Bool.and_eq_true] at this
      exact this.1)
    hx

/-- The same at the level of `handle` (the decision the correspondence stream compares with
    the WSGI application): a denied applicable rule ⇒ 403, unchanged database, body not run. -/
theorem handle_denied {α : Type} (e : Endpoint) (allowed : String → Bool) (r : Req)
    (body : α → Nat × α) (db : α)
    (h : ∃ x ∈ e.enforces, guardHolds x.guard r = true ∧ allowed x.rule = false) :
    handle e allowed r body db = (403, db) := by
  unfold handle
  have : (firstDenied allowed r e.enforces).isSome = true := firstDenied_isSome allowed r e.enforces h
  cases hfd : firstDenied allowed r e.enforces with
  | none => simp [hfd] at this
  | some _ => rfl

/-- Conversely, when every applicable rule is allowed the body runs on the untouched database
    (harmless calls only before it). -/
theorem allowed_runs_body {α : Type} :
    ∀ e ∈ endpoints, ∀ (eff : String → α → α) (body : α → Nat × α) (allowed : String → Bool)
      (r : Req) (db : α),
      (∀ x ∈ e.enforces, guardHolds x.guard r = true → allowed x.rule = true) →
      run harmless eff body allowed r (program e) db = body db := by
  intro e he eff body allowed r db hall
  have hh : onlyHarmlessBefore e = true := only_harmless_before_enforces e he
  exact run_allowed harmless eff body allowed r e.enforces db
    (by
      intro x hxm
      have := List.all_eq_true.mp hh x hxm
      simp only [Bool.and_eq_true] at this
      exact this.1)
    hall

-- non-vacuity: DELETE /v2/workflows with `workflows:delete` denied
example : ∃ e ∈ endpoints, isUnauth e = false ∧ e.cls = "WorkflowsController" ∧ e.method = "delete" ∧
    ∃ x ∈ e.enforces, guardHolds x.guard ⟨false, false, false⟩ = true ∧
      (fun rule => rule != "workflows:delete") x.rule = false := by
  decide +kernel

/-! ### "listing across projects additionally requires the admin-only rule" -/

def isAllProjectsGuard : Guard → Bool
  | .allProjects => true | .allProjectsOrProjectId => true | _ => false

/-- A method that accepts `all_projects` enforces `<family>:list:all_projects` under the guard
    `if all_projects` before the name is used for anything else. -/
def allProjectsGuarded (e : Endpoint) : Bool :=
  e.enforces.any (fun x => isAllProjectsGuard x.guard && x.rule == familyOf e ++ ":list:all_projects") &&
  e.allProjectsUsedBeforeGuard.isEmpty

/-- The methods that accept `all_projects` but have no such rule (candidate defect D, confirmed
    through the WSGI application: see known_findings.d/C16.json). -/
def allProjectsUnguarded : List (String × String) :=
  [("CodeSourcesController", "get_all"), ("DynamicActionsController", "get_all")]

/-- Full-strength statement is FALSE of the current code. -/
theorem all_projects_guarded_full_fails :
    ¬ (∀ e ∈ endpoints, e.acceptsAllProjects = true → allProjectsGuarded e = true) := by
  decide +kernel

theorem all_projects_guarded_partial :
    ∀ e ∈ endpoints, e.acceptsAllProjects = true →
      allProjectsUnguarded.contains (e.cls, e.method) = false → allProjectsGuarded e = true := by
  decide +kernel

/-- The exclusion list is exact: every excluded method really lacks the rule. -/
theorem all_projects_unguarded_exact :
    ∀ e ∈ endpoints, allProjectsUnguarded.contains (e.cls, e.method) = true →
      e.acceptsAllProjects = true ∧ allProjectsGuarded e = false := by
  decide +kernel

/-- The cross-project listing rules (and only they carry that guard) are admin-only:
    their check string is `rule:admin_only`, which is `is_admin:True`. -/
theorem admin_only_rules :
    (∀ e ∈ endpoints, ∀ x ∈ e.enforces, isAllProjectsGuard x.guard = true →
        Mistral.Gen.Policies.lookup x.rule = some "rule:admin_only") ∧
    Mistral.Gen.Policies.lookup "admin_only" = some "is_admin:True" := by
  decide +kernel

example : ∃ e ∈ endpoints, ∃ x ∈ e.enforces, isAllProjectsGuard x.guard = true := by
  decide +kernel

/-- With the default registry a non-admin caller asking for all projects is refused: the
    decision of `handle` under "everything allowed except admin-only rules". -/
theorem all_projects_denied_for_non_admin {α : Type} :
    ∀ e ∈ endpoints, e.acceptsAllProjects = true →
      allProjectsUnguarded.contains (e.cls, e.method) = false →
      ∀ (body : α → Nat × α) (db : α),
        handle e (fun rule => Mistral.Gen.Policies.lookup rule != some "rule:admin_only")
          ⟨true, false, false⟩ body db = (403, db) := by
  intro e he ha hn body db
  apply handle_denied
  revert e
  decide +kernel

/-! ### "making a resource public requires the publicize rule" -/

/-- A POST/PUT method whose input carries a `scope` enforces `<family>:publicize` under the
    guard `scope == 'public'`. -/
def publicizeGuarded (e : Endpoint) : Bool :=
  e.enforces.any (fun x => x.guard == .scopePublic && x.rule == familyOf e ++ ":publicize")

theorem publicize_guarded :
    ∀ e ∈ endpoints, e.acceptsScope = true → publicizeGuarded e = true := by
  decide +kernel

example : (endpoints.filter (·.acceptsScope)).length ≥ 10 := by decide +kernel

theorem scope_methods_have_a_rule :
    ∀ e ∈ endpoints, e.acceptsScope = true → isUnauth e = false := by
  decide +kernel

/-- Hence a request with `scope=public` from a caller denied the publicize rule is answered
    403 with the database unchanged (instance of `denied_no_effect`). -/
theorem publicize_denied_no_effect {α : Type} :
    ∀ e ∈ endpoints, e.acceptsScope = true →
    ∀ (eff : String → α → α) (body : α → Nat × α) (allowed : String → Bool) (db : α),
      allowed (familyOf e ++ ":publicize") = false →
      run harmless eff body allowed ⟨false, false, true⟩ (program e) db = (403, db) := by
  intro e he hs eff body allowed db hden
  have hu : isUnauth e = false := scope_methods_have_a_rule e he hs
  apply denied_no_effect e he hu
  have hp := publicize_guarded e he hs
  unfold publicizeGuarded at hp
  obtain ⟨x, hx, hxp⟩ := List.any_eq_true.mp hp
  simp only [Bool.and_eq_true, beq_iff_eq] at hxp
  refine ⟨x, hx, ?_, ?_⟩
  · rw [hxp.1]; rfl
  · rw [hxp.2]; exact hden

/-! ### state-changing requests are limited to the documented moves -/

/-- `states.is_completed` as regenerated: the "final" states (SKIPPED is final for tasks; the
    engine's `Workflow.stop` ignores it, checked by the `guards` stream). -/
theorem completed_states_pinned :
    completedStates = ["SUCCESS", "ERROR", "CANCELLED", "SKIPPED"] ∧ pausedStates = ["PAUSED"] ∧
    RUNNING = "RUNNING" := by
  decide

/-- "executions to PAUSED, RUNNING or a final state": an accepted PUT that carries a state
    carries one of these, and the engine is asked for exactly the corresponding move; a PUT
    without a state never reaches the engine. -/
theorem exec_put_only_documented_moves (ex : Bool) (cur state : String) (desc env : Bool)
    (ok : ExecPutOk) (h : execPut ex cur state desc env = .ok ok) :
    (state ≠ "" → (state ∈ pausedStates ∨ state = RUNNING ∨ state ∈ completedStates) ∧
        (ok.engine = some .pause ∨ ok.engine = some (.resume env) ∨ ok.engine = some (.stop state)) ∧
        ok.setDescription = false ∧ ok.updateEnv = false) ∧
    (state = "" → ok.engine = none) ∧
    (ok.engine = some .pause → state ∈ pausedStates) ∧
    (∀ b, ok.engine = some (.resume b) → state = RUNNING) ∧
    (∀ s, ok.engine = some (.stop s) → s = state ∧ state ∈ completedStates) :=
  execPut_ok_spec ex cur state desc env ok h

example : execPut true "RUNNING" "PAUSED" false false =
    .ok { setDescription := false, updateEnv := false, engine := some .pause } := by decide
example : execPut true "PAUSED" "RUNNING" false true =
    .ok { setDescription := false, updateEnv := false, engine := some (.resume true) } := by decide
example : execPut true "RUNNING" "IDLE" false false = .error .badState := by decide

/-- "description not changed together with state": such a request is refused (and, being an
    error, has no effect); an accepted request that sets the description does not touch the
    state. -/
theorem description_not_with_state (cur state : String) (env : Bool) :
    (state ≠ "" → execPut true cur state true env = .error .descWithState) ∧
    (∀ ex desc ok, execPut ex cur state desc env = .ok ok → ok.setDescription = true →
        state = "" ∧ ok.engine = none) :=
  ⟨execPut_desc_with_state cur state env, execPut_desc_ok cur state env⟩

example : execPut true "RUNNING" "" true false =
    .ok { setDescription := true, updateEnv := false, engine := none } := by decide

/-- The environment is only updated on a request without state and only in the states the
    service allows; with a state it is only passed along a resume. -/
theorem env_only_with_running (ex : Bool) (cur state : String) (desc : Bool) (ok : ExecPutOk)
    (h : execPut ex cur state desc true = .ok ok) :
    (state = "" ∧ ok.updateEnv = true ∧ cur ∈ envUpdatableStates) ∨
    (state = RUNNING ∧ ok.engine = some (.resume true) ∧ ok.updateEnv = false) :=
  execPut_env_spec ex cur state desc ok h

/-- "tasks only from ERROR to RUNNING or SKIPPED": every accepted task PUT has the stored
    task in ERROR and asks for RUNNING (rerun; `reset` given, and true unless with-items) or
    SKIPPED. -/
theorem task_put_only_from_error (ex nameOk wfOk : Bool) (cur req : String) (reset : Option Bool)
    (wi env : Bool) (r : Rerun) (h : taskPut ex nameOk wfOk cur req reset wi env = .ok r) :
    cur = ERROR ∧ (req = RUNNING ∨ req = SKIPPED) ∧ r.skip = (req == SKIPPED) ∧
    (req = RUNNING → reset ≠ none ∧ (wi = false → reset = some true)) ∧ ex = true :=
  taskPut_ok_spec ex nameOk wfOk cur req reset wi env r h

example : taskPut true true true "ERROR" "RUNNING" (some true) false false =
    .ok { reset := true, skip := false, withEnv := false } := by decide
example : taskPut true true true "ERROR" "SKIPPED" none false false =
    .ok { reset := false, skip := true, withEnv := false } := by decide
example : taskPut true true true "SUCCESS" "RUNNING" (some true) false false = .error .notInError := by
  decide

/-- "action executions only to supported states": an action PUT that reaches the engine asks
    for SUCCESS, ERROR, CANCELLED, PAUSED or RUNNING, with exactly one engine call of the
    matching kind; it never crashes on the regenerated tables. -/
theorem action_put_supported_states (state : String) (out : Bool) :
    (∀ cs, actionPut state out = .calls cs →
        state ∈ ["SUCCESS", "ERROR", "CANCELLED", "PAUSED", "RUNNING"] ∧
        (cs = [.completeData] ∧ state = "SUCCESS" ∨ cs = [.completeError (!out)] ∧ state = "ERROR" ∨
         cs = [.completeCancel] ∧ state = "CANCELLED" ∨ cs = [.update state] ∧ (state = "PAUSED" ∨ state = "RUNNING"))) ∧
    actionPut state out ≠ .crash :=
  actionPut_spec state out

example : actionPut "ERROR" false = .calls [.completeError true] := by decide
example : actionPut "IDLE" true = .unsupported := by decide

/-- "unfinished executions not deletable without force" (and for action executions: only
    completed ad-hoc ones, and only when deletion is enabled). -/
theorem unfinished_not_deletable_without_force (ex : Bool) (cur : String) :
    (execDelete ex cur false = .deleted → cur ∈ completedStates ∧ ex = true) ∧
    (∀ allowed hasTask, actionDelete allowed ex hasTask cur = .deleted →
        cur ∈ completedStates ∧ hasTask = false ∧ allowed = true ∧ ex = true) :=
  ⟨execDelete_spec ex cur, actionDelete_spec ex cur⟩

example : execDelete true "RUNNING" false = .notAllowed := by decide
example : execDelete true "RUNNING" true = .deleted := by decide
example : execDelete true "SUCCESS" false = .deleted := by decide

end Mistral.Props.C16
