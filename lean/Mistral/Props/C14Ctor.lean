/- C14, constructor level.  Property: "validation either accepts it or rejects it with a definition error
   (HTTP 400 class); it never fails with an internal error".

   Model/SchemaCtor.lean writes what `__init__` + `validate_schema` + `validate_semantics` of the
   specification classes do, with every projection (`data['k']`, `.get` on a non-dict, `len`, `for … in`,
   item assignment, `[0]` of an empty list, a regular expression on a non-string) able to get `stuck`
   (an exception that is not a definition error).  `*_total`: for EVERY value and every oracle (regular
   expressions, expression grammars) the modelled constructor returns a specification or a definition
   error, never `stuck` — because the schema check it starts with (the regenerated schema) guarantees,
   through the `*_accept_shape` theorems of Props/C14Schema.lean, exactly the facts each projection needs.
   Real-code counterpart: stream `ctor` (harness/ctor_stream.py). -/
import Mistral.Lemmas.SchemaCtor
import Mistral.Props.C14Schema
open Mistral.Schema Mistral.Gen.LangSchemas Mistral.SchemaCtor Mistral.Props.C14Schema
namespace Mistral.Props.C14Ctor

/-! ## RetrySpec -/

theorem retryBody_fine (O : Oracle) {kvs : List (Key × JVal)} (hd : ∃ d, lookup "delay" kvs = some d) :
    (retryBody O kvs).fine = true := by
  obtain ⟨d, hd⟩ := hd
  unfold retryBody
  refine fine_bind (checkExpr_fine ..) (fun _ _ => ?_)
  refine fine_bind (checkExpr_fine ..) (fun _ _ => ?_)
  refine fine_bind (checkExpr_fine ..) (fun _ _ => ?_)
  refine fine_bind (checkExpr_fine ..) (fun _ _ => ?_)
  rw [getItem_fine hd]
  rfl

theorem retry_after_schema (O : Oracle) {data : JVal} (h : accepts RetrySpec data = true)
    (hns : ∀ s, data ≠ .str s) : ((asDict "get" data).bind (retryBody O)).fine = true := by
  rcases frag_RetrySpec h with ⟨kvs, rfl, _, ⟨d, hd, _⟩, _⟩ | ⟨s, rfl, _⟩
  · exact retryBody_fine O ⟨d, hd⟩
  · exact absurd rfl (hns s)

theorem ctorRetry_nonstr (O : Oracle) {j : JVal} (hns : ∀ s, j ≠ .str s) :
    ctorRetry O j = if accepts RetrySpec j = true then (asDict "get" j).bind (retryBody O) else .defErr "schema" := by
  unfold ctorRetry
  cases j <;> first | rfl | exact absurd rfl (hns _)

/-- RetrySpec: `data['delay']` (the only unguarded projection) is justified by `required: [delay, count]`;
    the one-line string form is a dict after `_transform_retry_one_line`. -/
theorem ctorRetry_total (O : Oracle) (j : JVal) : (ctorRetry O j).fine = true := by
  by_cases hs : ∃ s, j = .str s
  · obtain ⟨s, rfl⟩ := hs
    unfold ctorRetry
    simp only []
    cases hp : parseCmd O (.str s) with
    | ok r =>
      show (if accepts RetrySpec (.obj r.2) = true then _ else _ : Res JVal).fine = true
      split
      · rename_i hacc
        exact retry_after_schema O hacc (fun s' h => by cases h)
      · rfl
    | defErr w => rfl
    | stuck w => have := parseCmd_str_fine O s; rw [hp] at this; cases this
  · have hns : ∀ s, j ≠ .str s := fun s h => hs ⟨s, h⟩
    rw [ctorRetry_nonstr O hns]
    split
    · rename_i hacc
      exact retry_after_schema O hacc hns
    · rfl

/-! ## PoliciesSpec, PublishSpec -/

theorem policiesBody_fine (O : Oracle) (kvs : List (Key × JVal)) : (policiesBody O kvs).fine = true := by
  unfold policiesBody
  refine fine_bind (checkExpr_fine ..) (fun _ _ => ?_)
  refine fine_bind (checkExpr_fine ..) (fun _ _ => ?_)
  refine fine_bind (checkExpr_fine ..) (fun _ _ => ?_)
  refine fine_bind (checkExpr_fine ..) (fun _ _ => ?_)
  refine fine_bind (checkExpr_fine ..) (fun _ _ => ?_)
  refine fine_bind (checkExpr_fine ..) (fun _ _ => ?_)
  exact fine_bind (specProperty_fine (ctorRetry_total O)) (fun _ _ => rfl)

/-- PoliciesSpec: every `data.get(…)` needs a dict (`type: object`). -/
theorem ctorPolicies_total (O : Oracle) (j : JVal) : (ctorPolicies O j).fine = true := by
  unfold ctorPolicies
  split
  · rename_i hacc
    obtain ⟨kvs, rfl, _⟩ := policies_accept_shape hacc
    exact policiesBody_fine O kvs
  · rfl

/-- PublishSpec: `self._data.get(…)` needs a dict (`type: object`). -/
theorem ctorPublish_total (O : Oracle) (j : JVal) : (ctorPublish O j).fine = true := by
  unfold ctorPublish
  split
  · rename_i hacc
    obtain ⟨kvs, rfl, _⟩ := publish_accept_shape hacc
    show (publishBody O kvs).fine = true
    unfold publishBody
    refine fine_bind (guardDef_fine ..) (fun _ _ => ?_)
    refine fine_bind (checkExpr_fine ..) (fun _ _ => ?_)
    refine fine_bind (checkExpr_fine ..) (fun _ _ => ?_)
    exact fine_bind (checkExpr_fine ..) (fun _ _ => rfl)
  · rfl

/-! ## OnClauseSpec -/

theorem asTuple_entry {x : JVal} (h : IsStr x ∨ OneKeyDict x) : ∃ t, asTuple x = .ok t ∧ IsStr t.1 := by
  rcases h with ⟨s, rfl⟩ | ⟨k, c, rfl⟩
  · exact ⟨(.str s, .str ""), rfl, s, rfl⟩
  · exact ⟨(.str k, c), rfl, k, rfl⟩

theorem mapRes_asTuple {xs : List JVal} (h : ∀ x ∈ xs, IsStr x ∨ OneKeyDict x) :
    ∃ ts, mapRes asTuple xs = .ok ts ∧ ∀ t ∈ ts, IsStr t.1 := by
  induction xs with
  | nil => exact ⟨[], rfl, fun t ht => by cases ht⟩
  | cons x xs ih =>
    obtain ⟨t, ht, hst⟩ := asTuple_entry (h x (List.mem_cons_self ..))
    obtain ⟨ts, hts, hall⟩ := ih (fun x' hx' => h x' (List.mem_cons_of_mem _ hx'))
    refine ⟨t :: ts, by simp [mapRes, ht, hts, Res.bind], ?_⟩
    intro t' ht'
    rcases List.mem_cons.mp ht' with rfl | hm
    · exact hst
    · exact hall t' hm

theorem asListOfTuples_ok {v : JVal} (h : v = .null ∨ NextShape v) :
    ∃ ts, asListOfTuples v = .ok ts ∧ ∀ t ∈ ts, IsStr t.1 := by
  unfold asListOfTuples
  by_cases ht : truthy v = true
  · simp only [ht, if_true]
    rcases h with rfl | ⟨s, rfl⟩ | ⟨k, c, rfl⟩ | ⟨xs, rfl, _, hall⟩
    · simp [truthy] at ht
    · exact ⟨[(.str s, .str "")], rfl, fun t ht' => by simp at ht'; subst ht'; exact ⟨s, rfl⟩⟩
    · exact ⟨[(.str k, c)], rfl, fun t ht' => by simp at ht'; subst ht'; exact ⟨k, rfl⟩⟩
    · exact mapRes_asTuple hall
  · simp only [ht]
    exact ⟨[], rfl, fun t ht' => by cases ht'⟩

/-- `prepare_next_clause`: `_as_tuple` never meets an empty dict and `_parse_cmd_and_input` always gets a
    string, for the three forms of a `next` clause (and for an absent one). -/
theorem prepareNext_fine (O : Oracle) {v : JVal} (h : v = .null ∨ NextShape v) : (prepareNext O v).fine = true := by
  obtain ⟨ts, hts, hall⟩ := asListOfTuples_ok h
  unfold prepareNext
  rw [hts]
  show (mapRes _ ts).fine = true
  apply mapRes_fine
  intro t ht
  exact fine_bind (parseCmd_fine_of (hall t ht)) (fun _ _ => rfl)

/-- the value of `next` in an accepted on-clause dict is of one of the three forms — also when the dict
    was accepted as the guarded single task `{next: <% … %>}` (TASK_WITH_EXPRESSION). -/
theorem on_clause_next_shape {kvs : List (Key × JVal)} (h : accepts OnClauseSpec (.obj kvs) = true)
    {n : JVal} (hn : lookup "next" kvs = some n) : NextShape n := by
  unfold OnClauseSpec at h
  open_schema h
  obtain ⟨ho, _, _⟩ := h
  simp only [validateKw] at ho
  obtain ⟨s, hs, ha⟩ := oneOf_some ho
  simp only [List.mem_cons, List.mem_nil_iff, or_false] at hs
  rcases hs with rfl | rfl | rfl | rfl
  · obtain ⟨s, hs⟩ := frag_NEXT_TASK ha
    cases hs
  · unfold TASK_WITH_EXPRESSION at ha
    open_schema ha
    obtain ⟨_, _, _, hp, _⟩ := ha
    have := patternProperties_sub hp (r := re_nonSpace) (s := EXPRESSION) (List.mem_cons_self ..) (lookup_mem hn) (by decide)
    exact .inl (frag_EXPRESSION this)
  · obtain ⟨xs, hx, _⟩ := frag_LIST_OF_TASKS ha
    cases hx
  · obtain ⟨kvs', he, _, _, hnext, _⟩ := frag_ADVANCED_PUBLISHING_DICT ha
    cases he
    exact hnext n hn

theorem advanced_of_clause {kvs : List (Key × JVal)} (hne : kvs ≠ []) (hk : KeysIn ["publish", "next"] kvs) :
    isAdvanced (.obj kvs) = true := by
  cases kvs with
  | nil => exact absurd rfl hne
  | cons kv rest =>
    obtain ⟨name, hn, hmem⟩ := hk kv (List.mem_cons_self ..)
    obtain ⟨k, v⟩ := kv
    simp only at hn
    subst hn
    simp only [List.mem_cons, List.mem_nil_iff, or_false] at hmem
    rcases hmem with rfl | rfl <;> simp [isAdvanced, hasKey, lookup, lookupKey]

/-- OnClauseSpec: the case split of `__init__` (`isinstance(data, dict) and ('next' in data or 'publish'
    in data)`), `_as_list_of_tuples`, `_as_tuple` (`list(val.items())[0]`), `_parse_cmd_and_input(task[0])`
    are all justified by the forms the schema accepts. -/
theorem ctorOnClause_total (O : Oracle) (j : JVal) : (ctorOnClause O j).fine = true := by
  unfold ctorOnClause
  split
  · rename_i hacc
    split
    · rename_i hadv
      cases j with
      | obj kvs =>
        show (Res.bind (specProperty kvs "publish" (ctorPublish O)) _).fine = true
        refine fine_bind (specProperty_fine (ctorPublish_total O)) (fun _ _ => ?_)
        refine fine_bind (prepareNext_fine O ?_) (fun _ _ => rfl)
        cases hl : lookup "next" kvs with
        | none => exact .inl (getD_none hl)
        | some n => rw [getD_some hl]; exact .inr (on_clause_next_shape hacc hl)
      | _ => simp [isAdvanced] at hadv
    · rename_i hadv
      refine fine_bind (prepareNext_fine O ?_) (fun _ _ => rfl)
      rcases frag_OnClauseSpec hacc with h | h | h | ⟨kvs, rfl, hne, hk, _⟩
      · exact .inr (.inl h)
      · exact .inr (.inr (.inl h))
      · exact .inr (.inr (.inr h))
      · exact absurd (advanced_of_clause hne hk) hadv
  · rfl

theorem onClauses_fine (O : Oracle) (kvs : List (Key × JVal)) : (onClauses O kvs).fine = true := by
  unfold onClauses
  refine fine_bind (mapRes_fine (fun c _ => ?_)) (fun _ _ => ?_)
  · exact fine_bind (specProperty_fine (ctorOnClause_total O)) (fun _ _ => rfl)
  · exact fine_bind (guardDef_fine ..) (fun _ _ => rfl)

/-! ## TaskDefaultsSpec -/

/-- TaskDefaultsSpec: needs a dict; its policies group and on-clauses go through the constructors above. -/
theorem ctorTaskDefaults_total (O : Oracle) (j : JVal) : (ctorTaskDefaults O j).fine = true := by
  unfold ctorTaskDefaults
  split
  · rename_i hacc
    obtain ⟨kvs, rfl, _⟩ := task_defaults_accept_shape hacc
    show (taskDefaultsBody O kvs).fine = true
    unfold taskDefaultsBody
    refine fine_bind (checkExpr_fine ..) (fun _ _ => ?_)
    refine fine_bind (ctorPolicies_total O _) (fun _ _ => ?_)
    exact fine_bind (onClauses_fine O kvs) (fun _ _ => rfl)
  · rfl

/-! ## tasks -/

theorem truthy_getD {kvs : List (Key × JVal)} {k : String} (h : truthy (getD kvs k .null) = true) :
    ∃ v, lookup k kvs = some v ∧ getD kvs k .null = v := by
  cases hl : lookup k kvs with
  | none => rw [getD_none hl] at h; cases h
  | some v => exact ⟨v, rfl, getD_some hl⟩

theorem withItemsOf_fine (O : Oracle) {kvs : List (Key × JVal)}
    (h : ∀ v, lookup "with-items" kvs = some v → NonEmptyStr v ∨ NonEmptyStrList v) :
    (withItemsOf O kvs).fine = true := by
  unfold withItemsOf
  have hmap : ∀ xs : List JVal, (mapRes (fun item => match item with
      | .str s => match O.withItems s with
        | some r => Res.ok (Key.s r.1, r.2)
        | none => Res.defErr "Wrong format of 'with-items'"
      | _ => Res.defErr "'with-items' elements should be strings") xs).fine = true := by
    intro xs
    apply mapRes_fine
    intro x _
    cases x with
    | str s => simp only []; cases O.withItems s <;> rfl
    | _ => rfl
  cases hl : lookup "with-items" kvs with
  | none => rw [getD_none hl]; exact hmap []
  | some v =>
    rw [getD_some hl]
    rcases h v hl with ⟨s, rfl, _⟩ | ⟨xs, rfl, _⟩
    · exact hmap [.str s]
    · exact hmap xs

theorem processAW_fine (O : Oracle) {kvs : List (Key × JVal)}
    (h : ∀ k ∈ ["action", "workflow"], ∀ v, lookup k kvs = some v → IsStr v) : (processAW O kvs).fine = true := by
  unfold processAW
  simp only []
  refine fine_bind ?_ (fun awp _ => ?_)
  · split
    · rename_i ht
      obtain ⟨v, hv, he⟩ := truthy_getD ht
      rw [he]
      exact fine_bind (parseCmd_fine_of (h "action" (by simp) v hv)) (fun _ _ => rfl)
    · split
      · rename_i ht
        obtain ⟨v, hv, he⟩ := truthy_getD ht
        rw [he]
        exact fine_bind (parseCmd_fine_of (h "workflow" (by simp) v hv)) (fun _ _ => rfl)
      · rfl
  · split
    · rfl
    · split <;> rfl

theorem taskBody_fine (O : Oracle) (direct : Bool) {kvs : List (Key × JVal)} (sh : TaskShape kvs) :
    (taskBody O direct kvs).fine = true := by
  obtain ⟨n, hn, s, rfl, _⟩ := sh.name
  have hstr : ∀ k ∈ ["action", "workflow"], ∀ v, lookup k kvs = some v → IsStr v := by
    intro k hk v hv
    have hk' : k ∈ ["action", "workflow", "target", "description"] := by
      simp only [List.mem_cons, List.mem_nil_iff, or_false] at hk ⊢
      rcases hk with rfl | rfl <;> simp
    obtain ⟨s', hs', _⟩ := sh.strs k hk' v hv
    exact ⟨s', hs'⟩
  unfold taskBody
  rw [getD_some hn]
  refine fine_bind (r := pyLen (.str s)) rfl (fun _ _ => ?_)
  refine fine_bind (guardDef_fine ..) (fun _ _ => ?_)
  simp only []
  refine fine_bind ?_ (fun _ _ => ?_)
  · split
    · rename_i hor
      split
      · rename_i ht
        obtain ⟨v, hv, he⟩ := truthy_getD ht
        rw [he]
        exact fine_bind (parseCmd_fine_of (hstr "action" (by simp) v hv)) (fun _ _ => checkExpr_fine ..)
      · rename_i ht
        have hw : truthy (getD kvs "workflow" .null) = true := by
          simp only [Bool.or_eq_true] at hor
          rcases hor with h | h
          · exact absurd h ht
          · exact h
        obtain ⟨v, hv, he⟩ := truthy_getD hw
        rw [he]
        exact fine_bind (parseCmd_fine_of (hstr "workflow" (by simp) v hv)) (fun _ _ => checkExpr_fine ..)
    · rfl
  refine fine_bind (checkExpr_fine ..) (fun _ _ => ?_)
  refine fine_bind (checkExpr_fine ..) (fun _ _ => ?_)
  refine fine_bind (checkExpr_fine ..) (fun _ _ => ?_)
  refine fine_bind (checkExpr_fine ..) (fun _ _ => ?_)
  refine fine_bind (checkExpr_fine ..) (fun _ _ => ?_)
  refine fine_bind (checkExpr_fine ..) (fun _ _ => ?_)
  rw [getItem_fine hn]
  show (Res.bind (withItemsOf O kvs) _).fine = true
  refine fine_bind (withItemsOf_fine O sh.withItems) (fun _ _ => ?_)
  refine fine_bind (ctorPolicies_total O _) (fun _ _ => ?_)
  refine fine_bind (processAW_fine O hstr) (fun _ _ => ?_)
  split
  · refine fine_bind (onClauses_fine O kvs) (fun _ _ => ?_)
    refine fine_bind ?_ (fun _ _ => rfl)
    split
    · exact fine_bind (r := pyLen (.str s)) rfl (fun _ _ => guardDef_fine ..)
    · rfl
  · rfl

/-- TaskSpec / DirectWorkflowTaskSpec / ReverseWorkflowTaskSpec through `instantiate_spec`:
    `len(name)`, `data['name']` (name required, a string), `_parse_cmd_and_input(action or workflow)`
    (non-empty strings), `for item in with-items` (a string or a list), the policies group, the
    on-clauses, `len(name)` of a join task — never an internal error. -/
theorem ctorTask_total (O : Oracle) (j : JVal) : (ctorTask O j).fine = true := by
  unfold ctorTask
  cases j with
  | obj kvs =>
    refine fine_bind (r := polymorphic kvs) ?_ (fun direct _ => ?_)
    · unfold polymorphic
      split
      · rfl
      · split
        · rfl
        · split <;> rfl
      · rfl
    · cases direct with
      | true =>
        simp only [if_true]
        split
        · rename_i hacc
          obtain ⟨kvs', he, _, sh, _⟩ := direct_task_accept_shape hacc
          cases he
          exact taskBody_fine O true sh
        · rfl
      | false =>
        simp only [Bool.false_eq_true, if_false]
        split
        · rename_i hacc
          obtain ⟨kvs', he, _, sh, _⟩ := reverse_task_accept_shape hacc
          cases he
          exact taskBody_fine O false sh
        · rfl
  | _ => rfl

/-! ## workflows -/

theorem dictFromEntries_fine {v : JVal} (h : v = .arr [] ∨ InputList v) : (dictFromEntries v).fine = true := by
  unfold dictFromEntries
  have hall : ∃ xs, v = .arr xs ∧ ∀ x ∈ xs, NonEmptyStr x ∨ OneKeyDict x := by
    rcases h with rfl | ⟨xs, rfl, _, hx⟩
    · exact ⟨[], rfl, fun x hx => by cases hx⟩
    · exact ⟨xs, rfl, hx⟩
  obtain ⟨xs, rfl, hx⟩ := hall
  show (Res.bind (mapRes _ xs) _).fine = true
  refine fine_bind (mapRes_fine (fun x hxm => ?_)) (fun _ _ => rfl)
  rcases hx x hxm with ⟨s, rfl, _⟩ | ⟨k, c, rfl⟩ <;> rfl

theorem tasksOf_fine (O : Oracle) (typ : JVal) {t : JVal} (h : TasksShape t) : (tasksOf O typ t).fine = true := by
  obtain ⟨tkvs, rfl, _, hall⟩ := h
  unfold tasksOf
  show (Res.bind (mapRes _ tkvs) _).fine = true
  refine fine_bind (mapRes_fine (fun kv hkv => ?_)) (fun typed _ => ?_)
  · obtain ⟨_, m, hm, _⟩ := hall kv hkv
    rw [hm]
    rfl
  · apply mapRes_fine
    intro kv _
    split
    · exact fine_bind (ctorTask_total O _) (fun _ _ => rfl)
    · exact fine_bind (ctorTask_total O _) (fun _ _ => rfl)

theorem workflowBody_fine (O : Oracle) {kvs : List (Key × JVal)} (sh : WorkflowShape kvs)
    (hname : ∃ n, lookup "name" kvs = some n) : (workflowBody O kvs).fine = true := by
  obtain ⟨n, hn⟩ := hname
  obtain ⟨t, ht, hts⟩ := sh.tasks
  unfold workflowBody
  refine fine_bind (guardDef_fine ..) (fun _ _ => ?_)
  refine fine_bind (guardDef_fine ..) (fun _ _ => ?_)
  refine fine_bind (checkExpr_fine ..) (fun _ _ => ?_)
  refine fine_bind (checkExpr_fine ..) (fun _ _ => ?_)
  rw [getItem_fine hn]
  show (Res.bind (dictFromEntries _) _).fine = true
  refine fine_bind (dictFromEntries_fine ?_) (fun _ _ => ?_)
  · cases hl : lookup "input" kvs with
    | none => exact .inl (getD_none hl)
    | some v => rw [getD_some hl]; exact .inr (sh.input v hl)
  refine fine_bind (specProperty_fine (ctorTaskDefaults_total O)) (fun _ _ => ?_)
  rw [getD_some ht]
  refine fine_bind (tasksOf_fine O _ hts) (fun _ _ => ?_)
  exact fine_bind (guardDef_fine ..) (fun _ _ => rfl)

/-- WorkflowSpec (Direct / Reverse) up to the graph checks: given `name` (which the schema does NOT
    require: the list / workbook constructors inject it, see `workflow_ctor_needs_name`),
    `data.get('tasks').values()` with `task['type'] = …` (a non-empty dict of dicts),
    `get_dict_from_entries(input)` (hashable entries), task-defaults and every task — never an internal error. -/
theorem ctorWorkflow_total (O : Oracle) {kvs : List (Key × JVal)} (hname : ∃ n, lookup "name" kvs = some n) :
    (ctorWorkflow O (.obj kvs)).fine = true := by
  unfold ctorWorkflow
  refine fine_bind (r := polymorphic kvs) ?_ (fun direct _ => ?_)
  · unfold polymorphic
    split
    · rfl
    · split
      · rfl
      · split <;> rfl
    · rfl
  · cases direct with
    | true =>
      simp only [if_true]
      split
      · rename_i hacc
        exact workflowBody_fine O (direct_workflow_accept_shape hacc) hname
      · rfl
    | false =>
      simp only [Bool.false_eq_true, if_false]
      split
      · rename_i hacc
        exact workflowBody_fine O (reverse_workflow_accept_shape hacc) hname
      · rfl

theorem ctorWorkflow_non_dict (O : Oracle) {j : JVal} (h : j.isObj = false) : (ctorWorkflow O j).fine = true := by
  cases j <;> first | rfl | cases h

def trivialOracle : Oracle := ⟨fun _ => none, fun _ => none, fun _ => true, fun _ => false⟩

/-- why `ctorWorkflow_total` has the hypothesis: the workflow schema accepts a dict without `name`, on
    which `self._name = data['name']` is a KeyError.  Not reachable through the parser entry points
    (WorkflowListSpec / WorkflowSpecList set `name` first: `ctorWorkflowList_total`). -/
theorem workflow_ctor_needs_name :
    accepts DirectWorkflowSpec (.obj [(.s "tasks", .obj [(.s "t", .obj [(.s "action", .str "a")])])]) = true ∧
    (ctorWorkflow trivialOracle (.obj [(.s "tasks", .obj [(.s "t", .obj [(.s "action", .str "a")])])])).fine = false := by
  decide

theorem lookup_name_injected (k : Key) (m : List (Key × JVal)) :
    lookup "name" (setKey (.s "version") (.str "2.0") (setKey (.s "name") (keyVal k) m)) = some (keyVal k) := by
  unfold lookup
  rw [lookupKey_setKey_other (by decide), lookupKey_setKey_same]

/-- WorkflowListSpec (what `get_workflow_list_spec_from_yaml` and POST /v2/workflows build): schema, the
    explicit checks, `v['name'] = k` on every member (a dict), then every workflow — never an internal error. -/
theorem ctorWorkflowList_total (O : Oracle) (j : JVal) : (ctorWorkflowList O j).fine = true := by
  unfold ctorWorkflowList
  split
  · rename_i hacc
    obtain ⟨kvs, rfl, _, hmem⟩ := workflow_list_accept_shape hacc
    show (Res.bind (guardDef _ _) _).fine = true
    refine fine_bind (guardDef_fine ..) (fun _ _ => ?_)
    refine fine_bind (guardDef_fine ..) (fun _ _ => ?_)
    refine fine_bind (mapRes_fine (fun kv hkv => ?_)) (fun _ _ => rfl)
    simp only [listSpecMembers, List.mem_filter, bne_iff_ne, ne_eq] at hkv
    obtain ⟨m, hm, _⟩ := hmem kv hkv.1 hkv.2
    rw [hm]
    exact fine_bind (ctorWorkflow_total O ⟨_, lookup_name_injected kv.1 m⟩) (fun _ _ => rfl)
  · rfl

/-! ## ad-hoc actions, workbooks -/

theorem actionBody_fine (O : Oracle) {kvs : List (Key × JVal)}
    (hb : ∃ b, lookup "base" kvs = some b ∧ NonEmptyStr b) (hn : ∃ n, lookup "name" kvs = some n)
    (hbi : ∀ v, lookup "base-input" kvs = some v → StrKeyDict v) (hin : ∀ v, lookup "input" kvs = some v → InputList v) :
    (actionBody O kvs).fine = true := by
  obtain ⟨b, hb, s, rfl, _⟩ := hb
  obtain ⟨n, hn⟩ := hn
  unfold actionBody
  rw [getD_some hb]
  refine fine_bind (parseCmd_str_fine O s) (fun _ _ => ?_)
  refine fine_bind (checkExpr_fine ..) (fun _ _ => ?_)
  refine fine_bind (checkExpr_fine ..) (fun _ _ => ?_)
  refine fine_bind ?_ (fun _ _ => ?_)
  · split
    · exact checkExpr_fine ..
    · rfl
  rw [getItem_fine hn, getItem_fine hb]
  show (Res.bind (dictFromEntries _) _).fine = true
  refine fine_bind (dictFromEntries_fine ?_) (fun _ _ => ?_)
  · cases hl : lookup "input" kvs with
    | none => exact .inl (getD_none hl)
    | some v => rw [getD_some hl]; exact .inr (hin v hl)
  refine fine_bind (parseCmd_str_fine O s) (fun _ _ => ?_)
  refine fine_bind ?_ (fun _ _ => rfl)
  cases hl : lookup "base-input" kvs with
  | none => rw [getD_none hl]; rfl
  | some v =>
    rw [getD_some hl]
    obtain ⟨m, rfl, _⟩ := hbi v hl
    rfl

/-- ActionSpec: `_parse_cmd_and_input(data.get('base'))` (base required, a non-empty string),
    `data['name']`, `data['base']`, `get_dict_from_entries(input)`, `merge_dicts(base-input, …)` (a dict). -/
theorem ctorAction_total (O : Oracle) (j : JVal) : (ctorAction O j).fine = true := by
  unfold ctorAction
  split
  · rename_i hacc
    obtain ⟨kvs, rfl, _, hb, ⟨n, hn, _⟩, _, hbi, hin, _⟩ := action_accept_shape hacc
    exact actionBody_fine O hb ⟨n, hn⟩ hbi hin
  · rfl

/-- ActionListSpec (what `get_action_list_spec_from_yaml` and POST /v2/actions build). -/
theorem ctorActionList_total (O : Oracle) (j : JVal) : (ctorActionList O j).fine = true := by
  unfold ctorActionList
  split
  · rename_i hacc
    obtain ⟨kvs, rfl, _, hmem⟩ := action_list_accept_shape hacc
    show (Res.bind (guardDef _ _) _).fine = true
    refine fine_bind (guardDef_fine ..) (fun _ _ => ?_)
    refine fine_bind (guardDef_fine ..) (fun _ _ => ?_)
    refine fine_bind (mapRes_fine (fun kv hkv => ?_)) (fun _ _ => rfl)
    simp only [listSpecMembers, List.mem_filter, bne_iff_ne, ne_eq] at hkv
    obtain ⟨m, hm, _⟩ := hmem kv hkv.1 hkv.2
    rw [hm]
    exact fine_bind (ctorAction_total O _) (fun _ _ => rfl)
  · rfl

theorem specList_fine {ctor : JVal → Res JVal} {v : JVal} (hobj : ∃ ms, v = .obj ms)
    (hd : ∀ k m, (ctor (.obj (setKey (.s "version") (.str "2.0") (setKey (.s "name") (keyVal k) m)))).fine = true)
    (hn : ∀ x, x.isObj = false → (ctor x).fine = true) : (specList ctor v).fine = true := by
  obtain ⟨ms, rfl⟩ := hobj
  unfold specList
  show (Res.bind (mapRes _ (specListMembers ms)) _).fine = true
  refine fine_bind (mapRes_fine (fun kv _ => ?_)) (fun _ _ => rfl)
  split
  · exact fine_bind (hd _ _) (fun _ _ => rfl)
  · rename_i hno
    refine fine_bind (hn _ ?_) (fun _ _ => rfl)
    cases hv : kv.2 <;> first | rfl | exact absurd hv (hno _)

theorem injectVersion_obj {v : JVal} (h : ∃ ms, v = .obj ms) : ∃ ms, injectVersion v = .obj ms := by
  obtain ⟨ms, rfl⟩ := h
  exact ⟨_, rfl⟩

/-- WorkbookSpec: `data['name']` (required), `_inject_version` and `.items()` of the two sections (dicts),
    every member through `ActionSpec` / `WorkflowSpec` (a member that is not a dict is a definition error of
    those constructors; a dict gets its `name` first). -/
theorem ctorWorkbook_total (O : Oracle) (j : JVal) : (ctorWorkbook O j).fine = true := by
  unfold ctorWorkbook
  split
  · rename_i hacc
    obtain ⟨kvs, rfl, _, ⟨n, hn, _⟩, _, hsec, _⟩ := workbook_accept_shape hacc
    show (workbookBody O kvs).fine = true
    unfold workbookBody
    simp only []
    rw [getItem_fine hn]
    refine fine_bind (r := Res.ok n) rfl (fun _ _ => ?_)
    refine fine_bind ?_ (fun _ _ => fine_bind ?_ (fun _ _ => rfl))
    · cases hl : lookup "actions" kvs with
      | none => rfl
      | some v =>
        obtain ⟨ms, hv, _⟩ := hsec "actions" (by simp) v hl
        obtain ⟨ms', hi⟩ := injectVersion_obj ⟨ms, hv⟩
        simp only [Option.map_some, hi]
        exact specList_fine ⟨ms', rfl⟩ (fun _ _ => ctorAction_total O _) (fun x _ => ctorAction_total O x)
    · cases hl : lookup "workflows" kvs with
      | none => rfl
      | some v =>
        obtain ⟨ms, hv, _⟩ := hsec "workflows" (by simp) v hl
        obtain ⟨ms', hi⟩ := injectVersion_obj ⟨ms, hv⟩
        simp only [Option.map_some, hi]
        exact specList_fine ⟨ms', rfl⟩ (fun k m => ctorWorkflow_total O ⟨_, lookup_name_injected k m⟩)
          (fun x hx => ctorWorkflow_non_dict O hx)
  · rfl

/-- (summary) every modelled constructor is total: a specification or a definition error. -/
theorem constructor_total (O : Oracle) (j : JVal) :
    (ctorRetry O j).fine = true ∧ (ctorPolicies O j).fine = true ∧ (ctorPublish O j).fine = true ∧
    (ctorOnClause O j).fine = true ∧ (ctorTaskDefaults O j).fine = true ∧ (ctorTask O j).fine = true ∧
    (ctorWorkflowList O j).fine = true ∧ (ctorAction O j).fine = true ∧ (ctorActionList O j).fine = true ∧
    (ctorWorkbook O j).fine = true :=
  ⟨ctorRetry_total O j, ctorPolicies_total O j, ctorPublish_total O j, ctorOnClause_total O j,
   ctorTaskDefaults_total O j, ctorTask_total O j, ctorWorkflowList_total O j, ctorAction_total O j,
   ctorActionList_total O j, ctorWorkbook_total O j⟩

/-- non-vacuity: the constructors do build specifications (not everything is a definition error). -/
example : (match ctorTask trivialOracle (.obj [(.s "name", .str "t1"), (.s "version", .str "2.0"),
    (.s "action", .str "std.noop"), (.s "on-success", .arr [.str "t2", .obj [(.s "t3", .str "<% $.x %>")]]),
    (.s "retry", .obj [(.s "count", .int 3), (.s "delay", .int 1)]), (.s "join", .str "all")]) with
    | .ok _ => true | _ => false) = true := by decide

example : (match ctorWorkflowList trivialOracle (.obj [(.s "version", .str "2.0"),
    (.s "wf", .obj [(.s "input", .arr [.str "a"]), (.s "tasks", .obj [(.s "t1", .obj [(.s "action", .str "x")])])])]) with
    | .ok _ => true | _ => false) = true := by decide

/-- a task named `version` is a definition error of the workflow constructor (repo patch 27). -/
example : (match ctorWorkflowList trivialOracle (.obj [(.s "version", .str "2.0"),
    (.s "wf", .obj [(.s "tasks", .obj [(.s "version", .obj [(.s "action", .str "x")])])])]) with
    | .defErr _ => true | _ => false) = true := by decide

example : (match ctorWorkbook trivialOracle (.obj [(.s "version", .str "2.0"), (.s "name", .str "wb"),
    (.s "actions", .obj [(.s "a1", .obj [(.s "base", .str "std.echo"), (.s "base-input", .obj [(.s "output", .str "x")])])]),
    (.s "workflows", .obj [(.s "wf1", .obj [(.s "tasks", .obj [(.s "t1", .obj [(.s "action", .str "wb.a1")])])])])]) with
    | .ok _ => true | _ => false) = true := by decide

end Mistral.Props.C14Ctor
