/-
C05, the causal theorem under the WEAKER hypothesis that admits WHOLESALE REPUBLICATION WITHOUT A LEAF
("a nested dict published before a fork; one branch republishes the dict wholesale without a leaf while a
sibling publishes that leaf; chained joins"): Lemmas/HistDel.lean.

Hypotheses (both decidable): `StablePub2` for every task - a publication of the variable has dictionaries
along the path down to a leaf or to a missing key (it may DROP the leaf; what stays excluded is a value of
another shape at the path, finding G) - and `DropsLow`: a task that drops the leaf has seen at most one
generation of it (otherwise its context keeps a version that a staler copy inherits at the next join:
finding G again, see `drop_after_two_generations_fails`).
-/
import Mistral.Lemmas.HistChain

namespace Mistral.Props.C05Drop
open Mistral Mistral.Dict Mistral.Ctx Mistral.Hist

theorem leafAt_of_shape2 {k0 : String} {rest : List String} {c : Ctx} (h : ShapeOK2 k0 rest c) :
    leafAt c.data k0 rest = getPath c.data k0 rest := by
  unfold leafAt
  cases hg : getPath c.data k0 rest with
  | none => rfl
  | some x => simp [h.leaf x hg]

theorem leafAt_of_stable2 {k0 : String} {rest : List String} {pub : Dict} (h : StablePub2 k0 rest pub) :
    leafAt pub k0 rest = getPath pub k0 rest := by
  unfold leafAt
  cases hg : getPath pub k0 rest with
  | none => rfl
  | some x =>
    rw [getPath_of_get?] at hg
    cases hgp : get? pub k0 with
    | none => simp [hgp] at hg
    | some v =>
      have h2 := h.2.1
      simp only [hgp] at h2 hg
      simp [(SpinePath.leafPath rest v x h2 hg).2]

/-- `inv_reachable` under the weaker hypothesis -/
theorem inv_reachable_dropping (k0 : String) (rest : List String) (hk : k0 ≠ "__task_execution")
    (h : List Task) (hs : ∀ t ∈ h, StablePub2 k0 rest t.pub) (hd : DropsLow k0 rest h) :
    Good2 k0 rest (runRows h) :=
  good2_run k0 rest hk h hs hd

/-- "a value published inside one branch is never replaced at a join by a stale copy another branch
    merely inherited", also when branches republish the variable WITHOUT the leaf: the leaf visible to a
    task is the publication of a causal ancestor that no other ancestor publishing the LEAF follows. -/
theorem stale_copy_never_visible_dropping (h : List Task) (k0 : String) (rest : List String)
    (hk : k0 ≠ "__task_execution") (hs : ∀ t ∈ h, StablePub2 k0 rest t.pub) (hd : DropsLow k0 rest h)
    (i : Nat) (r : Row) (hr : (runRows h)[i]? = some r) (x : Val) (hx : leafAt r.inb.data k0 rest = some x) :
    ∃ q tq, Anc h q i ∧ h[q]? = some tq ∧ leafAt tq.pub k0 rest = some x ∧
      ∀ q' t', Anc h q' i → h[q']? = some t' → PublishesLeaf k0 rest t' → ¬ Anc h q q' := by
  have g := good2_run k0 rest hk h hs hd
  have tie := tied_run h
  rw [leafAt_of_shape2 (g.shapeIn i r hr)] at hx
  obtain ⟨q, hq, rq, hrq, hpub, hver⟩ := g.witIn i r hr x hx
  refine ⟨q, rq.task, (tie.anc i r hr q).mp hq, tie.task q rq hrq, ?_, ?_⟩
  · rw [leafAt_of_stable2 (g.stable q rq hrq)]; exact hpub
  · intro q' t' ha' ht' hp' haq
    have hq'l : q' < (runRows h).length := by rw [tie.len]; exact lookup_lt ht'
    obtain ⟨rq', hrq'⟩ : ∃ rq', (runRows h)[q']? = some rq' := ⟨(runRows h)[q'], by simp [hq'l]⟩
    have htask : rq'.task = t' := by
      have := tie.task q' rq' hrq'
      rw [ht'] at this; exact (Option.some.inj this).symm
    have h1 := g.domIn q' rq' hrq' q ((tie.anc q' rq' hrq' q).mpr haq) rq hrq
    have h2 := (g.outFacts q' rq' hrq').2.2.2 (by rw [htask]; exact hp')
    have h3 := g.domIn i r hr q' ((tie.anc i r hr q').mpr ha') rq' hrq'
    omega

/-- "the one published by the latest task on the causal path", with leaf-dropping republications around:
    when the ancestors that publish the LEAF have a latest one `qs`, the task sees the leaf `qs` published
    - or does not see the leaf at all, and that only when a causal ancestor republished the variable
    without it. -/
theorem latest_publisher_visible_dropping (h : List Task) (k0 : String) (rest : List String)
    (hk : k0 ≠ "__task_execution") (hs : ∀ t ∈ h, StablePub2 k0 rest t.pub) (hd : DropsLow k0 rest h)
    (i : Nat) (r : Row) (hr : (runRows h)[i]? = some r)
    (qs : Nat) (ts : Task) (hq : Anc h qs i) (hts : h[qs]? = some ts) (hp : PublishesLeaf k0 rest ts)
    (hmax : ∀ q' t', Anc h q' i → h[q']? = some t' → PublishesLeaf k0 rest t' → q' = qs ∨ Anc h q' qs) :
    leafAt r.inb.data k0 rest = leafAt ts.pub k0 rest ∨
    (leafAt r.inb.data k0 rest = none ∧ ∃ d td, Anc h d i ∧ h[d]? = some td ∧ Drops k0 rest td) := by
  have g := good2_run k0 rest hk h hs hd
  have tie := tied_run h
  cases hxl : leafAt r.inb.data k0 rest with
  | some x =>
    left
    obtain ⟨q, tq, haq, htq, hval, hnot⟩ :=
      stale_copy_never_visible_dropping h k0 rest hk hs hd i r hr x hxl
    have hpq : PublishesLeaf k0 rest tq := by
      have hst : StablePub2 k0 rest tq.pub := hs tq (List.mem_of_getElem? htq)
      rw [leafAt_of_stable2 hst] at hval
      unfold PublishesLeaf; rw [hval]; simp
    rcases hmax q tq haq htq hpq with rfl | hlt
    · rw [hts] at htq; cases htq
      exact hval.symm
    · exact absurd hlt (hnot qs ts hq hts hp)
  | none =>
    right
    refine ⟨rfl, ?_⟩
    rw [leafAt_of_shape2 (g.shapeIn i r hr)] at hxl
    rcases g.absIn i r hr hxl with z | ⟨d, hdm, rd, hrd, hdr⟩
    · -- impossible: the version seen dominates the positive outbound version of qs
      exfalso
      have hqsl : qs < (runRows h).length := by rw [tie.len]; exact lookup_lt hts
      obtain ⟨rqs, hrqs⟩ : ∃ rqs, (runRows h)[qs]? = some rqs := ⟨(runRows h)[qs], by simp [hqsl]⟩
      have htask : rqs.task = ts := by
        have := tie.task qs rqs hrqs
        rw [hts] at this; exact (Option.some.inj this).symm
      have h2 := (g.outFacts qs rqs hrqs).2.2.2 (by rw [htask]; exact hp)
      have hdom := g.domIn i r hr qs ((tie.anc i r hr qs).mpr hq) rqs hrqs
      omega
    · exact ⟨d, rd.task, (tie.anc i r hr d).mp hdm, tie.task d rd hrd, hdr⟩

/-- `DropsLow` is implied by a condition on the DAG alone (`DropsAfterOneGeneration`): no task that
    republishes the variable without the leaf has, among its causal ancestors, two publishers of the leaf
    one of which follows the other.  (The version of a path counts generations of its publishers.) -/
theorem dropsLow_from_dag (k0 : String) (rest : List String) (h : List Task)
    (hs : ∀ t ∈ h, StablePub2 k0 rest t.pub) (hd : DropsAfterOneGeneration k0 rest h) : DropsLow k0 rest h :=
  dropsLow_of_one_generation k0 rest h hs hd

/-- the causal theorem with hypotheses on the history alone -/
theorem stale_copy_never_visible_dag (h : List Task) (k0 : String) (rest : List String)
    (hk : k0 ≠ "__task_execution") (hs : ∀ t ∈ h, StablePub2 k0 rest t.pub)
    (hd : DropsAfterOneGeneration k0 rest h)
    (i : Nat) (r : Row) (hr : (runRows h)[i]? = some r) (x : Val) (hx : leafAt r.inb.data k0 rest = some x) :
    ∃ q tq, Anc h q i ∧ h[q]? = some tq ∧ leafAt tq.pub k0 rest = some x ∧
      ∀ q' t', Anc h q' i → h[q']? = some t' → PublishesLeaf k0 rest t' → ¬ Anc h q q' :=
  stale_copy_never_visible_dropping h k0 rest hk hs (dropsLow_from_dag k0 rest h hs hd) i r hr x hx

/-! ### non-vacuity: the scenario of the seeded change -/

/-- t0 publishes d = {x: 0, y: 0}; fork: t1 (a) republishes d = {x: "A", y: 0}; t2 (b) republishes d WHOLESALE
    WITHOUT x: d = {y: "B"}; t3 (e) merely inherits; t4 = join(a, b) with b listed last (the base of the fold);
    t5 inherits from t4; t6 = join(t5, e) with e listed last. -/
def exD : List Task := [
  ⟨[], [("d", .obj [("x", .num 0), ("y", .num 0)])]⟩,
  ⟨[0], [("d", .obj [("x", .str "A"), ("y", .num 0)])]⟩,
  ⟨[0], [("d", .obj [("y", .str "B")])]⟩,
  ⟨[0], []⟩,
  ⟨[1, 2], []⟩,
  ⟨[4], []⟩,
  ⟨[5, 3], []⟩ ]

/-- the history is NOT shape-stable at d.x (t2 drops the leaf): the theorems of C05Causal do not apply ... -/
example : ¬ StableHist "d" ["x"] exD := by decide
/-- ... these do: every publication is spine-stable at d.x, -/
example : ∀ t ∈ exD, StablePub2 "d" ["x"] t.pub := by decide

/-- and the dropping task t2 has seen one generation of d.x (its inbound version is 1) -/
example : DropsLow "d" ["x"] exD := by decide

/-- ... also in the DAG-only form: the only dropping task is t2, whose only ancestor is t0 -/
example : DropsAfterOneGeneration "d" ["x"] exD := by
  intro i t hi hdr ⟨q1, q2, t1, t2, a1, a2, _, _, _, _, a12⟩
  have h1 := anc_lt a1
  have h2 := anc_lt a2
  have h12 := anc_lt a12
  match i with
  | 0 | 1 => omega
  | 2 =>
    have hq2 : q2 = 1 := by omega
    subst hq2
    cases a2 with
    | parent hi' hp _ => simp [exD] at hi'; subst hi'; simp at hp
    | trans hi' hp _ a' => simp [exD] at hi'; subst hi'; simp at hp; subst hp; exact absurd (anc_lt a') (by omega)
  | 3 | 4 | 5 | 6 => simp [exD] at hi; subst hi; exact absurd hdr (by decide)
  | n + 7 => simp [exD] at hi

theorem exD_anc_1_6 : Anc exD 1 6 :=
  Anc.trans (p := 5) (t := ⟨[5, 3], []⟩) rfl (by decide) (by decide)
    (Anc.trans (p := 4) (t := ⟨[4], []⟩) rfl (by decide) (by decide)
      (Anc.parent (t := ⟨[1, 2], []⟩) rfl (by decide) (by decide)))

theorem exD_latest (q' : Nat) (t' : Task) (ha : Anc exD q' 6) (ht : exD[q']? = some t')
    (hp : PublishesLeaf "d" ["x"] t') : q' = 1 ∨ Anc exD q' 1 := by
  have hlt := anc_lt ha
  match q', hlt with
  | 0, _ => exact Or.inr (Anc.parent (t := ⟨[0], [("d", .obj [("x", .str "A"), ("y", .num 0)])]⟩) rfl (by decide) (by decide))
  | 1, _ => exact Or.inl rfl
  | 2, _ => simp [exD] at ht; subst ht; exact absurd hp (by decide)
  | 3, _ => simp [exD] at ht; subst ht; exact absurd hp (by decide)
  | 4, _ => simp [exD] at ht; subst ht; exact absurd hp (by decide)
  | 5, _ => simp [exD] at ht; subst ht; exact absurd hp (by decide)

/-- the second join (t6) of the seeded scenario sees d.x = "A" (the theorem), although the branch e still
    carries t0's d.x = 0 and the branch b dropped the leaf -/
example (r : Row) (hr : (runRows exD)[6]? = some r) : leafAt r.inb.data "d" ["x"] = some (.str "A") := by
  rcases latest_publisher_visible_dropping exD "d" ["x"] (by decide) (by decide) (by decide) 6 r hr 1 _
    exD_anc_1_6 rfl (by decide) exD_latest with h | ⟨h, _⟩
  · rw [h]; rfl
  · -- the other alternative does not occur here: the model run shows the leaf
    exfalso
    have hr' : (runRows exD)[6]? = some ((runRows exD)[6]'(by decide)) := by simp
    rw [hr'] at hr
    cases hr
    revert h
    decide

/-- evaluation of the model agrees -/
example : ((runRows exD)[6]?).map (fun r => leafAt r.inb.data "d" ["x"]) = some (some (.str "A")) := by rfl

/-! ### why `DropsLow` is needed: the full-strength statement is FALSE of the code -/

/-- t0 publishes d = {x: 0, y: 0}; t1 republishes d = {x: "A", y: 0}; t2 (below t1) republishes d = {y: "Z"}: it
    drops the leaf after TWO generations; t3 (below t0) still carries d.x = 0; t4 (below t1) carries "A";
    t5 = join(t3, t2) with t2 as the base; t6 = join(t4, t5) with t5 as the base. -/
def exG : List Task := [
  ⟨[], [("d", .obj [("x", .num 0), ("y", .num 0)])]⟩,
  ⟨[0], [("d", .obj [("x", .str "A"), ("y", .num 0)])]⟩,
  ⟨[1], [("d", .obj [("y", .str "Z")])]⟩,
  ⟨[0], []⟩,
  ⟨[1], []⟩,
  ⟨[3, 2], []⟩,
  ⟨[4, 5], []⟩ ]

example : ∀ t ∈ exG, StablePub2 "d" ["x"] t.pub := by decide
example : ¬ DropsLow "d" ["x"] exG := by decide

/-- Without `DropsLow` the statement fails (a variant of known finding G: the versioning scheme does not
    record that a wholesale republication DROPPED a leaf): in `exG` the context of t2 lacks d.x but keeps its
    version 2; at the join t5 the stale d.x = 0 of t3 is copied in and INHERITS version 2; at the join t6 it
    ties with the "A" that t1 published causally later, and wins. -/
theorem drop_after_two_generations_fails :
    ¬ (∀ (h : List Task) (k0 : String) (rest : List String), k0 ≠ "__task_execution" →
        (∀ t ∈ h, StablePub2 k0 rest t.pub) →
        ∀ (i : Nat) (r : Row) (x : Val), (runRows h)[i]? = some r → leafAt r.inb.data k0 rest = some x →
          ∃ q tq, Anc h q i ∧ h[q]? = some tq ∧ leafAt tq.pub k0 rest = some x ∧
            ∀ q' t', Anc h q' i → h[q']? = some t' → PublishesLeaf k0 rest t' → ¬ Anc h q q') := by
  intro H
  have hr : (runRows exG)[6]? = some ((runRows exG)[6]'(by decide)) := by simp
  obtain ⟨q, tq, haq, htq, hval, hnot⟩ := H exG "d" ["x"] (by decide) (by decide) 6 _ (.num 0) hr (by rfl)
  have hlt := anc_lt haq
  have h01 : Anc exG 0 1 :=
    Anc.parent (t := ⟨[0], [("d", .obj [("x", .str "A"), ("y", .num 0)])]⟩) rfl (by decide) (by decide)
  have h16 : Anc exG 1 6 :=
    Anc.trans (p := 4) (t := ⟨[4, 5], []⟩) rfl (by decide) (by decide)
      (Anc.parent (t := ⟨[1], []⟩) rfl (by decide) (by decide))
  match q, hlt with
  | 0, _ => exact hnot 1 _ h16 rfl (by decide) h01
  | 1, _ => simp [exG] at htq; subst htq; simp [leafAt, getPath, getPathVal, Dict.get?, Val.isObj] at hval
  | 2, _ => simp [exG] at htq; subst htq; simp [leafAt, getPath, getPathVal, Dict.get?, Val.isObj] at hval
  | 3, _ => simp [exG] at htq; subst htq; simp [leafAt, getPath, getPathVal, Dict.get?, Val.isObj] at hval
  | 4, _ => simp [exG] at htq; subst htq; simp [leafAt, getPath, getPathVal, Dict.get?, Val.isObj] at hval
  | 5, _ => simp [exG] at htq; subst htq; simp [leafAt, getPath, getPathVal, Dict.get?, Val.isObj] at hval

end Mistral.Props.C05Drop
