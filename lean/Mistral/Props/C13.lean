/-
C13 — Scheduled jobs run once, not early, survive crashes, and only if committed.
Property theorems only.  Model: Mistral/Model/Sched.lean (tied to
mistral/scheduler/default_scheduler.py, mistral/services/legacy_scheduler.py and the
scheduled-job db-api functions by the `sched` / `sched-exhaustive` / `legacy` correspondence
streams); structural facts regenerated from the sources on every run: Mistral/Gen/SchedDefaults.
Every theorem quantifies over ALL step sequences (`steps`), any number of instances `n`, any
configuration `cfg`; `run cfg (init n) steps` is the state after the sequence.
-/
import Mistral.Lemmas.SchedFinal
import Mistral.Lemmas.SchedLive
import Mistral.Gen.SchedDefaults

namespace Mistral.Props.C13
open Mistral.Sched Mistral.Gen.SchedDefaults

/-! ### Tie A: the operators / bounds read from the code are the ones the model uses -/

/-- the WHERE clause of `get_scheduled_jobs_to_start` as translated from the source is the
    model's `eligible` -/
theorem select_ops_match (cfg : Cfg) (clock : Nat) (r : Row) :
    eligible cfg clock r =
      (decide (r.vis = .committed) && selectExecuteAtOp.eval (r.executeAt + cfg.pickup) clock &&
        (match r.capturedAt with
         | none => true
         | some c => selectCapturedAtOp.eval (c + cfg.timeout) clock)) := by
  unfold eligible selectExecuteAtOp selectCapturedAtOp
  cases r.capturedAt <;> simp [Cmp.eval]

/-- `_dispatcher` waits exactly while `execute_at - now > 0`, i.e. pops iff `execute_at ≤ now`
    (the guard of `stepPop`); `_capture_scheduled_job` filters on the captured_at it read -/
theorem dispatcher_and_cas_match (ea now : Nat) :
    (dispatcherWaitOp.eval ea now = false ↔ ea ≤ now) ∧ captureIsCas = true := by
  simp [dispatcherWaitOp, captureIsCas, Cmp.eval]

/-- the configuration cannot set captured_job_timeout / pickup_job_after below one second -/
theorem config_bounds : 1 ≤ capturedJobTimeoutMin ∧ 1 ≤ pickupJobAfterMin ∧ 1 ≤ batchSizeMin := by
  decide

/-! ### "never before its delay has elapsed" -/

/-- every invocation in every reachable trace happens at a time ≥ the job's execute_at -/
theorem not_early (cfg : Cfg) (n : Nat) (steps : List Step) (j t i : Nat)
    (h : Ev.invoked j t i ∈ (run cfg (init n) steps).trace) :
    ∃ r : Row, (run cfg (init n) steps).rows[j]? = some r ∧ r.executeAt ≤ t :=
  ((safe_reachable cfg n steps).trace _ h).1

/-- … and execute_at is the scheduling time plus run_after, fixed for ever -/
theorem schedule_sets_due (cfg : Cfg) (s : State) (i ra key tx : Nat) (inst : Inst)
    (hi : s.insts[i]? = some inst) (ha : inst.alive = true) (rest : List Step) :
    ∃ r : Row, (run cfg (step cfg s (.schedule i ra key tx)) rest).rows[s.rows.length]? = some r ∧
      r.executeAt = s.clock + ra := by
  have h0 : (step cfg s (.schedule i ra key tx)).rows[s.rows.length]? =
      some { executeAt := s.clock + ra, capturedAt := none, key := key, vis := .uncommitted tx } := by
    simp [step, stepSchedule, onInst, hi, ha]
  obtain ⟨r', h1, h2, _⟩ := (run_ext cfg rest _).rows _ _ h0
  exact ⟨r', h1, h2⟩

example : Ev.invoked 0 1 0 ∈ (run { pickup := 2, timeout := 3, batch := none } (init 1)
    [.schedule 0 1 7 0, .commit 0, .pop 0, .tick 1, .pop 0, .task 0 0, .task 0 0]).trace := by decide

/-! ### "a job whose transaction rolled back is never run" (nor one that has not committed) -/

/-- an invoked job's row was committed (it is committed or already deleted) -/
theorem only_committed_runs (cfg : Cfg) (n : Nat) (steps : List Step) (j t i : Nat)
    (h : Ev.invoked j t i ∈ (run cfg (init n) steps).trace) :
    ∃ r : Row, (run cfg (init n) steps).rows[j]? = some r ∧ (r.vis = .committed ∨ r.vis = .deleted) :=
  ((safe_reachable cfg n steps).trace _ h).2.1

theorem rolled_back_never_runs (cfg : Cfg) (n : Nat) (steps : List Step) (j : Nat) (r : Row)
    (hr : (run cfg (init n) steps).rows[j]? = some r) (hv : r.vis = .rolledBack) (t i : Nat) :
    Ev.invoked j t i ∉ (run cfg (init n) steps).trace ∧ Ev.captured j t i ∉ (run cfg (init n) steps).trace := by
  constructor
  · intro h
    obtain ⟨r', hr', hv'⟩ := only_committed_runs cfg n steps j t i h
    rw [hr] at hr'; simp at hr'; subst hr'; simp [hv] at hv'
  · intro h
    obtain ⟨⟨r', hr', hv'⟩, _⟩ := (safe_reachable cfg n steps).trace _ h
    rw [hr] at hr'; simp at hr'; subst hr'; simp [hv] at hv'

/-- a rolled-back job stays rolled back whatever happens afterwards -/
theorem rolled_back_is_final (cfg : Cfg) (s : State) (steps : List Step) (j : Nat) (r : Row)
    (hr : s.rows[j]? = some r) (hv : r.vis = .rolledBack) :
    ∃ r' : Row, (run cfg s steps).rows[j]? = some r' ∧ r'.vis = .rolledBack := by
  obtain ⟨r', h1, _, _, hvm⟩ := (run_ext cfg steps s).rows j r hr
  exact ⟨r', h1, hvm.2.2 hv⟩

example : (run { pickup := 1, timeout := 1, batch := none } (init 2)
    [.schedule 0 0 7 0, .rollback 0, .pop 0, .task 0 0, .tick 5, .pollSelect 1, .pollCapture 1]).trace = [] := by decide

/-! ### capture is a compare-and-swap: "however many scheduler instances poll concurrently" -/

/-- two CAS captures expecting the same captured_at value: after one succeeded the other fails
    (unless it would write the very value it expects, impossible for a recapture because
    `expected + timeout ≤ now` and timeout ≥ 1, and for a first capture because NULL ≠ now) -/
theorem capture_exclusive (rows rows' : List Row) (id t1 t2 : Nat) (e : Option Nat)
    (h1 : cas rows id e t1 = some rows') (hne : e ≠ some t1) : cas rows' id e t2 = none := by
  obtain ⟨r, hr, _, _, rfl⟩ := cas_spec h1
  have hlt : id < rows.length := (List.getElem?_eq_some_iff.mp hr).1
  unfold cas
  simp only [List.getElem?_set, hlt, if_true]
  have : ¬ (some t1 = e) := fun h => hne h.symm
  simp [this]

example : cas [{ executeAt := 0, capturedAt := none, key := 0, vis := .committed }] 0 none 5 ≠ none := by decide

/-- in every reachable trace two captures of the same job are at least captured_job_timeout
    apart, whoever made them (in-memory dispatcher or store poll of any instance) -/
theorem capture_spacing (cfg : Cfg) (n : Nat) (steps : List Step) (pre post : List Ev) (j t i t' i' : Nat)
    (h : (run cfg (init n) steps).trace = pre ++ Ev.captured j t i :: post)
    (h' : Ev.captured j t' i' ∈ post) : t' + cfg.timeout ≤ t := by
  have := (cap_reachable cfg n steps).inv.spaced
  rw [h] at this
  exact spaced_split pre post this h'

/-- a job is never captured after it was deleted -/
theorem no_capture_after_delete (cfg : Cfg) (n : Nat) (steps : List Step) (j td i t i' : Nat)
    (hd : Ev.deleted j td i ∈ (run cfg (init n) steps).trace)
    (hc : Ev.captured j t i' ∈ (run cfg (init n) steps).trace) : t ≤ td :=
  ((cap_reachable cfg n steps).inv.del j td i hd).2 t i' hc

/-! ### "exactly once as long as the scheduler that picked it up finishes it within the
    capture timeout" -/

/-- invocations never outnumber captures -/
theorem invoke_needs_capture (cfg : Cfg) (n : Nat) (steps : List Step) (j : Nat) :
    invokeCount (run cfg (init n) steps) j ≤ captureCount (run cfg (init n) steps) j := by
  have := cnt_reachable cfg n steps j
  omega

/-- Hypothesis `timelyB` (decidable, on the schedule): every capture whose timeout has expired
    on the clock was followed by the capturer's delete strictly before the expiry.  Then no job
    is invoked twice — for every interleaving, number of instances, crash pattern. -/
theorem at_most_once_within_timeout (cfg : Cfg) (n : Nat) (steps : List Step)
    (ht : timelyB cfg (run cfg (init n) steps) = true) (j : Nat) :
    invokeCount (run cfg (init n) steps) j ≤ 1 :=
  Nat.le_trans (invoke_needs_capture cfg n steps j) (capture_once (cap_reachable cfg n steps) ht j)

-- non-vacuity: a timely run with an invocation
example : timelyB { pickup := 1, timeout := 2, batch := none } (run { pickup := 1, timeout := 2, batch := none } (init 2)
    [.schedule 0 0 7 0, .commit 0, .pop 0, .task 0 0, .task 0 0, .task 0 0, .tick 9, .pollSelect 1, .pollCapture 1]) = true
    ∧ invokeCount (run { pickup := 1, timeout := 2, batch := none } (init 2)
    [.schedule 0 0 7 0, .commit 0, .pop 0, .task 0 0, .task 0 0, .task 0 0, .tick 9, .pollSelect 1, .pollCapture 1]) 0 = 1 := by
  decide

/-- without the hypothesis the guarantee is really lost (a slow capturer + a recapture):
    the full-strength "at most once" is false of the protocol, by design of the timeout -/
theorem at_most_once_full_fails :
    ¬ (∀ (cfg : Cfg) (n : Nat) (steps : List Step) (j : Nat), invokeCount (run cfg (init n) steps) j ≤ 1) := by
  intro h
  have := h { pickup := 1, timeout := 2, batch := none } 2
    [.schedule 0 0 7 0, .commit 0, .pop 0, .task 0 0, .tick 3, .pollSelect 1, .pollCapture 1,
     .pollNext 1, .task 0 0] 0
  revert this
  decide

/-! ### "invoked at least once" / "if the scheduler that captured a job dies, another instance
    runs it after the capture timeout" -/

/-- a committed job is never lost: in every reachable state its row is still in the store
    (committed) or it has been invoked — unless it cannot be prepared (`cfg.bad`: such a job is
    logged and dropped, by design; `unpreparable_never_invoked`) -/
theorem committed_never_lost (cfg : Cfg) (n : Nat) (steps : List Step) (j : Nat) (r : Row)
    (hr : (run cfg (init n) steps).rows[j]? = some r) (hv : r.vis = .deleted) :
    (∃ t i, Ev.invoked j t i ∈ (run cfg (init n) steps).trace) ∨ j ∈ cfg.bad :=
  (safe_reachable cfg n steps).del j r hr hv

theorem committed_stays (cfg : Cfg) (s : State) (steps : List Step) (j : Nat) (r : Row)
    (hr : s.rows[j]? = some r) (hv : r.vis = .committed) :
    ∃ r' : Row, (run cfg s steps).rows[j]? = some r' ∧ (r'.vis = .committed ∨ r'.vis = .deleted) := by
  obtain ⟨r', h1, _, _, hvm⟩ := (run_ext cfg steps s).rows j r hr
  exact ⟨r', h1, hvm.1 (Or.inl hv)⟩

/-- Crash recovery / pick-up.  In ANY state (in particular after the capturer crashed, or the
    scheduling instance died before dispatching): if the job's row is committed and the clock
    has passed execute_at + pickup_job_after and (it is uncaptured or) captured_at +
    captured_job_timeout, a store poll (select, capture) by any live idle instance captures it
    and queues it for invocation (no batch limit). -/
theorem crash_recovery (cfg : Cfg) (s : State) (i j : Nat) (inst : Inst) (r : Row)
    (hb : cfg.batch = none)
    (hi : s.insts[i]? = some inst) (ha : inst.alive = true) (hp : inst.poll = .idle)
    (hr : s.rows[j]? = some r) (hv : r.vis = .committed)
    (hdue : r.executeAt + cfg.pickup < s.clock)
    (hcap : ∀ c, r.capturedAt = some c → c + cfg.timeout ≤ s.clock) :
    let s' := run cfg s [.pollSelect i, .pollCapture i]
    Ev.captured j s.clock i ∈ s'.trace ∧
      ∃ inst' q, s'.insts[i]? = some inst' ∧ inst'.poll = .running q false ∧ j ∈ q := by
  have hel : eligible cfg s.clock r = true := by
    unfold eligible
    simp only [hv, hdue, decide_true, Bool.true_and]
    cases hc : r.capturedAt with
    | none => rfl
    | some c => simpa using hcap c hc
  have hmem := mem_selectCands_nobatch hb hr hel
  have hq := captureAll_captures s.clock _ s.rows j r hmem hr hv
  have hlt : i < s.insts.length := (List.getElem?_eq_some_iff.mp hi).1
  have hne : (captureAll s.clock (selectCands cfg s.clock s.rows) s.rows).2 ≠ [] := by
    intro h; rw [h] at hq; simp at hq
  simp only [run, step, stepPollSelect, stepPollCapture, onInst, hi, ha, hp, setInst, List.getElem?_set, hlt,
    if_true, List.length_set]
  refine ⟨?_, ?_⟩
  · simp only [List.mem_append, List.mem_reverse, List.mem_map]
    exact Or.inl ⟨j, hq, rfl⟩
  · exact ⟨_, _, rfl, by simp [hne], hq⟩

/-- the head of a running poll queue is invoked by the next step of the loop, at the current
    time, by that instance -/
theorem poll_head_runs (cfg : Cfg) (s : State) (i a : Nat) (q : List Nat) (inst : Inst)
    (hi : s.insts[i]? = some inst) (ha : inst.alive = true) (hp : inst.poll = .running (a :: q) false)
    (hgood : a ∉ cfg.bad) :
    Ev.invoked a s.clock i ∈ (step cfg s (.pollNext i)).trace := by
  simp [step, stepPollNext, onInst, hi, ha, hp, hgood]

-- the crash scenario end to end: instance 0 captures and dies, instance 1 runs the job later
example : (run { pickup := 2, timeout := 3, batch := none } (init 2)
    [.schedule 0 1 7 0, .commit 0, .tick 1, .pop 0, .task 0 0, .crash 0, .tick 4,
     .pollSelect 1, .pollCapture 1, .pollNext 1, .pollNext 1]).trace =
    [.deleted 0 5 1, .invoked 0 5 1, .captured 0 5 1, .captured 0 1 0] := by decide

/-! ### "a query for pending jobs by key reports exactly the jobs with that key that are not
    yet being processed" -/

/-- what `has_scheduled_jobs(key=k, processing=False)` returns, exactly: an in-memory job of the
    asked instance with that key whose python object has captured_at None, or a visible row with
    that key and captured_at NULL -/
theorem has_jobs_spec (s : State) (i k : Nat) :
    hasJobs s i (some k) (some false) = true ↔
      (∃ inst m, s.insts[i]? = some inst ∧ m ∈ inst.inMem ∧ m.key = k ∧ m.capturedAt = none) ∨
      (∃ r, r ∈ s.rows ∧ r.vis = .committed ∧ r.key = k ∧ r.capturedAt = none) := by
  unfold hasJobs
  simp only [Bool.or_eq_true, List.any_eq_true]
  constructor
  · rintro (h | ⟨r, hr, hm⟩)
    · cases hi : s.insts[i]? with
      | none => simp [hi] at h
      | some inst =>
        simp only [hi, List.any_eq_true] at h
        obtain ⟨m, hm, hmm⟩ := h
        simp only [memMatch, keyMatch, Bool.and_eq_true, beq_iff_eq, bne_iff_ne] at hmm
        refine Or.inl ⟨inst, m, rfl, hm, hmm.1.symm, ?_⟩
        cases hc : m.capturedAt with
        | none => rfl
        | some c => simp [hc] at hmm
    · simp only [rowMatch, keyMatch, Bool.and_eq_true, beq_iff_eq, decide_eq_true_eq] at hm
      refine Or.inr ⟨r, hr, hm.1.1, hm.1.2.symm, ?_⟩
      cases hc : r.capturedAt with
      | none => rfl
      | some c => simp [hc] at hm
  · rintro (⟨inst, m, hi, hm, hk, hc⟩ | ⟨r, hr, hv, hk, hc⟩)
    · left
      simp only [hi, List.any_eq_true]
      exact ⟨m, hm, by simp [memMatch, keyMatch, hk, hc]⟩
    · right
      exact ⟨r, hr, by simp [rowMatch, keyMatch, hk, hc, hv]⟩

/-- the full-strength statement is FALSE of the code: a job scheduled in a transaction that
    rolled back is still reported as pending from the in-memory map (candidate defect Q;
    replayed on the real DefaultScheduler by the corpus case of props/C13.py) -/
theorem has_jobs_exact_full_fails :
    ¬ (∀ (cfg : Cfg) (n : Nat) (steps : List Step) (i k : Nat),
        hasJobs (run cfg (init n) steps) i (some k) (some false) = pendingTruth (run cfg (init n) steps) k) := by
  intro h
  have := h { pickup := 1, timeout := 1, batch := none } 1 [.schedule 0 1 7 0, .rollback 0] 0 7
  revert this
  decide

/-- restriction that holds: when every in-memory job of the instance that looks pending really
    is a committed, uncaptured row, the answer is exactly "a pending job with that key exists" -/
theorem has_jobs_exact_partial (s : State) (i k : Nat)
    (fresh : ∀ inst m, s.insts[i]? = some inst → m ∈ inst.inMem → m.capturedAt = none →
      ∃ r, s.rows[m.id]? = some r ∧ r.vis = .committed ∧ r.capturedAt = none ∧ r.key = m.key) :
    hasJobs s i (some k) (some false) = pendingTruth s k := by
  rw [Bool.eq_iff_iff, has_jobs_spec]
  unfold pendingTruth
  simp only [List.any_eq_true, Bool.and_eq_true, decide_eq_true_eq, beq_iff_eq, Option.isNone_iff_eq_none]
  constructor
  · rintro (⟨inst, m, hi, hm, hk, hc⟩ | ⟨r, hr, hv, hk, hc⟩)
    · obtain ⟨r, hr, hv, hcr, hkr⟩ := fresh inst m hi hm hc
      exact ⟨r, List.mem_of_getElem? hr, ⟨hv, by rw [hkr, hk]⟩, hcr⟩
    · exact ⟨r, hr, ⟨hv, hk⟩, hc⟩
  · rintro ⟨r, hr, ⟨hv, hk⟩, hc⟩
    exact Or.inr ⟨r, hr, hv, hk, hc⟩

-- non-vacuity of the partial statement: a committed, pending in-memory job
example : hasJobs (run { pickup := 1, timeout := 1, batch := none } (init 1) [.schedule 0 1 7 0, .commit 0]) 0 (some 7) (some false) = true
    ∧ pendingTruth (run { pickup := 1, timeout := 1, batch := none } (init 1) [.schedule 0 1 7 0, .commit 0]) 7 = true := by decide

/-! ### "invoked at least once": eventual invocation under weak fairness, ANY interleaving

Definitions (Lemmas/SchedLive.lean): `slack s j` = number of live instances whose store poll
does not currently hold `j` (+1 while captured_at of row `j` is still NULL: the single
in-memory dispatcher capture); `abandons cfg s steps` = number of `pollNext` steps in `steps`
whose delete fails (`_process_store_jobs` raises out of its loop and drops the rest of its
queue); `FairPass cfg j s p` = `p` starts with the `pollSelect` of a live idle instance at a
moment when `j` is invoked or satisfies the WHERE clause of `get_scheduled_jobs_to_start`
(execute_at + pickup_job_after and captured_at + captured_job_timeout have passed) and at the
end of `p` that instance is alive with an idle poll again — steps of any other instance,
crashes, ticks, schedules, dispatcher tasks may be interleaved anywhere inside `p`;
`FairPasses cfg j k s steps` = `steps` contains `k` disjoint fair passes separated by
arbitrary steps.  No batch limit (`cfg.batch = none`). -/

/-- One pass.  From any state satisfying the safety invariant (every reachable state does:
    `safe_reachable`): a complete store-poll pass of a live instance that starts when `j` is
    ready either has `j` invoked at its end, or has used up one unit of slack (somebody else
    won the CAS on `j` inside the pass: a dispatcher capture, or a poll of another live
    instance that now holds `j`, or the winner died) — up to the abandoned loops inside the
    pass.  Formalises "If the scheduler that captured a job dies, another instance runs it
    after the capture timeout" for one attempt of that other instance, under arbitrary
    interference. -/
theorem pass_progress (cfg : Cfg) (hb : cfg.batch = none) (s : State) (j : Nat) (hgood : j ∉ cfg.bad)
    (p : List Step) (hs : Safe cfg s) (hp : FairPass cfg j s p) :
    Invoked (run cfg s p) j ∨ slack (run cfg s p) j + 1 ≤ slack s j + abandons cfg s p :=
  pass_step cfg hb j hgood s p hs hp

/-- Eventual invocation.  "A job scheduled inside a transaction that commits is invoked at
    least once … If the scheduler that captured a job dies, another instance runs it after
    the capture timeout": for every reachable state (`pre` arbitrary) in which row `j` is
    committed, and every continuation `rest` — arbitrary interleaving of all instances,
    crashes, ticks, further schedules — that contains `k ≥ 1` fair passes (weak fairness: some
    live instance keeps completing store polls that start after the job is due / its capture
    has timed out), where `k` is at least the slack of the state plus the number of abandoned
    poll loops in `rest`: the job is invoked. -/
theorem eventual_invocation (cfg : Cfg) (hb : cfg.batch = none) (n : Nat) (pre rest : List Step)
    (j : Nat) (hgood : j ∉ cfg.bad) (r : Row)
    (hr : (run cfg (init n) pre).rows[j]? = some r) (hv : r.vis = .committed)
    (k : Nat) (hk : 1 ≤ k)
    (hf : FairPasses cfg j k (run cfg (init n) pre) rest)
    (hbound : slack (run cfg (init n) pre) j + abandons cfg (run cfg (init n) pre) rest ≤ k) :
    ∃ t x, Ev.invoked j t x ∈ (run cfg (init n) (pre ++ rest)).trace := by
  rw [run_append]
  rcases fairPasses_bound cfg hb j hgood hf (safe_reachable cfg n pre) ⟨r, hr, Or.inl hv⟩ with h | h | h
  · exact h
  · omega
  · omega

/-- The same with the state-independent bound: slack never exceeds the number of instances
    plus one, so `n + 1 +` (abandoned poll loops in `rest`) fair passes are always enough. -/
theorem eventual_invocation_instances (cfg : Cfg) (hb : cfg.batch = none) (n : Nat)
    (pre rest : List Step) (j : Nat) (hgood : j ∉ cfg.bad) (r : Row)
    (hr : (run cfg (init n) pre).rows[j]? = some r) (hv : r.vis = .committed)
    (k : Nat)
    (hf : FairPasses cfg j k (run cfg (init n) pre) rest)
    (hbound : n + 1 + abandons cfg (run cfg (init n) pre) rest ≤ k) :
    ∃ t x, Ev.invoked j t x ∈ (run cfg (init n) (pre ++ rest)).trace := by
  have h1 := slack_le (run cfg (init n) pre) j
  rw [run_insts_length] at h1
  exact eventual_invocation cfg hb n pre rest j hgood r hr hv k (by omega) hf (by omega)

-- non-vacuity 1: instance 0 captures job 0 through its dispatcher and dies; slack is then 1
-- (one live instance, row captured); one fair pass of instance 1 after the timeout
example : ∃ t x, Ev.invoked 0 t x ∈ (run { pickup := 2, timeout := 3, batch := none } (init 2)
    ([.schedule 0 1 7 0, .commit 0, .tick 1, .pop 0, .task 0 0, .crash 0, .tick 4] ++
     [.pollSelect 1, .pollCapture 1, .pollNext 1, .pollNext 1])).trace := by
  refine eventual_invocation { pickup := 2, timeout := 3, batch := none } rfl 2 _ _ 0 (by decide)
    { executeAt := 1, capturedAt := some 1, key := 7, vis := .committed } (by decide) rfl 1 (by decide) ?_ (by decide)
  refine FairPasses.succ 0 _ [] [.pollSelect 1, .pollCapture 1, .pollNext 1, .pollNext 1] [] ?_
    (FairPasses.zero _ _)
  exact ⟨1, _, _, _, rfl, rfl, rfl, rfl, Or.inr ⟨_, rfl, by decide⟩, rfl, rfl, rfl⟩

-- non-vacuity 2, a lost race: instances 1 and 2 both select, 2 captures and crashes, the
-- capture of 1 fails (pass 1 complete, job not invoked); after the timeout 1 passes again
-- and invokes; a third (no-op) pass meets the bound slack = 3 (two live instances + NULL
-- captured_at)
example : ∃ t x, Ev.invoked 0 t x ∈ (run { pickup := 2, timeout := 3, batch := none } (init 3)
    ([.schedule 0 1 7 0, .commit 0, .crash 0, .tick 4] ++
     [.pollSelect 1, .pollSelect 2, .pollCapture 2, .crash 2, .pollCapture 1, .tick 3,
      .pollSelect 1, .pollCapture 1, .pollNext 1, .pollNext 1, .pollSelect 1, .pollCapture 1])).trace := by
  refine eventual_invocation { pickup := 2, timeout := 3, batch := none } rfl 3 _ _ 0 (by decide)
    { executeAt := 1, capturedAt := none, key := 7, vis := .committed } (by decide) rfl 3 (by decide) ?_ (by decide)
  refine FairPasses.succ 2 _ [] [.pollSelect 1, .pollSelect 2, .pollCapture 2, .crash 2, .pollCapture 1]
    [.tick 3, .pollSelect 1, .pollCapture 1, .pollNext 1, .pollNext 1, .pollSelect 1, .pollCapture 1] ?_ ?_
  · exact ⟨1, _, _, _, rfl, rfl, rfl, rfl, Or.inr ⟨_, rfl, by decide⟩, rfl, rfl, rfl⟩
  refine FairPasses.succ 1 _ [.tick 3] [.pollSelect 1, .pollCapture 1, .pollNext 1, .pollNext 1]
    [.pollSelect 1, .pollCapture 1] ?_ ?_
  · exact ⟨1, _, _, _, rfl, rfl, rfl, rfl, Or.inr ⟨_, rfl, by decide⟩, rfl, rfl, rfl⟩
  refine FairPasses.succ 0 _ [] [.pollSelect 1, .pollCapture 1] [] ?_ (FairPasses.zero _ _)
  exact ⟨1, _, _, _, rfl, rfl, rfl, rfl, Or.inl ⟨7, 1, by decide⟩, rfl, rfl, rfl⟩

-- the first pass of non-vacuity 2 really is a lost race: nothing invoked at its end, and
-- `pass_progress` accounts for it by slack 3 → 1
example : (run { pickup := 2, timeout := 3, batch := none } (init 3)
    [.schedule 0 1 7 0, .commit 0, .crash 0, .tick 4,
     .pollSelect 1, .pollSelect 2, .pollCapture 2, .crash 2, .pollCapture 1]).trace = [.captured 0 4 2]
    ∧ slack (run { pickup := 2, timeout := 3, batch := none } (init 3)
        [.schedule 0 1 7 0, .commit 0, .crash 0, .tick 4]) 0 = 3
    ∧ slack (run { pickup := 2, timeout := 3, batch := none } (init 3)
        [.schedule 0 1 7 0, .commit 0, .crash 0, .tick 4,
         .pollSelect 1, .pollSelect 2, .pollCapture 2, .crash 2, .pollCapture 1]) 0 = 1 := by decide

/-! ### a job that cannot be prepared (`cfg.bad`: target function / argument serializer not
    importable, `_prepare_job` raises) neither runs nor keeps other jobs from running

Model of the code after `fix: a scheduled job that can't be prepared doesn't starve other jobs`:
`_prepare_and_invoke_job` logs the failure and returns, the caller deletes the job.  Before the fix
the exception left the loop of `_process_store_jobs` (the jobs captured behind the broken one were
abandoned and, recaptured behind it after every timeout, starved) and, in `_process_memory_job`,
left the job captured to be retried for ever.  `eventual_invocation` above holds for EVERY job
`j ∉ cfg.bad`, whatever `cfg.bad` is: un-preparable jobs anywhere in the store, in front of `j`
in every poll queue, do not cost a single extra pass. -/

/-- an un-preparable job is never invoked (it is logged and dropped) -/
theorem unpreparable_never_invoked (cfg : Cfg) (n : Nat) (steps : List Step) (j : Nat) (hbad : j ∈ cfg.bad)
    (t i : Nat) : Ev.invoked j t i ∉ (run cfg (init n) steps).trace :=
  fun h => noBad_reachable cfg n steps j t i h hbad

/-- the store-poll loop is not left at an un-preparable head: the next three steps of the loop
    (prepare fails + logged, delete, prepare + invoke of the next job) remove the broken job `a`
    from the store and invoke the job `b` captured behind it — "A job scheduled inside a transaction
    that commits is invoked at least once", for the jobs that share a poll with a broken one -/
theorem unpreparable_head_does_not_block (cfg : Cfg) (s : State) (i a b : Nat) (q : List Nat) (inst : Inst)
    (r : Row) (hi : s.insts[i]? = some inst) (ha : inst.alive = true)
    (hp : inst.poll = .running (a :: b :: q) false) (hbad : a ∈ cfg.bad) (hgood : b ∉ cfg.bad)
    (hr : s.rows[a]? = some r) (hv : r.vis = .committed) :
    Ev.invoked b s.clock i ∈ (run cfg s [.pollNext i, .pollNext i, .pollNext i]).trace ∧
      (run cfg s [.pollNext i, .pollNext i, .pollNext i]).rows[a]? = some { r with vis := .deleted } := by
  have hlt : i < s.insts.length := (List.getElem?_eq_some_iff.mp hi).1
  have hla : a < s.rows.length := (List.getElem?_eq_some_iff.mp hr).1
  have hdel : del s.rows a = some (s.rows.set a { r with vis := .deleted }) := by
    simp [del, hr, hv]
  -- 1: prepare of `a` fails, logged; the loop goes on to the delete
  have h1 := pollNext_bad_head cfg s i a (b :: q) inst hi ha hp hbad
  have hi1 : (setInst s i { inst with poll := .running (a :: b :: q) true }).insts[i]? =
      some { inst with poll := .running (a :: b :: q) true } := List.getElem?_set_self hlt
  -- 2: delete of `a`
  have h2 := pollNext_delete cfg _ i a (b :: q) _ _ hi1 ha rfl hdel
  -- 3: prepare + invoke of `b`
  have key : ∀ (S : State) (X : Inst), S.insts[i]? = some X → X.alive = true →
      X.poll = .running (b :: q) false →
      Ev.invoked b S.clock i ∈ (step cfg S (.pollNext i)).trace ∧ (step cfg S (.pollNext i)).rows = S.rows := by
    intro S X g1 g2 g3
    rw [pollNext_good_head cfg S i b q X g1 g2 g3 hgood]
    simp
  simp only [run]
  rw [h1, h2]
  have hl2 : i < (setInst s i { inst with poll := .running (a :: b :: q) true }).insts.length := by
    simpa [setInst] using hlt
  refine ⟨(key _ { inst with poll := if b :: q = [] then .idle else .running (b :: q) false } ?_ ?_ ?_).1,
    Eq.trans (congrArg (fun rs => rs[a]?)
      (key _ { inst with poll := if b :: q = [] then .idle else .running (b :: q) false } ?_ ?_ ?_).2) ?_⟩
  · exact List.getElem?_set_self hl2
  · exact ha
  · simp
  · exact List.getElem?_set_self hl2
  · exact ha
  · simp
  · simp [hla]

-- non-vacuity / regression (the former starvation witness): job 0 cannot be prepared, job 1 is
-- valid, both are picked up by the store poll of instance 1 with job 0 in front: job 1 is invoked
-- by that very pass (slack 2: one live instance + never captured; the second pass is a no-op)
example : ∃ t x, Ev.invoked 1 t x ∈ (run { pickup := 1, timeout := 2, batch := none, bad := [0] } (init 2)
    ([.schedule 0 0 7 0, .schedule 0 1 7 1, .commit 0, .commit 1, .crash 0, .tick 3] ++
     [.pollSelect 1, .pollCapture 1, .pollNext 1, .pollNext 1, .pollNext 1, .pollNext 1,
      .pollSelect 1, .pollCapture 1])).trace := by
  refine eventual_invocation { pickup := 1, timeout := 2, batch := none, bad := [0] } rfl 2 _ _ 1 (by decide)
    { executeAt := 1, capturedAt := none, key := 7, vis := .committed } (by decide) rfl 2 (by decide) ?_ (by decide)
  refine FairPasses.succ 1 _ [] [.pollSelect 1, .pollCapture 1, .pollNext 1, .pollNext 1, .pollNext 1, .pollNext 1]
    [.pollSelect 1, .pollCapture 1] ?_ ?_
  · exact ⟨1, _, _, _, rfl, rfl, rfl, rfl, Or.inr ⟨_, rfl, by decide⟩, rfl, rfl, rfl⟩
  refine FairPasses.succ 0 _ [] [.pollSelect 1, .pollCapture 1] [] ?_ (FairPasses.zero _ _)
  exact ⟨1, _, _, _, rfl, rfl, rfl, rfl, Or.inl ⟨3, 1, by decide⟩, rfl, rfl, rfl⟩

-- … and what the trace of that pass is: the broken job is captured and deleted, never invoked;
-- the in-memory path drops a broken job in the same way (capture, no invocation, delete)
example : (run { pickup := 1, timeout := 2, batch := none, bad := [0] } (init 2)
    [.schedule 0 0 7 0, .schedule 0 1 7 1, .commit 0, .commit 1, .crash 0, .tick 3,
     .pollSelect 1, .pollCapture 1, .pollNext 1, .pollNext 1, .pollNext 1, .pollNext 1]).trace =
    [.deleted 1 3 1, .invoked 1 3 1, .deleted 0 3 1, .captured 1 3 1, .captured 0 3 1] ∧
  (run { pickup := 1, timeout := 2, batch := none, bad := [0] } (init 1)
    [.schedule 0 0 7 0, .commit 0, .pop 0, .task 0 0, .task 0 0, .task 0 0]).trace =
    [.deleted 0 0 0, .captured 0 0 0] := by decide

end Mistral.Props.C13
