/- C14, schema level.  Property: "For any text submitted as a workflow, workbook or action definition,
   validation either accepts it or rejects it with a definition error; it never fails with an internal
   error …  An accepted definition re-read from its stored form is the same definition (tasks,
   transitions, policies, inputs)".

   The schemas are the GENERATED ones (Gen/LangSchemas.lean = the real `get_schema()` of every concrete
   spec class, regenerated on every run); `accepts s j` = `BaseSpec.validate_schema` does not raise
   (Model/Schema.lean, tied to the real jsonschema by the stream `schema`).

   (a) Totality of the schema check is by construction: `validate` is a structurally recursive total
       function (no fuel: the schemas have no `$ref`), and its only exceptional outcome — the TypeError
       of a non-string key under `patternProperties` — is part of its result (`Out.crash`), which
       `validate_schema` turns into a definition error.
   (b) `*_accept_shape`: what a value accepted by the schema of a spec class looks like — exactly the
       facts the constructor (`__init__`) of that class relies on without checking, so that it cannot hit
       a TypeError / KeyError / AttributeError on an accepted value.  Real-code counterpart: stream
       `schema-ctor`.
   (c) composition facts of the interpreter used for (b). -/
import Mistral.Lemmas.SchemaFrags
open Mistral.Schema Mistral.Gen.LangSchemas
namespace Mistral.Props.C14Schema

/-! ## (c) composition -/

/-- (c) "a merged schema accepts only what both parts accept": a schema is a conjunction of its
    keywords, so the keywords a subclass adds can only shrink the accepted set. -/
theorem accepts_more_keywords (kws more : List Kw) (j : JVal) :
    accepts (.mk (kws ++ more)) j = (accepts (.mk kws) j && accepts (.mk more) j) :=
  accepts_append_iff kws more j

example : accepts (.mk ([.type [.string]] ++ [.minLength 1])) (.str "a") = true := by decide

/-- (c) `allOf` accepts exactly the values every branch accepts. -/
theorem accepts_allOf_iff (ss : List Schema) (j : JVal) :
    accepts (.mk [.allOf ss]) j = true ↔ ∀ s ∈ ss, accepts s j = true := by
  rw [accepts_mk]
  simp only [List.all_cons, List.all_nil, Bool.and_true]
  exact allOf_iff ss j

example : accepts (.mk [.allOf [NONEMPTY_STRING, EXPRESSION]]) (.str "<% 1 %>") = true := by decide

/-- (c) `anyOf` / `oneOf` accepted: some branch accepts the value. -/
theorem accepts_anyOf_some {ss : List Schema} {j : JVal} (h : accepts (.mk [.anyOf ss]) j = true) :
    ∃ s ∈ ss, accepts s j = true := by
  rw [accepts_mk] at h
  simp only [List.all_cons, List.all_nil, Bool.and_true, validateKw] at h
  exact anyOf_some h

example : accepts (.mk [.anyOf [NONEMPTY_STRING, POSITIVE_INTEGER, POSITIVE_NUMBER]]) (.flt (.fin 5 2)) = true := by decide

theorem accepts_oneOf_some {ss : List Schema} {j : JVal} (h : accepts (.mk [.oneOf ss]) j = true) :
    ∃ s ∈ ss, accepts s j = true := by
  rw [accepts_mk] at h
  simp only [List.all_cons, List.all_nil, Bool.and_true, validateKw] at h
  exact oneOf_some h

example : accepts (.mk [.oneOf [NONEMPTY_STRING, UNIQUE_STRING_LIST]]) (.arr [.str "a", .str "b"]) = true := by decide

/-- (c) `oneOf` accepted: two branches at different positions never both accept the value. -/
theorem accepts_oneOf_exclusive {pre mid post : List Schema} {a b : Schema} {j : JVal}
    (h : accepts (.mk [.oneOf (pre ++ a :: mid ++ b :: post)]) j = true) (ha : accepts a j = true) :
    accepts b j = false := by
  rw [accepts_mk] at h
  simp only [List.all_cons, List.all_nil, Bool.and_true, validateKw] at h
  exact oneOf_two h rfl ha

example : accepts (.mk [.oneOf ([] ++ EXPRESSION :: [] ++ POSITIVE_INTEGER :: [])]) (.int 3) = true := by decide

/-- (a) a non-string key below a `patternProperties` is a rejection (the TypeError of `re.search`
    that `validate_schema` converts), never an acceptance. -/
theorem non_string_key_rejected (p : Re × Schema) (ps : List (Re × Schema)) (more : List Kw)
    (kvs : List (Key × JVal)) (r : String) (v : JVal) (hk : (Key.ns r, v) ∈ kvs) :
    accepts (.mk (.patternProperties (p :: ps) :: more)) (.obj kvs) = false := by
  cases h : accepts (.mk (.patternProperties (p :: ps) :: more)) (.obj kvs) with
  | false => rfl
  | true =>
    obtain ⟨name, hn⟩ := patternProperties_keys (accepts_kw h (List.mem_cons_self ..)) hk
    cases hn

example : accepts NONEMPTY_DICT (.obj [(.s "a", .null), (.ns "n:1", .null)]) = false := by decide
example : (validate NONEMPTY_DICT (.obj [(.s "a", .null), (.ns "n:1", .null)])).crash = true := by decide

/-! ## (b) workflows -/

/-- what `WorkflowSpec.__init__` reads from an accepted workflow dict. -/
structure WorkflowShape (kvs : List (Key × JVal)) : Prop where
  /-- `for task in self._data.get('tasks').values(): task['type'] = …` -/
  tasks : ∃ t, lookup "tasks" kvs = some t ∧ TasksShape t
  /-- the polymorphic key is one of the two strings (hashable, a known class) -/
  type : ∀ v, lookup "type" kvs = some v → v = .str "reverse" ∨ v = .str "direct"
  /-- `utils.get_dict_from_entries(data.get('input', []))` -/
  input : ∀ v, lookup "input" kvs = some v → InputList v
  /-- `task-defaults` goes to TaskDefaultsSpec; `output` / `vars` to `validate_expr` (dict.values()) -/
  dicts : ∀ k ∈ ["task-defaults", "output", "output-on-error", "vars"], ∀ v, lookup k kvs = some v → StrKeyDict v
  tags : ∀ v, lookup "tags" kvs = some v → NonEmptyStrList v

theorem workflow_shape_of {S : Schema} {kvs : List (Key × JVal)} (h : accepts S (.obj kvs) = true)
    (hreq : Kw.required ["tasks"] ∈ S.kws)
    (hsub : ∀ p ∈ [("tasks", P_tasks), ("type", WORKFLOW_TYPE), ("task-defaults", NONEMPTY_DICT),
      ("input", UNIQUE_STRING_OR_ONE_KEY_DICT_LIST), ("output", NONEMPTY_DICT), ("output-on-error", NONEMPTY_DICT),
      ("vars", NONEMPTY_DICT), ("tags", UNIQUE_STRING_LIST)], p ∈ S.props) : WorkflowShape kvs := by
  constructor
  · obtain ⟨t, ht⟩ := required_present (accepts_kw' h hreq) (k := "tasks") (by simp)
    exact ⟨t, ht, prop_shape h (hsub _ (by simp)) (fun _ => frag_P_tasks) ht⟩
  · exact fun v hv => prop_shape h (hsub _ (by simp)) (fun _ => frag_WORKFLOW_TYPE) hv
  · exact fun v hv => prop_shape h (hsub _ (by simp)) (fun _ => frag_UNIQUE_STRING_OR_ONE_KEY_DICT_LIST) hv
  · intro k hk v hv
    simp only [List.mem_cons, List.mem_nil_iff, or_false] at hk
    rcases hk with rfl | rfl | rfl | rfl <;>
      exact prop_shape h (hsub _ (by simp)) (fun _ => frag_NONEMPTY_DICT) hv
  · exact fun v hv => prop_shape h (hsub _ (by simp)) (fun _ => frag_UNIQUE_STRING_LIST) hv

/-- (b) DirectWorkflowSpec: an accepted workflow dict has a non-empty `tasks` dict whose keys are
    strings and whose values are non-empty dicts, a `type` that is "direct" / "reverse", … -/
theorem direct_workflow_accept_shape {kvs : List (Key × JVal)}
    (h : accepts DirectWorkflowSpec (.obj kvs) = true) : WorkflowShape kvs :=
  workflow_shape_of h (by simp [DirectWorkflowSpec, Schema.kws]) (by simp [DirectWorkflowSpec, Schema.props])

example : accepts DirectWorkflowSpec (.obj [(.s "name", .str "wf"), (.s "type", .str "direct"),
    (.s "input", .arr [.str "a", .obj [(.s "b", .int 1)]]),
    (.s "tasks", .obj [(.s "t1", .obj [(.s "action", .str "std.noop")]), (.s "my-task", .obj [(.s "join", .str "all")])])]) = true := by
  decide

/-- (b) ReverseWorkflowSpec: the same facts. -/
theorem reverse_workflow_accept_shape {kvs : List (Key × JVal)}
    (h : accepts ReverseWorkflowSpec (.obj kvs) = true) : WorkflowShape kvs :=
  workflow_shape_of h (by simp [ReverseWorkflowSpec, Schema.kws]) (by simp [ReverseWorkflowSpec, Schema.props])

example : accepts ReverseWorkflowSpec (.obj [(.s "type", .str "reverse"),
    (.s "tasks", .obj [(.s "t1", .obj [(.s "requires", .arr [.str "t2"])])])]) = true := by decide

/-- the merged workflow schema has no `type: object` (the `_schema` of the two concrete classes has
    none and `_meta_schema`'s is not merged): a non-dict is accepted by the schema; it is
    `instantiate_spec`'s `isinstance(data, dict)` that rejects it.  Hence the `.obj` in the theorems. -/
theorem workflow_schema_accepts_non_dict : accepts DirectWorkflowSpec (.str "x") = true := by decide

/-! ## (b) tasks -/

def taskCommonProps : List (String × Schema) :=
  [("action", NONEMPTY_STRING), ("workflow", NONEMPTY_STRING), ("input", P_input),
   ("with-items", P_requires__with_items), ("publish", NONEMPTY_DICT), ("publish-on-error", NONEMPTY_DICT),
   ("publish-on-skip", NONEMPTY_DICT), ("retry", RetrySpec), ("wait-before", EXPRESSION_OR_POSITIVE_INTEGER),
   ("wait-after", EXPRESSION_OR_POSITIVE_INTEGER), ("timeout", EXPRESSION_OR_POSITIVE_INTEGER),
   ("pause-before", EXPRESSION_OR_BOOLEAN), ("concurrency", EXPRESSION_OR_POSITIVE_INTEGER),
   ("fail-on", EXPRESSION_OR_BOOLEAN), ("target", NONEMPTY_STRING), ("keep-result", EXPRESSION_OR_BOOLEAN),
   ("safe-rerun", EXPRESSION_OR_BOOLEAN), ("name", NONEMPTY_STRING), ("version", VERSION),
   ("description", NONEMPTY_STRING), ("tags", UNIQUE_STRING_LIST)]

/-- what `TaskSpec.__init__` (and `validate_schema`, `_validate_name`, `_get_with_items_as_dict`,
    `_process_action_and_workflow`, `_group_spec(PoliciesSpec, …)`) reads from an accepted task dict. -/
structure TaskShape (kvs : List (Key × JVal)) : Prop where
  /-- `len(task_name)` -/
  name : ∃ n, lookup "name" kvs = some n ∧ NonEmptyStr n
  version : ∃ v, lookup "version" kvs = some v ∧ (NonEmptyStr v ∨ NonNegNum v)
  /-- `_parse_cmd_and_input(action or workflow)`: at most one of them, a non-empty string -/
  notBoth : ¬ (hasKey "action" kvs = true ∧ hasKey "workflow" kvs = true)
  strs : ∀ k ∈ ["action", "workflow", "target", "description"], ∀ v, lookup k kvs = some v → NonEmptyStr v
  /-- `merge_dicts(self._input, params)`; an expression string is refused explicitly when there are inline parameters -/
  input : ∀ v, lookup "input" kvs = some v → StrKeyDict v ∨ NonEmptyStr v
  /-- `_get_with_items_as_dict`: a string or a list of strings -/
  withItems : ∀ v, lookup "with-items" kvs = some v → NonEmptyStr v ∨ NonEmptyStrList v
  /-- `validate_expr(dict)`, `PublishSpec({'branch': …})` -/
  publish : ∀ k ∈ ["publish", "publish-on-error", "publish-on-skip"], ∀ v, lookup k kvs = some v → StrKeyDict v
  /-- `RetrySpec`: the dict with `delay` and `count`, or the one-line string -/
  retry : ∀ v, lookup "retry" kvs = some v → RetryShape v
  nats : ∀ k ∈ ["wait-before", "wait-after", "timeout", "concurrency"], ∀ v, lookup k kvs = some v → ExprOrNat v
  bools : ∀ k ∈ ["pause-before", "fail-on", "keep-result", "safe-rerun"], ∀ v, lookup k kvs = some v → ExprOrBool v
  tags : ∀ v, lookup "tags" kvs = some v → NonEmptyStrList v

theorem task_shape_of {S : Schema} {kvs : List (Key × JVal)} (h : accepts S (.obj kvs) = true)
    (hreq : Kw.required ["name", "version"] ∈ S.kws) (hxor : actionXorWorkflow ∈ S.kws)
    (hsub : ∀ p ∈ taskCommonProps, p ∈ S.props) : TaskShape kvs := by
  have sub : ∀ {k frag}, (k, frag) ∈ taskCommonProps → (k, frag) ∈ S.props := fun hm => hsub _ hm
  refine ⟨?_, ?_, not_both (accepts_kw' h hxor), ?_, ?_, ?_, ?_, ?_, ?_, ?_, ?_⟩
  · obtain ⟨n, hn⟩ := required_present (accepts_kw' h hreq) (k := "name") (by simp)
    exact ⟨n, hn, prop_shape h (sub (by simp [taskCommonProps])) (fun _ => frag_NONEMPTY_STRING) hn⟩
  · obtain ⟨v, hv⟩ := required_present (accepts_kw' h hreq) (k := "version") (by simp)
    exact ⟨v, hv, prop_shape h (sub (by simp [taskCommonProps])) (fun _ => frag_VERSION) hv⟩
  · intro k hk v hv
    simp only [List.mem_cons, List.mem_nil_iff, or_false] at hk
    rcases hk with rfl | rfl | rfl | rfl <;>
      exact prop_shape h (sub (by simp [taskCommonProps])) (fun _ => frag_NONEMPTY_STRING) hv
  · exact fun v hv => prop_shape h (sub (by simp [taskCommonProps])) (fun _ => frag_P_input) hv
  · exact fun v hv => prop_shape h (sub (by simp [taskCommonProps])) (fun _ => frag_P_requires__with_items) hv
  · intro k hk v hv
    simp only [List.mem_cons, List.mem_nil_iff, or_false] at hk
    rcases hk with rfl | rfl | rfl <;>
      exact prop_shape h (sub (by simp [taskCommonProps])) (fun _ => frag_NONEMPTY_DICT) hv
  · exact fun v hv => prop_shape h (sub (by simp [taskCommonProps])) (fun _ => frag_RetrySpec) hv
  · intro k hk v hv
    simp only [List.mem_cons, List.mem_nil_iff, or_false] at hk
    rcases hk with rfl | rfl | rfl | rfl <;>
      exact prop_shape h (sub (by simp [taskCommonProps])) (fun _ => frag_EXPRESSION_OR_POSITIVE_INTEGER) hv
  · intro k hk v hv
    simp only [List.mem_cons, List.mem_nil_iff, or_false] at hk
    rcases hk with rfl | rfl | rfl | rfl <;>
      exact prop_shape h (sub (by simp [taskCommonProps])) (fun _ => frag_EXPRESSION_OR_BOOLEAN) hv
  · exact fun v hv => prop_shape h (sub (by simp [taskCommonProps])) (fun _ => frag_UNIQUE_STRING_LIST) hv

def directTaskKeys : List String :=
  ["type", "action", "workflow", "input", "with-items", "publish", "publish-on-error", "publish-on-skip", "retry",
   "wait-before", "wait-after", "timeout", "pause-before", "concurrency", "fail-on", "target", "keep-result",
   "safe-rerun", "join", "on-complete", "on-success", "on-error", "on-skip", "name", "version", "description", "tags"]

/-- (b) DirectWorkflowTaskSpec: an accepted task is a dict whose keys are strings among the declared
    ones, with the common task facts, `type` "direct", `join` "all" / "one" / a non-negative integer and
    on-clauses of exactly the forms `OnClauseSpec.__init__` / `prepare_next_clause` handle. -/
theorem direct_task_accept_shape {j : JVal} (h : accepts DirectWorkflowTaskSpec j = true) :
    ∃ kvs, j = .obj kvs ∧ KeysIn directTaskKeys kvs ∧ TaskShape kvs ∧
      (∀ v, lookup "type" kvs = some v → v = .str "direct") ∧
      (∀ v, lookup "join" kvs = some v → JoinShape v) ∧
      (∀ k ∈ ["on-complete", "on-success", "on-error", "on-skip"], ∀ v, lookup k kvs = some v → OnClauseShape v) := by
  obtain ⟨kvs, rfl⟩ := type_object (accepts_kw' h (k := .type [.object]) (by simp [DirectWorkflowTaskSpec, Schema.kws]))
  refine ⟨kvs, rfl, ?_, ?_, ?_, ?_, ?_⟩
  · exact keysIn_of (accepts_kw' h (by simp [DirectWorkflowTaskSpec, Schema.kws, directTaskKeys]))
  · exact task_shape_of h (by simp [DirectWorkflowTaskSpec, Schema.kws])
      (by simp [DirectWorkflowTaskSpec, Schema.kws, actionXorWorkflow])
      (by simp [DirectWorkflowTaskSpec, Schema.props, taskCommonProps])
  · intro v hv
    have := accepts_prop h (k := "type") (sub := P_DirectWorkflowTaskSpec_type)
      (by simp [DirectWorkflowTaskSpec, Schema.props]) hv
    unfold P_DirectWorkflowTaskSpec_type at this
    open_schema this
    simp only [validateKw, Out.clean_check, List.any_cons, List.any_nil, Bool.or_false] at this
    exact enum_str this
  · exact fun v hv => prop_shape h (by simp [DirectWorkflowTaskSpec, Schema.props]) (fun _ => frag_P_join) hv
  · intro k hk v hv
    simp only [List.mem_cons, List.mem_nil_iff, or_false] at hk
    rcases hk with rfl | rfl | rfl | rfl <;>
      exact prop_shape h (by simp [DirectWorkflowTaskSpec, Schema.props]) (fun _ => frag_OnClauseSpec) hv

example : accepts DirectWorkflowTaskSpec (.obj [(.s "name", .str "t1"), (.s "version", .str "2.0"),
    (.s "type", .str "direct"), (.s "action", .str "std.echo output=1"), (.s "join", .int 2),
    (.s "retry", .obj [(.s "count", .int 3), (.s "delay", .str "<% $.d %>")]),
    (.s "on-success", .arr [.str "t2", .obj [(.s "t3", .str "<% $.x %>")]]),
    (.s "on-error", .obj [(.s "next", .str "fail msg=1"), (.s "publish", .obj [(.s "branch", .obj [(.s "a", .int 1)])])])]) = true := by
  decide

def reverseTaskKeys : List String :=
  ["type", "action", "workflow", "input", "with-items", "publish", "publish-on-error", "publish-on-skip", "retry",
   "wait-before", "wait-after", "timeout", "pause-before", "concurrency", "fail-on", "target", "keep-result",
   "safe-rerun", "requires", "name", "version", "description", "tags"]

/-- (b) ReverseWorkflowTaskSpec: the common task facts, `type` "reverse", `requires` a non-empty
    string or a non-empty list of non-empty strings (`get_requires`). -/
theorem reverse_task_accept_shape {j : JVal} (h : accepts ReverseWorkflowTaskSpec j = true) :
    ∃ kvs, j = .obj kvs ∧ KeysIn reverseTaskKeys kvs ∧ TaskShape kvs ∧
      (∀ v, lookup "type" kvs = some v → v = .str "reverse") ∧
      (∀ v, lookup "requires" kvs = some v → NonEmptyStr v ∨ NonEmptyStrList v) := by
  obtain ⟨kvs, rfl⟩ := type_object (accepts_kw' h (k := .type [.object]) (by simp [ReverseWorkflowTaskSpec, Schema.kws]))
  refine ⟨kvs, rfl, ?_, ?_, ?_, ?_⟩
  · exact keysIn_of (accepts_kw' h (by simp [ReverseWorkflowTaskSpec, Schema.kws, reverseTaskKeys]))
  · exact task_shape_of h (by simp [ReverseWorkflowTaskSpec, Schema.kws])
      (by simp [ReverseWorkflowTaskSpec, Schema.kws, actionXorWorkflow])
      (by simp [ReverseWorkflowTaskSpec, Schema.props, taskCommonProps])
  · intro v hv
    have := accepts_prop h (k := "type") (sub := P_ReverseWorkflowTaskSpec_type)
      (by simp [ReverseWorkflowTaskSpec, Schema.props]) hv
    unfold P_ReverseWorkflowTaskSpec_type at this
    open_schema this
    simp only [validateKw, Out.clean_check, List.any_cons, List.any_nil, Bool.or_false] at this
    exact enum_str this
  · exact fun v hv => prop_shape h (by simp [ReverseWorkflowTaskSpec, Schema.props])
      (fun _ => frag_P_requires__with_items) hv

example : accepts ReverseWorkflowTaskSpec (.obj [(.s "name", .str "t1"), (.s "version", .flt (.fin 2 1)),
    (.s "type", .str "reverse"), (.s "workflow", .str "sub"), (.s "requires", .arr [.str "t0"]),
    (.s "with-items", .str "i in <% $.xs %>")]) = true := by decide

/-! ## (b) task-defaults, policies, retry, on-clause, publish -/

def policyProps : List (String × Schema) :=
  [("retry", RetrySpec), ("wait-before", EXPRESSION_OR_POSITIVE_INTEGER), ("wait-after", EXPRESSION_OR_POSITIVE_INTEGER),
   ("timeout", EXPRESSION_OR_POSITIVE_INTEGER), ("pause-before", EXPRESSION_OR_BOOLEAN),
   ("concurrency", EXPRESSION_OR_POSITIVE_INTEGER), ("fail-on", EXPRESSION_OR_BOOLEAN)]

/-- what `PoliciesSpec.__init__` reads (`_spec_property('retry', RetrySpec)`, the `data.get(…)`). -/
structure PolicyShape (kvs : List (Key × JVal)) : Prop where
  retry : ∀ v, lookup "retry" kvs = some v → RetryShape v
  nats : ∀ k ∈ ["wait-before", "wait-after", "timeout", "concurrency"], ∀ v, lookup k kvs = some v → ExprOrNat v
  bools : ∀ k ∈ ["pause-before", "fail-on"], ∀ v, lookup k kvs = some v → ExprOrBool v

theorem policy_shape_of {S : Schema} {kvs : List (Key × JVal)} (h : accepts S (.obj kvs) = true)
    (hsub : ∀ p ∈ policyProps, p ∈ S.props) : PolicyShape kvs := by
  have sub : ∀ {k frag}, (k, frag) ∈ policyProps → (k, frag) ∈ S.props := fun hm => hsub _ hm
  refine ⟨?_, ?_, ?_⟩
  · exact fun v hv => prop_shape h (sub (by simp [policyProps])) (fun _ => frag_RetrySpec) hv
  · intro k hk v hv
    simp only [List.mem_cons, List.mem_nil_iff, or_false] at hk
    rcases hk with rfl | rfl | rfl | rfl <;>
      exact prop_shape h (sub (by simp [policyProps])) (fun _ => frag_EXPRESSION_OR_POSITIVE_INTEGER) hv
  · intro k hk v hv
    simp only [List.mem_cons, List.mem_nil_iff, or_false] at hk
    rcases hk with rfl | rfl <;>
      exact prop_shape h (sub (by simp [policyProps])) (fun _ => frag_EXPRESSION_OR_BOOLEAN) hv

def policyKeys : List String :=
  ["retry", "wait-before", "wait-after", "timeout", "pause-before", "concurrency", "fail-on", "name", "version",
   "description", "tags"]

/-- (b) PoliciesSpec: a dict with declared string keys, `retry` of the two accepted forms, delays /
    timeout / concurrency an expression string or a non-negative integer, flags an expression string or a bool. -/
theorem policies_accept_shape {j : JVal} (h : accepts PoliciesSpec j = true) :
    ∃ kvs, j = .obj kvs ∧ KeysIn policyKeys kvs ∧ PolicyShape kvs := by
  obtain ⟨kvs, rfl⟩ := type_object (accepts_kw' h (k := .type [.object]) (by simp [PoliciesSpec, Schema.kws]))
  exact ⟨kvs, rfl, keysIn_of (accepts_kw' h (by simp [PoliciesSpec, Schema.kws, policyKeys])),
    policy_shape_of h (by simp [PoliciesSpec, Schema.props, policyProps])⟩

example : accepts PoliciesSpec (.obj [(.s "retry", .str "count=3 delay=1"), (.s "timeout", .int 30),
    (.s "pause-before", .bool true), (.s "wait-before", .str "<% $.w %>")]) = true := by decide

def taskDefaultsKeys : List String :=
  ["retry", "wait-before", "wait-after", "timeout", "pause-before", "concurrency", "fail-on", "on-complete",
   "on-success", "on-error", "on-skip", "safe-rerun", "requires", "name", "version", "description", "tags"]

/-- (b) TaskDefaultsSpec: policies as in PoliciesSpec, on-clauses of the forms `OnClauseSpec` handles,
    `safe-rerun` expression or bool, `requires` string or list of strings. -/
theorem task_defaults_accept_shape {j : JVal} (h : accepts TaskDefaultsSpec j = true) :
    ∃ kvs, j = .obj kvs ∧ KeysIn taskDefaultsKeys kvs ∧ PolicyShape kvs ∧
      (∀ k ∈ ["on-complete", "on-success", "on-error", "on-skip"], ∀ v, lookup k kvs = some v → OnClauseShape v) ∧
      (∀ v, lookup "safe-rerun" kvs = some v → ExprOrBool v) ∧
      (∀ v, lookup "requires" kvs = some v → NonEmptyStr v ∨ NonEmptyStrList v) := by
  obtain ⟨kvs, rfl⟩ := type_object (accepts_kw' h (k := .type [.object]) (by simp [TaskDefaultsSpec, Schema.kws]))
  refine ⟨kvs, rfl, keysIn_of (accepts_kw' h (by simp [TaskDefaultsSpec, Schema.kws, taskDefaultsKeys])),
    policy_shape_of h (by simp [TaskDefaultsSpec, Schema.props, policyProps]), ?_, ?_, ?_⟩
  · intro k hk v hv
    simp only [List.mem_cons, List.mem_nil_iff, or_false] at hk
    rcases hk with rfl | rfl | rfl | rfl <;>
      exact prop_shape h (by simp [TaskDefaultsSpec, Schema.props]) (fun _ => frag_OnClauseSpec) hv
  · exact fun v hv => prop_shape h (by simp [TaskDefaultsSpec, Schema.props]) (fun _ => frag_EXPRESSION_OR_BOOLEAN) hv
  · exact fun v hv => prop_shape h (by simp [TaskDefaultsSpec, Schema.props])
      (fun _ => frag_P_requires__with_items) hv

example : accepts TaskDefaultsSpec (.obj [(.s "on-error", .arr [.str "cleanup"]), (.s "retry",
    .obj [(.s "count", .int 1), (.s "delay", .int 0)]), (.s "requires", .str "init")]) = true := by decide

/-- (b) RetrySpec: the dict form has `delay` (read unconditionally: `data['delay']`) and `count`, each
    an expression string or a non-negative integer, `break-on` / `continue-on` strings, no other key;
    or the value is the non-empty one-line string that `_transform_retry_one_line` parses. -/
theorem retry_accept_shape {j : JVal} (h : accepts RetrySpec j = true) : RetryShape j := frag_RetrySpec h

example : accepts RetrySpec (.obj [(.s "count", .str "<% $.c %>"), (.s "delay", .flt (.fin 5 1)),
    (.s "break-on", .str "{{ _.x }}")]) = true := by decide

/-- (b) OnClauseSpec: an accepted on-clause is a string, a one-key dict with a string key, a non-empty
    list of such, or the advanced dict with only `next` (one of the three forms) and `publish` — exactly
    the case split of `OnClauseSpec.__init__`, `_as_list_of_tuples`, `_as_tuple`
    (`list(val.items())[0]` needs a non-empty dict, `_parse_cmd_and_input(task[0])` a string). -/
theorem on_clause_accept_shape {j : JVal} (h : accepts OnClauseSpec j = true) : OnClauseShape j :=
  frag_OnClauseSpec h

example : accepts OnClauseSpec (.obj [(.s "next", .arr [.obj [(.s "t2", .str "<% $.x %>")], .str "t3"])]) = true := by
  decide
example : accepts OnClauseSpec (.obj [(.s "fail(msg=1)", .str "<% $.x %>")]) = true := by decide

/-- (b) PublishSpec: a dict with declared string keys whose `branch` / `global` / `atomic` are
    non-empty string-keyed dicts (`validate_expr` iterates `.values()`, `merge_dicts`). -/
theorem publish_accept_shape {j : JVal} (h : accepts PublishSpec j = true) : PublishShape j := frag_PublishSpec h

example : accepts PublishSpec (.obj [(.s "branch", .obj [(.s "a", .int 1)]), (.s "global", .obj [(.s "g", .null)])]) = true := by
  decide

/-! ## (b) actions, list specifications, workbooks -/

def actionKeys : List String := ["base", "base-input", "input", "output", "name", "version", "description", "tags"]

/-- (b) ActionSpec: `data['name']`, `data['base']` are present non-empty strings
    (`_parse_cmd_and_input(self._base)`), `base-input` a non-empty string-keyed dict (`merge_dicts`),
    `input` a list of names / one-key dicts (`get_dict_from_entries`). -/
theorem action_accept_shape {j : JVal} (h : accepts ActionSpec j = true) :
    ∃ kvs, j = .obj kvs ∧ KeysIn actionKeys kvs ∧
      (∃ b, lookup "base" kvs = some b ∧ NonEmptyStr b) ∧ (∃ n, lookup "name" kvs = some n ∧ NonEmptyStr n) ∧
      (∃ v, lookup "version" kvs = some v) ∧
      (∀ v, lookup "base-input" kvs = some v → StrKeyDict v) ∧ (∀ v, lookup "input" kvs = some v → InputList v) ∧
      (∀ v, lookup "tags" kvs = some v → NonEmptyStrList v) := by
  obtain ⟨kvs, rfl⟩ := type_object (accepts_kw' h (k := .type [.object]) (by simp [ActionSpec, Schema.kws]))
  have hreq := accepts_kw' h (k := .required ["base", "name", "version"]) (by simp [ActionSpec, Schema.kws])
  obtain ⟨b, hb⟩ := required_present hreq (k := "base") (by simp)
  obtain ⟨n, hn⟩ := required_present hreq (k := "name") (by simp)
  obtain ⟨v, hv⟩ := required_present hreq (k := "version") (by simp)
  refine ⟨kvs, rfl, keysIn_of (accepts_kw' h (by simp [ActionSpec, Schema.kws, actionKeys])),
    ⟨b, hb, prop_shape h (by simp [ActionSpec, Schema.props]) (fun _ => frag_NONEMPTY_STRING) hb⟩,
    ⟨n, hn, prop_shape h (by simp [ActionSpec, Schema.props]) (fun _ => frag_NONEMPTY_STRING) hn⟩, ⟨v, hv⟩, ?_, ?_, ?_⟩
  · exact fun v hv => prop_shape h (by simp [ActionSpec, Schema.props]) (fun _ => frag_NONEMPTY_DICT) hv
  · exact fun v hv => prop_shape h (by simp [ActionSpec, Schema.props])
      (fun _ => frag_UNIQUE_STRING_OR_ONE_KEY_DICT_LIST) hv
  · exact fun v hv => prop_shape h (by simp [ActionSpec, Schema.props]) (fun _ => frag_UNIQUE_STRING_LIST) hv

example : accepts ActionSpec (.obj [(.s "name", .str "a"), (.s "version", .str "2.0"), (.s "base", .str "std.echo"),
    (.s "base-input", .obj [(.s "output", .str "<% $.x %>")]), (.s "input", .arr [.str "x"]), (.s "output", .null)]) = true := by
  decide

/-- what `BaseListSpec.__init__` relies on: `for k, v in data.items(): if k != 'version': v['name'] = k`. -/
def ListShape (kvs : List (Key × JVal)) : Prop :=
  (∃ v, lookup "version" kvs = some v ∧ (NonEmptyStr v ∨ NonNegNum v)) ∧
  ∀ kv ∈ kvs, kv.1 ≠ .s "version" → StrKeyDict kv.2

theorem list_shape_of {S : Schema} {kvs : List (Key × JVal)} (h : accepts S (.obj kvs) = true)
    (hreq : Kw.required ["version"] ∈ S.kws) (hp : ("version", VERSION) ∈ S.props)
    (hap : Kw.additionalProperties ["version"] [] NONEMPTY_DICT ∈ S.kws) : ListShape kvs := by
  constructor
  · obtain ⟨v, hv⟩ := required_present (accepts_kw' h hreq) (k := "version") (by simp)
    exact ⟨v, hv, prop_shape h hp (fun _ => frag_VERSION) hv⟩
  · intro kv hkv hne
    rcases additionalProperties_sub (accepts_kw' h hap) hkv with ⟨name, hn, hc⟩ | hacc
    · simp at hc
      subst hc
      exact absurd hn hne
    · exact frag_NONEMPTY_DICT hacc

/-- (b) WorkflowListSpec: `version` is present and every other member (whatever its key: a key that
    is not a string is refused only afterwards, by the explicit check of `BaseListSpec.validate_schema`)
    is a non-empty string-keyed dict, so `v['name'] = k` cannot fail. -/
theorem workflow_list_accept_shape {j : JVal} (h : accepts WorkflowListSpec j = true) :
    ∃ kvs, j = .obj kvs ∧ ListShape kvs := by
  obtain ⟨kvs, rfl⟩ := type_object (accepts_kw' h (k := .type [.object]) (by simp [WorkflowListSpec, Schema.kws]))
  exact ⟨kvs, rfl, list_shape_of h (by simp [WorkflowListSpec, Schema.kws]) (by simp [WorkflowListSpec, Schema.props])
    (by simp [WorkflowListSpec, Schema.kws])⟩

example : accepts WorkflowListSpec (.obj [(.s "version", .str "2.0"),
    (.s "wf", .obj [(.s "tasks", .obj [(.s "t", .obj [(.s "action", .str "std.noop")])])])]) = true := by decide

/-- (b) ActionListSpec: the same facts. -/
theorem action_list_accept_shape {j : JVal} (h : accepts ActionListSpec j = true) :
    ∃ kvs, j = .obj kvs ∧ ListShape kvs := by
  obtain ⟨kvs, rfl⟩ := type_object (accepts_kw' h (k := .type [.object]) (by simp [ActionListSpec, Schema.kws]))
  exact ⟨kvs, rfl, list_shape_of h (by simp [ActionListSpec, Schema.kws]) (by simp [ActionListSpec, Schema.props])
    (by simp [ActionListSpec, Schema.kws])⟩

example : accepts ActionListSpec (.obj [(.s "version", .int 2), (.s "a", .obj [(.s "base", .str "std.noop")])]) = true := by
  decide

/-- the key `~:` passes the schema of a list specification (its value is checked, its key is not: no
    `patternProperties`); `BaseListSpec.validate_schema` rejects it explicitly afterwards. -/
theorem list_schema_accepts_non_string_key :
    accepts WorkflowListSpec (.obj [(.s "version", .str "2.0"), (.ns "None", .obj [(.s "tasks", .null)])]) = true := by
  decide

def workbookKeys : List String := ["version", "actions", "workflows", "name", "description", "tags"]

/-- (b) WorkbookSpec: `data['name']` is a present non-empty string, `version` is "2.0" / 2.0 / 2,
    `actions` / `workflows` are non-empty dicts with string keys (`_inject_version`, `ActionSpecList` /
    `WorkflowSpecList` iterate `.items()` and test `isinstance(v, dict)` themselves). -/
theorem workbook_accept_shape {j : JVal} (h : accepts WorkbookSpec j = true) :
    ∃ kvs, j = .obj kvs ∧ KeysIn workbookKeys kvs ∧
      (∃ n, lookup "name" kvs = some n ∧ NonEmptyStr n) ∧
      (∃ v, lookup "version" kvs = some v ∧ (v = .str "2.0" ∨ ∃ n, v.num? = some n ∧ (NumV.q 2 1).eq n = true)) ∧
      (∀ k ∈ ["actions", "workflows"], ∀ v, lookup k kvs = some v →
        ∃ ms, v = .obj ms ∧ ms ≠ [] ∧ ∀ kv ∈ ms, ∃ name, kv.1 = .s name) ∧
      (∀ v, lookup "tags" kvs = some v → NonEmptyStrList v) := by
  obtain ⟨kvs, rfl⟩ := type_object (accepts_kw' h (k := .type [.object]) (by simp [WorkbookSpec, Schema.kws]))
  have hreq := accepts_kw' h (k := .required ["name", "version"]) (by simp [WorkbookSpec, Schema.kws])
  obtain ⟨n, hn⟩ := required_present hreq (k := "name") (by simp)
  obtain ⟨v, hv⟩ := required_present hreq (k := "version") (by simp)
  refine ⟨kvs, rfl, keysIn_of (accepts_kw' h (by simp [WorkbookSpec, Schema.kws, workbookKeys])),
    ⟨n, hn, prop_shape h (by simp [WorkbookSpec, Schema.props]) (fun _ => frag_NONEMPTY_STRING) hn⟩,
    ⟨v, hv, ?_⟩, ?_, ?_⟩
  · have := accepts_prop h (k := "version") (sub := P_version) (by simp [WorkbookSpec, Schema.props]) hv
    unfold P_version at this
    open_schema this
    simp only [validateKw, Out.clean_check, List.any_cons, List.any_nil, Bool.or_false, Bool.or_eq_true] at this
    rcases this with h1 | h2
    · exact .inl (enum_str h1)
    · right
      cases v with
      | int i => exact ⟨_, rfl, by simpa [equal, numEq, Flt.toNumV] using h2⟩
      | flt f => exact ⟨_, rfl, by simpa [equal, numEq, Flt.toNumV] using h2⟩
      | _ => simp [equal, numEq] at h2
  · intro k hk v hv
    simp only [List.mem_cons, List.mem_nil_iff, or_false] at hk
    rcases hk with rfl | rfl <;>
      exact prop_shape h (by simp [WorkbookSpec, Schema.props]) (fun _ => frag_P_actions__workflows) hv
  · exact fun v hv => prop_shape h (by simp [WorkbookSpec, Schema.props]) (fun _ => frag_UNIQUE_STRING_LIST) hv

example : accepts WorkbookSpec (.obj [(.s "version", .flt (.fin 2 1)), (.s "name", .str "wb"),
    (.s "workflows", .obj [(.s "version", .str "2.0"), (.s "my-wf", .obj [])]),
    (.s "actions", .obj [(.s "a1", .str "anything")])]) = true := by decide

/-! ## every member of an accepted section becomes a specification -/

/-- Tie A: `BaseSpecList.__init__` skips the key `version` (`specListMembers`) and
    `WorkflowSpec.validate_schema` rejects a task with that name (`tasksNameCheck`, repo patch 27). -/
theorem version_key_tied : specListSkipsVersion = true ∧ taskNamedVersionRejected = true := by decide

theorem hasKey_of_mem {k : String} {v : JVal} {kvs : List (Key × JVal)} (h : (Key.s k, v) ∈ kvs) :
    hasKey k kvs = true := by
  unfold hasKey lookup
  induction kvs with
  | nil => cases h
  | cons x xs ih =>
    obtain ⟨k', v'⟩ := x
    by_cases hk : k' = Key.s k
    · simp [lookupKey, hk]
    · rcases List.mem_cons.mp h with he | hm
      · cases he; exact absurd rfl hk
      · simpa [lookupKey, hk] using ih hm

/-- "An accepted definition re-read … is the same definition (tasks, …)": every entry of the `tasks`
    section of an ACCEPTED workflow (schema + the explicit name check of `WorkflowSpec.validate_schema`)
    is instantiated by `TaskSpecList`.  Before repo patch 27 there was no name check and the statement
    was false for a task named `version` (`…_full_fails`, witness
    corpus/C14/31-task-named-version-dropped.json, now a regression: the definition is rejected). -/
theorem tasks_all_instantiated {kvs : List (Key × JVal)} (_h : accepts P_tasks (.obj kvs) = true)
    (hc : tasksNameCheck kvs = true) : ∀ kv ∈ kvs, kv ∈ specListMembers kvs := by
  intro kv hkv
  simp only [specListMembers, List.mem_filter, hkv, true_and, bne_iff_ne, ne_eq]
  intro he
  obtain ⟨k, v⟩ := kv
  simp only at he
  subst he
  simp [tasksNameCheck, hasKey_of_mem hkv] at hc

example : accepts P_tasks (.obj [(.s "t1", .obj [(.s "action", .str "std.noop")]),
    (.s "t-2", .obj [(.s "join", .int 1)])]) = true ∧
    tasksNameCheck [(.s "t1", .obj [(.s "action", .str "std.noop")]), (.s "t-2", .obj [(.s "join", .int 1)])] = true := by
  decide

/-- the name check is necessary: the schema alone accepts a task named `version`. -/
theorem tasks_schema_accepts_version :
    accepts P_tasks (.obj [(.s "version", .obj [(.s "action", .str "std.noop")])]) = true ∧
    tasksNameCheck [(.s "version", .obj [(.s "action", .str "std.noop")])] = false := by decide

/-- the `actions` / `workflows` section of a workbook: the only entry `BaseSpecList.__init__` skips is
    the marker, and in an accepted section an entry named `version` IS the marker ("2.0" / 2.0 / 2):
    a workflow or action named `version` is a definition error, never a silently dropped member. -/
theorem section_members_instantiated {kvs : List (Key × JVal)} (h : accepts P_actions__workflows (.obj kvs) = true) :
    (∀ kv ∈ kvs, kv.1 ≠ .s "version" → kv ∈ specListMembers kvs) ∧
    (∀ v, (Key.s "version", v) ∈ kvs → v.isObj = false) := by
  constructor
  · intro kv hkv hne
    simp [specListMembers, hkv, hne]
  · intro v hv
    unfold P_actions__workflows at h
    open_schema h
    obtain ⟨_, _, hp, _⟩ := h
    have := patternProperties_sub hp (r := re_versionKey) (List.mem_cons_self ..) hv (by decide)
    open_schema this
    simp only [validateKw, Out.clean_check, List.any_cons, List.any_nil, Bool.or_false, Bool.or_eq_true] at this
    cases v <;> simp_all [equal, numEq, JVal.isObj]

example : accepts P_actions__workflows (.obj [(.s "version", .str "2.0"), (.s "wf-1", .obj [])]) = true := by decide
example : accepts P_actions__workflows (.obj [(.s "version", .obj [(.s "tasks", .null)])]) = false := by decide

/-- a workflow / action list: `version` is the version of the document (never a dict), every other
    entry is a member (`BaseListSpec.__init__`). -/
theorem list_members_instantiated {kvs : List (Key × JVal)} (h : ListShape kvs) :
    (∀ kv ∈ kvs, kv.1 ≠ .s "version" → kv ∈ listSpecMembers kvs) ∧
    (∀ v, lookup "version" kvs = some v → v.isObj = false) := by
  constructor
  · intro kv hkv hne
    simp [listSpecMembers, hkv, hne]
  · intro v hv
    obtain ⟨⟨v', hv', hs⟩, _⟩ := h
    rw [hv] at hv'
    cases hv'
    rcases hs with ⟨s, rfl, _⟩ | ⟨n, hn, _⟩
    · rfl
    · cases v <;> simp_all [JVal.num?, JVal.isObj]

end Mistral.Props.C14Schema
