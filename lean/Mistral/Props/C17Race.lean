/- C17 at STATEMENT granularity: "each due occurrence of a trigger starts exactly one workflow
   execution ... however many processes evaluate cron triggers concurrently; a trigger with a count
   fires at most that many times".

   `Mistral.Props.C17` treats one db-api call (`update_cron_trigger`, `delete_cron_trigger`) as one
   atomic step.  Here the inside of `periodic.advance_cron_trigger` is a script over the trigger row
   (`Mistral.Gen.RaceScripts.advanceLast` / `advanceNext`, REGENERATED from periodic.py, triggers.py
   and the db api on every run): look-up by name, then the conditional DELETE (last occurrence)
   or the `update_on_match` on the read `next_execution_time`, then the commit of the db-api call;
   `flags 0` is what `advance_cron_trigger` returns ("won": the caller starts the workflow).
   `sched k` = everything other processes commit just before statement k (arbitrary). -/
import Mistral.Lemmas.Race
import Mistral.Gen.RaceScripts
namespace Mistral.Props.C17Race
open Mistral.Race Mistral.Gen.RaceScripts

set_option maxRecDepth 4000
set_option linter.unusedSimpArgs false

/-- what ONE advance does to the row at its write instant, and whether it wins:
    last occurrence: delete the row if it is still there; otherwise: move `next_execution_time`
    (field 0) from the read value `T` to `nxt` and store the decremented count, if the row still
    shows `T`. -/
def attempt (last : Bool) (T nxt rem' : Val) (r : Row) : Bool × Row :=
  if last then (if r.alive then (true, { r with alive := false }) else (false, r))
  else if r.alive && r.f 0 == T then (true, { r with f := (r.f.set 0 nxt).set 1 rem' }) else (false, r)

/-- Last occurrence, ANY interference: the processor "wins" exactly when the row existed at its
    look-up AND its DELETE removed a row at the delete instant; its whole effect on the row is that
    one conditional delete at that instant (everything later waits for the commit). -/
theorem advance_last_atomic (sched : Nat → Intf) (vars : Fields) (row0 : Row) :
    (runWith advanceLast sched vars row0).l.flags 0 =
      ((pre sched 1 row0).alive && (attempt true (vars 0) (vars 2) (vars 1) (pre sched 2 row0)).1) ∧
    (runWith advanceLast sched vars row0).sh.db =
      between sched 2 2 (if (pre sched 1 row0).alive
        then (attempt true (vars 0) (vars 2) (vars 1) (pre sched 2 row0)).2 else pre sched 2 row0) := by
  by_cases h1 : (pre sched 1 row0).alive = true
  · by_cases h2 : (pre sched 2 row0).alive = true
    · simp only [pre] at h1 h2
      simp only [advanceLast]
      race_simp [h1, h2, attempt]
    · simp only [pre] at h1 h2
      simp only [advanceLast]
      race_simp [h1, h2, attempt]
  · simp only [pre] at h1
    simp only [advanceLast]
    race_simp [h1, attempt]

/-- Other occurrences, ANY interference: the processor wins exactly when the row existed at its
    look-up and still showed the `next_execution_time` of its read copy at the instant of the
    `update_on_match`; its whole effect is that one compare-and-swap. -/
theorem advance_next_atomic (sched : Nat → Intf) (vars : Fields) (row0 : Row) :
    (runWith advanceNext sched vars row0).l.flags 0 =
      ((pre sched 1 row0).alive && (attempt false (vars 0) (vars 2) (vars 1) (pre sched 2 row0)).1) ∧
    (runWith advanceNext sched vars row0).sh.db =
      between sched 2 2 (if (pre sched 1 row0).alive
        then (attempt false (vars 0) (vars 2) (vars 1) (pre sched 2 row0)).2 else pre sched 2 row0) := by
  by_cases h1 : (pre sched 1 row0).alive = true
  · by_cases h2 : (pre sched 2 row0).alive = true
    · by_cases h3 : (pre sched 2 row0).f 0 = vars 0
      · simp only [pre] at h1 h2 h3
        simp only [advanceNext]
        race_simp [h1, h2, h3, attempt]
      · simp only [pre] at h1 h2 h3
        simp only [advanceNext]
        race_simp [h1, h2, h3, attempt]
    · simp only [pre] at h1 h2
      simp only [advanceNext]
      race_simp [h1, h2, attempt]
  · simp only [pre] at h1
    simp only [advanceNext]
    race_simp [h1, attempt]

/-- can an advance holding the copy `T` still win on this row? (the DELETE of the last occurrence
    is by id only: it matches whenever the row exists) -/
def matchable (last : Bool) (T : Val) (r : Row) : Bool :=
  if last then r.alive else (r.alive && r.f 0 == T)

theorem attempt_won_iff (last : Bool) (T nxt rem' : Val) (r : Row) :
    (attempt last T nxt rem' r).1 = matchable last T r := by
  unfold attempt matchable
  cases last <;> simp <;> split <;> simp_all

/-- a winner's own effect makes the row unmatchable for the occurrence it consumed -/
theorem attempt_won_consumes (last : Bool) (T nxt rem' : Val) (r : Row) (hn : nxt ≠ T)
    (hw : (attempt last T nxt rem' r).1 = true) :
    matchable last T (attempt last T nxt rem' r).2 = false := by
  unfold attempt matchable at *
  cases last <;> simp_all [Fields.set]
  · split at hw <;> simp_all [Fields.set]
  · split at hw <;> simp_all

/-- a lost attempt changes nothing -/
theorem attempt_lost_noop (last : Bool) (T nxt rem' : Val) (r : Row)
    (hl : (attempt last T nxt rem' r).1 = false) : (attempt last T nxt rem' r).2 = r := by
  unfold attempt at *
  cases last <;> simp_all
  · split <;> simp_all
  · split <;> simp_all

/-! ### any number of processors on the same read copy

By the two theorems above each processor's effect is ONE `attempt` at its write instant, whatever
the others do and wherever their statements fall; the processors' write instants are totally
ordered (the row lock), so the row history of N racing processors is the fold of their attempts in
that order.  `races` is that fold for processors that all hold the same read copy `(T, rem)` (each
computes its own `nxt` from its own clock). -/

/-- attempts of the processors in write-instant order: number of winners and the final row -/
def races (last : Bool) (T rem' : Val) : List Val → Row → Nat × Row
  | [], r => (0, r)
  | nxt :: ps, r =>
    let a := attempt last T nxt rem' r
    let rest := races last T rem' ps a.2
    ((if a.1 then 1 else 0) + rest.1, rest.2)

theorem races_unmatchable (last : Bool) (T rem' : Val) (ps : List Val) (r : Row)
    (hr : matchable last T r = false) :
    (races last T rem' ps r).1 = 0 ∧ (races last T rem' ps r).2 = r := by
  induction ps with
  | nil => exact ⟨rfl, rfl⟩
  | cons nxt ps ih =>
    have hl : (attempt last T nxt rem' r).1 = false := by rw [attempt_won_iff]; exact hr
    have he := attempt_lost_noop last T nxt rem' r hl
    simp only [races, hl, he]
    simpa using ih

/-- "each due occurrence of a trigger starts exactly one workflow execution": of any number of
    processors racing on the same read copy at most ONE wins — last occurrence included — provided
    croniter moves the time (`nxt ≠ T`; for the last occurrence the row is deleted). -/
theorem one_winner_per_occurrence (last : Bool) (T rem' : Val) (ps : List Val) (r : Row)
    (hn : ∀ nxt ∈ ps, nxt ≠ T) : (races last T rem' ps r).1 ≤ 1 := by
  induction ps generalizing r with
  | nil => simp [races]
  | cons nxt ps ih =>
    simp only [races]
    by_cases hw : (attempt last T nxt rem' r).1 = true
    · have hc := attempt_won_consumes last T nxt rem' r (hn nxt (List.mem_cons_self ..)) hw
      have := (races_unmatchable last T rem' ps _ hc).1
      simp [hw, this]
    · have := ih (attempt last T nxt rem' r).2 (fun n hn' => hn n (List.mem_cons_of_mem _ hn'))
      simp [hw]; omega

/-- "a trigger with a count fires at most that many times": the processors holding a copy with
    `remaining = rem ≥ 1` win at most once, hence at most `rem` times; after the last occurrence
    (`rem = 1`: the delete branch) the row is gone if anybody won. -/
theorem wins_le_remaining (rem : Nat) (hrem : 1 ≤ rem) (T : Val) (ps : List Val) (r : Row)
    (hn : ∀ nxt ∈ ps, nxt ≠ T) :
    (races (isLast (decrRemaining (some rem))) T (.nat (rem - 1)) ps r).1 ≤ rem :=
  Nat.le_trans (one_winner_per_occurrence _ T _ ps r hn) hrem

theorem last_occurrence_removes_row (T rem' : Val) (ps : List Val) (r : Row)
    (hw : (races true T rem' ps r).1 ≥ 1) : (races true T rem' ps r).2.alive = false := by
  induction ps generalizing r with
  | nil => simp [races] at hw
  | cons nxt ps ih =>
    simp only [races] at hw ⊢
    by_cases ha : r.alive = true
    · have hd : ∀ (qs : List Val) (r' : Row), r'.alive = false → (races true T rem' qs r').2.alive = false := by
        intro qs
        induction qs with
        | nil => intro r' h; simpa [races] using h
        | cons q qs ih2 => intro r' h; simp only [races, attempt, h]; simpa using ih2 r' h
      simp only [attempt, ha]
      exact hd ps _ rfl
    · have h0 : (attempt true T nxt rem' r) = (false, r) := by simp [attempt, ha]
      rw [h0] at hw ⊢
      simp at hw
      exact ih r hw

/-! ### non-vacuity -/

def trig : Row := { alive := true, f := fun k => if k = 0 then .nat 100 else if k = 1 then .nat 1 else .null }
def copyVars : Fields := fun k => if k = 0 then .nat 100 else if k = 1 then .nat 0 else if k = 2 then .nat 400 else .null

/-- another processor's complete advance (the model's atomic run of the same generated script)
    commits between this processor's look-up and its DELETE: this one does not win, the row is gone -/
example : let x := runWith advanceLast (fun j => if j = 1 then atomicOf advanceLast copyVars else fun r => r) copyVars trig
    x.l.flags 0 = false ∧ x.sh.db.alive = false := by
  simp only [advanceLast]
  race_simp [atomicOf, copyVars, trig, advanceLast]

/-- alone it wins -/
example : let x := runWith advanceLast (fun _ r => r) copyVars trig
    x.l.flags 0 = true ∧ x.sh.db.alive = false := by
  simp only [advanceLast]
  race_simp [copyVars, trig]

/-- three processors, same copy, statement-interleaved (`runMany`): exactly one wins -/
example :
    let w := runMany (World.init trig [(advanceLast, copyVars), (advanceLast, copyVars), (advanceLast, copyVars)])
      [.proc 0, .proc 1, .proc 2, .proc 1, .proc 0, .proc 2, .proc 1, .proc 1, .proc 0, .proc 0, .proc 2, .proc 2]
    (w.procs.map fun p => p.l.flags 0) = [false, true, false] ∧ w.db.alive = false := by
  decide

example : (races true (.nat 100) (.nat 0) [.nat 400, .nat 400, .nat 400] trig).1 = 1 := by decide

end Mistral.Props.C17Race
