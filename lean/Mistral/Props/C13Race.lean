/- C13 ("a scheduled job is run once": at most one scheduler captures a job per capture epoch) at
   STATEMENT granularity: script `captureJob`, REGENERATED from
   `DefaultScheduler._process_store_jobs` / `_capture_scheduled_job` and db `update_scheduled_job` on
   every run: the candidate is read, then `update_on_match` sets `captured_at` (field 0) to `now_sec`
   (`vars 0`) expecting the `captured_at` value that was READ; `flags 0` = "captured" (the caller
   invokes and deletes the job).  `Mistral.Props.C13` treats the capture as one atomic DB call. -/
import Mistral.Lemmas.Race
import Mistral.Gen.RaceScripts
namespace Mistral.Props.C13Race
open Mistral.Race Mistral.Gen.RaceScripts

set_option maxRecDepth 4000
set_option linter.unusedSimpArgs false

/-- For ANY interference: the scheduler "captures" exactly when the job row existed and was a
    not-yet-captured candidate at its read (`captured_at IS NULL`; the recapture of an EXPIRED stamp
    is a time comparison and stays in `Mistral.Sched`) and, at the instant of its `update_on_match`,
    still exists and shows the `captured_at` it read; its whole effect on the row is that one
    compare-and-swap. -/
theorem capture_atomic (sched : Nat → Intf) (vars : Fields) (row0 : Row) :
    (runWith captureJob sched vars row0).l.flags 0 =
      ((pre sched 1 row0).alive && ((pre sched 1 row0).f 0 == .null) && (pre sched 3 row0).alive &&
        ((pre sched 3 row0).f 0 == (pre sched 1 row0).f 0)) ∧
    (runWith captureJob sched vars row0).sh.db =
      between sched 3 1 (if ((pre sched 1 row0).alive && ((pre sched 1 row0).f 0 == .null) &&
          (pre sched 3 row0).alive && ((pre sched 3 row0).f 0 == (pre sched 1 row0).f 0)) = true
        then { (pre sched 3 row0) with f := (pre sched 3 row0).f.set 0 (vars 0) } else pre sched 3 row0) := by
  by_cases h1 : (pre sched 1 row0).alive = true
  · by_cases h0 : (pre sched 1 row0).f 0 = .null
    · by_cases h2 : (pre sched 3 row0).alive = true
      · by_cases h3 : (pre sched 3 row0).f 0 = (pre sched 1 row0).f 0
        · simp only [pre] at h1 h0 h2 h3
          rw [h0] at h3
          simp only [captureJob]
          race_simp [h1, h0, h2, h3, memVals]
        · simp only [pre] at h1 h0 h2 h3
          rw [h0] at h3
          simp only [captureJob]
          race_simp [h1, h0, h2, h3, memVals]
      · simp only [pre] at h1 h0 h2
        simp only [captureJob]
        race_simp [h1, h0, h2, memVals]
    · simp only [pre] at h1 h0
      simp only [captureJob]
      race_simp [h1, h0, memVals]
  · simp only [pre] at h1
    simp only [captureJob]
    race_simp [h1]

/-- one capture at its instant: `old` = the captured_at it had read, `now` = the value it sets -/
def attempt (old now : Val) (r : Row) : Bool × Row :=
  if r.alive && r.f 0 == old then (true, { r with f := r.f.set 0 now }) else (false, r)

/-- the captures of the schedulers that hold the same read copy (`captured_at = old`), in the order
    of their compare-and-swap instants (row lock) -/
def captures (old : Val) : List Val → Row → Nat × Row
  | [], r => (0, r)
  | now :: ps, r =>
    let a := attempt old now r
    let rest := captures old ps a.2
    ((if a.1 then 1 else 0) + rest.1, rest.2)

theorem captures_unmatchable (old : Val) (ps : List Val) (r : Row) (hr : (r.alive && r.f 0 == old) = false) :
    (captures old ps r).1 = 0 ∧ (captures old ps r).2 = r := by
  induction ps with
  | nil => exact ⟨rfl, rfl⟩
  | cons now ps ih =>
    have hl : attempt old now r = (false, r) := by simp [attempt, hr]
    simp only [captures, hl]
    simpa using ih

/-- "scheduled jobs run once": of any number of schedulers that selected the same job with the same
    `captured_at` (null, or an expired capture) at most ONE captures it, provided the new stamp
    differs from the read one (`now_sec` is later than an expired capture; null is not a time). -/
theorem one_capturer (old : Val) (ps : List Val) (r : Row) (hn : ∀ now ∈ ps, now ≠ old) :
    (captures old ps r).1 ≤ 1 := by
  induction ps generalizing r with
  | nil => simp [captures]
  | cons now ps ih =>
    simp only [captures]
    by_cases hw : (attempt old now r).1 = true
    · have hm : (r.alive && r.f 0 == old) = true := by
        unfold attempt at hw
        split at hw
        · assumption
        · cases hw
      have hne := hn now (List.mem_cons_self ..)
      have hc : ((attempt old now r).2.alive && (attempt old now r).2.f 0 == old) = false := by
        simp [attempt, hm, Fields.set, hne]
      have := (captures_unmatchable old ps _ hc).1
      simp [hw, this]
    · have := ih (attempt old now r).2 (fun n hn' => hn n (List.mem_cons_of_mem _ hn'))
      simp [hw]; omega

/-! ### non-vacuity -/

def job : Row := { alive := true, f := fun _ => .null }
def nowVars : Fields := fun k => if k = 0 then .nat 1000 else .null

/-- another scheduler's complete capture commits between this one's read and its update: lost -/
example : (runWith captureJob (fun j => if j = 1 then atomicOf captureJob nowVars else fun r => r) nowVars job).l.flags 0 = false := by
  simp only [captureJob]
  race_simp [atomicOf, nowVars, job, captureJob, memVals]

example : (runWith captureJob (fun _ r => r) nowVars job).l.flags 0 = true ∧
    (runWith captureJob (fun _ r => r) nowVars job).sh.db.f 0 = .nat 1000 := by
  simp only [captureJob]
  race_simp [nowVars, job, memVals]

example : (captures .null [.nat 1000, .nat 1000, .nat 1001] job).1 = 1 := by decide

end Mistral.Props.C13Race
