/-
C13 for the LEGACY scheduler (mistral/services/legacy_scheduler.py, `scheduler_type = legacy`, the
default) — property theorems only.  Model: Mistral/Model/SchedLegacy.lean (tied to the code by the
`legacy` correspondence stream of props/C13.py: 1..3 real `LegacyScheduler` objects stepped at DB-call
granularity); structural facts regenerated from the sources on every run: Mistral/Gen/SchedLegacyFacts.
Every theorem quantifies over ALL step sequences (`steps`), any number of instances `n`, any
`batch_size` `b`; `lRun b (lInit n) steps` is the state after the sequence.

C13: "A job scheduled inside a transaction that commits is invoked at least once, never before its
delay has elapsed, and exactly once … however many scheduler instances poll the store concurrently.
If the scheduler that captured a job dies, another instance runs it after the capture timeout; a job
whose transaction rolled back is never run, and a query for pending jobs by key reports exactly the
jobs with that key that are not yet being processed."

For the legacy scheduler all clauses but one hold at full strength (at most once even
unconditionally: there is no recapture).  The crash-recovery / at-least-once clause is FALSE:
`legacy_crash_recovery_full_fails`, `legacy_crashed_capture_never_runs` (a capturer that dies).
The second cause found in the first round (a call captured in one batch with an un-preparable call)
is fixed in the code: `legacy_bad_target_spares_batch`.
-/
import Mistral.Lemmas.SchedLegacy
import Mistral.Gen.SchedLegacyFacts

namespace Mistral.Props.C13Legacy
open Mistral.Sched Mistral.Gen.SchedLegacyFacts

/-! ### Tie A: the operators / structure read from the code are the ones the model uses -/

/-- the WHERE clause of `get_delayed_calls_to_start(utc_now_sec() + 1s)` as translated from the
    sources (`execution_time < time`, `processing = False`) is the model's `lEligible` -/
theorem legacy_select_ops_match (clock : Nat) (r : LRow) :
    lEligible clock r =
      (decide (r.vis = .committed) && selectExecutionTimeOp.eval r.executeAt (clock + timeFilterSlack) &&
        (if selectFiltersUnprocessed then !r.processing else true)) := by
  simp [lEligible, selectExecutionTimeOp, timeFilterSlack, selectFiltersUnprocessed, Cmp.eval]

/-- `_capture_calls` updates with `query_filter={'processing': False}` (a CAS, `lCas`), and
    `_process_delayed_calls` invokes before it deletes (the order of `lStep`'s phases) -/
theorem legacy_cas_and_order_match : captureIsCas = true ∧ invokeBeforeDelete = true := by
  decide

/-- with whole-second times `execution_time < now + 1` is `execution_time ≤ now`: the select never
    returns a call that is not yet due -/
theorem legacy_select_due (b : Option Nat) (clock : Nat) (rows : List LRow) (j : Nat)
    (h : j ∈ lSelect b clock rows) :
    ∃ r : LRow, rows[j]? = some r ∧ r.vis = .committed ∧ r.executeAt ≤ clock ∧ r.processing = false := by
  obtain ⟨r, hr, he⟩ := mem_lSelect h
  exact ⟨r, hr, lEligible_spec he⟩

/-! ### "never before its delay has elapsed" -/

/-- every invocation in every reachable log happens at a time ≥ the call's execution_time -/
theorem legacy_not_early (b : Option Nat) (n : Nat) (steps : List LStep) (j t i : Nat)
    (h : (j, t, i) ∈ (lRun b (lInit n) steps).log) :
    ∃ r : LRow, (lRun b (lInit n) steps).rows[j]? = some r ∧ r.executeAt ≤ t :=
  ((lSafe_reachable b n steps).log _ h).1

/-- … and execution_time is the scheduling time plus run_after, fixed for ever -/
theorem legacy_schedule_sets_due (b : Option Nat) (s : LState) (ra key tx : Nat) (rest : List LStep) :
    ∃ r : LRow, (lRun b (lStep b s (.schedule ra key tx)) rest).rows[s.rows.length]? = some r ∧
      r.executeAt = s.clock + ra := by
  have h0 : (lStep b s (.schedule ra key tx)).rows[s.rows.length]? =
      some { executeAt := s.clock + ra, processing := false, key := key, vis := .uncommitted tx } := by
    simp [lStep]
  obtain ⟨r', h1, h2, _⟩ := (lRun_ext b rest _).rows _ _ h0
  exact ⟨r', h1, h2⟩

example : (0, 1, 0) ∈ (lRun none (lInit 1)
    [.schedule 1 7 0, .commit 0, .select 0, .capture 0, .tick 1, .select 0, .capture 0, .invoke 0]).log := by decide

/-! ### "a job whose transaction rolled back is never run" (nor one that has not committed) -/

/-- an invoked call's row was committed (it is committed or already deleted) -/
theorem legacy_only_committed_runs (b : Option Nat) (n : Nat) (steps : List LStep) (j t i : Nat)
    (h : (j, t, i) ∈ (lRun b (lInit n) steps).log) :
    ∃ r : LRow, (lRun b (lInit n) steps).rows[j]? = some r ∧ (r.vis = .committed ∨ r.vis = .deleted) :=
  ((lSafe_reachable b n steps).log _ h).2.1

/-- a captured call's row was committed, and its `processing` flag is set -/
theorem legacy_only_committed_captured (b : Option Nat) (n : Nat) (steps : List LStep) (j t i : Nat)
    (h : (j, t, i) ∈ (lRun b (lInit n) steps).caps) :
    ∃ r : LRow, (lRun b (lInit n) steps).rows[j]? = some r ∧ (r.vis = .committed ∨ r.vis = .deleted) ∧
      r.processing = true := by
  obtain ⟨⟨r, hr, hv⟩, ⟨r', hr', hp⟩, _⟩ := (lSafe_reachable b n steps).caps _ h
  rw [hr] at hr'; simp at hr'; subst hr'
  exact ⟨r, hr, hv, hp⟩

/-- a call whose transaction rolled back or has not (yet) committed is never captured nor invoked,
    and its flag is clear -/
theorem legacy_rolled_back_never_runs (b : Option Nat) (n : Nat) (steps : List LStep) (j : Nat) (r : LRow)
    (hr : (lRun b (lInit n) steps).rows[j]? = some r)
    (hv : r.vis = .rolledBack ∨ ∃ tx, r.vis = .uncommitted tx) (t i : Nat) :
    (j, t, i) ∉ (lRun b (lInit n) steps).log ∧ (j, t, i) ∉ (lRun b (lInit n) steps).caps ∧
      r.processing = false := by
  refine ⟨?_, ?_, ?_⟩
  · intro h
    obtain ⟨r', hr', hv'⟩ := legacy_only_committed_runs b n steps j t i h
    rw [hr] at hr'; simp at hr'; subst hr'
    rcases hv with hv | ⟨tx, hv⟩ <;> simp [hv] at hv'
  · intro h
    obtain ⟨r', hr', hv', _⟩ := legacy_only_committed_captured b n steps j t i h
    rw [hr] at hr'; simp at hr'; subst hr'
    rcases hv with hv | ⟨tx, hv⟩ <;> simp [hv] at hv'
  · cases hp : r.processing with
    | false => rfl
    | true =>
      have := (lSafe_reachable b n steps).proc j r hr hp
      rcases hv with hv | ⟨tx, hv⟩ <;> simp [hv] at this

/-- a rolled-back call stays rolled back whatever happens afterwards -/
theorem legacy_rolled_back_is_final (b : Option Nat) (s : LState) (steps : List LStep) (j : Nat) (r : LRow)
    (hr : s.rows[j]? = some r) (hv : r.vis = .rolledBack) :
    ∃ r' : LRow, (lRun b s steps).rows[j]? = some r' ∧ r'.vis = .rolledBack := by
  obtain ⟨r', h1, _, _, hvm, _⟩ := (lRun_ext b steps s).rows j r hr
  exact ⟨r', h1, hvm.2.2 hv⟩

example : (lRun none (lInit 2)
    [.schedule 0 7 0, .select 0, .rollback 0, .capture 0, .tick 5, .select 1, .capture 1]).caps = [] := by decide

/-! ### "exactly once … however many scheduler instances poll the store concurrently":
    the `processing` flag is a compare-and-swap, and there is no recapture -/

/-- two CASes of the flag of the same row: after one succeeded the other fails -/
theorem legacy_capture_exclusive (rows rows' : List LRow) (id : Nat)
    (h1 : lCas rows id = some rows') : lCas rows' id = none := by
  obtain ⟨r, hr, _, _, rfl⟩ := lCas_spec h1
  have hlt : id < rows.length := (List.getElem?_eq_some_iff.mp hr).1
  simp [lCas, hlt]

example : lCas [{ executeAt := 0, processing := false, key := 0, vis := .committed }] 0 ≠ none := by decide

/-- in every reachable state a call has been captured at most once, by whomever — the number of
    captures IS its `processing` flag -/
theorem legacy_captured_once (b : Option Nat) (n : Nat) (steps : List LStep) (j : Nat) :
    lCapCount (lRun b (lInit n) steps) j ≤ 1 := by
  have h := (lCnt_reachable b n steps).cap j
  have := procN_le (lRun b (lInit n) steps).rows j
  omega

/-- invocations never outnumber captures -/
theorem legacy_invoke_needs_capture (b : Option Nat) (n : Nat) (steps : List LStep) (j : Nat) :
    lInvCount (lRun b (lInit n) steps) j ≤ lCapCount (lRun b (lInit n) steps) j := by
  have := (lCnt_reachable b n steps).inv j
  omega

/-- AT MOST ONCE, unconditionally: for every interleaving, number of instances, crash pattern and
    batch size no delayed call is invoked twice -/
theorem legacy_at_most_once (b : Option Nat) (n : Nat) (steps : List LStep) (j : Nat) :
    lInvCount (lRun b (lInit n) steps) j ≤ 1 :=
  Nat.le_trans (legacy_invoke_needs_capture b n steps j) (legacy_captured_once b n steps j)

-- non-vacuity: two instances select the same call before either captures; one CAS wins, one invocation
example : lInvCount (lRun none (lInit 2)
    [.schedule 0 7 0, .commit 0, .select 0, .select 1, .capture 1, .capture 0, .invoke 1, .invoke 0,
     .delete 1, .select 0, .capture 0]) 0 = 1 := by decide

/-! ### "invoked at least once": never lost from the store before it was invoked -/

/-- a committed call whose row has left the store has been invoked (delete only after invoke) —
    unless it cannot be prepared (`bad`: logged and dropped with its batch, by design) -/
theorem legacy_committed_never_lost (b : Option Nat) (n : Nat) (steps : List LStep) (j : Nat) (r : LRow)
    (hr : (lRun b (lInit n) steps).rows[j]? = some r) (hv : r.vis = .deleted) :
    (∃ t i, (j, t, i) ∈ (lRun b (lInit n) steps).log) ∨ r.bad = true := by
  rcases (lSafe_reachable b n steps).del j r hr hv with h | ⟨r', hr', hb⟩
  · exact Or.inl h
  · rw [hr] at hr'; simp at hr'; subst hr'; exact Or.inr hb

theorem legacy_committed_stays (b : Option Nat) (s : LState) (steps : List LStep) (j : Nat) (r : LRow)
    (hr : s.rows[j]? = some r) (hv : r.vis = .committed) :
    ∃ r' : LRow, (lRun b s steps).rows[j]? = some r' ∧ (r'.vis = .committed ∨ r'.vis = .deleted) := by
  obtain ⟨r', h1, _, _, hvm, _⟩ := (lRun_ext b steps s).rows j r hr
  exact ⟨r', h1, hvm.1 (Or.inl hv)⟩

example : (lRun none (lInit 1)
    [.schedule 0 7 0, .commit 0, .select 0, .capture 0, .invoke 0, .delete 0]).rows[0]? =
      some { executeAt := 0, processing := true, key := 7, vis := .deleted } := by decide

/-! ### "If the scheduler that captured a job dies, another instance runs it …" — FALSE for the
    legacy scheduler -/

/-- Pick-up.  In ANY state: a committed, due, preparable call whose flag is clear is captured and
    queued for invocation by a poll (select, capture) of any live idle instance (no batch limit) —
    whatever else is captured with it.  This is the restriction of the crash-recovery clause that
    holds: `processing = false`, i.e. no instance died (or is stalled) between its capture and its
    delete of this call. -/
theorem legacy_crash_recovery_partial (s : LState) (i j : Nat) (r : LRow)
    (hi : s.insts[i]? = some (true, .idle))
    (hr : s.rows[j]? = some r) (hv : r.vis = .committed) (hdue : r.executeAt ≤ s.clock)
    (hp : r.processing = false) (hgood : r.bad = false) :
    (j, s.clock, i) ∈ (lRun none s [.select i, .capture i]).caps ∧
      ∃ ids todo, (lRun none s [.select i, .capture i]).insts[i]? = some (true, .busy ids todo) ∧ j ∈ todo := by
  have hel : lEligible s.clock r = true := by
    simp [lEligible, hv, hp]; omega
  have hmem := mem_lSelect_nobatch hr hel
  have hq := lCaptureAll_captures _ s.rows j r hmem hr hv hp
  have hlt : i < s.insts.length := (List.getElem?_eq_some_iff.mp hi).1
  have hne : (lCaptureAll (lSelect none s.clock s.rows) s.rows).2 ≠ [] := by
    intro h; rw [h] at hq; simp at hq
  simp only [lRun, lStep, hi, List.getElem?_set, hlt, if_true, List.length_set]
  refine ⟨?_, ?_⟩
  · simp only [List.mem_append, List.mem_reverse, List.mem_map]
    exact Or.inl ⟨j, hq, rfl⟩
  · exact ⟨(lCaptureAll (lSelect none s.clock s.rows) s.rows).2,
      lGood s.rows (lCaptureAll (lSelect none s.clock s.rows) s.rows).2, by simp [hne],
      List.mem_filter.mpr ⟨hq, by simp [lIsBad, hr, hgood]⟩⟩

-- non-vacuity of the partial statement: instance 0 died BEFORE capturing, instance 1 picks the call up
example : (0, 1, 1) ∈ (lRun none (lRun none (lInit 2) [.schedule 1 7 0, .commit 0, .select 0, .crash 0, .tick 1])
    [.select 1, .capture 1]).caps := by decide

/-- the head of the to-do list is invoked by the next step of the loop, now, by that instance -/
theorem legacy_busy_head_runs (b : Option Nat) (s : LState) (i a : Nat) (ids todo : List Nat)
    (hi : s.insts[i]? = some (true, .busy ids (a :: todo))) :
    (a, s.clock, i) ∈ (lStep b s (.invoke i)).log := by
  simp [lStep, hi]

/-- The crash-recovery clause at full strength — a committed, due, not yet invoked call is picked
    up by the poll of a live idle instance, whatever happened before — is FALSE of the legacy
    scheduler: instance 0 captures the call and dies; the flag stays set; instance 1 polls 100
    seconds later and gets nothing.  (Replayed on the real `LegacyScheduler` by the corpus case of
    harness/sched_legacy.py; known finding `legacy-captured-call-never-run`.) -/
theorem legacy_crash_recovery_full_fails :
    ¬ (∀ (n : Nat) (steps : List LStep) (i j : Nat) (r : LRow),
        (lRun none (lInit n) steps).insts[i]? = some (true, .idle) →
        (lRun none (lInit n) steps).rows[j]? = some r → r.vis = .committed →
        r.executeAt ≤ (lRun none (lInit n) steps).clock → lInvCount (lRun none (lInit n) steps) j = 0 →
        ∃ ids todo, (lRun none (lRun none (lInit n) steps) [.select i, .capture i]).insts[i]? =
          some (true, .busy ids todo) ∧ j ∈ todo) := by
  intro h
  have h1 := h 2 [.schedule 0 7 0, .commit 0, .select 0, .capture 0, .crash 0, .tick 100] 1 0
    { executeAt := 0, processing := true, key := 7, vis := .committed }
    (by decide) (by decide) (by decide) (by decide) (by decide)
  obtain ⟨ids, todo, h2, _⟩ := h1
  have h3 : (lRun none (lRun none (lInit 2) [.schedule 0 7 0, .commit 0, .select 0, .capture 0, .crash 0, .tick 100])
      [.select 1, .capture 1]).insts[1]? = some (true, .idle) := by decide
  rw [h3] at h2
  simp at h2

/-- No recapture: once the flag of a call is set and no instance has it in its to-do list, NO
    continuation whatsoever (any instances, any polls, any time) invokes it again -/
theorem legacy_no_recapture (b : Option Nat) (s : LState) (j : Nat) (r : LRow)
    (hr : s.rows[j]? = some r) (hp : r.processing = true)
    (hfree : ∀ x, x ∈ s.insts → ∀ ids todo, x.2 = .busy ids todo → j ∉ todo) (rest : List LStep) :
    lInvCount (lRun b s rest) j = lInvCount s j := by
  have hst : LStuck s j := by
    refine ⟨⟨r, hr, hp⟩, fun x hx => ?_⟩
    cases hph : x.2 with
    | idle => rfl
    | selected c => rfl
    | busy ids todo =>
      simp only [lPendPhase]
      exact List.count_eq_zero.mpr (hfree x hx ids todo hph)
  exact (lStuck_run b j rest s hst).2

/-- The finding, for ALL histories: whenever an instance that has captured call j and not yet
    invoked it dies, j is never invoked — by nobody, however long the others keep polling.  The
    committed call is neither run nor lost from the store: it stays `processing = True` for ever. -/
theorem legacy_crashed_capture_never_runs (b : Option Nat) (n : Nat) (pre rest : List LStep) (x j : Nat)
    (ids todo : List Nat)
    (hi : (lRun b (lInit n) pre).insts[x]? = some (true, .busy ids todo)) (hj : j ∈ todo) :
    lInvCount (lRun b (lInit n) (pre ++ .crash x :: rest)) j = 0 := by
  obtain ⟨hst, h0⟩ := lCrash_strands b (lCnt_reachable b n pre) hi hj
  rw [lRun_append]
  simp only [lRun]
  rw [(lStuck_run b j rest _ hst).2, h0]

/-- FIXED (`fix: a delayed call that can't be prepared doesn't strand the rest of its batch`; the
    former `legacy_bad_target_strands_batch`, now a regression): a captured call that cannot be
    prepared is logged and skipped by `_prepare_calls`; every OTHER call captured in the same batch is
    invoked by the `_invoke_calls` loop of that very iteration.  For all histories `pre`: the capture
    by instance `i` followed by the invoke steps of the batch puts every preparable captured call into
    the log, at the time of the capture, by `i`. -/
theorem legacy_bad_target_spares_batch (b : Option Nat) (n : Nat) (pre : List LStep) (i j : Nat)
    (cands : List Nat) (r : LRow)
    (hi : (lRun b (lInit n) pre).insts[i]? = some (true, .selected cands))
    (hj : j ∈ (lCaptureAll cands (lRun b (lInit n) pre).rows).2)
    (hr : (lRun b (lInit n) pre).rows[j]? = some r) (hgood : r.bad = false) :
    (j, (lRun b (lInit n) pre).clock, i) ∈
      (lRun b (lInit n) (pre ++ .capture i ::
        List.replicate (lGood (lRun b (lInit n) pre).rows (lCaptureAll cands (lRun b (lInit n) pre).rows).2).length
          (.invoke i))).log := by
  have hne : (lCaptureAll cands (lRun b (lInit n) pre).rows).2 ≠ [] := by
    intro h; rw [h] at hj; simp at hj
  have hlt : i < (lRun b (lInit n) pre).insts.length := (List.getElem?_eq_some_iff.mp hi).1
  have hjt : j ∈ lGood (lRun b (lInit n) pre).rows (lCaptureAll cands (lRun b (lInit n) pre).rows).2 :=
    List.mem_filter.mpr ⟨hj, by simp [lIsBad, hr, hgood]⟩
  rw [lRun_append]
  simp only [lRun]
  have hstep : lStep b (lRun b (lInit n) pre) (.capture i) =
      { (lRun b (lInit n) pre) with
        rows := (lCaptureAll cands (lRun b (lInit n) pre).rows).1
        caps := ((lCaptureAll cands (lRun b (lInit n) pre).rows).2.map fun j =>
          (j, (lRun b (lInit n) pre).clock, i)).reverse ++ (lRun b (lInit n) pre).caps
        insts := (lRun b (lInit n) pre).insts.set i (true, .busy (lCaptureAll cands (lRun b (lInit n) pre).rows).2
          (lGood (lRun b (lInit n) pre).rows (lCaptureAll cands (lRun b (lInit n) pre).rows).2)) } := by
    simp [lStep, hi, hne]
  rw [hstep]
  have hi' : ({ (lRun b (lInit n) pre) with
        rows := (lCaptureAll cands (lRun b (lInit n) pre).rows).1
        caps := ((lCaptureAll cands (lRun b (lInit n) pre).rows).2.map fun j =>
          (j, (lRun b (lInit n) pre).clock, i)).reverse ++ (lRun b (lInit n) pre).caps
        insts := (lRun b (lInit n) pre).insts.set i (true, .busy (lCaptureAll cands (lRun b (lInit n) pre).rows).2
          (lGood (lRun b (lInit n) pre).rows (lCaptureAll cands (lRun b (lInit n) pre).rows).2)) } : LState).insts[i]? =
      some (true, .busy (lCaptureAll cands (lRun b (lInit n) pre).rows).2
          (lGood (lRun b (lInit n) pre).rows (lCaptureAll cands (lRun b (lInit n) pre).rows).2)) :=
    List.getElem?_set_self hlt
  obtain ⟨h1, _⟩ := lInvoke_all b i _ _ _ hi'
  rw [h1]
  simp only [List.mem_append, List.mem_reverse, List.mem_map]
  exact Or.inl ⟨j, hjt, rfl⟩

-- regression (the former witness of `legacy_bad_target_strands_batch`): a valid call (0) and an
-- un-preparable one (1) are captured together; the valid call is invoked, both rows are deleted,
-- the un-preparable call is never invoked
example : (lRun none (lInit 1) [.schedule 0 7 0, .scheduleBad 0 7 0, .commit 0, .select 0, .capture 0]).insts[0]? =
      some (true, .busy [1, 0] [0]) ∧
    (lRun none (lInit 1) [.schedule 0 7 0, .scheduleBad 0 7 0, .commit 0, .select 0, .capture 0,
      .invoke 0, .delete 0]).log = [(0, 0, 0)] ∧
    lHasJobs (lRun none (lInit 1) [.schedule 0 7 0, .scheduleBad 0 7 0, .commit 0, .select 0, .capture 0,
      .invoke 0, .delete 0]) none none = false := by
  decide

-- non-vacuity of the hypotheses: an instance busy with a captured, not yet invoked call
example : (lRun none (lInit 2) [.schedule 0 7 0, .commit 0, .select 0, .capture 0]).insts[0]? =
    some (true, .busy [0] [0]) := by decide

/-! ### "a query for pending jobs by key reports exactly the jobs with that key that are not yet
    being processed" — true at full strength for the legacy scheduler -/

/-- `LegacyScheduler.has_scheduled_jobs(key=k, processing=False)` always asks the store: it is
    exactly "a visible call with that key whose flag is clear exists" -/
theorem legacy_has_jobs_exact (s : LState) (k : Nat) :
    lHasJobs s (some k) (some false) = lPendingTruth s k := by
  unfold lHasJobs lPendingTruth
  congr 1
  funext r
  have hk : (k == r.key) = (r.key == k) := by
    rw [Bool.eq_iff_iff]; simp only [beq_iff_eq]; exact eq_comm
  cases hp : r.processing
  · simp [lRowMatch, keyMatch, hp]; rw [hk]
  · simp [lRowMatch, keyMatch, hp]

example : lHasJobs (lRun none (lInit 1) [.schedule 1 7 0, .commit 0]) (some 7) (some false) = true ∧
    lHasJobs (lRun none (lInit 1) [.schedule 1 7 0, .rollback 0]) (some 7) (some false) = false ∧
    lHasJobs (lRun none (lInit 1) [.schedule 0 7 0, .commit 0, .select 0, .capture 0]) (some 7) (some false) = false := by
  decide

end Mistral.Props.C13Legacy
