/-
C10 over the engine core WITH ENGINE COMMANDS (`stepXg`, every order of sibling commands; `stepX` = the
code's): a `pause` - the operator's or a `pause` command in an on-clause - is acknowledged, and while PAUSED
nothing but `resume` or a stop changes the workflow state (results are recorded, their commands go to the
backlog).  "No creation while PAUSED" with commands is `Props.C11X.no_creation_while_pausedX`.
-/
import Mistral.Props.C11X
namespace Mistral.Props.C10X
open Mistral Mistral.Engine Mistral.Join Mistral.Lifecycle

theorem pause_acknowledgedX (srt : Sorter) (sp : Spec) (w : World) (h : w.wf = .RUNNING) :
    (stepXg srt sp w .pause).wf = .PAUSED := by
  simp only [stepXg, h]; decide

/-- a `pause` command in an on-clause pauses the workflow at once (and the loop saves what follows) -/
theorem pause_command_acknowledged (sp : Spec) (r : Bool) (w : World) (c : Cmd) (hw : w.wf = .RUNNING)
    (hk : cmdKind c.target = .pause) : (dispatchOneX sp r w c).wf = .PAUSED := by
  have h1 : isCompleted St.RUNNING = false := by decide
  have h2 : (St.RUNNING == St.PAUSED) = false := by decide
  unfold dispatchOneX
  simp only [hw, hk, h1, h2, Bool.false_eq_true, if_false]
  decide

/-- C10 `paused_stays_paused`, engine commands included: while PAUSED no event but `resume` / a stop changes
    the workflow state - also not the result of a task whose on-clause holds `fail` / `succeed` (the command is
    not even calculated: `Task.complete` returns before `continue_workflow` while PAUSED). -/
theorem paused_stays_pausedX (srt : Sorter) (sp : Spec) (w : World) (ev : Event) (hp : w.wf = .PAUSED)
    (h1 : ev ≠ .resume) (h2 : ∀ t, ev ≠ .stop t) : (stepXg srt sp w ev).wf = .PAUSED := by
  have key : ∀ (ts : List TaskRow) (p : List Item) (r : TaskRow) (s : St),
      (completeTaskX srt sp { w with tasks := ts, pending := p } r s).wf = .PAUSED :=
    fun ts p r s => (Props.C11X.completeTaskX_paused srt sp { w with tasks := ts, pending := p } r s hp).2
  cases ev with
  | start => simp only [stepXg]; split <;> first | exact hp | (rename_i h; rw [hp] at h; exact absurd h (by decide))
  | pause => simp only [stepXg, hp]; decide
  | resume => exact absurd rfl h1
  | stop t => exact absurd rfl (h2 t)
  | execute t ok => simp only [stepXg]; split <;> exact hp
  | deliver it =>
    simp only [stepXg]
    split
    · exact hp
    · cases it with
      | postStartTask t f => exact hp
      | postRunAction t => exact hp
      | runAction t => exact hp
      | postCheck =>
        simp only
        rw [checkAndComplete_inert _ (by simp [hp]; decide)]
        exact hp
      | postSchedRefresh t => simp only; split <;> exact hp
      | rpcStartTask t firstRun =>
        simp only
        split
        · exact hp
        · split
          · split
            · exact hp
            · split
              · split <;> exact hp
              · rw [(checkAffected_tasks sp _ t).2]; exact hp
          · split
            · exact hp
            · split
              · rw [(checkAffected_tasks sp _ t).2]; exact hp
              · split <;> exact hp
      | rpcResult t ok =>
        simp only
        split
        · exact hp
        · exact key _ _ _ _
      | jobRefresh t =>
        simp only
        split
        · exact hp
        · split
          · exact hp
          · split
            · exact hp
            · split
              · exact hp
              · split
                · exact hp
                · split
                  · split <;> exact hp
                  · split
                    · exact key _ _ _ _
                    · exact hp

theorem paused_stays_paused_stepX (sp : Spec) (w : World) (ev : Event) (hp : w.wf = .PAUSED)
    (h1 : ev ≠ .resume) (h2 : ∀ t, ev ≠ .stop t) : (stepX sp w ev).wf = .PAUSED :=
  paused_stays_pausedX pySorter sp w ev hp h1 h2

/-- non-vacuity: a: on-success: [pause, x] - the completion of a pauses the workflow; the late result of b
    leaves it PAUSED -/
example : Props.C11X.bPaused.wf = .PAUSED ∧
    (stepX Props.C11X.bSpec Props.C11X.bPaused (.deliver (.rpcResult ("b", 0) true))).wf = .PAUSED := by decide +kernel

end Mistral.Props.C10X
