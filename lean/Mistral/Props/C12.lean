/-
C12 — Rerun or skip of a failed task resumes the run correctly.

Property theorems over Mistral/Model/Rerun.lean (tied to the code by the `rerun` correspondence
stream: harness/rerun_stream.py runs `rerunOp` / `startTask` / `restGuard` of this model and the
real engine / REST controller on the same generated failed runs).

Statement: "Rerunning a task that ended in ERROR puts the task, its workflow and all enclosing
workflows and parent tasks back to RUNNING, re-executes the task (all of its items, or only the
failed ones when reset is off), and the run then finishes as if the task had produced its new
result the first time. Skipping it marks it SKIPPED, publishes publish-on-skip and follows on-skip
(or on-success when there is none); tasks that are not in ERROR, or that already succeeded, cannot
be rerun or skipped."
-/
import Mistral.Lemmas.Rerun

namespace Mistral.Props.C12
open Mistral Mistral.Rerun

/-! ## "tasks that are not in ERROR, or that already succeeded, cannot be rerun or skipped" -/

/-- REST: a rerun (`state: RUNNING`) reaches the engine only for a task in ERROR. -/
theorem rerun_requires_error (tn wn : String) (st : St) (wi : Bool) (r : PutReq) (reset : Bool)
    (h : restGuard tn wn st wi r = .ok (reset, false)) : st = .ERROR ∧ r.state = .RUNNING := by
  unfold restGuard at h
  repeat (split at h; · cases h)
  simp only [Except.ok.injEq, Prod.mk.injEq] at h
  rename_i h3 h4 _ _
  constructor
  · simpa using h4
  · have h3' : r.state = .RUNNING ∨ r.state = .SKIPPED := by
      cases hs : r.state <;> simp [hs] at h3 ⊢
    rcases h3' with h' | h'
    · exact h'
    · simp [h'] at h

/-- REST: a skip (`state: SKIPPED`) reaches the engine only for a task in ERROR. -/
theorem skip_requires_error (tn wn : String) (st : St) (wi : Bool) (r : PutReq) (reset : Bool)
    (h : restGuard tn wn st wi r = .ok (reset, true)) : st = .ERROR ∧ r.state = .SKIPPED := by
  unfold restGuard at h
  repeat (split at h; · cases h)
  simp only [Except.ok.injEq, Prod.mk.injEq] at h
  rename_i h3 h4 _ _
  exact ⟨by simpa using h4, by simpa using h.2⟩

/-- REST: every request on a task that is not in ERROR is rejected (nothing reaches the engine). -/
theorem rest_rejects_non_error (tn wn : String) (st : St) (wi : Bool) (r : PutReq)
    (h : st ≠ .ERROR) : ∃ e, restGuard tn wn st wi r = .error e := by
  cases hg : restGuard tn wn st wi r with
  | error e => exact ⟨e, rfl⟩
  | ok v =>
    obtain ⟨reset, skip⟩ := v
    cases skip with
    | false => exact absurd (rerun_requires_error tn wn st wi r reset hg).1 h
    | true => exact absurd (skip_requires_error tn wn st wi r reset hg).1 h

example : restGuard "t" "wf" .ERROR true
    { state := .RUNNING, resetGiven := true, reset := false } = .ok (false, false) := by decide
example : restGuard "t" "wf" .SUCCESS true
    { state := .RUNNING, resetGiven := true, reset := true } = .error .notError := by decide

/-- REST and engine agree: what the REST guard lets through never hits the engine's own
    "succeeded task" refusal. -/
theorem rest_guard_implies_engine_start_ok (tn wn : String) (wi : Bool) (r : PutReq)
    (v : Bool × Bool) (w : World) (t : Nat) (x : Task) (hx : w.tasks[t]? = some x)
    (h : restGuard tn wn x.state wi r = .ok v) (reset : Bool) :
    startTask w ⟨t, reset⟩ ≠ .error .succeeded := by
  have hs : x.state = .ERROR := by
    obtain ⟨a, b⟩ := v
    cases b with
    | false => exact (rerun_requires_error tn wn _ wi r a h).1
    | true => exact (skip_requires_error tn wn _ wi r a h).1
  unfold startTask
  simp [hx, hs]

/-- Engine: "tasks that already succeeded cannot be rerun": the delivery of the rerun's
    `start_task` for a SUCCESS task raises MistralError 'Rerunning succeeded tasks is not
    supported' (and, raising, changes nothing). -/
theorem success_not_rerunnable (w : World) (t : Nat) (x : Task) (reset : Bool)
    (hx : w.tasks[t]? = some x) (hs : x.state = .SUCCESS) :
    startTask w ⟨t, reset⟩ = .error .succeeded := by
  unfold startTask
  simp [hx, hs]

/-- Engine: a PAUSED workflow makes the command a no-op. -/
theorem rerun_paused_noop (w : World) (t : Nat) (x : Task) (wf : Wf) (reset skip : Bool)
    (hx : w.tasks[t]? = some x) (hwf : w.wfs[x.wf]? = some wf) (hp : wf.state = .PAUSED) :
    rerunOp w t reset skip = .ok w := by
  unfold rerunOp
  simp [hx, hwf, hp]

/-- Engine: a workflow that succeeded cannot be set RUNNING again: the command raises the declared
    WorkflowException and changes nothing (regenerated transition table). -/
theorem rerun_succeeded_wf_rejected (w : World) (t : Nat) (x : Task) (wf : Wf) (reset skip : Bool)
    (hx : w.tasks[t]? = some x) (hwf : w.wfs[x.wf]? = some wf) (hs : wf.state = .SUCCESS) :
    rerunOp w t reset skip = .error (.invalidWfTransition x.wf) := by
  have hlen : 0 < w.wfs.length := by
    have := (List.getElem?_eq_some_iff.mp hwf).1
    omega
  obtain ⟨rest, hc⟩ := chainWfs_head w w.wfs.length x.wf wf hlen hwf
  have hr : reactivate w x.wf = .error (.invalidWfTransition x.wf) := by
    unfold reactivate
    simp only
    rw [hc, List.find?_cons]
    have : canRun St.SUCCESS = false := by decide
    simp [hwf, hs, this]
  unfold rerunOp
  simp [hx, hwf, hs, hr]

/-- What the engine by itself allows: the engine-side guard is weaker than the statement.  A task
    that is *not* in ERROR can be "rerun" through the engine API: the command succeeds and changes
    the execution (here: a SUCCESS task of a failed workflow; the workflow is set RUNNING before
    `_run_existing` refuses the task, and stays RUNNING). -/
theorem engine_rejects_non_error_full_fails :
    ¬ (∀ (w : World) (t : Nat) (x : Task) (reset skip : Bool), w.tasks[t]? = some x →
        x.state ≠ .ERROR → (rerunOp w t reset skip = .ok w ∨ ∃ e, rerunOp w t reset skip = .error e)) := by
  intro h
  rcases h { wfs := [{ state := .ERROR }], tasks := [{ wf := 0, state := .SUCCESS }] } 0
    { wf := 0, state := .SUCCESS } true false rfl (by decide) with h | ⟨e, h⟩
  · revert h; decide
  · have hv : rerunOp { wfs := [{ state := .ERROR }], tasks := [{ wf := 0, state := .SUCCESS }] } 0
        true false = .ok { wfs := [{ state := .RUNNING }], tasks := [{ wf := 0, state := .SUCCESS }],
                           starts := [⟨0, true⟩], integrity := [0, 0] } := by decide
    rw [hv] at h
    cases h

/-- ... and a SUCCESS task can be *skipped* through the engine API (it becomes SKIPPED). -/
theorem engine_skip_non_error_full_fails :
    ¬ (∀ (w w' : World) (t : Nat) (x : Task), w.tasks[t]? = some x → x.state ≠ .ERROR →
        rerunOp w t true true = .ok w' → (w'.tasks[t]?).map (·.state) = some x.state) := by
  intro h
  have := h { wfs := [{ state := .ERROR }], tasks := [{ wf := 0, state := .SUCCESS }] } _ 0
    { wf := 0, state := .SUCCESS } rfl (by decide) rfl
  revert this
  decide

/-- The restriction that does hold: commands admitted by the REST guard concern ERROR tasks only
    (`rest_rejects_non_error`), and for those the engine never refuses the task
    (`rest_guard_implies_engine_start_ok`); on its own the engine refuses exactly: PAUSED workflow
    (no-op), a chain workflow that cannot become RUNNING (error, nothing changes), SUCCESS task at
    `start_task` time. -/
theorem engine_rejects_non_error_partial (w : World) (t : Nat) (x : Task) (wf : Wf) (reset skip : Bool)
    (hx : w.tasks[t]? = some x) (hwf : w.wfs[x.wf]? = some wf)
    (h : wf.state = .PAUSED ∨ wf.state = .SUCCESS) :
    rerunOp w t reset skip = .ok w ∨ ∃ e, rerunOp w t reset skip = .error e := by
  rcases h with h | h
  · exact Or.inl (rerun_paused_noop w t x wf reset skip hx hwf h)
  · exact Or.inr ⟨_, rerun_succeeded_wf_rejected w t x wf reset skip hx hwf h⟩

/-! ## "puts the task, its workflow and all enclosing workflows and parent tasks back to RUNNING" -/

theorem rerunOp_ok (w w' : World) (t : Nat) (x : Task) (wf : Wf) (reset skip : Bool)
    (hx : w.tasks[t]? = some x) (hwf : w.wfs[x.wf]? = some wf) (hp : wf.state ≠ .PAUSED)
    (h : rerunOp w t reset skip = .ok w') :
    ∃ w1 : World, reactivate w x.wf = .ok w1 ∧ w'.wfs = w1.wfs ∧
      (∀ k : Nat, (w'.tasks[k]?).isSome = (w1.tasks[k]?).isSome) ∧
      (skip = false → ∀ k : Nat, k ≠ t → (w'.tasks[k]?).map (·.state) = (w1.tasks[k]?).map (·.state)) ∧
      ((w'.tasks[t]?).map (·.rt) = some []) ∧
      (skip = false → (w'.tasks[t]?).map (·.state) = (w1.tasks[t]?).map (·.state) ∧
                       w'.starts = w.starts ++ [⟨t, reset⟩]) ∧
      (skip = true → w'.tasks[t]? = (w1.tasks[t]?).map fun y =>
          completeTask { y with rt := [] } .SKIPPED) := by
  unfold rerunOp at h
  simp only [hx, hwf] at h
  have hp' : (wf.state == St.PAUSED) = false := by simpa using hp
  simp only [hp', Bool.false_eq_true, if_false] at h
  cases hr : reactivate w x.wf with
  | error e => simp [hr] at h
  | ok w1 =>
    simp only [hr] at h
    have hst := (reactivate_ok w w1 x.wf hr).2.2.1
    have ht1 : (w1.tasks[t]?).isSome = true := by
      rw [reactivate_task_exists w w1 x.wf t hr, hx]; rfl
    obtain ⟨y, hy⟩ := Option.isSome_iff_exists.mp ht1
    refine ⟨w1, rfl, ?_, ?_, ?_, ?_, ?_, ?_⟩
    all_goals
      cases skip <;> cases h <;>
        simp [setTask, skipTask, List.getElem?_mapIdx, List.getElem?_map, hy, hst, completeTask, markProcessed]
    all_goals first
      | (intro k; cases w1.tasks[k]? <;> simp [markProcessed] <;> (try split) <;> simp <;>
          (try (intro hk; contradiction)))
      | (intro k hk; cases w1.tasks[k]? <;> simp [hk, markProcessed] <;> (try split) <;> simp [hk, markProcessed])
      | (intro hsk k hk; cases w1.tasks[k]? <;> simp [hk, markProcessed] <;> (try split) <;> simp [hk, markProcessed])
      | skip

/-- after the command: the workflow of the task and every enclosing workflow is RUNNING and every
    parent task on the way up is RUNNING (nesting of any depth: `chain_complete` is an induction
    over the ancestor relation, `chain_closed` over the depth). -/
theorem rerun_reactivates_chain (w w' : World) (hw : WellNested w) (t : Nat) (x : Task) (wf : Wf)
    (reset skip : Bool) (hx : w.tasks[t]? = some x) (hwf : w.wfs[x.wf]? = some wf)
    (hp : wf.state ≠ .PAUSED) (h : rerunOp w t reset skip = .ok w') :
    (∀ k, Anc w x.wf k → (w'.wfs[k]?).map (·.state) = some .RUNNING) ∧
    (skip = false → ∀ k p wfk tp, Anc w x.wf k → w.wfs[k]? = some wfk → wfk.parent = some p →
        w.tasks[p]? = some tp → p ≠ t → (w'.tasks[p]?).map (·.state) = some .RUNNING) := by
  obtain ⟨w1, hr, hwfs, _, hts, _⟩ := rerunOp_ok w w' t x wf reset skip hx hwf hp h
  have hi : x.wf < w.wfs.length := (List.getElem?_eq_some_iff.mp hwf).1
  constructor
  · intro k hk
    rw [hwfs]
    exact reactivate_wf_running w w1 x.wf k hr (chain_complete w hw x.wf hi k hk)
  · intro hsk k p wfk tp hk hwk hpar htp hne
    rw [hts hsk p hne]
    exact reactivate_task_running w w1 x.wf p tp hr
      (chain_tasks_complete w hw x.wf hi k p wfk tp hk hwk hpar htp) htp

/-- ... and the delivery of the `start_task` message the command sent puts the task itself to
    RUNNING with `processed = False` (so that its follow-ups are computed again when it
    completes), leaving every workflow and every other task as the command left them. -/
theorem rerun_task_running (w w' : World) (t : Nat) (x : Task) (reset : Bool)
    (hx : w.tasks[t]? = some x) (hs : x.state ≠ .SUCCESS) (h : startTask w ⟨t, reset⟩ = .ok w') :
    (w'.tasks[t]?).map (fun y => (y.state, y.processed)) = some (.RUNNING, false) ∧
    w'.wfs = w.wfs ∧
    (∀ k, k ≠ t → w'.tasks[k]? = w.tasks[k]?) := by
  unfold startTask at h
  simp only [hx] at h
  have : (x.state == St.SUCCESS) = false := by simpa using hs
  simp only [this, Bool.false_eq_true, if_false] at h
  cases h
  refine ⟨?_, rfl, ?_⟩
  · simp [setTask, List.getElem?_mapIdx, hx]
  · intro k hk
    simp only [setTask, List.getElem?_mapIdx]
    cases w.tasks[k]? <;> simp [hk]

/-- non-vacuity: a task in a sub-workflow two levels down; the whole tree had failed. -/
def exWorld : World :=
  { wfs := [{ state := .ERROR }, { state := .ERROR, parent := some 0 }, { state := .ERROR, parent := some 1 }],
    tasks := [{ wf := 0, state := .ERROR }, { wf := 1, state := .ERROR },
              { wf := 2, state := .ERROR, rt := ["retry_task_policy"],
                acts := [⟨0, .ERROR, true⟩] }] }

example : WellNested exWorld := by
  intro i wf p t h1 h2 h3
  match i, h1 with
  | 0, h1 => simp [exWorld] at h1; subst h1; simp at h2
  | 1, h1 => simp [exWorld] at h1; subst h1; simp at h2; subst h2; simp [exWorld] at h3; subst h3; simp
  | 2, h1 => simp [exWorld] at h1; subst h1; simp at h2; subst h2; simp [exWorld] at h3; subst h3; simp
  | n + 3, h1 => simp [exWorld] at h1

example : (rerunOp exWorld 2 true false).toOption.map
    (fun w => (w.wfs.map (·.state), w.tasks.map (·.state), w.starts, (w.tasks.map (·.rt)))) =
    some ([.RUNNING, .RUNNING, .RUNNING], [.RUNNING, .RUNNING, .ERROR], [⟨2, true⟩], [[], [], []]) := by
  decide

/-! ## "re-executes the task (all of its items, or only the failed ones when reset is off)" -/

/-- reset on: every item is executed again (every item has a completed execution: the task had
    ended). -/
theorem rerun_executes_all_items (acts : List Act) (n : Nat)
    (h : ∀ i < n, ∃ a ∈ acts, a.idx = i ∧ isCompleted a.state = true) :
    nextIndexes (resetActs true acts) n none = List.range n :=
  nextIndexes_all_cand _ n fun i hi => isCand_reset_true acts i (h i hi)

/-- a plain task always gets exactly one new execution -/
theorem rerun_executes_plain (x : Task) (reset : Bool) (h : x.spec.items = none) :
    newIndexes x reset = [0] := by
  simp [newIndexes, h]

/-- reset off, statement at full strength ("only the failed ones") is FALSE of the code: when a
    failed item is followed by items that succeeded, `_get_next_indexes` appends
    `range(max(candidates)+1, count)` without removing the accepted ones, so the succeeded items
    run again (their new results are accepted on top of the old ones and the task can never
    complete: accepted executions outnumber `count`). -/
theorem rerun_executes_only_failed_full_fails :
    ¬ (∀ (acts : List Act) (n : Nat),
        (∀ i < n, ∃ a ∈ acts, a.idx = i ∧ isCompleted a.state = true) →
        nextIndexes (resetActs false acts) n none =
          (List.range n).filter (isCand (resetActs false acts))) := by
  intro h
  have := h [⟨0, .ERROR, true⟩, ⟨1, .SUCCESS, true⟩, ⟨2, .SUCCESS, true⟩] 3 (by decide)
  revert this
  decide

/-- the restriction that holds: when the last item is among the failed ones, exactly the items
    whose executions are all unaccepted after the reset (the failed ones) are executed. -/
theorem rerun_executes_only_failed_partial (acts : List Act) (n : Nat)
    (hlast : isCand (resetActs false acts) n = true) :
    nextIndexes (resetActs false acts) (n + 1) none =
      (List.range (n + 1)).filter (isCand (resetActs false acts)) :=
  nextIndexes_last_cand _ n hlast

/-- "failed" = candidate, for a task that ran once to the end (`firstRun outs`): item i is a
    candidate after the no-reset reset exactly when its accepted execution ended in ERROR or
    CANCELLED. -/
theorem failed_iff_cand (outs : List St) (i : Nat) (s : St) (hi : outs[i]? = some s)
    (hc : isCompleted s = true) :
    isCand (resetActs false (firstRun outs)) i = failedSt s :=
  isCand_reset_false_firstRun outs i s hi hc

/-- with a concurrency limit the statement "re-executes all of its items" is FALSE of the code: after
    the first batch of a reset rerun (here: 3 items, capacity 2; new execution of item 0 accepted,
    new execution of item 1 still RUNNING) `_get_next_indexes` still counts item 1 as a candidate
    because of its old unaccepted execution, schedules it a second time and never reaches item 2. -/
theorem rerun_never_reschedules_inflight_full_fails :
    ¬ (∀ (acts : List Act) (n c : Nat) (i : Nat), i ∈ nextIndexes acts n (some c) →
        ∀ a ∈ acts, a.idx = i → isRunning a.state = false) := by
  intro h
  have := h [⟨0, .ERROR, false⟩, ⟨1, .SUCCESS, false⟩, ⟨2, .SUCCESS, false⟩, ⟨0, .SUCCESS, true⟩,
             ⟨1, .RUNNING, false⟩] 3 1 1 (by decide) ⟨1, .RUNNING, false⟩ (by decide) rfl
  revert this
  decide

/-- without a limit there is no second batch: the single batch is the complete list
    (`rerun_executes_all_items`), so nothing in flight is ever scheduled again. -/
theorem rerun_never_reschedules_inflight_partial (acts : List Act) (n : Nat)
    (h : ∀ i < n, ∃ a ∈ acts, a.idx = i ∧ isCompleted a.state = true) :
    (nextIndexes (resetActs true acts) n none).length = n := by
  rw [nextIndexes_all_cand _ n fun i hi => isCand_reset_true acts i (h i hi)]
  simp

example : nextIndexes (resetActs false [⟨0, .SUCCESS, true⟩, ⟨1, .ERROR, true⟩, ⟨2, .ERROR, true⟩]) 3 none
    = [1, 2] := by decide
example : nextIndexes (resetActs false [⟨0, .ERROR, true⟩, ⟨1, .SUCCESS, true⟩, ⟨2, .SUCCESS, true⟩]) 3 none
    = [0, 1, 2] := by decide

/-! ## runtime context (leftover policy state) -/

/-- the command clears the task's runtime context (retry counter, with-items bookkeeping,
    triggered_by): the new attempt starts with fresh policy state. -/
theorem runtime_context_cleared (w w' : World) (t : Nat) (x : Task) (wf : Wf) (reset skip : Bool)
    (hx : w.tasks[t]? = some x) (hwf : w.wfs[x.wf]? = some wf) (hp : wf.state ≠ .PAUSED)
    (h : rerunOp w t reset skip = .ok w') : (w'.tasks[t]?).map (·.rt) = some [] := by
  obtain ⟨_, _, _, _, _, hrt, _⟩ := rerunOp_ok w w' t x wf reset skip hx hwf hp h
  exact hrt

/-! ## "Skipping it marks it SKIPPED, publishes publish-on-skip and follows on-skip (or on-success
       when there is none)" -/

theorem routes_skipped (s : Spec) :
    routes s .SKIPPED = if s.onSkip.isEmpty then s.onSuccess.map (·, "on-success")
                        else s.onSkip.map (·, "on-skip") := by
  unfold routes
  have h1 : isCompleted St.SKIPPED = true := by decide
  have h2 : isSkipped St.SKIPPED = true := by decide
  cases h : s.onSkip with
  | nil => simp [h1, h2]
  | cons a l => simp [h1, h2]

/-- on-complete is NOT followed for a skipped task -/
theorem skipped_ignores_on_complete (s : Spec) (n : String) :
    (n, "on-complete") ∉ routes s .SKIPPED := by
  rw [routes_skipped]
  split <;> simp

theorem skip_semantics (w w' : World) (t : Nat) (x : Task) (wf : Wf) (reset : Bool)
    (hx : w.tasks[t]? = some x) (hwf : w.wfs[x.wf]? = some wf) (hp : wf.state ≠ .PAUSED)
    (h : rerunOp w t reset true = .ok w') :
    ∃ y, w'.tasks[t]? = some y ∧ y.state = .SKIPPED ∧
      (x.spec.publishOnSkip ≠ [] → y.published = x.spec.publishOnSkip) ∧
      y.nextTasks = (if x.spec.onSkip.isEmpty then x.spec.onSuccess.map (·, "on-success")
                     else x.spec.onSkip.map (·, "on-skip")) := by
  obtain ⟨w1, hr, _, _, _, _, _, hsk⟩ := rerunOp_ok w w' t x wf reset true hx hwf hp h
  have hsk := hsk rfl
  have h1 : ∃ y1, w1.tasks[t]? = some y1 ∧ y1.spec = x.spec := by
    rw [(reactivate_ok w w1 x.wf hr).2.1]
    simp only [List.getElem?_mapIdx, hx, Option.map_some]
    split
    · refine ⟨_, rfl, ?_⟩
      unfold markRunning; split <;> rfl
    · exact ⟨_, rfl, rfl⟩
  obtain ⟨y1, hy1, hspec⟩ := h1
  rw [hy1] at hsk
  refine ⟨_, hsk, rfl, ?_, ?_⟩
  · intro hne
    simp only [completeTask, publishFor, hspec]
    cases hq : x.spec.publishOnSkip with
    | nil => exact absurd hq hne
    | cons a l => simp
  · simp only [completeTask, hspec]
    exact routes_skipped x.spec

example : (rerunOp { wfs := [{ state := .ERROR }],
                     tasks := [{ wf := 0, state := .ERROR,
                                 spec := { publishOnSkip := [("s", "7")], onSkip := ["t3"],
                                           onSuccess := ["t2"], onComplete := ["t4"] } }] } 0 true true
    ).toOption.map (fun w => (w.tasks.map fun y => (y.state, y.published, y.nextTasks), w.created)) =
    some ([(.SKIPPED, [("s", "7")], [("t3", "on-skip")])], [(0, "t3", "on-skip")]) := by rfl

/-! ## "the run then finishes as if the task had produced its new result the first time"
    (task-local part; the global claim is decided by the reference-run monitor) -/

/-- FALSE at full strength: `publish_variables` leaves `published` untouched when the publish
    spec for the new state is empty, so the variables of `publish-on-error` written by the failed
    attempt survive a successful rerun (and flow on into the workflow output). -/
theorem rerun_same_as_fresh_full_fails :
    ¬ (∀ (x : Task) (st : St), (completeTask (completeTask x .ERROR) st).published =
        (freshComplete x st).published) := by
  intro h
  have := h { wf := 0, state := .RUNNING, spec := { publishOnError := [("e", "1")] } } .SUCCESS
  revert this
  decide

/-- holds when the failed attempt published nothing, or the new state publishes something. -/
theorem rerun_same_as_fresh_partial (x : Task) (st : St)
    (h : x.spec.publishOnError = [] ∨ publishFor x.spec st ≠ []) (hx : x.published = []) :
    (completeTask (completeTask x .ERROR) st).published = (freshComplete x st).published := by
  unfold freshComplete completeTask
  simp only [publishFor, hx]
  rcases h with h | h
  · simp [h]
  · have : (publishFor x.spec st).isEmpty = false := by
      cases hq : publishFor x.spec st with
      | nil => exact absurd hq h
      | cons a l => rfl
    simp only [publishFor] at this
    simp [this]

/-- FALSE at full strength: what the failed attempt had started through on-error / on-complete
    stays started, and on-complete is followed a second time. -/
theorem rerun_follows_only_new_routes_full_fails :
    ¬ (∀ (s : Spec) (st : St), startedAfterRerun s st = (routes s st).map (·.1)) := by
  intro h
  have := h { onComplete := ["t4"] } .SUCCESS
  revert this
  decide

theorem rerun_follows_only_new_routes_partial (s : Spec) (st : St)
    (h : s.onError = [] ∧ s.onComplete = []) :
    startedAfterRerun s st = (routes s st).map (·.1) := by
  unfold startedAfterRerun
  have : routes s .ERROR = [] := by
    unfold routes
    simp [h.1, h.2]
  simp [this]

end Mistral.Props.C12
