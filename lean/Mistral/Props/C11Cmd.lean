/-
C11 over the engine core WITH ENGINE COMMANDS (`stepXg`, every order of sibling commands; `stepX` = the code's):
the stop theorems; "finished is inert" with commands and backlog is `Props.C11X.no_dispatch_into_completed`.
-/
import Mistral.Props.C11X
namespace Mistral.Props.C11Cmd
open Mistral Mistral.Engine Mistral.Join Mistral.Lifecycle

theorem stop_sets_requested_stateX (srt : Sorter) (sp : Spec) (w : World) (t : St)
    (hw : (w.wf = .RUNNING ∧ (t = .SUCCESS ∨ t = .ERROR ∨ t = .CANCELLED)) ∨
          (w.wf = .PAUSED ∧ (t = .ERROR ∨ t = .CANCELLED))) :
    (stepXg srt sp w (.stop t)).wf = t := by
  rcases hw with ⟨h, rfl | rfl | rfl⟩ | ⟨h, rfl | rfl⟩ <;> simp [stepXg, h] <;> decide

theorem stop_only_requestedX (srt : Sorter) (sp : Spec) (w : World) (t : St) :
    (stepXg srt sp w (.stop t)).wf = t ∨ (stepXg srt sp w (.stop t)).wf = w.wf := by
  simp only [stepXg]
  cases hw : w.wf <;> cases t <;> decide

/-- a stop of a PAUSED workflow whose backlog holds saved commands: the final state is held, and whatever
    happens afterwards creates nothing - the backlog is never dispatched (`no_dispatch_into_completed`) -/
theorem stopped_with_backlog_inert (srt : Sorter) (sp : Spec) (w : World) (t : St) (ev : Event)
    (hw : w.wf = .PAUSED) (ht : t = .ERROR ∨ t = .CANCELLED) :
    (stepXg srt sp w (.stop t)).wf = t ∧
    ids (stepXg srt sp (stepXg srt sp w (.stop t)) ev) = ids w ∧
    (stepXg srt sp (stepXg srt sp w (.stop t)) ev).wf = t := by
  have h1 := stop_sets_requested_stateX srt sp w t (Or.inr ⟨hw, ht⟩)
  have hc : isCompleted (stepXg srt sp w (.stop t)).wf = true := by
    rw [h1]; rcases ht with rfl | rfl <;> decide
  have h2 := Props.C11X.no_dispatch_into_completed_g srt sp _ ev hc
  refine ⟨h1, ?_, h2.2.1.trans h1⟩
  rw [h2.1]
  rfl

end Mistral.Props.C11Cmd
