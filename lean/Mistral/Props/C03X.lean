/-
C03 over the engine core WITH ENGINE COMMANDS (`stepXg`, any order of sibling commands; `stepX` = the code's):
every change of the workflow state is a chain of documented moves - engine commands included: `pause` /
`fail` / `succeed` in on-clauses, commands restored from the backlog on `resume` (PAUSED → RUNNING → PAUSED /
ERROR … in one transaction) -, a started execution stays started, final states are never left.
-/
import Mistral.Props.C03
import Mistral.Props.C11X
namespace Mistral.Props.C03X
open Mistral Mistral.Engine Mistral.Join Mistral.Lifecycle Mistral.Props.C03

/-- a sequence of compare-and-swaps on the workflow state, each a documented move (or none) -/
inductive Chain : St → St → Prop
  | refl (a : St) : Chain a a
  | step {a b c : St} : moveOrStay a b → Chain b c → Chain a c

theorem Chain.single {a b : St} (h : moveOrStay a b) : Chain a b := .step h (.refl b)

theorem Chain.of_eq {a b : St} (h : b = a) : Chain a b := h ▸ .refl a

theorem Chain.trans {a b c : St} (h1 : Chain a b) (h2 : Chain b c) : Chain a c := by
  induction h1 with
  | refl _ => exact h2
  | step hm _ ih => exact .step hm (ih h2)

theorem Chain.started {a b : St} (h : Chain a b) (hs : StartedWf a) : StartedWf b := by
  induction h with
  | refl _ => exact hs
  | step hm _ ih => exact ih (moveOrStay_started _ _ hs hm)

theorem moveOrStay_completed : ∀ (a b : St), isCompleted a = true → moveOrStay a b → b = a := by
  intro a b hc hm
  rcases hm with hm | hm
  · exact hm
  · revert hc hm; cases a <;> cases b <;> decide

/-- a final state is never left along a chain -/
theorem Chain.completed {a b : St} (h : Chain a b) (hc : isCompleted a = true) : b = a := by
  induction h with
  | refl _ => rfl
  | step hm _ ih =>
    have hb := moveOrStay_completed _ _ hc hm
    rw [hb] at ih
    exact ih hc

theorem started_running (s : St) (hs : StartedWf s) (h1 : isCompleted s = false) (h2 : (s == St.PAUSED) = false) :
    s = .RUNNING := by
  rcases hs with h | h | h | h | h <;> subst h <;> first | rfl | (revert h1 h2; decide)

/-- one iteration of `_process_commands`: at most one documented move -/
theorem dispatchOneX_move (sp : Spec) (r : Bool) (w : World) (c : Cmd) (hs : StartedWf w.wf) :
    moveOrStay w.wf (dispatchOneX sp r w c).wf := by
  by_cases h1 : isCompleted w.wf = true
  · simp [dispatchOneX, h1, moveOrStay]
  · have h1' : isCompleted w.wf = false := by simpa using h1
    by_cases h2 : (w.wf == St.PAUSED) = true
    · simp [dispatchOneX, h1', h2, moveOrStay]
    · have h2' : (w.wf == St.PAUSED) = false := by simpa using h2
      have hrun := started_running w.wf hs h1' h2'
      simp only [dispatchOneX, h1', h2', Bool.false_eq_true, if_false]
      cases hk : cmdKind c.target with
      | noop => exact Or.inl rfl
      | pause => simp only; rw [hrun]; decide
      | fail => simp only; rw [hrun]; decide
      | succeed => simp only; rw [hrun]; decide
      | task =>
        simp only
        split
        · split <;> exact Or.inl rfl
        · exact Or.inl (dispatchTask_frame sp w c).1

theorem foldl_chain (sp : Spec) (r : Bool) (cs : List Cmd) :
    ∀ (w : World), StartedWf w.wf → Chain w.wf (cs.foldl (dispatchOneX sp r) w).wf := by
  induction cs with
  | nil => intro w _; exact .refl _
  | cons c cs ih =>
    intro w hs
    have hm := dispatchOneX_move sp r w c hs
    exact .step hm (ih _ (moveOrStay_started _ _ hs hm))

theorem processX_chain (srt : Sorter) (sp : Spec) (r : Bool) (w : World) (cs : List Cmd) (hs : StartedWf w.wf) :
    Chain w.wf (processX srt sp r w cs).wf := foldl_chain sp r _ w hs

theorem dispatchX_chain (srt : Sorter) (sp : Spec) (w : World) (cs : List Cmd) (hs : StartedWf w.wf) :
    Chain w.wf (dispatchX srt sp w cs).wf := by
  unfold dispatchX
  have h1 := processX_chain srt sp true { w with backlog := [] } w.backlog hs
  exact h1.trans (processX_chain srt sp false _ cs (h1.started hs))

theorem dispatchX_chain' (srt : Sorter) (sp : Spec) (W : World) (cs : List Cmd) (a : St) (h : W.wf = a)
    (hs : StartedWf a) : Chain a (dispatchX srt sp W cs).wf := by
  subst h; exact dispatchX_chain srt sp W cs hs

theorem checkAndComplete_chain (w : World) (hs : StartedWf w.wf) : Chain w.wf (checkAndComplete w).wf := by
  rcases checkAndComplete_wf w with h | ⟨hnc, h⟩
  · exact .of_eq h
  · have hrun : w.wf = .RUNNING := by
      rcases hs with h' | h' | h' | h' | h' <;> rw [h'] at hnc ⊢ <;> first | rfl | (revert hnc; decide)
    apply Chain.single
    rw [hrun]
    rcases h with h | h | h <;> rw [h] <;> decide

theorem checkAndComplete_chain' (W : World) (a : St) (h : W.wf = a) (hs : StartedWf a) :
    Chain a (checkAndComplete W).wf := by
  subst h; exact checkAndComplete_chain W hs

theorem ite_wf_eq (c : Prop) [Decidable c] (a b : World) (x : St) (ha : a.wf = x) (hb : b.wf = x) :
    (if c then a else b).wf = x := by
  split <;> assumption

theorem completeTaskX_chain (srt : Sorter) (sp : Spec) (w : World) (r : TaskRow) (s : St) (hs : StartedWf w.wf) :
    Chain w.wf (completeTaskX srt sp w r s).wf := by
  unfold completeTaskX
  split
  · exact .of_eq (checkAffected_tasks sp w _).2
  · rw [(checkAffected_tasks sp _ _).2]
    simp only
    split
    · exact .refl _
    · exact dispatchX_chain' srt sp _ _ w.wf (ite_wf_eq _ _ _ _ rfl rfl) hs

/-- C03 "the state of an execution changes only along the documented moves", engine commands included: in
    EVERY step of the engine with commands the workflow state of a started execution changes by a chain of
    documented moves. -/
theorem wf_moves_okX (srt : Sorter) (sp : Spec) (w : World) (ev : Event) (hs : StartedWf w.wf) :
    Chain w.wf (stepXg srt sp w ev).wf := by
  have same : ∀ (p : List Item), Chain w.wf ({ w with pending := p } : World).wf := fun _ => .refl _
  cases ev with
  | start =>
    simp only [stepXg]
    split
    · exact .refl _
    · rename_i hi
      have : w.wf = .IDLE := by simpa using hi
      rw [this] at hs
      exact absurd hs (by decide)
  | pause =>
    simp only [stepXg]
    apply Chain.single
    rcases hs with h | h | h | h | h <;> rw [h] <;> decide
  | stop t =>
    simp only [stepXg]
    apply Chain.single
    rcases hs with h | h | h | h | h <;> rw [h] <;> cases t <;> decide
  | execute t ok => simp only [stepXg]; split <;> exact .refl _
  | resume =>
    simp only [stepXg]
    split
    · exact .refl _
    · rename_i hpi
      have hpi' : isPausedOrIdle w.wf = true := by simpa using hpi
      have hpa : w.wf = .PAUSED := by
        rcases hs with h | h | h | h | h <;> rw [h] at hpi' ⊢ <;> first | rfl | (revert hpi'; decide)
      have hrun : (Lifecycle.wfApply w.wf .resume).1 = .RUNNING := by rw [hpa]; decide
      simp only [hrun]
      have hnc : isCompleted St.RUNNING = false := by decide
      simp only [hnc, Bool.false_eq_true, if_false]
      have hmove : moveOrStay w.wf .RUNNING := by rw [hpa]; decide
      have hsr : StartedWf St.RUNNING := Or.inl rfl
      split
      · exact .step hmove (checkAndComplete_chain' _ _ rfl hsr)
      · exact .step hmove (dispatchX_chain' srt sp _ _ _ rfl hsr)
  | deliver it =>
    simp only [stepXg]
    split
    · exact .refl _
    · cases it with
      | postStartTask t f => exact .refl _
      | postRunAction t => exact .refl _
      | runAction t => exact .refl _
      | postCheck => exact checkAndComplete_chain { w with pending := removeFirst w.pending .postCheck } hs
      | postSchedRefresh t => simp only; split <;> exact .refl _
      | rpcStartTask t firstRun =>
        simp only
        split
        · exact .refl _
        · split
          · split
            · exact .refl _
            · split
              · split <;> exact .refl _
              · exact .of_eq (checkAffected_tasks sp _ t).2
          · split
            · exact .refl _
            · split
              · exact .of_eq (checkAffected_tasks sp _ t).2
              · split <;> exact .refl _
      | rpcResult t ok =>
        simp only
        split
        · exact .refl _
        · exact completeTaskX_chain srt sp { w with pending := removeFirst w.pending (.rpcResult t ok) } _ _ hs
      | jobRefresh t =>
        simp only
        split
        · exact .refl _
        · split
          · exact .refl _
          · split
            · exact .refl _
            · split
              · exact .refl _
              · split
                · exact .refl _
                · split
                  · split <;> exact .refl _
                  · split
                    · have hd : ∀ (ts : List TaskRow) (p : List Item) (r : TaskRow),
                          Chain w.wf (completeTaskX srt sp { w with tasks := ts, pending := p } r St.ERROR).wf :=
                        fun ts p r => completeTaskX_chain srt sp { w with tasks := ts, pending := p } r _ hs
                      exact hd _ _ _
                    · exact .refl _

/-- a started execution stays started -/
theorem started_preservedX (srt : Sorter) (sp : Spec) (w : World) (ev : Event) (hs : StartedWf w.wf) :
    StartedWf (stepXg srt sp w ev).wf := (wf_moves_okX srt sp w ev hs).started hs

/-- `wf_moves_ok_reachable` for the engine as the code runs it: along EVERY history of a started execution
    every event changes the workflow state by a chain of documented moves -/
theorem wf_moves_okX_reachable (sp : Spec) (evs : List Event) (ev : Event) :
    let w := evs.foldl (stepX sp) (stepX sp init .start)
    StartedWf w.wf ∧ Chain w.wf (stepX sp w ev).wf := by
  have hstart : StartedWf (stepX sp init .start).wf := by
    have : Chain St.RUNNING (stepX sp init .start).wf := by
      show Chain St.RUNNING (stepXg pySorter sp init .start).wf
      simp only [stepXg, init]
      simp only [bne_self_eq_false, Bool.false_eq_true, if_false]
      exact dispatchX_chain' pySorter sp _ _ _ rfl (Or.inl rfl)
    exact this.started (Or.inl rfl)
  have hall : ∀ (evs : List Event) (w0 : World), StartedWf w0.wf → StartedWf (evs.foldl (stepX sp) w0).wf := by
    intro evs
    induction evs with
    | nil => intro w0 h; exact h
    | cons e rest ih => intro w0 h; exact ih _ (started_preservedX pySorter sp w0 e h)
  exact ⟨hall evs _ hstart, wf_moves_okX pySorter sp _ ev (hall evs _ hstart)⟩

/-- `success_never_left_engine`, engine commands included: SUCCESS (any final state) is never left, by any
    event - also not by a `fail` command restored from the backlog -/
theorem final_never_leftX (srt : Sorter) (sp : Spec) (w : World) (ev : Event) (hc : isCompleted w.wf = true) :
    (stepXg srt sp w ev).wf = w.wf :=
  (Props.C11X.no_dispatch_into_completed_g srt sp w ev hc).2.1

theorem success_never_leftX (sp : Spec) (w : World) (ev : Event) (h : w.wf = .SUCCESS) :
    (stepX sp w ev).wf = .SUCCESS := by
  have := final_never_leftX pySorter sp w ev (by rw [h]; decide)
  exact this.trans h

/-- non-vacuity: a: on-success: [pause, x] - the completion of a moves RUNNING → PAUSED (a documented move made
    by an engine command) -/
example : (Props.C11X.bPaused).wf = .PAUSED ∧ documentedMove .RUNNING .PAUSED = true := by decide +kernel

end Mistral.Props.C03X
