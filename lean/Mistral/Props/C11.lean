/-
C11 — Stop and cancel end the whole execution tree; late results change nothing.
Theorems over Mistral.Engine (core stream) and Mistral.Lifecycle (exhaustive lifecycle stream).
Sub-workflow recursion (cancel of descendants) is covered by the engine stream monitors and
C09's model, not by this file.
-/
import Mistral.Lemmas.Engine

namespace Mistral.Props.C11
open Mistral Mistral.Engine Mistral.Join Mistral.Lifecycle

theorem completed_not_paused_or_idle (s : St) (h : isCompleted s = true) :
    isPausedOrIdle s = false ∧ isPaused s = false ∧ s ≠ .IDLE := by
  cases s <;> simp_all [isCompleted, Gen.States.completedStates] <;> decide

/-- "After a workflow is cancelled or forcibly stopped it holds the requested final state":
    a RUNNING workflow takes any of the three final states on request; a PAUSED one can be
    failed or cancelled (PAUSED → SUCCESS is not a lifecycle move, see C03). -/
theorem stop_sets_requested_state (sp : Spec) (w : World) (t : St)
    (hw : (w.wf = .RUNNING ∧ (t = .SUCCESS ∨ t = .ERROR ∨ t = .CANCELLED)) ∨
          (w.wf = .PAUSED ∧ (t = .ERROR ∨ t = .CANCELLED))) :
    (step sp w (.stop t)).wf = t := by
  rcases hw with ⟨h, rfl | rfl | rfl⟩ | ⟨h, rfl | rfl⟩ <;> simp [step, h] <;> decide

/-- a stop request never produces anything but the requested state or no change -/
theorem stop_only_requested (sp : Spec) (w : World) (t : St) :
    (step sp w (.stop t)).wf = t ∨ (step sp w (.stop t)).wf = w.wf := by
  simp only [step]
  cases hw : w.wf <;> cases t <;> decide

/-- "No new task is created in a stopped workflow afterwards … and results of actions that
    were still running or about to start do not change its state": once the workflow is in a
    final state, EVERY event (late results, start-task messages, refresh jobs, completion
    checks, duplicates, pause / resume / stop commands) leaves the set of task executions and
    the workflow state unchanged. -/
theorem finished_is_inert (sp : Spec) (w : World) (ev : Event) (hc : isCompleted w.wf = true) :
    ids (step sp w ev) = ids w ∧ (step sp w ev).wf = w.wf := by
  have hinert : isCompleted w.wf = true ∨ w.wf = .PAUSED := Or.inl hc
  obtain ⟨hpi, hp, hidle⟩ := completed_not_paused_or_idle w.wf hc
  cases ev with
  | start =>
    have : (w.wf != .IDLE) = true := by simpa using hidle
    simp [step, this]
  | pause =>
    refine ⟨by simp [step, ids], ?_⟩
    cases hw : w.wf <;> simp_all [step, isCompleted, Gen.States.completedStates] <;> decide
  | resume => simp [step, hpi]
  | stop t =>
    refine ⟨by simp [step, ids], ?_⟩
    simp only [step]
    cases hw : w.wf <;> simp_all [isCompleted, Gen.States.completedStates] <;> cases t <;> decide
  | execute t ok => simp only [step]; split <;> exact ⟨rfl, rfl⟩
  | deliver it =>
    simp only [step]
    split
    · exact ⟨rfl, rfl⟩
    · cases it with
      | postStartTask t f => exact ⟨rfl, rfl⟩
      | postRunAction t => exact ⟨rfl, rfl⟩
      | runAction t => exact ⟨rfl, rfl⟩
      | postCheck =>
        simp only
        rw [checkAndComplete_inert _ (by simp [isPausedOrCompleted, hc])]
        exact ⟨rfl, rfl⟩
      | postSchedRefresh t => simp only; split <;> exact ⟨rfl, rfl⟩
      | rpcStartTask t firstRun =>
        simp only
        split
        · exact ⟨rfl, rfl⟩
        · split
          · split
            · exact ⟨by simp [ids, setTask_ids], rfl⟩
            · split
              · split <;> exact ⟨rfl, rfl⟩
              · exact ⟨by unfold ids; rw [(checkAffected_tasks sp _ t).1], by rw [(checkAffected_tasks sp _ t).2]⟩
          · split
            · exact ⟨rfl, rfl⟩
            · split
              · exact ⟨by unfold ids; rw [(checkAffected_tasks sp _ t).1], by rw [(checkAffected_tasks sp _ t).2]⟩
              · split
                · exact ⟨rfl, rfl⟩
                · exact ⟨by simp [ids, setTask_ids], rfl⟩
      | rpcResult t ok =>
        simp only
        split
        · exact ⟨rfl, rfl⟩
        · rename_i r _
          exact completeTask_inert sp _ r _ (by simpa using hinert)
      | jobRefresh t =>
        simp only
        split
        · exact ⟨rfl, rfl⟩
        · rename_i r _
          split
          · exact ⟨rfl, rfl⟩
          · have : isCompleted w.wf = true := hc
            simp [this, ids]

/-- non-vacuity + the late-result scenario: stop a running workflow, then deliver the result
    that was in flight: the task set and the workflow state are unchanged. -/
def demoSpec : Spec :=
  { graph := { tasks := [⟨"a", none, ["b"], [], [], []⟩, ⟨"b", none, [], [], [], []⟩], defaults := none },
    live := [⟨"a", ["b"], [], []⟩, ⟨"b", [], [], []⟩] }

def stopped : World :=
  run demoSpec [.start, .deliver (.postStartTask ("a", 0) true), .deliver (.rpcStartTask ("a", 0) true),
                .deliver (.postRunAction ("a", 0)), .execute ("a", 0) true, .stop .CANCELLED]

example : stopped.wf = .CANCELLED ∧ stopped.pending = [.rpcResult ("a", 0) true] := by decide
example : ids (step demoSpec stopped (.deliver (.rpcResult ("a", 0) true))) = [("a", 0)] ∧
    (step demoSpec stopped (.deliver (.rpcResult ("a", 0) true))).wf = .CANCELLED := by decide

end Mistral.Props.C11
