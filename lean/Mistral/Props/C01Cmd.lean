/-
C01 `verdict_rule` for the engine WITH engine commands (`stepXg`, any definition, any order of sibling commands).
-/
import Mistral.Props.C01
import Mistral.Model.EngineX
import Mistral.Lemmas.Engine
namespace Mistral.Props.C01Cmd
open Mistral Mistral.Engine Mistral.Join

/-- The completion check is the same function in the engine with commands, so its verdict is the same rule:
    CANCELLED if a task is cancelled, SUCCESS iff every ERROR task is handled, else ERROR; nothing while a task is
    incomplete or the workflow is PAUSED / finished (e.g. finished by a `fail` / `succeed` command, whose state the
    check never overrides); the rows are not touched. -/
theorem verdict_ruleX (srt : Sorter) (sp : Spec) (w : World) (h : w.pending.contains .postCheck = true) :
    (stepXg srt sp w (.deliver .postCheck)).tasks = w.tasks ∧
    (stepXg srt sp w (.deliver .postCheck)).wf =
      if isPausedOrCompleted w.wf then w.wf
      else if w.tasks.any (fun t => !isCompleted t.state) then w.wf
      else if w.tasks.any (fun t => t.state == .CANCELLED) then .CANCELLED
      else if w.tasks.all (fun t => t.state != .ERROR || t.errorHandled) then .SUCCESS
      else .ERROR := by
  simp only [stepXg, h, Bool.not_true, Bool.false_eq_true, if_false]
  exact ⟨(Props.C01.verdict_keeps_rows _).1, Props.C01.verdict_rule _⟩

/-- … and on the code's own order -/
theorem verdict_rule_stepX (sp : Spec) (w : World) (h : w.pending.contains .postCheck = true) :
    (stepX sp w (.deliver .postCheck)).wf =
      if isPausedOrCompleted w.wf then w.wf
      else if w.tasks.any (fun t => !isCompleted t.state) then w.wf
      else if w.tasks.any (fun t => t.state == .CANCELLED) then .CANCELLED
      else if w.tasks.all (fun t => t.state != .ERROR || t.errorHandled) then .SUCCESS
      else .ERROR := (verdict_ruleX pySorter sp w h).2

/-- a `fail` command decides the outcome itself: the workflow is ERROR after it, whatever the tasks say -/
theorem fail_command_verdict (sp : Spec) (r : Bool) (w : World) (c : Cmd) (hw : w.wf = .RUNNING)
    (hk : cmdKind c.target = .fail) : (dispatchOneX sp r w c).wf = .ERROR := by
  have h1 : isCompleted St.RUNNING = false := by decide
  have h2 : (St.RUNNING == St.PAUSED) = false := by decide
  unfold dispatchOneX
  simp only [hw, hk, h1, h2, Bool.false_eq_true, if_false]
  decide

theorem succeed_command_verdict (sp : Spec) (r : Bool) (w : World) (c : Cmd) (hw : w.wf = .RUNNING)
    (hk : cmdKind c.target = .succeed) : (dispatchOneX sp r w c).wf = .SUCCESS := by
  have h1 : isCompleted St.RUNNING = false := by decide
  have h2 : (St.RUNNING == St.PAUSED) = false := by decide
  unfold dispatchOneX
  simp only [hw, hk, h1, h2, Bool.false_eq_true, if_false]
  decide


/-! ### the `crashed` flag in the engine with commands -/

theorem dispatchOneX_crashed (sp : Spec) (r : Bool) (w : World) (c : Cmd) :
    (dispatchOneX sp r w c).crashed = w.crashed := by
  unfold dispatchOneX
  split
  · rfl
  · split
    · rfl
    · split
      · rfl
      · rfl
      · rfl
      · rfl
      · split
        · split <;> rfl
        · unfold dispatchTask
          simp only
          split
          · split
            · rfl
            · split <;> rfl
          · rfl

theorem foldlX_crashed (sp : Spec) (r : Bool) (cs : List Cmd) :
    ∀ w, (cs.foldl (dispatchOneX sp r) w).crashed = w.crashed := by
  induction cs with
  | nil => intro w; rfl
  | cons c rest ih => intro w; simp only [List.foldl_cons]; rw [ih, dispatchOneX_crashed]

theorem dispatchX_crashed (srt : Sorter) (sp : Spec) (w : World) (cs : List Cmd) :
    (dispatchX srt sp w cs).crashed = w.crashed := by
  unfold dispatchX processX
  rw [foldlX_crashed, foldlX_crashed]

theorem ite_crashed (c : Prop) [Decidable c] (a b : World) (x : Bool) (ha : a.crashed = x) (hb : b.crashed = x) :
    (if c then a else b).crashed = x := by
  split <;> assumption

theorem completeTaskX_crashed (srt : Sorter) (sp : Spec) (w : World) (r : TaskRow) (s : St) :
    (completeTaskX srt sp w r s).crashed = w.crashed := by
  unfold completeTaskX
  split
  · exact checkAffected_crashed sp _ _
  · simp only
    rw [checkAffected_crashed]
    split
    · rfl
    · rw [dispatchX_crashed]
      exact ite_crashed _ _ _ _ rfl rfl

/-! ### no model-level crash on acyclic definitions, engine commands included -/

/-- The only undeclared error the engine core can raise is the unbounded recursion of the
    route search (RecursionError): a step sets `crashed` only inside the join refresh. -/
theorem crash_only_in_refreshX (srt : Sorter) (sp : Spec) (w : World) (ev : Event)
    (hc : w.crashed = false) (h : (stepXg srt sp w ev).crashed = true) :
    ∃ t, ev = .deliver (.jobRefresh t) := by
  have contra : ∀ {P : Prop}, (stepXg srt sp w ev).crashed = false → P := fun h' => by rw [h'] at h; cases h
  cases ev with
  | start =>
    apply contra
    simp only [stepXg]
    split
    · exact hc
    · rw [dispatchX_crashed]; exact hc
  | pause => exact contra (by simp [stepXg, hc])
  | stop t => exact contra (by simp [stepXg, hc])
  | execute t ok => apply contra; simp only [stepXg]; split <;> exact hc
  | resume =>
    apply contra
    simp only [stepXg]
    split
    · exact hc
    · split
      · exact hc
      · split
        · rw [checkAndComplete_crashed]; exact hc
        · rw [dispatchX_crashed]; exact hc
  | deliver it =>
    cases it with
    | jobRefresh t => exact ⟨t, rfl⟩
    | postStartTask t f => apply contra; simp only [stepXg]; split <;> exact hc
    | postRunAction t => apply contra; simp only [stepXg]; split <;> exact hc
    | runAction t => apply contra; simp only [stepXg]; split <;> exact hc
    | postCheck =>
      apply contra; simp only [stepXg]
      split
      · exact hc
      · rw [checkAndComplete_crashed]; exact hc
    | postSchedRefresh t =>
      apply contra; simp only [stepXg]
      split
      · exact hc
      · split <;> exact hc
    | rpcStartTask t firstRun =>
      apply contra; simp only [stepXg]
      split
      · exact hc
      · split
        · exact hc
        · split
          · split
            · exact hc
            · split
              · split <;> exact hc
              · rw [checkAffected_crashed]; exact hc
          · split
            · exact hc
            · split
              · rw [checkAffected_crashed]; exact hc
              · split <;> exact hc
    | rpcResult t ok =>
      apply contra; simp only [stepXg]
      split
      · exact hc
      · split
        · exact hc
        · rw [completeTaskX_crashed]; exact hc

/-- On a definition whose inbound relation is acyclic (a rank strictly decreasing along
    inbound transitions; every DAG has one) with enough recursion budget, the join logic always
    returns, so NO event can crash the engine core: the provable part of "no engine entry point
    fails with an undeclared error" (cyclic unreachable predecessors are the known finding B,
    `Props.C04.possibleRoute_full_fails`). -/
theorem no_crash_on_acyclic_partialX (srt : Sorter) (sp : Spec) (rk : String → Nat)
    (hrk : ∀ t, ∀ p ∈ inbound sp.graph t, rk p.name < rk t)
    (hfuel : ∀ t, rk t < fuelFor sp)
    (w : World) (ev : Event) (hc : w.crashed = false) : (stepXg srt sp w ev).crashed = false := by
  cases hs : (stepXg srt sp w ev).crashed with
  | false => rfl
  | true =>
    exfalso
    obtain ⟨t, rfl⟩ := crash_only_in_refreshX srt sp w _ hc hs
    simp only [stepXg] at hs
    split at hs
    · simp [hc] at hs
    · split at hs
      · simp [hc] at hs
      · split at hs
        · simp [hc] at hs
        · split at hs
          · simp [hc] at hs
          · split at hs
            · simp [hc] at hs
            · rename_i k _
              split at hs
              · -- joinLogicalState = none is impossible on an acyclic graph
                rename_i hnone
                have : joinLogicalState sp.graph (rowsOf { w with pending := removeFirst w.pending (.jobRefresh t) })
                    (fuelFor sp) t.1 k ≠ none := by
                  unfold joinLogicalState
                  simp only
                  split
                  · simp
                  · have hall : ∀ (l : List TaskG), (∀ p ∈ l, rk p.name < fuelFor sp) →
                        l.mapM (fun x => inducedState sp.graph (rowsOf { w with pending := removeFirst w.pending (.jobRefresh t) })
                          (fuelFor sp) x t.1) ≠ none := by
                      intro l
                      induction l with
                      | nil => intro _; simp
                      | cons p ps ih =>
                        intro hp
                        rw [List.mapM_cons]
                        have h1 : inducedState sp.graph (rowsOf { w with pending := removeFirst w.pending (.jobRefresh t) })
                            (fuelFor sp) p t.1 ≠ none := by
                          unfold inducedState
                          split
                          · have := Mistral.Props.C04.possibleRoute_terminates_partial sp.graph
                              (rowsOf { w with pending := removeFirst w.pending (.jobRefresh t) }) rk hrk
                              (fuelFor sp) p.name 1 (hp p List.mem_cons_self)
                            split
                            · contradiction
                            · simp
                            · simp
                          · split
                            · simp
                            · split <;> simp
                        have h2 := ih (fun q hq => hp q (List.mem_cons_of_mem _ hq))
                        cases hi : inducedState sp.graph (rowsOf { w with pending := removeFirst w.pending (.jobRefresh t) })
                            (fuelFor sp) p t.1 with
                        | none => exact absurd hi h1
                        | some i =>
                          cases hm : ps.mapM (fun x => inducedState sp.graph (rowsOf { w with pending := removeFirst w.pending (.jobRefresh t) })
                              (fuelFor sp) x t.1) with
                          | none => exact absurd hm h2
                          | some ys => simp [hi, hm]
                    have := hall (inbound sp.graph t.1) (fun p _ => hfuel p.name)
                    split
                    · contradiction
                    · simp
                exact this hnone
              · rename_i L _
                split at hs
                · split at hs <;> simp [hc] at hs
                · split at hs
                  · rw [completeTaskX_crashed] at hs; simp [hc] at hs
                  · simp [hc] at hs

end Mistral.Props.C01Cmd
