/-
C10 on the execution TREE — "After a pause request is acknowledged the workflow and its running sub-workflows
are PAUSED" (and resume propagates back).  Statements over Mistral.Tree: `prop` models
workflow_handler.pause_workflow / resume_workflow and task_handler._on_action_update calling each other
inside ONE transaction (sub-workflows first, then the workflow, then — synchronously for a plain parent task,
through a scheduler job for a with-items one — the parent task and the parent workflow), the dispatcher's
backlog, Task.complete in a PAUSED workflow, Workflow.resume / continue_workflow / RunExistingTask.
The model is tied to the real engine by the `tree` stream (pause / resume operator commands on any node at
random points; rows, backlog length and pending deliveries equal after EVERY event).
What is proved here is function level + concrete trees; the propagation over ALL trees is decided by the
tree stream and its monitors (see docs/C10.md).
-/
import Mistral.Lemmas.Tree

namespace Mistral.Props.C10Tree
open Mistral Mistral.Tree

def chain3 : Cfg :=
  { defs := [[⟨"a1", .subwf 1 none none, [], []⟩], [⟨"a1", .subwf 2 none none, [], []⟩], [⟨"c1", .action, [], []⟩]],
    viaRpc := false }

/-- three nested executions, all RUNNING -/
def chain3Up : List Event :=
  [.startRoot 0, .deliver (.postStartTask 0 true), .deliver (.rpcStartTask 0 true),
   .deliver (.postStartTask 1 true), .deliver (.rpcStartTask 1 true)]

def states (w : World) : List St × List St := (w.execs.map (·.state), w.tasks.map (·.state))

/-- "the workflow and its running sub-workflows are PAUSED": pausing the root pauses the three executions and
    the two tasks that wait for a sub-workflow, in ONE transaction -/
example : states (run chain3 (chain3Up ++ [.pause 0])) = ([.PAUSED, .PAUSED, .PAUSED], [.PAUSED, .PAUSED, .IDLE]) := by
  decide +kernel

/-- ... and pausing the innermost execution pauses its ancestors too (`_on_action_update` pauses the parent
    workflow of a paused sub-workflow) -/
example : states (run chain3 (chain3Up ++ [.pause 2])) = ([.PAUSED, .PAUSED, .PAUSED], [.PAUSED, .PAUSED, .IDLE]) := by
  decide +kernel

/-- resume of the root brings everything back -/
example : states (run chain3 (chain3Up ++ [.pause 0, .resume 0])) =
    ([.RUNNING, .RUNNING, .RUNNING], [.RUNNING, .RUNNING, .IDLE]) := by
  decide +kernel

/-- resume of the innermost execution resumes the ancestors too -/
example : states (run chain3 (chain3Up ++ [.pause 0, .resume 2])) =
    ([.RUNNING, .RUNNING, .RUNNING], [.RUNNING, .RUNNING, .IDLE]) := by
  decide +kernel

/-- pause then cancel of the root: the PAUSED sub-workflows below PAUSED tasks are cancelled -/
example : states (run chain3 (chain3Up ++ [.pause 0, .stop 0 .CANCELLED "m"])) =
    ([.CANCELLED, .CANCELLED, .CANCELLED], [.PAUSED, .PAUSED, .IDLE]) := by
  decide +kernel

/-- "Pause creates no new tasks": a command dispatched into a PAUSED execution creates no task row and no
    delivery; it is appended to the backlog. -/
theorem dispatch_into_paused_creates_no_task (w : World) (wf : Nat) (n : String) (e : Exec)
    (he : w.execs[wf]? = some e) (hp : e.state = .PAUSED) :
    (dispatchOne w wf n).tasks = w.tasks ∧ (dispatchOne w wf n).pending = w.pending ∧
    (dispatchOne w wf n).execs[wf]? = some { e with backlog := e.backlog ++ [n] } := by
  have hc : isCompleted e.state = false := by rw [hp]; decide
  have hb : (e.state == St.PAUSED) = true := by rw [hp]; decide
  unfold dispatchOne
  rw [he]
  simp only [hc, hb, Bool.false_eq_true, if_false, if_true]
  exact ⟨trivial, trivial, List.getElem?_set_self (lt_of_get he)⟩

/-- any list of commands dispatched into a PAUSED execution creates no task row -/
theorem dispatch_list_into_paused_creates_no_task (names : List String) :
    ∀ (w : World) (wf : Nat) (e : Exec), w.execs[wf]? = some e → e.state = .PAUSED →
      (names.foldl (fun w n => dispatchOne w wf n) w).tasks = w.tasks ∧
      (names.foldl (fun w n => dispatchOne w wf n) w).pending = w.pending := by
  induction names with
  | nil => intro w wf e _ _; exact ⟨rfl, rfl⟩
  | cons n ns ih =>
    intro w wf e he hp
    simp only [List.foldl_cons]
    obtain ⟨h1, h2, h3⟩ := dispatch_into_paused_creates_no_task w wf n e he hp
    obtain ⟨i1, i2⟩ := ih (dispatchOne w wf n) wf _ h3 hp
    exact ⟨i1.trans h1, i2.trans h2⟩

/-- a task that completes while its workflow is PAUSED records its state but creates no task row and no
    delivery (no completion check, nothing dispatched); it stays unprocessed for `resume` -/
theorem complete_in_paused_creates_no_task (c : Cfg) (w : World) (t : Nat) (s : St) (tk : Task) (e : Exec)
    (htk : w.tasks[t]? = some tk) (hnc : isCompleted tk.state = false) (he : w.execs[tk.wf]? = some e)
    (hp : e.state = .PAUSED) :
    (completeTask c w t s).tasks.length = w.tasks.length ∧ (completeTask c w t s).pending = w.pending ∧
    (completeTask c w t s).execs = w.execs := by
  have hpp : isPaused e.state = true := by rw [hp]; decide
  unfold completeTask
  rw [htk]
  simp only [hnc, Bool.false_eq_true, if_false]
  rw [he]
  simp only [hpp, if_true, List.length_set]
  exact ⟨trivial, trivial, trivial⟩

/-- the whole transaction of a pause request (with everything it propagates to) never touches a finished
    execution, keeps the links, and creates task rows in no finished execution -/
theorem pause_request_is_good (c : Cfg) (w : World) (a : Nat) : Good w (step c w (.pause a)) :=
  good_step c w (.pause a) rfl

end Mistral.Props.C10Tree
