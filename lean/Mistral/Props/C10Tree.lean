/-
C10 on the execution TREE — "After a pause request is acknowledged the workflow and its running sub-workflows
are PAUSED" (and resume propagates back).  Statements over Mistral.Tree: `prop` models
workflow_handler.pause_workflow / resume_workflow and task_handler._on_action_update calling each other
inside ONE transaction (sub-workflows first, then the workflow, then — synchronously for a plain parent task,
through a scheduler job for a with-items one — the parent task and the parent workflow), the dispatcher's
backlog, Task.complete in a PAUSED workflow, Workflow.resume / continue_workflow / RunExistingTask.
The model is tied to the real engine by the `tree` stream (pause / resume operator commands on any node at
random points; rows, backlog length and pending deliveries equal after EVERY event).
What is proved here is function level + concrete trees; the propagation over ALL trees is decided by the
tree stream and its monitors (see docs/C10.md).
-/
import Mistral.Lemmas.TreePause
import Mistral.Lemmas.TreeProp
import Mistral.Lemmas.TreeFollow
import Mistral.Lemmas.TreeResume

namespace Mistral.Props.C10Tree
open Mistral Mistral.Tree

def chain3 : Cfg :=
  { defs := [[⟨"a1", .subwf 1 none none, [], []⟩], [⟨"a1", .subwf 2 none none, [], []⟩], [⟨"c1", .action, [], []⟩]],
    viaRpc := false }

/-- three nested executions, all RUNNING -/
def chain3Up : List Event :=
  [.startRoot 0, .deliver (.postStartTask 0 true), .deliver (.rpcStartTask 0 true),
   .deliver (.postStartTask 1 true), .deliver (.rpcStartTask 1 true)]

def states (w : World) : List St × List St := (w.execs.map (·.state), w.tasks.map (·.state))

/-- "the workflow and its running sub-workflows are PAUSED": pausing the root pauses the three executions and
    the two tasks that wait for a sub-workflow, in ONE transaction -/
example : states (run chain3 (chain3Up ++ [.pause 0])) = ([.PAUSED, .PAUSED, .PAUSED], [.PAUSED, .PAUSED, .IDLE]) := by
  decide +kernel

/-- ... and pausing the innermost execution pauses its ancestors too (`_on_action_update` pauses the parent
    workflow of a paused sub-workflow) -/
example : states (run chain3 (chain3Up ++ [.pause 2])) = ([.PAUSED, .PAUSED, .PAUSED], [.PAUSED, .PAUSED, .IDLE]) := by
  decide +kernel

/-- resume of the root brings everything back -/
example : states (run chain3 (chain3Up ++ [.pause 0, .resume 0])) =
    ([.RUNNING, .RUNNING, .RUNNING], [.RUNNING, .RUNNING, .IDLE]) := by
  decide +kernel

/-- resume of the innermost execution resumes the ancestors too -/
example : states (run chain3 (chain3Up ++ [.pause 0, .resume 2])) =
    ([.RUNNING, .RUNNING, .RUNNING], [.RUNNING, .RUNNING, .IDLE]) := by
  decide +kernel

/-- pause then cancel of the root: the PAUSED sub-workflows below PAUSED tasks are cancelled -/
example : states (run chain3 (chain3Up ++ [.pause 0, .stop 0 .CANCELLED "m"])) =
    ([.CANCELLED, .CANCELLED, .CANCELLED], [.PAUSED, .PAUSED, .IDLE]) := by
  decide +kernel

/-- "Pause creates no new tasks": a command dispatched into a PAUSED execution creates no task row and no
    delivery; it is appended to the backlog. -/
theorem dispatch_into_paused_creates_no_task (w : World) (wf : Nat) (n : String) (e : Exec)
    (he : w.execs[wf]? = some e) (hp : e.state = .PAUSED) :
    (dispatchOne w wf n).tasks = w.tasks ∧ (dispatchOne w wf n).pending = w.pending ∧
    (dispatchOne w wf n).execs[wf]? = some { e with backlog := e.backlog ++ [n] } := by
  have hc : isCompleted e.state = false := by rw [hp]; decide
  have hb : (e.state == St.PAUSED) = true := by rw [hp]; decide
  unfold dispatchOne
  rw [he]
  simp only [hc, hb, Bool.false_eq_true, if_false, if_true]
  exact ⟨trivial, trivial, List.getElem?_set_self (lt_of_get he)⟩

/-- any list of commands dispatched into a PAUSED execution creates no task row -/
theorem dispatch_list_into_paused_creates_no_task (names : List String) :
    ∀ (w : World) (wf : Nat) (e : Exec), w.execs[wf]? = some e → e.state = .PAUSED →
      (names.foldl (fun w n => dispatchOne w wf n) w).tasks = w.tasks ∧
      (names.foldl (fun w n => dispatchOne w wf n) w).pending = w.pending := by
  induction names with
  | nil => intro w wf e _ _; exact ⟨rfl, rfl⟩
  | cons n ns ih =>
    intro w wf e he hp
    simp only [List.foldl_cons]
    obtain ⟨h1, h2, h3⟩ := dispatch_into_paused_creates_no_task w wf n e he hp
    obtain ⟨i1, i2⟩ := ih (dispatchOne w wf n) wf _ h3 hp
    exact ⟨i1.trans h1, i2.trans h2⟩

/-- a task that completes while its workflow is PAUSED records its state but creates no task row and no
    delivery (no completion check, nothing dispatched); it stays unprocessed for `resume` -/
theorem complete_in_paused_creates_no_task (c : Cfg) (w : World) (t : Nat) (s : St) (tk : Task) (e : Exec)
    (htk : w.tasks[t]? = some tk) (hnc : isCompleted tk.state = false) (he : w.execs[tk.wf]? = some e)
    (hp : e.state = .PAUSED) :
    (completeTask c w t s).tasks.length = w.tasks.length ∧ (completeTask c w t s).pending = w.pending ∧
    (completeTask c w t s).execs = w.execs := by
  have hpp : isPaused e.state = true := by rw [hp]; decide
  unfold completeTask
  rw [htk]
  simp only [hnc, Bool.false_eq_true, if_false]
  rw [he]
  simp only [hpp, if_true, List.length_set]
  exact ⟨trivial, trivial, trivial⟩

/-- the whole transaction of a pause request (with everything it propagates to) never touches a finished
    execution, keeps the links, and creates task rows in no finished execution -/
theorem pause_request_is_good (c : Cfg) (w : World) (a : Nat) : Good w (step c w (.pause a)) :=
  good_step c w (.pause a)


/-- the former witness of `pause_subtree_full_fails` (stop(ERROR) of the middle execution, pause of the root): since
    repo patch 23 the grandchild below the finished child is paused too -/
example : ((step chain3 (run chain3 (chain3Up ++ [.stop 1 .ERROR "m"])) (.pause 0)).execs.map (·.state)) =
    [.PAUSED, .ERROR, .PAUSED] := by decide +kernel

/-- the whole transaction of a resume request (with everything it propagates to) never touches a finished
    execution either (needs the re-check of repo patch 20) -/
theorem resume_request_is_good (c : Cfg) (w : World) (a : Nat) : Good w (step c w (.resume a)) :=
  good_step c w (.resume a)


/-- "Pause creates no new tasks", for ALL definitions, trees and states, lifted to `step`: under every event
    except the resume command and the scheduled `_on_action_update` job of a with-items child (the two that can
    resume an execution) — i.e. under every delivery, action result, child result, completion check, start
    message, stop and pause command incl. its propagation — an execution that is PAUSED stays PAUSED (or is
    completed by a stop) and NO task row of it is created. -/
theorem no_task_created_while_paused (c : Cfg) (w : World) (ev : Event) (i : Nat) (e : Exec)
    (hq : QuietEv ev = true) (he : w.execs[i]? = some e) (hp : e.state = .PAUSED) :
    (∃ e', (step c w ev).execs[i]? = some e' ∧ (e'.state = .PAUSED ∨ isCompleted e'.state = true)) ∧
    (∀ (t : Nat) (tk' : Task), (step c w ev).tasks[t]? = some tk' → tk'.wf = i →
       ∃ tk, w.tasks[t]? = some tk ∧ tk.wf = i) := by
  have hg := quiet_step c w ev hq
  have hb : blocked e.state = true := by rw [hp]; decide
  constructor
  · obtain ⟨e', he', hf⟩ := hg.execs i e he
    refine ⟨e', he', ?_⟩
    have := hf hb
    revert this
    cases e'.state <;> simp [blocked, isPausedOrCompleted, isPaused, isCompleted, Gen.States.pausedStates,
      Gen.States.completedStates]
  · intro t tk' ht hwf
    cases hw : w.tasks[t]? with
    | none =>
      have := hg.fresh t tk' ht hw e (by rw [hwf]; exact he)
      rw [this] at hb; exact absurd hb (by simp)
    | some tk =>
      obtain ⟨tk'', h'', a1⟩ := hg.tasks t tk hw
      rw [ht] at h''; cases h''
      exact ⟨tk, rfl, by rw [← a1]; exact hwf⟩

/-- the same along any list of such events -/
theorem no_task_created_while_paused_run (c : Cfg) (evs : List Event) (hq : ∀ ev, ev ∈ evs → QuietEv ev = true) :
    ∀ (w : World), Quiet w (evs.foldl (step c) w) := by
  induction evs with
  | nil => intro w; exact Quiet.refl w
  | cons ev evs ih =>
    intro w
    exact (quiet_step c w ev (hq ev (by simp))).trans (ih (fun e he => hq e (by simp [he])) _)

/-- non-vacuity: the root is PAUSED and the action result of the leaf's task arrives: nothing is created -/
example : QuietEv (.deliver (.rpcStartTask 2 true)) = true := rfl


/-! ### "After a pause request is acknowledged the workflow and its running sub-workflows are PAUSED" — all trees -/

/-- every reachable state has the shape the propagation proof needs: executions are RUNNING, PAUSED or completed,
    the owner of every task exists -/
theorem shape_reachable (c : Cfg) (evs : List Event) : Shape (run c evs) :=
  ⟨fun i e h => ((allJ_reachable c evs).1 i e h).2.2, (allJ_reachable c evs).2.2.1⟩

/-- For EVERY reachable tree: a pause request on an execution that is not finished is acknowledged (the
    transaction does not raise), and after it EVERY execution at or below it that is not completed — at any
    depth, whatever the states of the executions in between and the kinds of the calling tasks — is PAUSED, in
    the SAME transaction.  (`below`: the parent links walked upwards, as in C11Tree.cancel_subtree.) -/
theorem pause_subtree (c : Cfg) (evs : List Event) (a : Nat) (e : Exec)
    (he : (run c evs).execs[a]? = some e) (hc : isCompleted e.state = false) (y : Nat) (ey : Exec)
    (hy : (run c evs).execs[y]? = some ey) (hb : below (run c evs) a (run c evs).execs.length y = true)
    (hu : isCompleted ey.state = false) :
    stateOf (step c (run c evs) (.pause a)) y = some .PAUSED := by
  have hok := (pause_ok c (fuelOf (run c evs))).1 (run c evs) a (shape_reachable c evs)
  have hnr := hok.noraise ⟨e, he, hc⟩
  obtain ⟨d, hd, hdesc⟩ := desc_of_below (run c evs) a _ y hb
  simp only [step, hnr, Bool.false_eq_true, if_false]
  exact hok.paused d y (by simp only [fuelOf]; omega) hdesc ⟨ey, hy, hu⟩

/-- ... in particular the paused execution itself -/
theorem pause_acknowledged_tree (c : Cfg) (evs : List Event) (a : Nat) (e : Exec)
    (he : (run c evs).execs[a]? = some e) (hc : isCompleted e.state = false) :
    stateOf (step c (run c evs) (.pause a)) a = some .PAUSED := by
  have hok := (pause_ok c (fuelOf (run c evs))).1 (run c evs) a (shape_reachable c evs)
  have hnr := hok.noraise ⟨e, he, hc⟩
  simp only [step, hnr, Bool.false_eq_true, if_false]
  exact hok.paused 0 a (by simp [fuelOf]) rfl ⟨e, he, hc⟩

/-- the pause transaction creates no execution and no task, keeps every link, and changes execution states
    only from RUNNING to PAUSED (in every reachable state) -/
theorem pause_only_pauses (c : Cfg) (evs : List Event) (a : Nat) (e : Exec)
    (he : (run c evs).execs[a]? = some e) (hc : isCompleted e.state = false) :
    PMono (run c evs) (step c (run c evs) (.pause a)) := by
  have hok := (pause_ok c (fuelOf (run c evs))).1 (run c evs) a (shape_reachable c evs)
  have hnr := hok.noraise ⟨e, he, hc⟩
  simp only [step, hnr, Bool.false_eq_true, if_false]
  exact hok.mono

/-- non-vacuity: in the three nested executions the innermost one is below the root -/
example : below (run chain3 chain3Up) 0 (run chain3 chain3Up).execs.length 2 = true := by decide +kernel


/-- "... are PAUSED" together with the tasks that wait for them — for EVERY reachable tree: if the pause request on
    an unfinished execution `a` pauses an execution `y` at or below `a` that was RUNNING, then (the workflow that
    owns the calling task `t` of `y` not being completed)
    * a plain calling task that was RUNNING is PAUSED in the SAME transaction, and
    * for a with-items calling task the `_on_action_update` job of `y` is pending after the transaction. -/
theorem pause_calling_task (c : Cfg) (evs : List Event) (a : Nat) (e : Exec)
    (he : (run c evs).execs[a]? = some e) (hc : isCompleted e.state = false) (y : Nat) (ey : Exec)
    (hy : (run c evs).execs[y]? = some ey) (hb : below (run c evs) a (run c evs).execs.length y = true)
    (hr : ey.state = .RUNNING) (t : Nat) (tk : Task) (pe : Exec) (hpar : ey.parent = some t)
    (htk : (run c evs).tasks[t]? = some tk) (hpe : (run c evs).execs[tk.wf]? = some pe)
    (hl : isCompleted pe.state = false) :
    (isWithItemsTask c (run c evs) t = false → tk.state = .RUNNING →
       taskState (step c (run c evs) (.pause a)) t = some .PAUSED) ∧
    (isWithItemsTask c (run c evs) t = true →
       Item.jobChildUpdate y ∈ (step c (run c evs) (.pause a)).pending) := by
  have hp := pause_subtree c evs a e he hc y ey hy hb (by rw [hr]; decide)
  have hok := (pause_ok c (fuelOf (run c evs))).1 (run c evs) a (shape_reachable c evs)
  have hf := (follow_ok c (fuelOf (run c evs))).1 (run c evs) a (shape_reachable c evs)
  have hnr := hok.noraise ⟨e, he, hc⟩
  simp only [step, hnr, Bool.false_eq_true, if_false] at hp ⊢
  obtain ⟨e', hy', _, _⟩ := hok.mono.execs y ey hy
  have hs' : e'.state = .PAUSED := by simpa [stateOf, hy'] using hp
  exact hf.follow y ey e' t tk pe hy hy' hr hs' hpar htk hpe hl

/-- non-vacuity: pausing the root of the three nested executions pauses the two calling tasks -/
example : (taskState (step chain3 (run chain3 chain3Up) (.pause 0)) 0,
           taskState (step chain3 (run chain3 chain3Up) (.pause 0)) 1) = (some .PAUSED, some .PAUSED) := by
  decide +kernel


/-! ### resume -/

/-- For EVERY tree and state (no reachability needed): a resume request never raises and never pauses anything —
    an execution that is not PAUSED before the transaction (with everything it propagates to) is not PAUSED after
    it. -/
theorem resume_pauses_nothing (c : Cfg) (w : World) (a : Nat) : NP w (step c w (.resume a)) := by
  obtain ⟨h1, h2⟩ := (resume_np c (fuelOf w)).1 w a
  simp only [step, h2, Bool.false_eq_true, if_false]
  exact h1

/-- ... and the resumed execution leaves PAUSED: after a resume request for a PAUSED execution it is RUNNING, or
    has completed in the same transaction (all its tasks had finished while it was paused). -/
theorem resume_acknowledged_tree (c : Cfg) (w : World) (a : Nat) (e : Exec) (he : w.execs[a]? = some e)
    (hp : e.state = .PAUSED) :
    ∃ e', (step c w (.resume a)).execs[a]? = some e' ∧ e'.state ≠ .PAUSED := by
  have h2 := ((resume_np c (fuelOf w)).1 w a).2
  simp only [step, h2, Bool.false_eq_true, if_false]
  have hf : fuelOf w = (4 * w.execs.length + 7) + 1 := rfl
  rw [hf]
  exact resume_leaves_paused c _ w a e he (by rw [hp]; decide)

end Mistral.Props.C10Tree
