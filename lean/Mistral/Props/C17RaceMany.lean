/- C17, N processors interleaved statement by statement (`Mistral.Race.runMany`), by invariant. -/
import Mistral.Lemmas.Race
import Mistral.Gen.RaceScripts
namespace Mistral.Props.C17RaceMany
open Mistral.Race Mistral.Gen.RaceScripts

set_option maxRecDepth 4000
set_option linter.unusedSimpArgs false

def wins (w : World) : Nat := w.procs.countP (fun p => p.l.flags 0)

theorem wins_set (w : World) (i : Nat) (p p' : Proc) (hp : w.procs[i]? = some p) (db : Row) (o : Option Nat) (wk : Row) :
    wins { db := db, owner := o, work := wk, procs := w.procs.set i p' } =
      (wins w - if p.l.flags 0 = true then 1 else 0) + if p'.l.flags 0 = true then 1 else 0 := by
  obtain ⟨hlt, he⟩ := List.getElem_of_getElem? hp
  simp only [wins]
  rw [List.countP_set hlt, he]

namespace Last

structure ProcOk (p : Proc) : Prop where
  script : p.script = advanceLast
  pend : p.l.pend = []
  pdel : p.l.pendDel = false
  flag : p.l.flags 0 = true → 2 ≤ p.pc
  status : p.l.status ≠ .returned

structure Inv (w : World) : Prop where
  procs : ∀ (i : Nat) (p : Proc), w.procs[i]? = some p → ProcOk p
  own : ∀ (i : Nat), w.owner = some i → ∃ p : Proc, w.procs[i]? = some p ∧ p.pc = 2 ∧ p.l.status = .running ∧
    w.work.alive = false
  one : wins w ≤ 1
  dead : wins w = 1 → w.eff.alive = false

/-- a statement of a processor that does not hold the lock and does not write -/
theorem inv_local (w : World) (i : Nat) (p p' : Proc) (h : Inv w) (hp : w.procs[i]? = some p)
    (hno : w.owner ≠ some i) (hf : p'.l.flags 0 = p.l.flags 0) (hok : ProcOk p') :
    Inv { db := w.db, owner := w.owner, work := w.work, procs := w.procs.set i p' } := by
  obtain ⟨hlt, _⟩ := List.getElem_of_getElem? hp
  have hw := wins_set w i p p' hp w.db w.owner w.work
  have hw' : wins { db := w.db, owner := w.owner, work := w.work, procs := w.procs.set i p' } = wins w := by
    rw [hw, hf]
    have : (if p.l.flags 0 = true then 1 else 0) ≤ wins w := by
      split
      · simp only [wins]
        have := List.getElem_of_getElem? hp
        obtain ⟨hl, he⟩ := this
        have hm : p ∈ w.procs := by rw [← he]; exact List.getElem_mem hl
        exact List.countP_pos_iff.mpr ⟨p, hm, by assumption⟩
      · exact Nat.zero_le _
    omega
  refine ⟨?_, ?_, ?_, ?_⟩
  · intro k q hq
    simp only [List.getElem?_set] at hq
    split at hq
    · simp only [hlt, ↓reduceIte, Option.some.injEq] at hq; rw [← hq]; exact hok
    · exact h.procs k q hq
  · intro k hk
    obtain ⟨q, hq, h2, h3, h4⟩ := h.own k hk
    have hne : i ≠ k := by intro e; subst e; exact hno hk
    exact ⟨q, by simp only [List.getElem?_set, hne, ↓reduceIte]; exact hq, h2, h3, h4⟩
  · rw [hw']; exact h.one
  · rw [hw']; intro h1; exact h.dead h1

set_option hygiene false in
/-- closes `Inv` of a world that differs from `w` by processor i's non-writing statement -/
macro "close_local" : tactic => `(tactic|
  exact inv_local w i p _ h hp hmine (by simp [setFlagOf])
    ⟨by simp [advanceLast], by simp [ok.pend], by simp [ok.pdel],
     by (intro hf; first
          | (simp [setFlagOf] at hf; done)
          | (have h2 := ok.flag (by simpa [setFlagOf] using hf); simp only []; omega)
          | (simp only []; omega)),
     by simp [hst]⟩)

theorem inv_step (w : World) (i : Nat) (h : Inv w) : Inv (stepProc w i) := by
  unfold stepProc
  cases hp : w.procs[i]? with
  | none => simpa using h
  | some p =>
    have ok := h.procs i p hp
    simp only []
    by_cases hdone : p.pc > p.script.length
    · simpa [hdone] using h
    have hlen : p.script.length = 3 := by rw [ok.script]; rfl
    by_cases hmine : w.owner = some i
    · -- the lock owner is at its commit: the uncommitted (deleted) version becomes the row
      obtain ⟨q, hq, hq2, hq3, hq4⟩ := h.own i hmine
      have : q = p := by rw [hp] at hq; exact (Option.some.inj hq).symm
      subst this
      obtain ⟨hlt, _⟩ := List.getElem_of_getElem? hp
      simp [hq2, hq3, hmine, ok.script, advanceLast, needsLock, exec, commitTx, flush, ok.pend, ok.pdel, Shared.vis]
      have hw := wins_set w i q
        { script := [Stmt.read, Stmt.delete 0, Stmt.commit], pc := 3,
          l := { obj := q.l.obj, vars := q.l.vars, flags := q.l.flags, pend := [], pendDel := false, emitTx := [],
                 emitted := q.l.emitted ++ q.l.emitTx, status := Status.running, trace := q.l.trace } }
        hp w.work none w.work
      have hle : (if q.l.flags 0 = true then 1 else 0) ≤ wins w := by
        split
        · obtain ⟨hl, he⟩ := List.getElem_of_getElem? hp
          have hm : q ∈ w.procs := by rw [← he]; exact List.getElem_mem hl
          exact List.countP_pos_iff.mpr ⟨q, hm, by assumption⟩
        · exact Nat.zero_le _
      simp only [] at hw
      refine ⟨?_, ?_, ?_, ?_⟩
      · intro k r hr
        simp only [List.getElem?_set] at hr
        split at hr
        · simp only [hlt, ↓reduceIte, Option.some.injEq] at hr
          rw [← hr]
          exact ⟨by simp [advanceLast], rfl, rfl, by intro _; simp, by simp⟩
        · exact h.procs k r hr
      · intro k hk; simp at hk
      · rw [hw]; have := h.one; omega
      · intro _; simp [World.eff, hq4]
    · have hb : (w.owner == some i) = false := by simpa using hmine
      have hpc : p.pc = 0 ∨ p.pc = 1 ∨ p.pc = 2 ∨ p.pc = 3 := by omega
      rcases hpc with hpc | hpc | hpc | hpc
      · -- look-up
        cases hst : p.l.status
        · by_cases ha : w.db.alive = true
          · simp [hpc, hst, hb, ok.script, advanceLast, needsLock, exec, Shared.vis, ha, ok.pend, ok.pdel]
            close_local
          · simp [hpc, hst, hb, ok.script, advanceLast, needsLock, exec, Shared.vis, ha, raise, ok.pend, ok.pdel]
            close_local
        · exact absurd hst ok.status
        · simp [hpc, hst, hb, ok.script, advanceLast, needsLock, resume, ok.pend, ok.pdel]
          close_local
        · simp [hpc, hst, hb, ok.script, advanceLast, needsLock, finish, ok.pend, ok.pdel]
          close_local
      · -- the conditional DELETE
        have hfl : p.l.flags 0 = false := by
          cases hf : p.l.flags 0
          · rfl
          · have := ok.flag hf; omega
        cases hst : p.l.status
        · cases ho : w.owner with
          | some j =>
            -- another processor holds the row lock: this one waits
            have hji : j ≠ i := by intro e; subst e; exact hmine ho
            simpa [hpc, hst, hb, ho, hji, ok.script, advanceLast, needsLock] using h
          | none =>
            by_cases ha : w.db.alive = true
            · -- it deletes the row and takes the lock: nobody can have won before
              obtain ⟨hlt, _⟩ := List.getElem_of_getElem? hp
              simp [hpc, hst, hb, ho, ok.script, advanceLast, needsLock, exec, flush, Shared.vis, ha, ok.pend, ok.pdel]
              have hw := wins_set w i p
                { script := [Stmt.read, Stmt.delete 0, Stmt.commit], pc := 2,
                  l := { obj := p.l.obj, vars := p.l.vars, flags := setFlagOf p.l.flags 0 true, pend := [], pendDel := false,
                         emitTx := p.l.emitTx, emitted := p.l.emitted, status := Status.running,
                         trace := p.l.trace ++ [Ev.delete true] } }
                hp w.db (some i) { alive := false, f := w.db.f }
              have h0 : wins w = 0 := by
                have h1 := h.one
                by_cases h2 : wins w = 1
                · have := h.dead h2
                  simp [World.eff, ho, ha] at this
                · omega
              simp only [hfl, setFlagOf] at hw
              refine ⟨?_, ?_, ?_, ?_⟩
              · intro k r hr
                simp only [List.getElem?_set] at hr
                split at hr
                · simp only [hlt, ↓reduceIte, Option.some.injEq] at hr
                  rw [← hr]
                  exact ⟨by simp [advanceLast], rfl, rfl, by intro _; simp, by simp⟩
                · exact h.procs k r hr
              · intro k hk
                simp at hk
                subst hk
                exact ⟨_, List.getElem?_set_self hlt, rfl, rfl, rfl⟩
              · rw [hw, h0]; simp
              · intro _; simp [World.eff]
            · simp [hpc, hst, hb, ho, ok.script, advanceLast, needsLock, exec, flush, Shared.vis, ha, ok.pend, ok.pdel]
              rw [← ho]
              exact inv_local w i p _ h hp hmine (by simp [setFlagOf, hfl])
                ⟨by simp [advanceLast], by simp [ok.pend], by simp [ok.pdel], by (intro hf; simp [setFlagOf] at hf),
                 by simp [hst]⟩
        · exact absurd hst ok.status
        · simp [hpc, hst, hb, ok.script, advanceLast, needsLock, resume, ok.pend, ok.pdel]
          close_local
        · simp [hpc, hst, hb, ok.script, advanceLast, needsLock, finish, ok.pend, ok.pdel]
          close_local
      · -- the commit of a processor whose DELETE matched nothing
        cases hst : p.l.status
        · simp [hpc, hst, hb, ok.script, advanceLast, needsLock, exec, commitTx, flush, Shared.vis, ok.pend, ok.pdel]
          close_local
        · exact absurd hst ok.status
        · simp [hpc, hst, hb, ok.script, advanceLast, needsLock, resume, ok.pend, ok.pdel]
          close_local
        · simp [hpc, hst, hb, ok.script, advanceLast, needsLock, finish, ok.pend, ok.pdel]
          close_local
      · -- end of the script
        cases hst : p.l.status
        · simp [hpc, hst, hb, ok.script, advanceLast, needsLock, finish, commitTx, flush, Shared.vis, ok.pend, ok.pdel]
          close_local
        · exact absurd hst ok.status
        · simp [hpc, hst, hb, ok.script, advanceLast, needsLock, finish, rollback, ok.pend, ok.pdel]
          close_local
        · simp [hpc, hst, hb, ok.script, advanceLast, needsLock, finish, ok.pend, ok.pdel]
          close_local


theorem inv_init (row0 : Row) (n : Nat) (vars : Fields) :
    Inv (World.init row0 (List.replicate n (advanceLast, vars))) := by
  have hpr : ∀ (i : Nat) (p : Proc),
      (World.init row0 (List.replicate n (advanceLast, vars))).procs[i]? = some p →
      p = { script := advanceLast, pc := 0, l := Local.init vars } := by
    intro i p hp
    simp only [World.init, List.map_replicate] at hp
    rw [List.getElem?_replicate] at hp
    split at hp
    · exact (Option.some.inj hp).symm
    · cases hp
  refine ⟨?_, ?_, ?_, ?_⟩
  · intro i p hp
    rw [hpr i p hp]
    exact ⟨rfl, rfl, rfl, by intro hf; simp [Local.init] at hf, by simp [Local.init]⟩
  · intro i hi; simp [World.init] at hi
  · simp [wins, World.init, List.map_replicate, List.countP_replicate, Local.init]
  · intro h1
    simp [wins, World.init, List.map_replicate, List.countP_replicate, Local.init] at h1

theorem inv_reachable (row0 : Row) (n : Nat) (vars : Fields) (sched : List Nat) :
    Inv (runMany (World.init row0 (List.replicate n (advanceLast, vars))) (sched.map Step.proc)) := by
  suffices hgen : ∀ (w : World), Inv w → Inv (runMany w (sched.map Step.proc)) from hgen _ (inv_init row0 n vars)
  induction sched with
  | nil => intro w h; simpa [runMany] using h
  | cons i rest ih =>
    intro w h
    simp only [List.map_cons, runMany, List.foldl_cons, stepWorld]
    exact ih _ (inv_step w i h)

/-- C17 "each due occurrence of a trigger starts exactly one workflow execution ... however many
    processes evaluate cron triggers concurrently", LAST occurrence, at statement granularity: any
    number `n` of processors run the generated script of `advance_cron_trigger` (look-up, conditional
    DELETE, commit) on the same read copy, interleaved statement by statement by ANY schedule (a
    processor that needs the row lock while another holds it waits): at every moment at most ONE
    processor has "won", and once one has, the row is gone for everybody else. -/
theorem one_winner_last_occurrence (row0 : Row) (n : Nat) (vars : Fields) (sched : List Nat) :
    let w := runMany (World.init row0 (List.replicate n (advanceLast, vars))) (sched.map Step.proc)
    (w.procs.countP fun p => p.l.flags 0) ≤ 1 ∧
    ((w.procs.countP fun p => p.l.flags 0) = 1 → w.eff.alive = false) := by
  have h := inv_reachable row0 n vars sched
  exact ⟨h.one, h.dead⟩

/-- non-vacuity: with three processors there IS a schedule where one wins -/
example :
    let w := runMany (World.init { alive := true, f := fun _ => .null } (List.replicate 3 (advanceLast, fun _ => .null)))
      ([0, 1, 2, 1, 0, 2, 1, 1, 0, 0, 2, 2].map Step.proc)
    (w.procs.countP fun p => p.l.flags 0) = 1 := by decide


end Last

namespace Next

structure ProcOk (T : Val) (p : Proc) : Prop where
  script : p.script = advanceNext
  pend : p.l.pend = []
  pdel : p.l.pendDel = false
  flag : p.l.flags 0 = true → 2 ≤ p.pc
  status : p.l.status ≠ .returned
  copy : p.l.vars 0 = T
  moves : p.l.vars 2 ≠ T

structure Inv (T : Val) (w : World) : Prop where
  procs : ∀ (i : Nat) (p : Proc), w.procs[i]? = some p → ProcOk T p
  own : ∀ (i : Nat), w.owner = some i → ∃ p : Proc, w.procs[i]? = some p ∧ p.pc = 2 ∧ p.l.status = .running ∧
    w.work.f 0 ≠ T
  one : wins w ≤ 1
  dead : wins w = 1 → ¬ (w.eff.alive = true ∧ w.eff.f 0 = T)

/-- a statement of a processor that does not hold the lock and does not write -/
theorem inv_local (T : Val) (w : World) (i : Nat) (p p' : Proc) (h : Inv T w) (hp : w.procs[i]? = some p)
    (hno : w.owner ≠ some i) (hf : p'.l.flags 0 = p.l.flags 0) (hok : ProcOk T p') :
    Inv T { db := w.db, owner := w.owner, work := w.work, procs := w.procs.set i p' } := by
  obtain ⟨hlt, _⟩ := List.getElem_of_getElem? hp
  have hw := wins_set w i p p' hp w.db w.owner w.work
  have hw' : wins { db := w.db, owner := w.owner, work := w.work, procs := w.procs.set i p' } = wins w := by
    rw [hw, hf]
    have : (if p.l.flags 0 = true then 1 else 0) ≤ wins w := by
      split
      · simp only [wins]
        have := List.getElem_of_getElem? hp
        obtain ⟨hl, he⟩ := this
        have hm : p ∈ w.procs := by rw [← he]; exact List.getElem_mem hl
        exact List.countP_pos_iff.mpr ⟨p, hm, by assumption⟩
      · exact Nat.zero_le _
    omega
  refine ⟨?_, ?_, ?_, ?_⟩
  · intro k q hq
    simp only [List.getElem?_set] at hq
    split at hq
    · simp only [hlt, ↓reduceIte, Option.some.injEq] at hq; rw [← hq]; exact hok
    · exact h.procs k q hq
  · intro k hk
    obtain ⟨q, hq, h2, h3, h4⟩ := h.own k hk
    have hne : i ≠ k := by intro e; subst e; exact hno hk
    exact ⟨q, by simp only [List.getElem?_set, hne, ↓reduceIte]; exact hq, h2, h3, h4⟩
  · rw [hw']; exact h.one
  · rw [hw']; intro h1; exact h.dead h1

set_option hygiene false in
/-- closes `Inv` of a world that differs from `w` by processor i's non-writing statement -/
macro "close_local" : tactic => `(tactic|
  exact inv_local T w i p _ h hp hmine (by simp [setFlagOf])
    ⟨by simp [advanceNext], by simp [ok.pend], by simp [ok.pdel],
     by (intro hf; first
          | (simp [setFlagOf] at hf; done)
          | (have h2 := ok.flag (by simpa [setFlagOf] using hf); simp only []; omega)
          | (simp only []; omega)),
     by simp [hst], by simp [ok.copy], by simpa using ok.moves⟩)

theorem inv_step (T : Val) (w : World) (i : Nat) (h : Inv T w) : Inv T (stepProc w i) := by
  unfold stepProc
  cases hp : w.procs[i]? with
  | none => simpa using h
  | some p =>
    have ok := h.procs i p hp
    simp only []
    by_cases hdone : p.pc > p.script.length
    · simpa [hdone] using h
    have hlen : p.script.length = 3 := by rw [ok.script]; rfl
    by_cases hmine : w.owner = some i
    · -- the lock owner is at its commit: the uncommitted (deleted) version becomes the row
      obtain ⟨q, hq, hq2, hq3, hq4⟩ := h.own i hmine
      have : q = p := by rw [hp] at hq; exact (Option.some.inj hq).symm
      subst this
      obtain ⟨hlt, _⟩ := List.getElem_of_getElem? hp
      simp [hq2, hq3, hmine, ok.script, advanceNext, needsLock, exec, commitTx, flush, ok.pend, ok.pdel, Shared.vis]
      have hw := wins_set w i q
        { script := [Stmt.read, Stmt.cas 0 [(0, Expr.var 0)] [(0, Expr.var 2), (1, Expr.var 1)], Stmt.commit], pc := 3,
          l := { obj := q.l.obj, vars := q.l.vars, flags := q.l.flags, pend := [], pendDel := false, emitTx := [],
                 emitted := q.l.emitted ++ q.l.emitTx, status := Status.running, trace := q.l.trace } }
        hp w.work none w.work
      have hle : (if q.l.flags 0 = true then 1 else 0) ≤ wins w := by
        split
        · obtain ⟨hl, he⟩ := List.getElem_of_getElem? hp
          have hm : q ∈ w.procs := by rw [← he]; exact List.getElem_mem hl
          exact List.countP_pos_iff.mpr ⟨q, hm, by assumption⟩
        · exact Nat.zero_le _
      simp only [] at hw
      refine ⟨?_, ?_, ?_, ?_⟩
      · intro k r hr
        simp only [List.getElem?_set] at hr
        split at hr
        · simp only [hlt, ↓reduceIte, Option.some.injEq] at hr
          rw [← hr]
          exact ⟨by simp [advanceNext], rfl, rfl, by intro _; simp, by simp, by simp [ok.copy], by simpa using ok.moves⟩
        · exact h.procs k r hr
      · intro k hk; simp at hk
      · rw [hw]; have := h.one; omega
      · intro _; simp [World.eff]; intro _; exact hq4
    · have hb : (w.owner == some i) = false := by simpa using hmine
      have hpc : p.pc = 0 ∨ p.pc = 1 ∨ p.pc = 2 ∨ p.pc = 3 := by omega
      rcases hpc with hpc | hpc | hpc | hpc
      · -- look-up
        cases hst : p.l.status
        · by_cases ha : w.db.alive = true
          · simp [hpc, hst, hb, ok.script, advanceNext, needsLock, exec, Shared.vis, ha, ok.pend, ok.pdel]
            close_local
          · simp [hpc, hst, hb, ok.script, advanceNext, needsLock, exec, Shared.vis, ha, raise, ok.pend, ok.pdel]
            close_local
        · exact absurd hst ok.status
        · simp [hpc, hst, hb, ok.script, advanceNext, needsLock, resume, ok.pend, ok.pdel]
          close_local
        · simp [hpc, hst, hb, ok.script, advanceNext, needsLock, finish, ok.pend, ok.pdel]
          close_local
      · -- the conditional DELETE
        have hfl : p.l.flags 0 = false := by
          cases hf : p.l.flags 0
          · rfl
          · have := ok.flag hf; omega
        cases hst : p.l.status
        · cases ho : w.owner with
          | some j =>
            -- another processor holds the row lock: this one waits
            have hji : j ≠ i := by intro e; subst e; exact hmine ho
            simpa [hpc, hst, hb, ho, hji, ok.script, advanceNext, needsLock] using h
          | none =>
            by_cases hm : w.db.alive = true ∧ w.db.f 0 = T
            · -- its compare-and-swap matches and takes the lock: nobody can have won before
              obtain ⟨ha, hT⟩ := hm
              obtain ⟨hlt, _⟩ := List.getElem_of_getElem? hp
              simp [hpc, hst, hb, ho, ok.script, advanceNext, needsLock, exec, flush, Shared.vis, ha, hT, ok.pend, ok.pdel,
                rowMatches, evalSets, Expr.eval, ok.copy]
              have hw := wins_set w i p
                { script := [Stmt.read, Stmt.cas 0 [(0, Expr.var 0)] [(0, Expr.var 2), (1, Expr.var 1)], Stmt.commit], pc := 2,
                  l := { obj := p.l.obj.setMany [(0, p.l.vars 2), (1, p.l.vars 1)], vars := p.l.vars,
                         flags := setFlagOf p.l.flags 0 true, pend := [], pendDel := false,
                         emitTx := p.l.emitTx, emitted := p.l.emitted, status := Status.running,
                         trace := p.l.trace ++ [Ev.cas true] } }
                hp w.db (some i) { alive := true, f := w.db.f.setMany [(0, p.l.vars 2), (1, p.l.vars 1)] }
              have h0 : wins w = 0 := by
                have h1 := h.one
                by_cases h2 : wins w = 1
                · have := h.dead h2
                  simp [World.eff, ho, ha, hT] at this
                · omega
              simp only [hfl, setFlagOf] at hw
              refine ⟨?_, ?_, ?_, ?_⟩
              · intro k r hr
                simp only [List.getElem?_set] at hr
                split at hr
                · simp only [hlt, ↓reduceIte, Option.some.injEq] at hr
                  rw [← hr]
                  exact ⟨by simp [advanceNext], rfl, rfl, by intro _; simp, by simp, by simp [ok.copy], by simpa using ok.moves⟩
                · exact h.procs k r hr
              · intro k hk
                simp at hk
                subst hk
                exact ⟨_, List.getElem?_set_self hlt, rfl, rfl, by simpa [Fields.setMany, Fields.set] using ok.moves⟩
              · rw [hw, h0]; simp
              · intro _; simp [World.eff, Fields.setMany, Fields.set]; exact ok.moves
            · have hm' : (w.db.alive && w.db.f 0 == T) = false := by
                cases ha : w.db.alive <;> simp_all
              simp [hpc, hst, hb, ho, ok.script, advanceNext, needsLock, exec, flush, Shared.vis, ok.pend, ok.pdel,
                rowMatches, evalSets, Expr.eval, ok.copy, hm']
              rw [← ho]
              exact inv_local T w i p _ h hp hmine (by simp [setFlagOf, hfl])
                ⟨by simp [advanceNext], by simp [ok.pend], by simp [ok.pdel], by (intro hf; simp [setFlagOf] at hf),
                 by simp [hst], by simp [ok.copy], by simpa using ok.moves⟩
        · exact absurd hst ok.status
        · simp [hpc, hst, hb, ok.script, advanceNext, needsLock, resume, ok.pend, ok.pdel]
          close_local
        · simp [hpc, hst, hb, ok.script, advanceNext, needsLock, finish, ok.pend, ok.pdel]
          close_local
      · -- the commit of a processor whose DELETE matched nothing
        cases hst : p.l.status
        · simp [hpc, hst, hb, ok.script, advanceNext, needsLock, exec, commitTx, flush, Shared.vis, ok.pend, ok.pdel]
          close_local
        · exact absurd hst ok.status
        · simp [hpc, hst, hb, ok.script, advanceNext, needsLock, resume, ok.pend, ok.pdel]
          close_local
        · simp [hpc, hst, hb, ok.script, advanceNext, needsLock, finish, ok.pend, ok.pdel]
          close_local
      · -- end of the script
        cases hst : p.l.status
        · simp [hpc, hst, hb, ok.script, advanceNext, needsLock, finish, commitTx, flush, Shared.vis, ok.pend, ok.pdel]
          close_local
        · exact absurd hst ok.status
        · simp [hpc, hst, hb, ok.script, advanceNext, needsLock, finish, rollback, ok.pend, ok.pdel]
          close_local
        · simp [hpc, hst, hb, ok.script, advanceNext, needsLock, finish, ok.pend, ok.pdel]
          close_local


theorem inv_init (T : Val) (row0 : Row) (n : Nat) (vars : Fields) (hT : vars 0 = T) (hN : vars 2 ≠ T) :
    Inv T (World.init row0 (List.replicate n (advanceNext, vars))) := by
  have hpr : ∀ (i : Nat) (p : Proc),
      (World.init row0 (List.replicate n (advanceNext, vars))).procs[i]? = some p →
      p = { script := advanceNext, pc := 0, l := Local.init vars } := by
    intro i p hp
    simp only [World.init, List.map_replicate] at hp
    rw [List.getElem?_replicate] at hp
    split at hp
    · exact (Option.some.inj hp).symm
    · cases hp
  refine ⟨?_, ?_, ?_, ?_⟩
  · intro i p hp
    rw [hpr i p hp]
    exact ⟨rfl, rfl, rfl, by intro hf; simp [Local.init] at hf, by simp [Local.init], by simpa [Local.init] using hT,
      by simpa [Local.init] using hN⟩
  · intro i hi; simp [World.init] at hi
  · simp [wins, World.init, List.map_replicate, List.countP_replicate, Local.init]
  · intro h1
    simp [wins, World.init, List.map_replicate, List.countP_replicate, Local.init] at h1

theorem inv_reachable (T : Val) (row0 : Row) (n : Nat) (vars : Fields) (hT : vars 0 = T) (hN : vars 2 ≠ T)
    (sched : List Nat) :
    Inv T (runMany (World.init row0 (List.replicate n (advanceNext, vars))) (sched.map Step.proc)) := by
  suffices hgen : ∀ (w : World), Inv T w → Inv T (runMany w (sched.map Step.proc)) from
    hgen _ (inv_init T row0 n vars hT hN)
  induction sched with
  | nil => intro w h; simpa [runMany] using h
  | cons i rest ih =>
    intro w h
    simp only [List.map_cons, runMany, List.foldl_cons, stepWorld]
    exact ih _ (inv_step T w i h)

/-- .. and for every OTHER occurrence: any number of processors run the generated script (look-up,
    `update_on_match` on the read `next_execution_time`, commit) on the same read copy
    (`vars 0` = the read time, `vars 2` = the time croniter gives, different from it), interleaved
    statement by statement by ANY schedule: at most ONE has "won" at every moment, and once one has,
    the row no longer shows the read time to anybody. -/
theorem one_winner_per_occurrence (row0 : Row) (n : Nat) (vars : Fields) (hN : vars 2 ≠ vars 0) (sched : List Nat) :
    let w := runMany (World.init row0 (List.replicate n (advanceNext, vars))) (sched.map Step.proc)
    (w.procs.countP fun p => p.l.flags 0) ≤ 1 ∧
    ((w.procs.countP fun p => p.l.flags 0) = 1 → ¬ (w.eff.alive = true ∧ w.eff.f 0 = vars 0)) := by
  have h := inv_reachable (vars 0) row0 n vars rfl hN sched
  exact ⟨h.one, h.dead⟩

/-- non-vacuity -/
example :
    let vars : Fields := fun k => if k = 0 then .nat 100 else if k = 2 then .nat 400 else .nat 2
    let w := runMany (World.init { alive := true, f := fun k => if k = 0 then .nat 100 else .nat 3 }
        (List.replicate 3 (advanceNext, vars))) ([0, 1, 2, 1, 0, 2, 1, 1, 0, 0, 2, 2].map Step.proc)
    (w.procs.countP fun p => p.l.flags 0) = 1 ∧ w.db.f 0 = .nat 400 := by decide

end Next

end Mistral.Props.C17RaceMany
