/- C17, N processors interleaved statement by statement (`Mistral.Race.runMany`), by invariant. -/
import Mistral.Lemmas.Race
import Mistral.Gen.RaceScripts
namespace Mistral.Props.C17RaceMany
open Mistral.Race Mistral.Gen.RaceScripts

set_option maxRecDepth 4000
set_option linter.unusedSimpArgs false

def wins (w : World) : Nat := w.procs.countP (fun p => p.l.flags 0)

structure ProcOk (p : Proc) : Prop where
  script : p.script = advanceLast
  pend : p.l.pend = []
  pdel : p.l.pendDel = false
  flag : p.l.flags 0 = true → 2 ≤ p.pc
  status : p.l.status ≠ .returned

structure Inv (w : World) : Prop where
  procs : ∀ (i : Nat) (p : Proc), w.procs[i]? = some p → ProcOk p
  own : ∀ (i : Nat), w.owner = some i → ∃ p : Proc, w.procs[i]? = some p ∧ p.pc = 2 ∧ p.l.status = .running ∧
    w.work.alive = false
  one : wins w ≤ 1
  dead : wins w = 1 → w.eff.alive = false

theorem wins_set (w : World) (i : Nat) (p p' : Proc) (hp : w.procs[i]? = some p) (db : Row) (o : Option Nat) (wk : Row) :
    wins { db := db, owner := o, work := wk, procs := w.procs.set i p' } =
      (wins w - if p.l.flags 0 = true then 1 else 0) + if p'.l.flags 0 = true then 1 else 0 := by
  obtain ⟨hlt, he⟩ := List.getElem_of_getElem? hp
  simp only [wins]
  rw [List.countP_set hlt, he]

/-- a statement of a processor that does not hold the lock and does not write -/
theorem inv_local (w : World) (i : Nat) (p p' : Proc) (h : Inv w) (hp : w.procs[i]? = some p)
    (hno : w.owner ≠ some i) (hf : p'.l.flags 0 = p.l.flags 0) (hok : ProcOk p') :
    Inv { db := w.db, owner := w.owner, work := w.work, procs := w.procs.set i p' } := by
  obtain ⟨hlt, _⟩ := List.getElem_of_getElem? hp
  have hw := wins_set w i p p' hp w.db w.owner w.work
  have hw' : wins { db := w.db, owner := w.owner, work := w.work, procs := w.procs.set i p' } = wins w := by
    rw [hw, hf]
    have : (if p.l.flags 0 = true then 1 else 0) ≤ wins w := by
      split
      · simp only [wins]
        have := List.getElem_of_getElem? hp
        obtain ⟨hl, he⟩ := this
        have hm : p ∈ w.procs := by rw [← he]; exact List.getElem_mem hl
        exact List.countP_pos_iff.mpr ⟨p, hm, by assumption⟩
      · exact Nat.zero_le _
    omega
  refine ⟨?_, ?_, ?_, ?_⟩
  · intro k q hq
    simp only [List.getElem?_set] at hq
    split at hq
    · simp only [hlt, ↓reduceIte, Option.some.injEq] at hq; rw [← hq]; exact hok
    · exact h.procs k q hq
  · intro k hk
    obtain ⟨q, hq, h2, h3, h4⟩ := h.own k hk
    have hne : i ≠ k := by intro e; subst e; exact hno hk
    exact ⟨q, by simp only [List.getElem?_set, hne, ↓reduceIte]; exact hq, h2, h3, h4⟩
  · rw [hw']; exact h.one
  · rw [hw']; intro h1; exact h.dead h1

theorem inv_step (w : World) (i : Nat) (h : Inv w) : Inv (stepProc w i) := by
  unfold stepProc
  cases hp : w.procs[i]? with
  | none => simpa using h
  | some p =>
    have ok := h.procs i p hp
    simp only []
    by_cases hdone : p.pc > p.script.length
    · simpa [hdone] using h
    have hlen : p.script.length = 3 := by rw [ok.script]; rfl
    -- is this processor the lock owner?
    by_cases hmine : w.owner = some i
    · -- the owner is at its commit
      obtain ⟨q, hq, hq2, hq3, hq4⟩ := h.own i hmine
      have : q = p := by rw [hp] at hq; exact (Option.some.inj hq).symm
      subst this
      have hne : ¬ (3 < q.pc) := by omega
      simp [hq2, hq3, hmine, ok.script, advanceLast, needsLock, exec, commitTx, flush, ok.pend, ok.pdel, Shared.vis]
      trace_state
      sorry
    · have hb : (w.owner == some i) = false := by simpa using hmine
      have hpc : p.pc = 0 ∨ p.pc = 1 ∨ p.pc = 2 ∨ p.pc = 3 := by omega
      rcases hpc with hpc | hpc | hpc | hpc
      · cases hst : p.l.status
        · by_cases ha : w.db.alive = true
          · simp [hpc, hst, hb, ok.script, advanceLast, needsLock, exec, Shared.vis, ha]
            trace_state
            sorry
          · sorry
        · exact absurd hst ok.status
        · sorry
        · sorry
      · sorry
      · sorry
      · sorry

end Mistral.Props.C17RaceMany
