/-
C04, the clause about reverse workflows:

  "In a reverse workflow a task starts only after every task it requires has succeeded, and only
   tasks the target depends on are run, each once."

(and the part of C01 that concerns them: a run of a reverse workflow finishes with the prescribed
outcome).  Model: Mistral.Reverse (ReverseWorkflowController + the engine parts shared with direct
workflows); helper lemmas: Mistral.Lemmas.Reverse.  All statements quantify over ALL specifications,
targets and event histories (any interleaving of start / post-commit operations / RPC deliveries /
executor runs with any results).
-/
import Mistral.Lemmas.Reverse
namespace Mistral.Props.C04Rev
open Mistral Mistral.Reverse

/-! ### examples used for non-vacuity: a diamond with a tail and an unneeded task -/

/-- d requires b and c, both require a; e requires d; u is unrelated.  Target d. -/
def diamond : Spec :=
  { tasks := [⟨"e", ["d"]⟩, ⟨"d", ["b", "c"]⟩, ⟨"u", []⟩, ⟨"b", ["a"]⟩, ⟨"c", ["a"]⟩, ⟨"a", []⟩],
    defaultRequires := [], target := "d" }

/-- start, run a to success: b and c get their rows -/
def evsA : List Event :=
  [.start, .deliver (.postStartTask "a"), .deliver (.rpcStartTask "a"), .deliver (.postRunAction "a"),
   .execute "a" true, .deliver (.rpcResult "a" true)]

/-! ### "only tasks the target depends on" — what the needed set is -/

/-- The set the controller works on (`dfs_postorder_nodes(graph.reverse(), target)`) is exactly the
    target and the tasks it transitively requires. -/
theorem needed_iff_reach (sp : Spec) (ns : List String) (h : needed sp = some ns) (n : String) :
    n ∈ ns ↔ Reach sp n := mem_needed_iff sp ns h n

/-- An unknown target (`task_name` not a task) is refused: WorkflowException, nothing else. -/
theorem needed_none_iff (sp : Spec) : needed sp = none ↔ isTask sp sp.target = false := by
  constructor
  · exact needed_none sp
  · intro h; unfold needed; simp [h]

example : needed diamond = some ["d", "b", "c", "a"] := by decide
example : Reach diamond "a" :=
  .step (.step .target (r := "b") (by decide) (by decide)) (by decide) (by decide)

/-! ### the invariant: requires-order, only needed, each once -/

/-- "a task starts only after every task it requires has succeeded" (every row's requirements all
    have SUCCESS rows), "only tasks the target depends on are run", "each once" -/
def Inv (sp : Spec) (w : World) : Prop :=
  ReqOrder sp w.tasks ∧ OnlyNeeded sp w.tasks ∧ Once w.tasks

theorem inv_init (sp : Spec) : Inv sp init :=
  ⟨by intro r hr; simp [init] at hr, by intro r hr; simp [init] at hr, by simp [Once, init]⟩

/-- every event, delivered in any state satisfying the invariant, preserves it -/
theorem inv_step (sp : Spec) (w : World) (e : Event) (h : Inv sp w) : Inv sp (step sp w e) :=
  ⟨shape_reqOrder sp _ _ (step_shape sp w e) h.1, shape_onlyNeeded sp _ _ (step_shape sp w e) h.2.1,
   shape_once sp _ _ (step_shape sp w e) h.2.2⟩

theorem inv_reachable (sp : Spec) (evs : List Event) : Inv sp (run sp evs) :=
  run_induction sp (Inv sp) (inv_init sp) (inv_step sp) evs

/-- "In a reverse workflow a task starts only after every task it requires has succeeded": in
    whatever state (reachable or not) an event is delivered, a task execution it creates has, right
    after that event, every task it requires in SUCCESS. -/
theorem row_created_only_when_ready (sp : Spec) (w : World) (e : Event) (r : TaskRow)
    (hr : r ∈ (step sp w e).tasks) (hnew : hasRow w.tasks r.name = false) :
    ∀ q ∈ reqsN sp r.name, hasSuccess (step sp w e).tasks q = true :=
  shape_new_row sp _ _ (step_shape sp w e) r hr hnew

/-- … and in every reachable state every task that has an execution (IDLE, RUNNING or finished) has
    every task it requires in SUCCESS: for all specifications, targets, histories. -/
theorem requires_order_reachable (sp : Spec) (evs : List Event) (r : TaskRow) (hr : r ∈ (run sp evs).tasks)
    (t : Task) (ht : findTaskSpec sp r.name = some t) (q : String) (hq : q ∈ requiresOf sp t) :
    ∃ x ∈ (run sp evs).tasks, x.name = q ∧ x.state = .SUCCESS := by
  have := (inv_reachable sp evs).1 r hr q (by unfold reqsN; rw [ht]; exact hq)
  exact (hasSuccess_iff _ _).mp this

/-- A task that succeeded stays succeeded (so "has succeeded" above is never taken back). -/
theorem success_stays (sp : Spec) (w : World) (e : Event) (q : String) (h : hasSuccess w.tasks q = true) :
    hasSuccess (step sp w e).tasks q = true :=
  shape_success_stays sp _ _ (step_shape sp w e) q h

/-- "only tasks the target depends on are run": every execution in a reachable state belongs to the
    target or to a task the target transitively requires. -/
theorem only_needed_reachable (sp : Spec) (evs : List Event) (r : TaskRow) (hr : r ∈ (run sp evs).tasks) :
    Reach sp r.name := by
  rcases (inv_reachable sp evs).2.1 r hr with ⟨nd, hnd, hmem⟩
  exact (mem_needed_iff sp nd hnd r.name).mp hmem

/-- the target itself is among them -/
theorem target_needed (sp : Spec) (ns : List String) (h : needed sp = some ns) : sp.target ∈ ns :=
  target_mem_needed sp ns h

/-- "each once": in every reachable state no two executions have the same task name. -/
theorem each_once_reachable (sp : Spec) (evs : List Event) : ((run sp evs).tasks.map (·.name)).Nodup :=
  (inv_reachable sp evs).2.2

-- non-vacuity: after `evsA` the diamond has a SUCCESS row for a and new rows for b and c (u, e: none)
example : (run diamond evsA).tasks.map (fun r => (r.name, r.state)) =
    [("a", .SUCCESS), ("b", .IDLE), ("c", .IDLE)] := by decide
example : hasRow (run diamond (evsA.take 5)).tasks "b" = false ∧
    (run diamond evsA).tasks.any (·.name == "b") = true := by decide

end Mistral.Props.C04Rev
