/-
C04, the clause about reverse workflows:

  "In a reverse workflow a task starts only after every task it requires has succeeded, and only
   tasks the target depends on are run, each once."

(and the part of C01 that concerns them: a run of a reverse workflow finishes with the prescribed
outcome).  Model: Mistral.Reverse (ReverseWorkflowController + the engine parts shared with direct
workflows); helper lemmas: Mistral.Lemmas.Reverse.  All statements quantify over ALL specifications,
targets and event histories (any interleaving of start / post-commit operations / RPC deliveries /
executor runs with any results).
-/
import Mistral.Lemmas.ReverseLive
import Mistral.Lemmas.ReverseValid
namespace Mistral.Props.C04Rev
open Mistral Mistral.Reverse

/-! ### examples used for non-vacuity: a diamond with a tail and an unneeded task -/

/-- d requires b and c, both require a; e requires d; u is unrelated.  Target d. -/
def diamond : Spec :=
  { tasks := [⟨"e", ["d"]⟩, ⟨"d", ["b", "c"]⟩, ⟨"u", []⟩, ⟨"b", ["a"]⟩, ⟨"c", ["a"]⟩, ⟨"a", []⟩],
    defaultRequires := [], target := "d" }

/-- start, run a to success: b and c get their rows -/
def evsA : List Event :=
  [.start, .deliver (.postStartTask "a"), .deliver (.rpcStartTask "a"), .deliver (.postRunAction "a"),
   .execute "a" true, .deliver (.rpcResult "a" true)]

/-! ### "only tasks the target depends on" — what the needed set is -/

/-- The set the controller works on (`dfs_postorder_nodes(graph.reverse(), target)`) is exactly the
    target and the tasks it transitively requires. -/
theorem needed_iff_reach (sp : Spec) (ns : List String) (h : needed sp = some ns) (n : String) :
    n ∈ ns ↔ Reach sp n := mem_needed_iff sp ns h n

/-- An unknown target (`task_name` not a task) is refused: WorkflowException, nothing else. -/
theorem needed_none_iff (sp : Spec) : needed sp = none ↔ isTask sp sp.target = false := by
  constructor
  · exact needed_none sp
  · intro h; unfold needed; simp [h]

example : needed diamond = some ["d", "b", "c", "a"] := by decide
example : Reach diamond "a" :=
  .step (.step .target (r := "b") (by decide) (by decide)) (by decide) (by decide)

/-! ### the invariant: requires-order, only needed, each once -/

/-- "a task starts only after every task it requires has succeeded" (every row's requirements all
    have SUCCESS rows), "only tasks the target depends on are run", "each once" -/
def Inv (sp : Spec) (w : World) : Prop :=
  ReqOrder sp w.tasks ∧ OnlyNeeded sp w.tasks ∧ Once w.tasks

theorem inv_init (sp : Spec) : Inv sp init :=
  ⟨by intro r hr; simp [init] at hr, by intro r hr; simp [init] at hr, by simp [Once, init]⟩

/-- every event, delivered in any state satisfying the invariant, preserves it -/
theorem inv_step (sp : Spec) (w : World) (e : Event) (h : Inv sp w) : Inv sp (step sp w e) :=
  ⟨shape_reqOrder sp _ _ (step_shape sp w e) h.1, shape_onlyNeeded sp _ _ (step_shape sp w e) h.2.1,
   shape_once sp _ _ (step_shape sp w e) h.2.2⟩

theorem inv_reachable (sp : Spec) (evs : List Event) : Inv sp (run sp evs) :=
  run_induction sp (Inv sp) (inv_init sp) (inv_step sp) evs

/-- "In a reverse workflow a task starts only after every task it requires has succeeded": in
    whatever state (reachable or not) an event is delivered, a task execution it creates has, right
    after that event, every task it requires in SUCCESS. -/
theorem row_created_only_when_ready (sp : Spec) (w : World) (e : Event) (r : TaskRow)
    (hr : r ∈ (step sp w e).tasks) (hnew : hasRow w.tasks r.name = false) :
    ∀ q ∈ reqsN sp r.name, hasSuccess (step sp w e).tasks q = true :=
  shape_new_row sp _ _ (step_shape sp w e) r hr hnew

/-- … and in every reachable state every task that has an execution (IDLE, RUNNING or finished) has
    every task it requires in SUCCESS: for all specifications, targets, histories. -/
theorem requires_order_reachable (sp : Spec) (evs : List Event) (r : TaskRow) (hr : r ∈ (run sp evs).tasks)
    (t : Task) (ht : findTaskSpec sp r.name = some t) (q : String) (hq : q ∈ requiresOf sp t) :
    ∃ x ∈ (run sp evs).tasks, x.name = q ∧ x.state = .SUCCESS := by
  have := (inv_reachable sp evs).1 r hr q (by unfold reqsN; rw [ht]; exact hq)
  exact (hasSuccess_iff _ _).mp this

/-- A task that succeeded stays succeeded (so "has succeeded" above is never taken back). -/
theorem success_stays (sp : Spec) (w : World) (e : Event) (q : String) (h : hasSuccess w.tasks q = true) :
    hasSuccess (step sp w e).tasks q = true :=
  shape_success_stays sp _ _ (step_shape sp w e) q h

/-- "only tasks the target depends on are run": every execution in a reachable state belongs to the
    target or to a task the target transitively requires. -/
theorem only_needed_reachable (sp : Spec) (evs : List Event) (r : TaskRow) (hr : r ∈ (run sp evs).tasks) :
    Reach sp r.name := by
  rcases (inv_reachable sp evs).2.1 r hr with ⟨nd, hnd, hmem⟩
  exact (mem_needed_iff sp nd hnd r.name).mp hmem

/-- the target itself is among them -/
theorem target_needed (sp : Spec) (ns : List String) (h : needed sp = some ns) : sp.target ∈ ns :=
  target_mem_needed sp ns h

/-- "each once": in every reachable state no two executions have the same task name. -/
theorem each_once_reachable (sp : Spec) (evs : List Event) : ((run sp evs).tasks.map (·.name)).Nodup :=
  (inv_reachable sp evs).2.2

-- non-vacuity: after `evsA` the diamond has a SUCCESS row for a and new rows for b and c (u, e: none)
example : (run diamond evsA).tasks.map (fun r => (r.name, r.state)) =
    [("a", .SUCCESS), ("b", .IDLE), ("c", .IDLE)] := by decide
example : hasRow (run diamond (evsA.take 5)).tasks "b" = false ∧
    (run diamond evsA).tasks.any (·.name == "b") = true := by decide

/-! ### the outcome of a run (C01 for reverse workflows; "each once" read as "each exactly once") -/

/-- every required name is a task (`_check_workflow_integrity` → `_validate_task_link`) -/
def WellFormed (sp : Spec) : Prop := ∀ t ∈ sp.tasks, ∀ q ∈ requiresOf sp t, isTask sp q = true

instance (sp : Spec) : Decidable (WellFormed sp) := by unfold WellFormed; infer_instance

/-- `requires` has no cycle: some ranking of the names puts every requirement below its task
    (guaranteed by the validator since `_check_requires_cycles`: `accepted_wellformed_acyclic`) -/
def Acyclic (sp : Spec) : Prop :=
  ∃ rank : String → Nat, ∀ t ∈ sp.tasks, ∀ q ∈ requiresOf sp t, rank q < rank t.name

/-- a decidable certificate of acyclicity: a list of names in which every requirement of a task
    stands before the task -/
def acyclicBy (order : List String) (sp : Spec) : Bool :=
  sp.tasks.all fun t => (requiresOf sp t).all fun q => decide (order.idxOf q < order.idxOf t.name)

theorem acyclic_of_order (order : List String) (sp : Spec) (h : acyclicBy order sp = true) : Acyclic sp := by
  refine ⟨fun n => order.idxOf n, ?_⟩
  intro t ht q hq
  unfold acyclicBy at h
  have := List.all_eq_true.mp (List.all_eq_true.mp h t ht) q hq
  simpa using this

example : WellFormed diamond := by decide
example : Acyclic diamond := acyclic_of_order ["a", "b", "c", "d", "e", "u"] diamond (by decide)

/-- the invariant behind the outcome theorem holds in every reachable state: rows are IDLE / RUNNING /
    SUCCESS / ERROR; every IDLE row has its start on the way and every RUNNING row its action or result;
    a RUNNING workflow whose rows are all finished has a completion check pending; a finished workflow
    has only finished rows (SUCCESS: all SUCCESS, ERROR: one ERROR); once started, no needed task is
    startable and not started. -/
theorem live_inv_reachable (sp : Spec) (evs : List Event) (hops : ∀ e ∈ evs, NoOp e) :
    Static sp (run sp evs) ∧ Pend (run sp evs) := ⟨(live_reachable sp evs hops).1, (live_reachable sp evs hops).2.1⟩

/-- the outcome under the two facts about `requires` (by name) it needs -/
theorem quiescent_outcome_core (sp : Spec) (evs : List Event) (hops : ∀ e ∈ evs, NoOp e)
    (hwf : WellFormedN sp) (hac : AcyclicN sp)
    (hq : (run sp evs).pending = []) (hst : (run sp evs).wf ≠ .IDLE) :
    ((run sp evs).wf = .ERROR ∧ ∃ r ∈ (run sp evs).tasks, r.state = .ERROR) ∨
    ((run sp evs).wf = .SUCCESS ∧ ∃ nd, needed sp = some nd ∧
      ∀ n ∈ nd, ∃ r ∈ (run sp evs).tasks, r.name = n ∧ r.state = .SUCCESS) := by
  rcases live_reachable sp evs hops with ⟨hs, hp, _⟩
  rcases quiescent_finished sp _ hs hp hq with ⟨_, hnr⟩
  rcases hs.wfStates with h | h | h | h
  · exact absurd h hst
  · exact absurd h hnr
  · right
    refine ⟨h, ?_⟩
    rcases hs.sat hst with ⟨nd, hnd, hsat⟩
    refine ⟨nd, hnd, ?_⟩
    rcases hac with ⟨rank, hrank⟩
    intro n hn
    have := all_needed_succeeded sp _ nd rank hnd hrank hwf hsat (hs.success h) (rank n + 1) n
      (Nat.lt_succ_self _) hn
    exact (hasSuccess_iff _ _).mp this
  · exact Or.inl ⟨h, hs.error h⟩

theorem byName_of_tasks (sp : Spec) (hwf : WellFormed sp) (hac : Acyclic sp) : WellFormedN sp ∧ AcyclicN sp := by
  have hreq : ∀ n q, q ∈ reqsN sp n → ∃ t ∈ sp.tasks, t.name = n ∧ q ∈ requiresOf sp t := by
    intro n q hq
    unfold reqsN at hq
    split at hq
    · rename_i t ht
      exact ⟨t, (findTaskSpec_some sp n t ht).1, (findTaskSpec_some sp n t ht).2, hq⟩
    · simp at hq
  rcases hac with ⟨rank, hrank⟩
  refine ⟨?_, rank, ?_⟩
  · intro n q hq; rcases hreq n q hq with ⟨t, ht, _, hq'⟩; exact hwf t ht q hq'
  · intro n q hq; rcases hreq n q hq with ⟨t, ht, hname, hq'⟩; rw [← hname]; exact hrank t ht q hq'

/-- the outcome for any specification whose `requires` is acyclic (whether or not it was validated) -/
theorem quiescent_outcome_acyclic (sp : Spec) (evs : List Event) (hops : ∀ e ∈ evs, NoOp e)
    (hwf : WellFormed sp) (hac : Acyclic sp)
    (hq : (run sp evs).pending = []) (hst : (run sp evs).wf ≠ .IDLE) :
    ((run sp evs).wf = .ERROR ∧ ∃ r ∈ (run sp evs).tasks, r.state = .ERROR) ∨
    ((run sp evs).wf = .SUCCESS ∧ ∃ nd, needed sp = some nd ∧
      ∀ n ∈ nd, ∃ r ∈ (run sp evs).tasks, r.name = n ∧ r.state = .SUCCESS) :=
  quiescent_outcome_core sp evs hops (byName_of_tasks sp hwf hac).1 (byName_of_tasks sp hwf hac).2 hq hst

/-- what definition-time validation of a reverse workflow (`_check_workflow_integrity` with
    `_check_requires_cycles`) guarantees: every required task exists and `requires` has no cycle -/
theorem accepted_wellformed_acyclic (sp : Spec) (h : checkIntegrity sp = none) : WellFormedN sp ∧ AcyclicN sp :=
  checkIntegrity_sound sp h

/-- the number of rounds given to the model of the validator's loop is never what rejects -/
theorem validator_rounds_suffice (sp : Spec) (g : Nat) (hg : sp.tasks.length ≤ g) :
    peel sp g (sp.tasks.map (·.name)) [] = requiresAcyclic sp :=
  peel_fuel sp sp.tasks.length _ [] (by simp) g hg

/-- "Every workflow run finishes with the outcome its definition prescribes", reverse workflows, FULL
    STRENGTH: for EVERY definition the validator accepts, every target and EVERY event history without
    operator commands (a stopped run ends as it is told to, a run left paused does not end), if
    nothing is pending any more (and the run was started) then either the workflow is ERROR and some
    task failed, or it is SUCCESS and EVERY needed task (the target included) has a row in SUCCESS —
    by `each_once_reachable` exactly one.  It is never left RUNNING. -/
theorem quiescent_outcome (sp : Spec) (evs : List Event) (hops : ∀ e ∈ evs, NoOp e)
    (hv : checkIntegrity sp = none)
    (hq : (run sp evs).pending = []) (hst : (run sp evs).wf ≠ .IDLE) :
    ((run sp evs).wf = .ERROR ∧ ∃ r ∈ (run sp evs).tasks, r.state = .ERROR) ∨
    ((run sp evs).wf = .SUCCESS ∧ ∃ nd, needed sp = some nd ∧
      ∀ n ∈ nd, ∃ r ∈ (run sp evs).tasks, r.name = n ∧ r.state = .SUCCESS) :=
  quiescent_outcome_core sp evs hops (checkIntegrity_sound sp hv).1 (checkIntegrity_sound sp hv).2 hq hst

/-- the same for the histories that matter: anything after the start of a run of an accepted
    definition on an existing target -/
theorem started_run_outcome (sp : Spec) (evs : List Event) (hops : ∀ e ∈ evs, NoOp e)
    (hv : checkIntegrity sp = none)
    (ht : isTask sp sp.target = true) (hq : (run sp (.start :: evs)).pending = []) :
    ((run sp (.start :: evs)).wf = .ERROR ∧ ∃ r ∈ (run sp (.start :: evs)).tasks, r.state = .ERROR) ∨
    ((run sp (.start :: evs)).wf = .SUCCESS ∧
      ∃ r ∈ (run sp (.start :: evs)).tasks, r.name = sp.target ∧ r.state = .SUCCESS) := by
  rcases quiescent_outcome sp (.start :: evs)
      (by intro e he; rcases List.mem_cons.mp he with rfl | he
          · trivial
          · exact hops e he) hv hq (started_after_start sp evs ht) with h | ⟨h1, nd, hnd, h2⟩
  · exact Or.inl h
  · exact Or.inr ⟨h1, h2 sp.target (target_mem_needed sp nd hnd)⟩

example : checkIntegrity diamond = none := by decide

/-- SUCCESS and ERROR are told apart by the tasks: at quiescence the workflow is ERROR exactly when
    some task failed (no acyclicity needed). -/
theorem quiescent_error_iff (sp : Spec) (evs : List Event) (hops : ∀ e ∈ evs, NoOp e) (hq : (run sp evs).pending = [])
    (hst : (run sp evs).wf ≠ .IDLE) :
    (run sp evs).wf = .ERROR ↔ ∃ r ∈ (run sp evs).tasks, r.state = .ERROR := by
  rcases live_reachable sp evs hops with ⟨hs, hp, _⟩
  rcases quiescent_finished sp _ hs hp hq with ⟨_, hnr⟩
  constructor
  · exact hs.error
  · rintro ⟨r, hr, he⟩
    rcases hs.wfStates with h | h | h | h
    · exact absurd h hst
    · exact absurd h hnr
    · have := hs.success h r hr; rw [he] at this; cases this
    · exact h

/-- a workflow whose two tasks require each other -/
def cyc : Spec := { tasks := [⟨"a", ["b"]⟩, ⟨"b", ["a"]⟩], defaultRequires := [], target := "a" }

/-- a cycle through `task-defaults: requires`: every task requires a, a requires b -/
def cycDefaults : Spec := { tasks := [⟨"a", ["b"]⟩, ⟨"b", []⟩], defaultRequires := ["a"], target := "b" }

/-- REGRESSION (was the finding `quiescent_outcome_full_fails`; corpus/C04/reverse-cyclic.json): a
    definition with a `requires` cycle — also one through task-defaults — is rejected at creation;
    a task that only names itself, and an unknown name, are told apart. -/
theorem cyclic_definition_rejected :
    checkIntegrity cyc = some .requiresCycle ∧ checkIntegrity cycDefaults = some .requiresCycle ∧
    checkIntegrity { tasks := [⟨"a", ["a"]⟩], defaultRequires := [], target := "a" } = none ∧
    checkIntegrity { tasks := [⟨"a", ["zz"]⟩], defaultRequires := [], target := "a" } = some .taskNotFound := by
  decide

/-- why the validator must reject it: were such a definition run (one stored before the check
    existed, or loaded without validation), nothing is startable, `start_workflow`'s inline completion
    check finds no unfinished task and the run is SUCCESS at once — the target never ran. -/
theorem unvalidated_cycle_succeeds_without_target :
    WellFormed cyc ∧ (run cyc [.start]).pending = [] ∧ (run cyc [.start]).wf = .SUCCESS ∧
    (run cyc [.start]).tasks.length = 0 := by decide

/-- full runs of the diamond (non-vacuity of the outcome theorem): all succeed → SUCCESS with a, b, c, d
    in SUCCESS and no row for e, u; b fails → ERROR and d never gets a row -/
def runTask (n : String) (ok : Bool) : List Event :=
  [.deliver (.postStartTask n), .deliver (.rpcStartTask n), .deliver (.postRunAction n), .execute n ok,
   .deliver (.rpcResult n ok), .deliver .postCheck]

example : let w := run diamond (.start :: runTask "a" true ++ runTask "c" true ++ runTask "b" true ++ runTask "d" true)
    w.pending = [] ∧ w.wf = .SUCCESS ∧
    w.tasks.map (fun r => (r.name, r.state)) = [("a", .SUCCESS), ("b", .SUCCESS), ("c", .SUCCESS), ("d", .SUCCESS)] := by
  decide

example : let w := run diamond (.start :: runTask "a" true ++ runTask "c" true ++ runTask "b" false)
    w.pending = [] ∧ w.wf = .ERROR ∧
    w.tasks.map (fun r => (r.name, r.state)) = [("a", .SUCCESS), ("b", .ERROR), ("c", .SUCCESS)] := by
  decide

/-! ### operator commands: pause / resume / stop are events of the model; the invariant `Inv`
    (requires-order, only needed, each once) holds over histories that contain them (`inv_reachable`
    quantifies over ALL event lists) -/

-- a completes while the workflow is PAUSED: nothing is created; resume creates b and c
example : let w := run diamond (.start :: (runTask "a" true).take 4 ++ [.pause, .deliver (.rpcResult "a" true)])
    w.wf = .PAUSED ∧ w.pending = [] ∧ w.tasks.map (fun r => (r.name, r.state, r.processed)) = [("a", .SUCCESS, false)] := by
  decide

example : let w := run diamond (.start :: (runTask "a" true).take 4 ++ [.pause, .deliver (.rpcResult "a" true), .resume])
    w.wf = .RUNNING ∧ w.pending = [.postStartTask "b", .postStartTask "c"] ∧
    w.tasks.map (fun r => (r.name, r.state, r.processed)) = [("a", .SUCCESS, true), ("b", .IDLE, false), ("c", .IDLE, false)] := by
  decide

-- resume while a is still IDLE: a second start request (RunExistingTask) for the same row, no second row
example : let w := run diamond [.start, .pause, .resume]
    w.pending = [.postStartTask "a", .postStartExisting "a"] ∧ w.tasks.map (·.name) = ["a"] := by decide

-- a stopped run: the rows that were started finish, nothing new is created
example : let w := run diamond (.start :: (runTask "a" true).take 4 ++ [.stop .CANCELLED, .deliver (.rpcResult "a" true),
      .deliver .postCheck])
    w.wf = .CANCELLED ∧ w.pending = [] ∧ w.tasks.map (fun r => (r.name, r.state)) = [("a", .SUCCESS)] := by decide

end Mistral.Props.C04Rev
