/-
C19 — Outbound HTTP from workflows cannot reach denied networks.
Property theorems only.  The model is Mistral/Model/Egress.lean (tied to
mistral/utils/egress.py by the `egress` correspondence stream); the default
deny-list is regenerated from mistral/config.py on every run (Tie A).
-/
import Mistral.Model.Egress
import Mistral.Gen.EgressDefaults

namespace Mistral.Props.C19
open Mistral.Egress Mistral.Gen.EgressDefaults

/-- "it is refused whenever any address its host denotes or resolves to lies in
    a denied network" — for every configuration, scheme, host, and resolved
    address list. -/
theorem denied_address_rejected (cfg : Config) (scheme host : String) (addrs : List Addr)
    (h : ∃ a ∈ addrs, ∃ d ∈ denotes a, ∃ n ∈ cfg.denied, inNet d n = true) :
    validate cfg scheme host (.addrs addrs) ≠ .ok := by
  obtain ⟨a, ha, d, hd, n, hn, hin⟩ := h
  have hden : addrDenied cfg a = true := by
    unfold addrDenied
    exact List.any_eq_true.mpr ⟨d, hd, List.any_eq_true.mpr ⟨n, hn, hin⟩⟩
  have hany : addrs.any (addrDenied cfg) = true := List.any_eq_true.mpr ⟨a, ha, hden⟩
  unfold validate
  split
  · simp
  · split
    · simp
    · split
      · simp
      · simp [hany]

/-- "refused unless its scheme is http or https and, when an allow-list is
    configured, its host is listed" (also: a URL without host is refused). -/
theorem scheme_and_allowlist (cfg : Config) (scheme host : String) (addrs : Resolved)
    (h : validate cfg scheme host addrs = .ok) :
    (scheme = "http" ∨ scheme = "https") ∧ host ≠ "" ∧
    (cfg.allowedHosts = [] ∨ host ∈ cfg.allowedHosts) := by
  unfold validate at h
  split at h
  · simp at h
  · rename_i hs
    split at h
    · simp at h
    · rename_i hh
      split at h
      · simp at h
      · rename_i ha
        refine ⟨?_, ?_, ?_⟩
        · simp at hs
          by_cases h1 : scheme = "http"
          · exact Or.inl h1
          · exact Or.inr (hs h1)
        · simpa using hh
        · simp at ha
          by_cases he : cfg.allowedHosts = []
          · exact Or.inl he
          · exact Or.inr (ha he)

/-- An IPv4-mapped IPv6 address denotes its IPv4 address. -/
theorem mapped_denotes (x : Nat) (h : x / 2 ^ 32 = 0xffff) :
    Addr.v4 (x % 2 ^ 32) ∈ denotes (.v6 x) := by
  simp [denotes, ipv4Mapped, h]

/-- The *generated* default deny-list covers IPv4 loopback. -/
theorem default_covers_loopback4 (x : Nat) (h : x / 2 ^ 24 = 127) :
    ∃ n ∈ deniedDefault, inNet (.v4 x) n = true := by
  refine ⟨⟨false, 2130706432, 8⟩, by simp [deniedDefault], ?_⟩
  simp [inNet, h]

/-- ... IPv6 loopback ::1. -/
theorem default_covers_loopback6 : ∃ n ∈ deniedDefault, inNet (.v6 1) n = true := by
  refine ⟨⟨true, 1, 128⟩, by simp [deniedDefault], ?_⟩
  simp [inNet]

/-- ... IPv4 link-local 169.254.0.0/16 (which contains the metadata service). -/
theorem default_covers_linklocal4 (x : Nat) (h : x / 2 ^ 16 = 169 * 256 + 254) :
    ∃ n ∈ deniedDefault, inNet (.v4 x) n = true := by
  refine ⟨⟨false, 2851995648, 16⟩, by simp [deniedDefault], ?_⟩
  simp [inNet, h]

/-- 169.254.169.254 is link-local. -/
theorem metadata_is_linklocal : (169 * 2 ^ 24 + 254 * 2 ^ 16 + 169 * 2 ^ 8 + 254) / 2 ^ 16 = 169 * 256 + 254 := by
  decide

/-- ... IPv6 link-local fe80::/10. -/
theorem default_covers_linklocal6 (x : Nat) (h : x / 2 ^ 118 = 0xfe80 / 2 ^ 6) :
    ∃ n ∈ deniedDefault, inNet (.v6 x) n = true := by
  refine ⟨⟨true, 338288524927261089654018896841347694592, 10⟩, by simp [deniedDefault], ?_⟩
  simp [inNet, h]

/-- With the default configuration, a URL whose host resolves to the metadata
    service — plain or IPv4-mapped — is refused, whatever else is in the list. -/
theorem default_blocks_metadata (scheme host : String) (addrs : List Addr)
    (h : Addr.v4 (169 * 2 ^ 24 + 254 * 2 ^ 16 + 169 * 2 ^ 8 + 254) ∈ addrs ∨
         Addr.v6 (0xffff * 2 ^ 32 + (169 * 2 ^ 24 + 254 * 2 ^ 16 + 169 * 2 ^ 8 + 254)) ∈ addrs) :
    validate defaultConfig scheme host (.addrs addrs) ≠ .ok := by
  apply denied_address_rejected
  rcases h with h | h
  · refine ⟨_, h, Addr.v4 (169 * 2 ^ 24 + 254 * 2 ^ 16 + 169 * 2 ^ 8 + 254), by decide, ⟨false, 2851995648, 16⟩, by simp [defaultConfig, deniedDefault], by decide⟩
  · refine ⟨_, h, Addr.v4 (169 * 2 ^ 24 + 254 * 2 ^ 16 + 169 * 2 ^ 8 + 254), by decide, ⟨false, 2851995648, 16⟩, by simp [defaultConfig, deniedDefault], by decide⟩

/-- inet_aton short forms: every way of splitting a 32-bit address into 1..4
    numeric parts denotes the same address ("every textual form"). -/
theorem parts_forms_agree (x : Nat) (h : x < 2 ^ 32) :
    combineParts [x] = some x ∧
    combineParts [x / 2 ^ 24, x % 2 ^ 24] = some x ∧
    combineParts [x / 2 ^ 24, x / 2 ^ 16 % 256, x % 2 ^ 16] = some x ∧
    combineParts [x / 2 ^ 24, x / 2 ^ 16 % 256, x / 2 ^ 8 % 256, x % 256] = some x := by
  refine ⟨?_, ?_, ?_, ?_⟩
  · simp [combineParts, h]
  · simp only [combineParts]
    rw [if_pos (by omega)]; congr 1; omega
  · simp only [combineParts]
    rw [if_pos (by omega)]; congr 1; omega
  · simp only [combineParts]
    rw [if_pos (by omega)]; congr 1; omega

/-- non-vacuity: the hypotheses of `denied_address_rejected` are met by a
    concrete mapped metadata address under the default configuration. -/
example : ∃ a ∈ [Addr.v6 (0xffff * 2 ^ 32 + 2852039166)], ∃ d ∈ denotes a,
    ∃ n ∈ defaultConfig.denied, inNet d n = true := by decide

end Mistral.Props.C19
