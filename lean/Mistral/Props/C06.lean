/-
C06 — Duplicate or redelivered messages have the effect of a single delivery.
Property theorems only.  Models: Mistral/Model/Executor.lean (decision table of
DefaultExecutor._do_run_action, tied to the real executor by the exhaustive `executor` stream) and
Mistral/Model/Dedup.lean (engine-side idempotence logic of one task / one workflow id, tied to
the real engine by the `dedup` stream; the whole-run reading is the `engine-dup` stream).
-/
import Mistral.Model.Executor
import Mistral.Model.Dedup
import Mistral.Lemmas.Dedup

namespace Mistral.Props.C06
open Mistral.Executor Mistral.Dedup

/-! ## The executor -/

/-- "An executor that receives a redelivered request for an action not marked safe to re-run does
    not run it and reports one error": `action.run` is not called; with an action execution id
    exactly one engine-client call is attempted and it carries an error result (no ok result is
    ever attempted); without an id the error result is the returned value.  For every action
    behaviour, sync flag and client behaviour. -/
theorem redelivered_unsafe_not_run (i : Input) (hr : i.redelivered = true) (hs : i.safeRerun = false) :
    (doRunAction i).ran = false ∧
    (i.idPresent = true → (doRunAction i).calls = [⟨.error, i.c1⟩]) ∧
    (i.idPresent = false → (doRunAction i).calls = [] ∧ (doRunAction i).ret = .result .error) := by
  obtain ⟨r, s, b, y, p, c1, c2⟩ := i
  simp only at hr hs
  subst hr hs
  cases p <;> simp [doRunAction, sendErrorBack]

/-- ... "and reports one error" as the caller sees it: when the client accepts the call (or no id
    was given) the reports are exactly one error. -/
theorem redelivered_unsafe_reports_one_error (i : Input) (hr : i.redelivered = true)
    (hs : i.safeRerun = false) (hc : i.idPresent = true → i.c1 = .ok) :
    reports i (doRunAction i) = [.error] := by
  obtain ⟨r, s, b, y, p, c1, c2⟩ := i
  simp only at hr hs hc
  subst hr hs
  cases p
  · simp [doRunAction, sendErrorBack, reports]
  · simp at hc; subst hc
    simp [doRunAction, sendErrorBack, reports, delivered]

example : (doRunAction ⟨true, false, .okResult, true, true, .ok, .ok⟩) =
    { ran := false, calls := [⟨.error, .ok⟩], ret := .none } := by decide

/-- The action is run in every other case (the refusal happens only for unsafe redelivery). -/
theorem not_run_iff_redelivered_unsafe (i : Input) :
    (doRunAction i).ran = false ↔ (i.redelivered = true ∧ i.safeRerun = false) := by
  obtain ⟨r, s, b, y, p, c1, c2⟩ := i
  cases r <;> cases s <;> cases b <;> cases y <;> cases p <;> cases c1 <;> simp [doRunAction, resultOf]

/-- "for every action it runs it reports at most one result": at most one engine-client call
    returns normally (is handed to the transport), and the caller sees at most one report — for
    every input of the table. -/
theorem at_most_one_result (i : Input) :
    (delivered (doRunAction i)).length ≤ 1 ∧ (reports i (doRunAction i)).length ≤ 1 := by
  obtain ⟨r, s, b, y, p, c1, c2⟩ := i
  cases r <;> cases s <;> cases b <;> cases y <;> cases p <;> cases c1 <;> cases c2 <;> decide

/-- Counting ATTEMPTED calls instead, the statement is false: when the first
    `on_action_complete` raises a MistralException the executor calls the client a second time
    (`send_error_back`).  Whether the first message reached the engine is not known to the
    executor; if both arrive the engine-side rejection (`executor_reports_accepted_once`) is what
    keeps the effect single. -/
theorem at_most_one_attempt_full_fails : ¬ (∀ i : Input, (doRunAction i).calls.length ≤ 1) := by
  intro h
  exact absurd (h ⟨false, false, .okResult, true, true, .mistralExc, .ok⟩) (by decide)

/-- ... and that is the only way: if the first client call does not raise a MistralException at
    most one call is attempted; never more than two; a second one always carries an error. -/
theorem at_most_one_attempt_partial (i : Input) :
    (i.c1 ≠ .mistralExc → (doRunAction i).calls.length ≤ 1) ∧ (doRunAction i).calls.length ≤ 2 ∧
    (∀ c, (doRunAction i).calls[1]? = some c → c.kind = .error ∧
        ∃ k, (doRunAction i).calls[0]? = some ⟨k, .mistralExc⟩) := by
  obtain ⟨r, s, b, y, p, c1, c2⟩ := i
  cases r <;> cases s <;> cases b <;> cases y <;> cases p <;> cases c1 <;> cases c2 <;>
    simp [doRunAction, resultOf, sendErrorBack, raisedBy]

/-- An asynchronous action reports only errors (its ok / cancel result is delivered later by
    whoever completes it). -/
theorem async_reports_only_errors (i : Input) (h : i.isSync = false) :
    ∀ c ∈ (doRunAction i).calls, c.kind = .error := by
  obtain ⟨r, s, b, y, p, c1, c2⟩ := i
  simp only at h
  subst h
  cases r <;> cases s <;> cases b <;> cases p <;> cases c1 <;> cases c2 <;>
    simp [doRunAction, resultOf, sendErrorBack, raisedBy]

/-- `ExecutorServer.run_action` derives the flag as `rpc_ctx.redelivered or False`. -/
theorem server_redelivered_total : serverRedelivered none = false ∧
    ∀ b, serverRedelivered (some b) = b := ⟨rfl, fun _ => rfl⟩

/-! ## The engine: action results -/

/-- "no second result is accepted" — the mechanism: a result for an action execution that is already
    completed is rejected and the (rolled back) transaction changes nothing. -/
theorem completed_action_rejects (t : Task) (a : Nat) (k : Dedup.Kind) (tag : Nat)
    (h : completedAt t a) :
    step t (.result a k tag) = t ∧ verdict t (.result a k tag) = .rejected := by
  simp [step, verdict, deliverResult_rejected t a k tag h]

/-- "Delivering the same action result ... more than once leaves the run exactly as a single
    delivery would": after the first delivery of a result for action #a, and after ANY further
    sequence of deliveries (results of any action, expiries, task starts, reruns), delivering a
    result for #a again (same or different payload) is rejected and changes nothing; the stored
    state/output of #a is still the one the first delivery left. -/
theorem dup_action_result_noop (t : Task) (a : Nat) (k : Dedup.Kind) (tag : Nat) (ds : List Delivery)
    (k' : Dedup.Kind) (tag' : Nat) (ha : a < t.actions.length) :
    let t1 := step t (.result a k tag)
    let t' := run t1 ds
    step t' (.result a k' tag') = t' ∧ verdict t' (.result a k' tag') = .rejected ∧
    Frozen t1 t' a := by
  intro t1 t'
  have h1 : completedAt t1 a := deliverResult_completes t a k tag ha
  have hf : Frozen t1 t' a := run_frozen ds t1 a
  have h' : completedAt t' a := completedAt_of_frozen hf h1
  exact ⟨(completed_action_rejects t' a k' tag' h').1, (completed_action_rejects t' a k' tag' h').2, hf⟩

example : let t : Task := { state := .running, actions := [newAction], dispatched := 1, completions := 0 }
    step t (.result 0 .ok 7) = { state := .success, actions := [⟨.success, true, 7, 1⟩],
                                 dispatched := 1, completions := 1 } ∧
    step (step t (.result 0 .ok 7)) (.result 0 .error 9) = step t (.result 0 .ok 7) := by decide

/-- Invariant form (init): a fresh task satisfies the accept-count invariant. -/
theorem accept_inv_init : AcceptInv fresh := acceptInv_fresh

/-- Invariant form (step): every delivery preserves "accept count = 1 if completed else 0". -/
theorem accept_inv_step (t : Task) (d : Delivery) (h : AcceptInv t) : AcceptInv (step t d) :=
  step_acceptInv t d h

/-- "no second result is accepted", over all delivery sequences: in every state reachable from a
    fresh task by any deliveries whatsoever (duplicates, expiries, reruns included) every action
    execution has taken at most one result. -/
theorem accept_inv_reachable (ds : List Delivery) :
    ∀ r ∈ (run fresh ds).actions, r.acceptCount ≤ 1 := by
  intro r hr
  have := run_acceptInv ds fresh acceptInv_fresh r hr
  split at this <;> omega

example : (run fresh [.startTask true false false, .result 0 .ok 5, .result 0 .error 6, .expiry,
                      .result 0 .ok 5]).actions = [⟨.success, true, 5, 1⟩] := by decide

/-! ## The engine: heartbeat expiry racing the genuine result -/

/-- "including a heartbeat-expiry result racing the genuine result" — expiry second: the checker
    does not touch an action execution whose genuine result was taken (it only selects RUNNING
    ones), whatever happened in between. -/
theorem heartbeat_after_result_noop (t : Task) (a : Nat) (k : Dedup.Kind) (tag : Nat)
    (ds : List Delivery) :
    let t1 := step t (.result a k tag)
    Frozen t1 (step (run t1 ds) .expiry) a :=
  Frozen.trans (run_frozen ds _ a) (step_frozen _ .expiry a)

/-- ... expiry first: after a checker pass every action execution of the task is completed, so
    the genuine result that arrives later (after any further deliveries) is rejected and changes
    nothing. -/
theorem result_after_heartbeat_rejected (t : Task) (a : Nat) (ds : List Delivery) (k : Dedup.Kind)
    (tag : Nat) (ha : a < t.actions.length) :
    let t' := run (step t .expiry) ds
    step t' (.result a k tag) = t' ∧ verdict t' (.result a k tag) = .rejected := by
  intro t'
  have h1 : completedAt (step t .expiry) a := deliverExpiry_all_completed t a ha
  have h' : completedAt t' a := completedAt_of_frozen (run_frozen ds _ a) h1
  exact completed_action_rejects t' a k tag h'

/-- `heartbeat_vs_result_once`: in any interleaving of genuine results, duplicates and checker
    passes, action #a takes exactly the FIRST of them (whichever arrives second is rejected): from
    a state where #a is running, after the first result-or-expiry the accept count of #a is 1 and
    stays 1, with the first one's output. -/
theorem heartbeat_vs_result_once (t : Task) (a : Nat) (r : ActionRow) (ds : List Delivery)
    (hr : t.actions[a]? = some r) (hrun : r.state.completed = false) (hinv : AcceptInv t)
    (first : Delivery) (hfirst : first = .expiry ∨ ∃ k tag, first = .result a k tag) :
    ∃ r1, (step t first).actions[a]? = some r1 ∧ r1.acceptCount = 1 ∧
      r1.out = (match first with | .result _ _ tag => tag | _ => hbTag) ∧
      Frozen (step t first) (run (step t first) ds) a := by
  have ha : a < t.actions.length := (List.getElem?_eq_some_iff.mp hr).1
  have hr0 : r.acceptCount = 0 := by
    have := hinv r (List.mem_of_getElem? hr)
    simpa [hrun] using this
  have hc : completedAt (step t first) a := by
    cases hfirst with
    | inl h => subst h; exact deliverExpiry_all_completed t a ha
    | inr h => obtain ⟨k, tag, h⟩ := h; subst h; exact deliverResult_completes t a k tag ha
  obtain ⟨r1, hr1, hc1⟩ := hc
  have hcount : r1.acceptCount = 1 := by
    have := step_acceptInv t first hinv r1 (List.mem_of_getElem? hr1)
    simpa [hc1] using this
  refine ⟨r1, hr1, hcount, ?_, run_frozen ds _ a⟩
  cases hfirst with
  | inr h =>
    obtain ⟨k, tag, h⟩ := h
    subst h
    simp [step, deliverResult, hr, hrun, List.getElem?_set_self ha] at hr1
    subst hr1
    rfl
  | inl h =>
    subst h
    -- the checker stores its own error result: every row it completes carries hbTag
    have key : ∀ (idx : List Nat) (t0 : Task) (x : ActionRow), t0.actions[a]? = some x →
        (x.state.completed = false ∨ x.out = hbTag) →
        ∀ y, (expireFrom t0 idx).actions[a]? = some y → y.state.completed = true → y.out = hbTag := by
      intro idx
      induction idx with
      | nil =>
        intro t0 x hx hor y hy hyc
        simp only [expireFrom] at hy
        rw [hx] at hy; cases hy
        cases hor with
        | inl h => rw [h] at hyc; cases hyc
        | inr h => exact h
      | cons i rest ih =>
        intro t0 x hx hor y hy hyc
        have hlen : a < t0.actions.length := (List.getElem?_eq_some_iff.mp hx).1
        by_cases e : i = a
        · subst e
          cases hxc : x.state.completed with
          | true =>
            have : deliverResult t0 i .error hbTag = (t0, .rejected) :=
              deliverResult_rejected t0 i .error hbTag ⟨x, hx, hxc⟩
            have hor' : x.out = hbTag := by
              cases hor with
              | inl h => rw [h] at hxc; cases hxc
              | inr h => exact h
            exact ih t0 x hx (Or.inr hor') y (by simpa [expireFrom, this] using hy) hyc
          | false =>
            refine ih (deliverResult t0 i .error hbTag).1
              { state := aStateOf .error, accepted := true, out := hbTag,
                acceptCount := x.acceptCount + 1 } ?_ (Or.inr rfl) y hy hyc
            simp [deliverResult, hx, hxc, List.getElem?_set_self hlen]
        · refine ih (deliverResult t0 i .error hbTag).1 x ?_ hor y hy hyc
          unfold deliverResult
          split
          · exact hx
          · split
            · exact hx
            · simp [List.getElem?_set_ne e, hx]
    exact key _ t r hr (Or.inl hrun) r1 hr1 hc1

example : (run { state := .running, actions := [newAction], dispatched := 1, completions := 0 }
    [.expiry, .result 0 .ok 5]).actions = [⟨.error, true, hbTag, 1⟩] := by decide

/-! ## The engine: start-task requests -/

/-- "the same start-task request ... more than once" (first_run=True, the request created for a
    new task): after the first delivery, and after ANY further sequence of deliveries, delivering
    it again changes nothing — no second action execution, no second run_action request. -/
theorem dup_start_task_noop (t : Task) (r x : Bool) (ds : List Delivery) (r' x' : Bool) :
    let t' := run (step t (.startTask true r x)) ds
    step t' (.startTask true r' x') = t' ∧ verdict t' (.startTask true r' x') = .noop := by
  intro t'
  have h1 : (step t (.startTask true r x)).state ≠ .idle := runNew_ne_idle t
  have h' : t'.state ≠ .idle := run_ne_idle ds _ h1
  simp [step, verdict, runNew, h']

example : step fresh (.startTask true false false) =
      { state := .running, actions := [newAction], dispatched := 1, completions := 0 } ∧
    step (step fresh (.startTask true false false)) (.startTask true false false) =
      step fresh (.startTask true false false) := by decide

/-! ### requests to run an EXISTING task (first_run=False)

Two senders: `Workflow.resume` re-queues `start_task(first_run=False, rerun=False)` for every task that
is still IDLE (the original first_run=True request of that task may still be in flight), and
`rerun_workflow` sends `start_task(first_run=False, rerun=True)` for a failed task. -/

/-- Invariant (init) behind the next theorems: a fresh task is IDLE. -/
theorem start_inv_init : StartInv fresh := startInv_fresh

/-- Invariant (step): "IDLE, or RUNNING with a live action execution, or completed" is preserved by EVERY
    delivery — there is no reachable state in which a task is RUNNING without a live action execution
    (an accepted result completes the task in the same transaction) or IDLE again after it left IDLE. -/
theorem start_inv_step (t : Task) (d : Delivery) (h : StartInv t) : StartInv (step t d) :=
  step_startInv t d h

/-- Invariant (reachable): every state reachable from a fresh task by ANY deliveries (duplicates,
    expiries, explicit reruns included) is IDLE, RUNNING with a live action execution, or completed. -/
theorem start_inv_reachable (ds : List Delivery) :
    (run fresh ds).state = .idle ∨ inProgress (run fresh ds) = true ∨
      (run fresh ds).state.completed = true :=
  run_startInv ds fresh startInv_fresh

example : inProgress (run fresh [.startTask false false true, .expiry, .startTask false true false]) = true ∧
    (run fresh [.startTask false false true, .expiry, .startTask false true false]).dispatched = 2 := by
  decide

/-- "the same start-task request ... more than once", for the request re-queued on resume
    (first_run=False, rerun=False; repo fix 17f326b9): after the first delivery — from ANY task state,
    even one the engine cannot produce — and after ANY further sequence of deliveries (results,
    expiries, start requests of every kind, explicit reruns, in any order and multiplicity),
    delivering it again (any reset flag) changes NOTHING: no state change, no un-accepted result, no
    second action execution, no second run_action request; the request is ignored (no-op) or refused
    (SUCCESS task, rolled back).  "Later" needs no side condition: the first copy makes the task leave
    IDLE, afterwards it is RUNNING with a live action (guard of 258aaaae) or completed (guard of
    17f326b9), and both are stable (`start_inv_step`). -/
theorem dup_run_existing_noop (t : Task) (reset : Bool) (ds : List Delivery) (reset' : Bool) :
    let t' := run (step t (.startTask false false reset)) ds
    step t' (.startTask false false reset') = t' ∧
    (verdict t' (.startTask false false reset') = .noop ∨
     verdict t' (.startTask false false reset') = .refused) := by
  intro t'
  have h1 : Started (step t (.startTask false false reset)) := runExisting_started t false reset
  have h' : Started t' := run_started ds _ h1
  exact runExisting_of_started t' reset' h'

/-- non-vacuity: the first copy starts the IDLE task, its action FAILS, then the copy arrives: nothing
    happens (before 17f326b9 this ran the failed task a second time) -/
example : (run fresh [.startTask false false true]).dispatched = 1 ∧
    run fresh [.startTask false false true, .result 0 .error 4, .startTask false false true] =
      run fresh [.startTask false false true, .result 0 .error 4] ∧
    (run fresh [.startTask false false true, .result 0 .error 4]).state = .error := by decide

/-- The original first_run=True request and the request re-queued on resume are two requests to start
    the same IDLE task, delivered in either order: once the task is started (by whichever came first,
    or in any other way), EVERY start request that is not an explicit rerun — first_run=True with any
    flags, or first_run=False with rerun=False — is a no-op at any later point. -/
theorem started_start_requests_noop (t1 : Task) (h : Started t1) (ds : List Delivery)
    (fr rerun reset : Bool) (hr : fr = false → rerun = false) :
    step (run t1 ds) (.startTask fr rerun reset) = run t1 ds := by
  have h' : Started (run t1 ds) := run_started ds t1 h
  cases fr with
  | false => rw [hr rfl]; exact (runExisting_of_started _ reset h').1
  | true =>
    have : (run t1 ds).state ≠ .idle := started_ne_idle h'
    simp [step, runNew, this]

example : Started (step fresh (.startTask true false false)) :=
  Or.inl (by decide)

/-- ... and for a task that has no action execution yet (the IDLE task as `create_new` made it) the two
    requests do the same thing, so the run does not depend on which of them arrives first, whatever is
    delivered in between and wherever the second one arrives: both orders equal the single delivery. -/
theorem first_run_and_resume_any_order (ds : List Delivery) (r x reset : Bool) :
    step fresh (.startTask true r x) = step fresh (.startTask false false reset) ∧
    run fresh (.startTask true r x :: ds ++ [.startTask false false reset]) =
      run fresh (.startTask true r x :: ds) ∧
    run fresh (.startTask false false reset :: ds ++ [.startTask true r x]) =
      run fresh (.startTask true r x :: ds) := by
  have e : step fresh (.startTask true r x) = step fresh (.startTask false false reset) := by
    cases reset <;> rfl
  have hs : Started (step fresh (.startTask true r x)) := Or.inl (by rfl)
  refine ⟨e, ?_, ?_⟩
  · show run (step fresh (.startTask true r x)) (ds ++ [.startTask false false reset]) = _
    rw [run_append]
    exact started_start_requests_noop _ hs ds false false reset (fun _ => rfl)
  · show run (step fresh (.startTask false false reset)) (ds ++ [.startTask true r x]) =
      run (step fresh (.startTask true r x)) ds
    rw [run_append, ← e]
    exact started_start_requests_noop _ hs ds true r x (fun h => by cases h)

example : run fresh [.startTask false false true, .result 0 .error 4, .startTask true false false] =
    run fresh [.startTask true false false, .result 0 .error 4, .startTask false false true] := by decide

/-- The start-task request of an EXISTING task, duplicate arriving while the action of the first
    delivery is in progress (repo fix 258aaaae: `_run_existing` returns for a RUNNING task with an
    uncompleted execution): after the first delivery of a request that is let through (the task has
    not SUCCEEDED; a completed task only for an explicit rerun) the task is RUNNING with a running
    action execution ... -/
theorem rerun_start_in_progress (t : Task) (rerun reset : Bool) (h : t.state ≠ .success)
    (hr : t.state.completed = true → rerun = true) :
    inProgress (step t (.startTask false rerun reset)) = true := by
  have hc : (t.state.completed && !rerun) = false := by
    cases hcc : t.state.completed with
    | false => rfl
    | true => simp [hr hcc]
  simp only [step, runExisting, h, hc, if_false, Bool.false_eq_true]
  split
  · assumption
  · exact scheduleAction_inProgress _ rfl

/-- ... and in that situation a further delivery of the request (any flags) changes nothing:
    no second action execution, no second run_action request. -/
theorem dup_start_task_rerun_in_progress_noop (t' : Task) (rerun reset : Bool)
    (h : inProgress t' = true) :
    step t' (.startTask false rerun reset) = t' ∧ verdict t' (.startTask false rerun reset) = .noop := by
  have hs : t'.state = .running := by
    simp [inProgress] at h
    exact h.1
  simp [step, verdict, runExisting, hs, h, TState.completed]

/-- "the same start-task request ... more than once" for first_run=False (explicit reruns included), the
    duplicates arriving while the action of the first delivery is in progress: after the first
    delivery, ANY number of further start requests (of either kind, any flags) leave the task exactly as
    the single delivery left it — at most one action dispatched per rerun request. -/
theorem dup_start_task_rerun_noop (t : Task) (rerun reset : Bool) (ds : List Delivery)
    (h : t.state ≠ .success) (hr : t.state.completed = true → rerun = true)
    (hds : ∀ d ∈ ds, d.isStart = true) :
    run (step t (.startTask false rerun reset)) ds = step t (.startTask false rerun reset) := by
  have h1 := rerun_start_in_progress t rerun reset h hr
  generalize step t (.startTask false rerun reset) = t1 at h1
  induction ds with
  | nil => rfl
  | cons d ds ih =>
    have hd := hds d List.mem_cons_self
    have hstep : step t1 d = t1 := by
      cases d with
      | startTask fr rr r =>
        cases fr with
        | false => exact (dup_start_task_rerun_in_progress_noop t1 rr r h1).1
        | true =>
          have : t1.state ≠ .idle := by
            intro e
            simp [inProgress, e] at h1
          simp [step, runNew, this]
      | result a k tag => cases hd
      | wfResult k => cases hd
      | expiry => cases hd
    show run (step t1 d) ds = t1
    rw [hstep]
    exact ih (fun x hx => hds x (List.mem_cons_of_mem _ hx))

example : let t : Task := { state := .error, actions := [⟨.error, true, 3, 1⟩], dispatched := 1, completions := 1 }
    (run t [.startTask false true false, .startTask false true false, .startTask true false false,
            .startTask false true true, .startTask false false true]).dispatched = 2 := by decide

/-- For an EXPLICIT rerun request (rerun=True) the statement over ARBITRARY later points is still
    FALSE: when the restarted task has failed again (state ERROR, every execution completed) before the
    duplicate arrives, `_run_existing` has nothing to tell the stale request from a new rerun and starts
    the task once more (witness: an ERROR task, one rerun request, its action fails, the same request
    again ⇒ a second attempt).  After 17f326b9 this is confined to rerun=True
    (`dup_run_existing_noop` is the full theorem for rerun=False). -/
theorem dup_start_task_rerun_full_fails :
    ¬ (∀ (t : Task) (reset : Bool) (ds : List Delivery),
        let t' := run (step t (.startTask false true reset)) ds
        step t' (.startTask false true reset) = t') := by
  intro h
  have := h { state := .error, actions := [⟨.error, true, 3, 1⟩], dispatched := 1, completions := 1 }
    false [.result 1 .error 4]
  revert this
  decide

/-- the witness spelled out: one rerun request, its attempt fails, the request delivered again
    dispatches a third action execution; the same history with rerun=False requests dispatches nothing -/
example : (run { state := .error, actions := [⟨.error, true, 3, 1⟩], dispatched := 1, completions := 1 }
    [.startTask false true false, .result 1 .error 4, .startTask false true false]).dispatched = 3 ∧
    (run { state := .error, actions := [⟨.error, true, 3, 1⟩], dispatched := 1, completions := 1 }
    [.startTask false false false, .result 1 .error 4, .startTask false false false]).dispatched = 1 := by
  decide

/-- decidable description of the states in which a first_run=False request with the given rerun flag is a
    no-op: SUCCESS (refused), completed and not an explicit rerun (17f326b9), RUNNING with a live
    execution (258aaaae) -/
def dupSafe (t : Task) (rerun : Bool) : Bool :=
  t.state == .success || (t.state.completed && !rerun) || inProgress t

/-- What holds for first_run=False at an arbitrary later point, both directions: the request changes
    nothing when `dupSafe`; excluded inputs = `dupSafe t' rerun = false` (an explicit rerun of a task that
    failed / was cancelled again; or a task that is IDLE or in a state without a live execution), and there
    the request does start one more attempt. -/
theorem dup_start_task_rerun_partial (t' : Task) (rerun reset : Bool) :
    (dupSafe t' rerun = true → step t' (.startTask false rerun reset) = t') ∧
    (dupSafe t' rerun = false →
      (step t' (.startTask false rerun reset)).dispatched = t'.dispatched + 1) := by
  constructor
  · intro h
    by_cases hs : t'.state = .success
    · simp [step, runExisting, hs]
    · by_cases hc : (t'.state.completed && !rerun) = true
      · simp [step, runExisting, hs, hc]
      · have hp : inProgress t' = true := by
          simp only [dupSafe, Bool.or_eq_true, beq_iff_eq] at h
          rcases h with (h | h) | h
          · exact absurd h hs
          · exact absurd h hc
          · exact h
        exact (dup_start_task_rerun_in_progress_noop t' rerun reset hp).1
  · intro h
    simp only [dupSafe, Bool.or_eq_false_iff, beq_eq_false_iff_ne] at h
    obtain ⟨⟨hs, hc⟩, hp⟩ := h
    simp [step, runExisting, hs, hc, hp, scheduleAction]

example : let t : Task := { state := .error, actions := [⟨.error, true, 3, 1⟩], dispatched := 1, completions := 1 }
    (run t [.startTask false true false, .result 1 .ok 4]).state = .success ∧
    dupSafe (run t [.startTask false true false, .result 1 .ok 4]) true = true ∧
    dupSafe (run t [.startTask false true false, .result 1 .error 4]) true = false ∧
    dupSafe (run t [.startTask false true false, .result 1 .error 4]) false = true := by decide

/-- With the invariant the excluded inputs of a rerun=False request shrink to ONE reachable case: in every
    state reachable from a fresh task a rerun=False request is a no-op unless the task is still IDLE
    (the single delivery that starts it). -/
theorem run_existing_reachable_noop_iff_not_idle (ds : List Delivery) (reset : Bool) :
    (run fresh ds).state ≠ .idle ↔
      step (run fresh ds) (.startTask false false reset) = run fresh ds := by
  constructor
  · intro hn
    have hs : Started (run fresh ds) := by
      cases run_startInv ds fresh startInv_fresh with
      | inl hi => exact absurd hi hn
      | inr hs => exact hs
    exact (runExisting_of_started _ reset hs).1
  · intro he hi
    have : (step (run fresh ds) (.startTask false false reset)).state ≠ .idle := by
      show (runExisting (run fresh ds) false reset).1.state ≠ .idle
      exact started_ne_idle (runExisting_started _ false reset)
    rw [he] at this
    exact this hi

example : (run fresh [.startTask true false false, .result 0 .cancel 3]).state ≠ .idle ∧
    (step fresh (.startTask false false true)).dispatched = 1 := by decide

/-- "no task or downstream task is created twice, and no action is dispatched twice" — invariant,
    init. -/
theorem once_inv_init : OnceInv fresh := onceInv_fresh

/-- ... step: preserved by every delivery that is not an EXPLICIT rerun request (first_run=False,
    rerun=True); the request re-queued on resume (first_run=False, rerun=False) is included since repo fix
    17f326b9: it runs the task only while the task is still IDLE. -/
theorem once_inv_step (t : Task) (d : Delivery) (hd : d.notRerun = true) (h : OnceInv t) :
    OnceInv (step t d) := step_onceInv t d hd h

/-- ... reachable: for a task created by the engine and ANY sequence of deliveries of results
    (genuine, duplicated, sub-workflow), checker passes, first-run start requests and the requests
    re-queued on resume (first_run=False, rerun=False), in any order and multiplicity: at most one
    action execution exists, at most one run_action request was registered, and the completion logic
    that dispatches the downstream tasks ran at most once. -/
theorem once_inv_reachable (ds : List Delivery) (hd : ∀ d ∈ ds, d.notRerun = true) :
    (run fresh ds).dispatched ≤ 1 ∧ (run fresh ds).actions.length ≤ 1 ∧
    (run fresh ds).completions ≤ 1 := by
  have h := run_onceInv ds fresh hd onceInv_fresh
  exact ⟨h.disp, by rw [h.len]; exact h.disp, h.comp⟩

example : let t := run fresh [.startTask true false false, .startTask true false false, .result 0 .ok 5,
                              .result 0 .ok 5, .startTask true false false, .expiry]
    t.dispatched = 1 ∧ t.completions = 1 ∧ t.state = .success := by decide

/-- the resume request races the original one, the task fails, both are delivered again: one action,
    one completion -/
example : let t := run fresh [.startTask false false true, .startTask true false false, .result 0 .error 5,
                              .startTask false false true, .startTask true false false, .expiry]
    t.dispatched = 1 ∧ t.completions = 1 ∧ t.state = .error ∧
    (∀ d ∈ [Delivery.startTask false false true, .startTask true false false, .result 0 .error 5],
      d.notRerun = true) := by decide

/-- A duplicated sub-workflow result (`wf_action=True`; WorkflowAction.complete is a no-op, the
    only guard is Task.complete's "already completed"): after the first delivery and any
    deliveries that are not explicit rerun requests (rerun=True), a further delivery changes nothing. -/
theorem dup_subwf_result_noop (t : Task) (k : Dedup.Kind) (ds : List Delivery) (k' : Dedup.Kind)
    (hd : ∀ d ∈ ds, d.notRerun = true) :
    let t' := run (step t (.wfResult k)) ds
    step t' (.wfResult k') = t' ∧ verdict t' (.wfResult k') = .noop := by
  intro t'
  have h1 : (step t (.wfResult k)).state.completed = true := taskComplete_completed t k
  have h' : t'.state.completed = true := run_task_completed ds _ hd h1
  simp [step, verdict, taskComplete_of_completed _ _ h', h']

/-! ## The engine: start requests carrying an execution id -/

/-- "the same start request carrying an execution id": after the first start with id `id`, and
    any further starts (other ids, the same id), starting with `id` again returns the execution
    with that id and creates nothing. -/
theorem dup_start_workflow_same_id (tb : WfTable) (id : Nat) (others : List Nat) :
    let tb' := startAll (startWorkflow tb id).1 others
    startWorkflow tb' id = (tb', id, false) := by
  intro tb'
  have h1 : id ∈ (startWorkflow tb id).1 := by
    unfold startWorkflow
    split
    · assumption
    · simp
  have h' : id ∈ tb' := startAll_mem others _ id h1
  simp [startWorkflow, h']

/-- ... and no execution id ever exists twice, over all sequences of start requests. -/
theorem start_workflow_ids_unique (ids : List Nat) : (startAll [] ids).Nodup :=
  startAll_nodup ids [] List.nodup_nil

example : startAll [] [4, 7, 4, 4, 7] = [4, 7] := by decide

/-! ## Executor and engine together -/

/-- Whatever the executor attempted for one action (up to two calls, possibly both delivered,
    possibly duplicated by the transport, in any order, mixed with checker passes): fed to the
    engine, the action execution takes exactly one result. -/
theorem executor_reports_accepted_once (i : Input) (ds : List Delivery) (t : Task) (hinv : AcceptInv t) :
    ∀ r ∈ (run t (((doRunAction i).calls.map fun c =>
        Delivery.result 0 (match c.kind with | .ok => .ok | .error => .error | .cancel => .cancel) 2)
        ++ ds)).actions, r.acceptCount ≤ 1 := by
  intro r hr
  have := run_acceptInv _ t hinv r hr
  split at this <;> omega

end Mistral.Props.C06
