/-
C15 — Tenants are isolated: private data is invisible, others cannot modify yours.

Property theorems only.  `Mistral.Gen.DbAccess` is REGENERATED from /repo on every run
(translate/db_access.py): `fns` (one entry of flags per db-api function), `secureSpec`
(`_secure_query`), `ownerSpec` (`check_db_obj_access`), `forcingSpec` (`_set_project_id`).
`run` is the model's semantics of one db-api call, instantiated with those generated flags; it
is tied to the real db-api by the `access` correspondence stream (props/C15.py).
All theorems quantify over every database, actor and argument.
-/
import Mistral.Model.Access
import Mistral.Lemmas.Access
import Mistral.Gen.DbAccess

namespace Mistral.Props.C15
open Mistral.Access Mistral.Gen.DbAccess

/-- one call of a db-api function, with the generated specifications -/
abbrev run (fn : FnInfo) (db : Db) (a : Actor) (args : Args) : Outcome × Db :=
  exec secureSpec ownerSpec forcingSpec fn db a args

/-- the function works on a tenant table (a `MistralSecureModelBase` subclass) -/
def isTenant (fn : FnInfo) : Bool := secureSpec.secureModels.contains fn.model

/-! ## Tie-A facts: the generated specifications are the reviewed ones -/

/-- `_secure_query` filters on exactly: own project, public scope, accepted share of the right
    type for the caller (workflows and workbooks). -/
theorem secure_spec_good : secureSpec.Good := by
  simp [SecureSpec.Good, secureSpec]

/-- `check_db_obj_access` refuses a non-admin whose project differs from the row's, whatever the
    row's scope. -/
theorem owner_spec_good : ownerSpec.Good := by
  simp [OwnerSpec.Good, ownerSpec]

/-- Fail-closed bookkeeping: the only function the translator could not classify is `named_lock`
    (a context manager over the non-tenant table NamedLock). -/
theorem unknown_functions_are_named : unknownFns.map (·.1) = ["named_lock"] := by
  decide +kernel

/-- ... and no unclassified function mentions a tenant model. -/
theorem unknown_functions_not_tenant : ∀ fn ∈ fns, fn.known = false → isTenant fn = false := by
  decide +kernel

/-- The hand-modelled code (member functions, MembersController, rest_utils.get_all) and the
    skeletons of the structurally translated primitives are the reviewed ones (AST hashes). -/
theorem hand_modelled_code_is_the_reviewed_code : shapes = [
    ("MembersController.delete", "df92c8687a99516d"),
    ("MembersController.post", "dbab1feed1a01d73"),
    ("MembersController.put", "923b8bb6c788f6d2"),
    ("_get_criterion", "a6b2d6b1a1f05d85"),
    ("create_resource_member", "e1e232c9de7f1033"),
    ("delete_resource_member", "c599ac1b54dcdb02"),
    ("get_resource_member", "b8c1cbf6ef5b1f98"),
    ("get_resource_members", "4d2c1f8bc9998111"),
    ("rest_utils.get_all", "b1862b1b7ddbbd46"),
    ("skeleton:_get_accepted_resources", "64a3f5cd9b165961"),
    ("skeleton:_secure_query", "d8ae9aebbf601d68"),
    ("skeleton:check_db_obj_access", "1e7597847bdd0b4f"),
    ("skeleton:get_project_id", "5ff8335eb80156a0"),
    ("skeleton:register_secure_model_hooks", "bf12cff909eb1efd"),
    ("update_resource_member", "2fcd5112193810ad")] := by
  decide +kernel

/-- "insecure reads only for admin contexts": the call sites in api/, services/,
    std_functions.py, rest_utils.py that pass `insecure=` are exactly the reviewed ones: the
    admin-only maintenance service, the cross-project event-trigger count in services/triggers.py
    (existence only), and rest_utils.get_all (`all_projects` or admin).  None is in
    expressions/std_functions.py. -/
theorem insecure_call_sites_reviewed : insecureSites = [
    ("mistral/services/maintenance.py", "_resume_executions", "db_api.get_workflow_executions", "True"),
    ("mistral/services/maintenance.py", "await_pause_executions", "db_api.get_task_executions", "True"),
    ("mistral/services/maintenance.py", "pause_running_executions", "db_api.get_workflow_executions", "True"),
    ("mistral/services/triggers.py", "create_event_trigger", "db_api.get_event_triggers", "True"),
    ("mistral/services/triggers.py", "delete_event_trigger", "db_api.get_event_triggers", "True"),
    ("mistral/utils/rest_utils.py", "get_all", "r.call", "insecure"),
    ("mistral/utils/rest_utils.py", "get_all._get_all_function", "get_all_function", "insecure")] := by
  decide +kernel

/-! ## Visibility -/

/-- "`_secure_query` filters on own project, public scope, accepted shares": for every database,
    actor and row of a tenant table, the translated filter lets the row through iff it is the
    caller's, public, or shared with the caller through an accepted membership. -/
theorem secure_query_is_visibility (db : Db) (a : Actor) (r : Resource)
    (ht : secureSpec.secureModels.contains r.rtype = true) :
    secureVisible secureSpec db a r = true ↔ Visible db a r :=
  secureVisible_iff secureSpec secure_spec_good db a r ht

/-! ## Read isolation -/

/-- user-reachable readers that deliberately bypass the filter: none (the readers used only by
    the periodic / expiration / heartbeat / maintenance services and by start-up code are marked
    unreachable by the translator, which checks where they are used). -/
def systemInternalReads : List String := []

/-- the insecure readers of tenant tables and where they are used: system services only. -/
theorem insecure_readers_are_system_internal :
    ((fns.filter fun fn => isTenant fn && fn.kind.isRead && fn.read == .insecure).map fun fn =>
        (fn.name, fn.reachable, (usedIn.lookup fn.name).getD [])) =
    [("get_task_executions_count", false, []),
     ("get_completed_task_executions", false, []),
     ("get_completed_task_executions_as_batches", false, []),
     ("get_incomplete_task_executions", false, []),
     ("get_incomplete_task_executions_count", false, []),
     ("get_expired_executions", false, ["mistral/services/expiration_policy.py"]),
     ("get_running_expired_sync_action_executions", false, ["mistral/services/action_heartbeat_checker.py"]),
     ("get_superfluous_executions", false, ["mistral/services/expiration_policy.py"]),
     ("get_next_cron_triggers", false, ["mistral/services/triggers.py"])] := by
  decide +kernel

/-- table fact: every other user-reachable read of a tenant table goes through `_secure_query`,
    at most with the admin / explicit `insecure` override. -/
theorem reachable_reads_are_secure :
    ∀ fn ∈ fns, fn.known = true → isTenant fn = true → fn.reachable = true → fn.kind.isRead = true →
      fn.name ∉ systemInternalReads → fn.read.safe = true := by
  decide +kernel

/-- "A non-admin project can never read or list ... a private resource of another project ...,
    whether addressed by id, by name, through filters": every id a user-reachable get / load / list
    returns to a non-admin (who did not pass `insecure`) is the id of a row that is its own, public
    or shared with it through an accepted membership — for every database and argument
    (`args.key` ranges over by-id, by-name and filter lookups). -/
theorem read_isolation (fn : FnInfo) (hfn : fn ∈ fns) (hk : fn.known = true) (ht : isTenant fn = true)
    (hreach : fn.reachable = true) (hkind : fn.kind.isRead = true)
    (hsys : fn.name ∉ systemInternalReads)
    (db : Db) (a : Actor) (args : Args) (hna : a.isAdmin = false) (hins : args.insecure = false) :
    ∀ i ∈ resultIds (run fn db a args).1,
      ∃ r ∈ db.resources, r.id = i ∧ r.rtype = fn.model ∧ Visible db a r :=
  read_ids_visible secureSpec ownerSpec forcingSpec secure_spec_good fn db a args ht
    (reachable_reads_are_secure fn hfn hk ht hreach hkind hsys) hkind hna hins

/-- the same for count: the number returned is the number of candidate rows, all visible. -/
theorem count_isolation (fn : FnInfo) (hfn : fn ∈ fns) (hk : fn.known = true) (ht : isTenant fn = true)
    (hreach : fn.reachable = true) (hkind : fn.kind = .count) (hsys : fn.name ∉ systemInternalReads)
    (db : Db) (a : Actor) (args : Args) (hna : a.isAdmin = false) (hins : args.insecure = false) :
    (run fn db a args).1 = .count (cands secureSpec fn db a args).length ∧
    ∀ r ∈ cands secureSpec fn db a args, Visible db a r := by
  refine ⟨count_is_cands _ _ _ fn db a args hkind, fun r hr => ?_⟩
  have hs := reachable_reads_are_secure fn hfn hk ht hreach (by simp [hkind, Kind.isRead]) hsys
  exact (cands_visible secureSpec secure_spec_good fn db a args ht hs hna hins r hr).2.2

/-- corollary in the statement's words: a private row of another project that is not shared with
    the caller is never returned. -/
theorem private_foreign_never_read (fn : FnInfo) (hfn : fn ∈ fns) (hk : fn.known = true)
    (ht : isTenant fn = true) (hreach : fn.reachable = true) (hkind : fn.kind.isRead = true)
    (hsys : fn.name ∉ systemInternalReads)
    (db : Db) (a : Actor) (args : Args) (hna : a.isAdmin = false) (hins : args.insecure = false)
    (hids : ∀ r ∈ db.resources, ∀ r' ∈ db.resources, r.id = r'.id → r = r')
    (r : Resource) (hr : r ∈ db.resources) (hp : r.project ≠ a.project) (hs : r.scope = .priv)
    (hsh : ¬ SharedWith db a.project r) : r.id ∉ resultIds (run fn db a args).1 := by
  intro hi
  obtain ⟨r', hr', hid, _, hv⟩ := read_isolation fn hfn hk ht hreach hkind hsys db a args hna hins _ hi
  have : r' = r := hids r' hr' r hr hid
  subst this
  rcases hv with h | h | h
  · exact hp h
  · rw [hs] at h; cases h
  · exact hsh h

example : ∃ fn ∈ fns, fn.name = "get_workflow_definition" ∧ fn.known = true ∧ isTenant fn = true ∧
    fn.reachable = true ∧ fn.kind.isRead = true ∧ fn.name ∉ systemInternalReads := by
  decide +kernel

/-! ## Write protection -/

/-- table fact: every user-reachable mutator of a tenant table looks its row up through the
    secure query (at most with the admin / explicit `insecure` override). -/
theorem reachable_mutators_lookup :
    ∀ fn ∈ fns, fn.known = true → isTenant fn = true → fn.reachable = true → fn.kind.isMut = true →
      fn.read.safe = true := by
  decide +kernel

/-- "A non-admin project can never ... update, delete ... a private resource of another project":
    a user-reachable update / delete / bulk delete / create-or-update leaves every row that is not
    visible to the non-admin caller in the table, unchanged.  FULL statement (it was
    `private_write_protection` with `delete_event_trigger` excluded before the fix). -/
theorem private_write_protection (fn : FnInfo) (hfn : fn ∈ fns) (hk : fn.known = true)
    (ht : isTenant fn = true) (hreach : fn.reachable = true) (hkind : fn.kind.isMut = true)
    (db : Db) (a : Actor) (args : Args) (hna : a.isAdmin = false) (hins : args.insecure = false)
    (r : Resource) (hr : r ∈ db.resources) (hv : ¬ Visible db a r) :
    r ∈ (run fn db a args).2.resources :=
  mutation_confined secureSpec ownerSpec forcingSpec secure_spec_good fn db a args ht
    (reachable_mutators_lookup fn hfn hk ht hreach hkind) hna hins r hr hv

/-- the entry of `delete_event_trigger` in the generated table (after the fix) -/
def deleteEventTriggerInfo : FnInfo :=
  { name := "delete_event_trigger", model := "EventTrigger", kind := .delete, key := .id,
    read := .admin, mutn := .delete, bulk := false, ownerCheck := true, sysCheck := true,
    notFound := true, reachable := true, known := true }

def regressionTrigger : Resource :=
  { rtype := "EventTrigger", id := 1, name := "t", project := 1, scope := .priv,
    isSystem := false, data := 0 }

/-- REGRESSION (former witness of `private_write_protection_full_fails`): another project's
    delete of a PRIVATE event trigger is "not found" and leaves it in place. -/
theorem regression_delete_private_event_trigger :
    deleteEventTriggerInfo ∈ fns ∧
    run deleteEventTriggerInfo { resources := [regressionTrigger], members := [] }
      { project := 2, isAdmin := false } { key := .byId 1 }
      = (.notFound, { resources := [regressionTrigger], members := [] }) := by
  decide +kernel

/-- mutators protected by `check_db_obj_access` on the loaded row -/
def guarded (fn : FnInfo) : Bool := fn.ownerCheck && !fn.bulk

/-- table fact: EVERY user-reachable mutator of a tenant table calls check_db_obj_access /
    check_db_obj_owner on the loaded row before its first mutation and mutates that row only. -/
theorem reachable_mutators_guarded :
    ∀ fn ∈ fns, fn.known = true → isTenant fn = true → fn.reachable = true → fn.kind.isMut = true →
      guarded fn = true ∧ (fn.kind = .update ∨ fn.kind = .delete ∨ fn.kind = .createOrUpdate) := by
  decide +kernel

/-- "Public resources and workflows shared through an accepted membership ... can be changed or
    deleted only by their owner or an admin": FULL statement — for every user-reachable mutator of a
    tenant table, a non-admin caller changes or deletes only rows of its own project, for every
    database, key and argument. -/
theorem write_protection (fn : FnInfo) (hfn : fn ∈ fns) (hk : fn.known = true)
    (ht : isTenant fn = true) (hreach : fn.reachable = true) (hkind : fn.kind.isMut = true)
    (db : Db) (a : Actor) (args : Args) (hna : a.isAdmin = false)
    (r : Resource) (hr : r ∈ db.resources) (hp : r.project ≠ a.project) :
    r ∈ (run fn db a args).2.resources := by
  obtain ⟨hg, hkd⟩ := reachable_mutators_guarded fn hfn hk ht hreach hkind
  simp only [guarded, Bool.and_eq_true, Bool.not_eq_true'] at hg
  exact mutation_guarded secureSpec ownerSpec forcingSpec owner_spec_good fn db a args hg.1 hg.2 hkd
    hna r hr hp

/-- the guarded user-reachable mutators — all twenty. -/
theorem guarded_reachable_mutators :
    (fns.filter fun fn => fn.known && isTenant fn && fn.reachable && fn.kind.isMut && guarded fn).map (·.name)
      = ["update_workbook", "delete_workbook", "update_workflow_definition",
         "create_or_update_workflow_definition", "delete_workflow_definition", "update_code_source",
         "delete_code_source", "update_dynamic_action_definition", "delete_dynamic_action_definition",
         "update_action_definition", "create_or_update_action_definition", "delete_action_definition",
         "delete_action_execution", "update_workflow_execution", "delete_workflow_execution",
         "delete_cron_trigger", "update_environment", "delete_environment", "update_event_trigger",
         "delete_event_trigger"] := by
  decide +kernel

/-- no user-reachable mutator of a tenant table is left without the owner check (the 15 findings
    `db-api-no-owner-check` are fixed; a function joining this list breaks this theorem). -/
theorem unguarded_reachable_mutators_exact :
    (fns.filter fun fn => fn.known && isTenant fn && fn.reachable && fn.kind.isMut && !guarded fn).map (·.name)
      = [] := by
  decide +kernel

/-- the entry of `delete_workbook` in the generated table (after the fix) -/
def deleteWorkbookInfo : FnInfo :=
  { name := "delete_workbook", model := "Workbook", kind := .delete, key := .name, read := .admin,
    mutn := .delete, bulk := false, ownerCheck := true, sysCheck := true, notFound := true,
    reachable := true, known := true }

def regressionWorkbook : Resource :=
  { rtype := "Workbook", id := 1, name := "wb", project := 1, scope := .pub,
    isSystem := false, data := 0 }

/-- REGRESSION (former witness of `write_protection_full_fails`): another project's delete of a
    PUBLIC workbook is refused (NotAllowed) and leaves it in place. -/
theorem regression_delete_public_workbook :
    deleteWorkbookInfo ∈ fns ∧
    run deleteWorkbookInfo { resources := [regressionWorkbook], members := [] }
      { project := 2, isAdmin := false } { key := .byName "wb" }
      = (.notAllowed, { resources := [regressionWorkbook], members := [] }) := by
  decide +kernel

example : ∃ fn ∈ fns, fn.known = true ∧ isTenant fn = true ∧ fn.reachable = true ∧ fn.kind.isMut = true := by
  decide +kernel

/-! ## New rows -/

/-- "new resources always belong to the caller's project": for every create function of a tenant
    table whose model has the `project_id` set-listener, whatever `project_id` the caller puts in
    the values, the created row belongs to the caller. -/
theorem create_owned_by_caller_partial (fn : FnInfo) (_hfn : fn ∈ fns) (hkind : fn.kind = .create)
    (hh : forcingSpec.unhooked.contains fn.model = false)
    (db : Db) (a : Actor) (args : Args) :
    (run fn db a args).1 = .created args.newId a.project ∧
    ∃ row, (run fn db a args).2.resources = db.resources ++ [row] ∧ row.project = a.project
      ∧ row.id = args.newId :=
  create_project secureSpec ownerSpec forcingSpec fn db a args hkind rfl rfl rfl hh

/-- the tenant models WITHOUT the listener: `EventTrigger` is defined after
    `register_secure_model_hooks()` ran. -/
theorem unhooked_models : forcingSpec.unhooked = ["EventTrigger"] := by decide +kernel

def createEventTriggerInfo : FnInfo :=
  { name := "create_event_trigger", model := "EventTrigger", kind := .create, key := .none,
    read := .none, mutn := .create, bulk := false, ownerCheck := false, sysCheck := false,
    notFound := false, reachable := true, known := true }

/-- FINDING (kind created-row-not-owned): the full statement is false — an event trigger created
    with an explicit `project_id` belongs to that project, not to the caller. -/
theorem create_owned_by_caller_full_fails :
    ¬ (∀ fn ∈ fns, fn.kind = .create → isTenant fn = true →
        ∀ (db : Db) (a : Actor) (args : Args), (run fn db a args).1 = .created args.newId a.project) := by
  intro h
  have := h createEventTriggerInfo (by decide +kernel) rfl (by decide +kernel)
    { resources := [], members := [] } { project := 2, isAdmin := false }
    { key := .filters none none none, givenProject := some 5 }
  revert this
  decide +kernel

example : ∃ fn ∈ fns, fn.kind = .create ∧ isTenant fn = true ∧
    forcingSpec.unhooked.contains fn.model = false := by decide +kernel

/-! ## Sharing -/

/-- "workflows shared through an accepted membership are readable": an accepted member row of the
    right type makes the row pass the filter of every secure read. -/
theorem accepted_share_readable (db : Db) (a : Actor) (r : Resource) (tag : String)
    (ht : shareTag r.rtype = some tag) (m : Member) (hm : m ∈ db.members)
    (hg : Grants a.project tag r m) : secureVisible secureSpec db a r = true := by
  have hsec : secureSpec.secureModels.contains r.rtype = true := by
    unfold shareTag at ht
    by_cases h1 : r.rtype = "WorkflowDefinition"
    · rw [h1]; decide +kernel
    · by_cases h2 : r.rtype = "Workbook"
      · rw [h2]; decide +kernel
      · simp [h1, h2] at ht
  exact (secure_query_is_visibility db a r hsec).mpr (Or.inr (Or.inr ⟨tag, ht, m, hm, hg⟩))

/-- "pending / rejected => not": a private row of another project none of whose member rows for
    the caller is accepted does not pass the filter. -/
theorem unaccepted_share_not_readable (db : Db) (a : Actor) (r : Resource)
    (hsec : secureSpec.secureModels.contains r.rtype = true)
    (hp : r.project ≠ a.project) (hs : r.scope = .priv)
    (hm : ∀ m ∈ db.members, m.resId = r.id → m.member = a.project → m.status ≠ .accepted) :
    secureVisible secureSpec db a r = false := by
  cases h : secureVisible secureSpec db a r
  · rfl
  · rcases (secure_query_is_visibility db a r hsec).mp h with h | h | ⟨tag, _, m, hmm, hg⟩
    · exact absurd h hp
    · rw [hs] at h; cases h
    · exact absurd hg.2.2.2 (hm m hmm hg.1 hg.2.2.1)

/-- "only the member can change status": update_resource_member leaves every member row whose
    member is not the caller untouched. -/
theorem status_change_only_by_member (db : Db) (a : Actor) (resId : Nat) (rt : String) (member : Nat)
    (st : Status) (m : Member) (hm : m ∈ db.members) (hne : m.member ≠ a.project) :
    m ∈ (memberUpdate db a resId rt member st).2.members :=
  memberUpdate_only_member db a resId rt member st m hm hne

/-- "only the owner can delete the share": delete_resource_member removes only rows the caller
    created (`project_id` of the member row). -/
theorem share_delete_only_by_creator (db : Db) (a : Actor) (resId : Nat) (rt : String) (member : Nat)
    (m : Member) (hm : m ∈ db.members) (hne : m.owner ≠ a.project) :
    m ∈ (memberDelete db a resId rt member).2.members :=
  memberDelete_only_creator db a resId rt member m hm hne

/-- the entry of `get_workflow_definition` (used by MembersController.post) -/
def getWorkflowDefinitionInfo : FnInfo :=
  { name := "get_workflow_definition", model := "WorkflowDefinition", kind := .get, key := .ident,
    read := .admin, mutn := .none, bulk := false, ownerCheck := false, sysCheck := false,
    notFound := true, reachable := true, known := true }

theorem get_workflow_definition_entry : getWorkflowDefinitionInfo ∈ fns := by decide +kernel

/-- MembersController.post as modelled (with the owner check of the fix) -/
abbrev shareOp (db : Db) (a : Actor) (resId member : Nat) : Outcome × Db :=
  share secureSpec ownerSpec getWorkflowDefinitionInfo db a resId member

/-- "only the owner can create the share": FULL statement — a non-admin who successfully shares a
    workflow owns it, and it is private. -/
theorem share_only_owner (db : Db) (a : Actor) (resId member : Nat) (hna : a.isAdmin = false)
    (h : (shareOp db a resId member).1 = .done) :
    ∃ r ∈ db.resources, r.id = resId ∧ r.scope = .priv ∧ r.project = a.project := by
  unfold shareOp share at h
  split at h
  · cases h
  · rename_i r hr
    have hmem := List.mem_of_mem_head? hr
    obtain ⟨h1, _, _⟩ := mem_cands hmem
    have hid : r.id = resId := by
      unfold cands at hmem
      simp only [List.mem_filter, Bool.and_eq_true] at hmem
      have := hmem.2.1.2
      simpa [matchesKey, getWorkflowDefinitionInfo] using this
    by_cases hp : r.project = a.project
    · split at h
      · rename_i e he
        rcases ownerGuard_outcomes ownerSpec true a r e he with rfl | rfl <;> simp at h
      · by_cases hs : r.scope = .priv
        · exact ⟨r, h1, hid, hs, hp⟩
        · have : (r.scope != Scope.priv) = true := by simpa using hs
          simp [this] at h
    · rw [ownerGuard_foreign ownerSpec owner_spec_good a r hp hna true] at h
      simp at h

def exampleWf : Resource :=
  { rtype := "WorkflowDefinition", id := 1, name := "wf", project := 1, scope := .priv,
    isSystem := false, data := 0 }

example : (shareOp { resources := [exampleWf], members := [] } { project := 1, isAdmin := false } 1 3).1
    = .done := by decide +kernel

def exampleAccepted : Member :=
  { resId := 1, resType := "workflow", owner := 1, member := 2, status := .accepted }

/-- REGRESSION (former witness of `share_only_owner_full_fails`): an accepted member who tries to
    share the owner's private workflow onward is refused and no member row is added. -/
theorem regression_accepted_member_cannot_reshare :
    shareOp { resources := [exampleWf], members := [exampleAccepted] } { project := 2, isAdmin := false } 1 3
      = (.notAllowed, { resources := [exampleWf], members := [exampleAccepted] }) := by
  decide +kernel

end Mistral.Props.C15
