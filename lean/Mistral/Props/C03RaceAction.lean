/- C03 ("a result is accepted at most once"; `action_accepted_once` at transaction granularity) at
   STATEMENT granularity: the acceptance of an action result,
   `DefaultEngine.on_action_complete -> action_handler.on_action_complete -> RegularAction.complete`
   (script `actionComplete`, regenerated on every run together with the fact that no lock and no
   compare-and-swap protects the action row on this path).

   The guard `is_completed(self.action_ex.state)` reads the copy loaded at the start; state, output
   and accepted are ORM assignments, i.e. UNCONDITIONAL updates issued at the next flush. -/
import Mistral.Lemmas.Race
import Mistral.Gen.RaceScripts
namespace Mistral.Props.C03RaceAction
open Mistral.Race Mistral.Gen.RaceScripts

set_option maxRecDepth 4000
set_option linter.unusedSimpArgs false

/-- Whatever commits between the look-up and the flush: if the loaded copy was not completed, the
    script writes ITS state and ITS output over the row of the flush instant. -/
theorem action_complete_overwrites (sched : Nat → Intf) (vars : Fields) (row0 : Row)
    (hr : (pre sched 1 row0).alive = true)
    (hn : memVals completedStates ((pre sched 1 row0).f 0) = false)
    (hz : (pre sched 7 row0).alive = true)
    (hs : vars 0 ≠ (pre sched 1 row0).f 0) :
    (runWith actionComplete sched vars row0).sh.db.f 0 = vars 0 ∧
    (runWith actionComplete sched vars row0).sh.db.f 2 = vars 2 ∧
    (runWith actionComplete sched vars row0).l.emitted = [2] := by
  simp only [pre, completedStates] at hr hn hz hs
  simp only [actionComplete]
  by_cases h5 : Val.bool true = (sched 0 row0).f 3
  · race_simp [hr, hn, hz, hs, h5]
  · race_simp [hr, hn, hz, hs, h5]

def running : Row := { alive := true, f := fun k => if k = 0 then .str "RUNNING" else if k = 3 then .bool false else .null }
def first : Fields := fun k => if k = 0 then .str "ERROR" else if k = 2 then .str "first-result" else .null
def second : Fields := fun k => if k = 0 then .str "SUCCESS" else if k = 2 then .str "second-result" else .null
/-- another engine process accepts ANOTHER result for the same action execution (heartbeat expiry,
    redelivered or duplicated `on_action_complete`) right after this one's look-up -/
def otherResult : Nat → Intf := fun j => if j = 1 then atomicOf actionComplete first else fun r => r

/-- "at most one result is accepted / an accepted result is final": if the row is completed at the
    instant this transaction flushes, it leaves it alone.  FALSE of the code: two results for one
    action execution handled concurrently are BOTH accepted; the later flush overwrites state and
    output of the action execution whose first result was already accepted and handed to the task
    (ERROR -> SUCCESS here).  Known finding `accepted-action-result-overwritten-by-racing-result`,
    replayed on the real engine by the race stream. -/
theorem action_accept_once_full_fails :
    ¬ (∀ (sched : Nat → Intf) (vars : Fields) (row0 : Row),
        memVals completedStates ((pre sched 7 row0).f 0) = true →
        (runWith actionComplete sched vars row0).sh.db = pre sched 7 row0) := by
  intro h
  have := h otherResult second running (by
    simp only [actionComplete, completedStates]
    race_simp [memVals, otherResult, atomicOf, first, running, actionComplete])
  have h0 := congrArg (fun r => r.f 0) this
  simp only [actionComplete] at h0
  race_simp_at h0 [memVals, otherResult, atomicOf, first, second, running, actionComplete]

/-- .. and TRUE at transaction granularity (nothing commits between this transaction's look-up and
    its commit): a completed action execution rejects the result, nothing is handed to the task —
    what `Props.C03.action_accepted_once` / `C06.completed_action_rejects` model. -/
theorem action_accept_once_partial (sched : Nat → Intf) (vars : Fields) (row0 : Row)
    (hid : ∀ k r, 1 ≤ k → sched k r = r)
    (ha : (pre sched 7 row0).alive = true)
    (hfin : memVals completedStates ((pre sched 7 row0).f 0) = true) :
    (runWith actionComplete sched vars row0).sh.db = pre sched 7 row0 ∧
    (runWith actionComplete sched vars row0).l.emitted = [] := by
  have h1 : ∀ r, sched 1 r = r := fun r => hid 1 r (by omega)
  have h2 : ∀ r, sched 2 r = r := fun r => hid 2 r (by omega)
  have h3 : ∀ r, sched 3 r = r := fun r => hid 3 r (by omega)
  have h4 : ∀ r, sched 4 r = r := fun r => hid 4 r (by omega)
  have h5 : ∀ r, sched 5 r = r := fun r => hid 5 r (by omega)
  have h6 : ∀ r, sched 6 r = r := fun r => hid 6 r (by omega)
  simp only [pre, h1, h2, h3, h4, h5, h6, completedStates] at ha hfin ⊢
  simp only [actionComplete]
  race_simp [ha, hfin, h1, h2, h3, h4, h5, h6]

/-- non-vacuity of the partial statement: the first result committed BEFORE the second transaction
    starts: rejected -/
example : (runWith actionComplete (fun j => if j = 0 then atomicOf actionComplete first else fun r => r) second running).sh.db.f 0
    = .str "ERROR" := by
  simp only [actionComplete]
  race_simp [memVals, atomicOf, first, second, running, actionComplete]

end Mistral.Props.C03RaceAction
