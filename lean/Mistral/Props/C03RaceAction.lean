/- C03 ("a result is accepted at most once"; `action_accepted_once` at transaction granularity) at
   STATEMENT granularity: the acceptance of an action result,
   `DefaultEngine.on_action_complete -> action_handler.on_action_complete -> RegularAction.complete`
   (script `actionComplete`, regenerated on every run).

   Since repo fix fdb9cc00 the state is set through `update_action_execution_state` (update_on_match with
   the state read as expected value; no match -> ValueError "already completed", the transaction is
   rolled back); output and accepted are ORM assignments made after the compare-and-swap has won,
   i.e. under the row lock.  Before the patch state / output / accepted were unconditional ORM
   writes behind an `is_completed` test on the stale copy (`action_accept_once_full_fails`: two
   results handled concurrently were both accepted, the later flush overwrote the accepted one). -/
import Mistral.Lemmas.Race
import Mistral.Gen.RaceScripts
namespace Mistral.Props.C03RaceAction
open Mistral.Race Mistral.Gen.RaceScripts

set_option maxRecDepth 4000
set_option linter.unusedSimpArgs false

/-- what an accepted result installs on the row `rc` its compare-and-swap matched -/
def acceptRow (state out : Val) (rr rc : Row) : Row :=
  { alive := true,
    f := fun k =>
      if k = 0 then state
      else if k = 2 then out
      else if k = 3 then (if Val.bool true = rr.f 3 then rc.f 3 else Val.bool true)
      else rc.f k }

/-- The acceptance transaction under arbitrary interference: NOTHING (rejected: the committed row is
    the interferers' row, nothing is handed to the task) or, at the instant of its compare-and-swap,
    on a row whose state is still the not-completed state it read, state + output + accepted
    installed together. -/
theorem action_complete_atomic (sched : Nat → Intf) (vars : Fields) (row0 : Row) :
    ((runWith actionComplete sched vars row0).sh.db = pre sched 9 row0 ∧
      (runWith actionComplete sched vars row0).l.emitted = []) ∨
    ((pre sched 1 row0).alive = true ∧ memVals completedStates ((pre sched 1 row0).f 0) = false ∧
      (pre sched 4 row0).alive = true ∧ (pre sched 4 row0).f 0 = (pre sched 1 row0).f 0 ∧
      (runWith actionComplete sched vars row0).sh.db =
        between sched 4 5 (acceptRow (vars 0) (vars 2) (pre sched 1 row0) (pre sched 4 row0)) ∧
      (runWith actionComplete sched vars row0).l.emitted = [2]) := by
  by_cases h1 : (pre sched 1 row0).alive = true
  · by_cases h0 : memVals completedStates ((pre sched 1 row0).f 0) = true
    · left
      simp only [pre, completedStates] at h1 h0
      simp only [actionComplete]
      race_simp [h1, h0]
    · by_cases h3 : (pre sched 4 row0).alive = true ∧ (pre sched 4 row0).f 0 = (pre sched 1 row0).f 0
      · right
        obtain ⟨h3a, h3b⟩ := h3
        refine ⟨h1, by simpa using h0, h3a, h3b, ?_⟩
        simp only [pre, completedStates] at h1 h0 h3a h3b
        simp only [actionComplete]
        by_cases h5 : Val.bool true = (sched 0 row0).f 3 <;>
          (race_simp [h1, h0, h3a, h3b, h5, acceptRow]
           try race_rows)
      · left
        simp only [pre, completedStates] at h1 h0 h3
        simp only [actionComplete]
        race_simp [h1, h0, h3]
  · left
    simp only [pre] at h1
    simp only [actionComplete]
    race_simp [h1]

/-- C03 "a result is accepted at most once / an accepted result is final", for ALL interference: if
    the action execution is completed at the instant this transaction's compare-and-swap runs
    (whoever completed it: the other result of a duplicate, the heartbeat checker, ...), the
    transaction leaves no trace and hands nothing to the task. -/
theorem action_accept_once (sched : Nat → Intf) (vars : Fields) (row0 : Row)
    (hfin : memVals completedStates ((pre sched 4 row0).f 0) = true) :
    (runWith actionComplete sched vars row0).sh.db = pre sched 9 row0 ∧
    (runWith actionComplete sched vars row0).l.emitted = [] := by
  rcases action_complete_atomic sched vars row0 with h | ⟨_, hn, _, heq, _⟩
  · exact h
  · rw [heq] at hfin; rw [hfin] at hn; cases hn

/-- state and output of the row come from ONE result -/
theorem action_state_output_together (sched : Nat → Intf) (vars : Fields) (row0 : Row) :
    (runWith actionComplete sched vars row0).sh.db = pre sched 9 row0 ∨
    ∃ W : Row, (runWith actionComplete sched vars row0).sh.db = between sched 4 5 W ∧
      W.f 0 = vars 0 ∧ W.f 2 = vars 2 := by
  rcases action_complete_atomic sched vars row0 with h | ⟨_, _, _, _, h, _⟩
  · exact Or.inl h.1
  · exact Or.inr ⟨_, h, by simp [acceptRow], by simp [acceptRow]⟩

def running : Row := { alive := true, f := fun k => if k = 0 then .str "RUNNING" else if k = 3 then .bool false else .null }
def first : Fields := fun k => if k = 0 then .str "ERROR" else if k = 2 then .str "first-result" else .null
def second : Fields := fun k => if k = 0 then .str "SUCCESS" else if k = 2 then .str "second-result" else .null
/-- another engine process accepts ANOTHER result for the same action execution right after this
    one's look-up -/
def otherResult : Nat → Intf := fun j => if j = 1 then atomicOf actionComplete first else fun r => r

/-- regression + non-vacuity (the former `action_accept_once_full_fails` witness): the hypothesis of
    `action_accept_once` holds for that race and the row keeps the FIRST result -/
example : memVals completedStates ((pre otherResult 4 running).f 0) = true ∧
    (runWith actionComplete otherResult second running).sh.db.f 0 = .str "ERROR" ∧
    (runWith actionComplete otherResult second running).sh.db.f 2 = .str "first-result" ∧
    (runWith actionComplete otherResult second running).l.emitted = [] := by
  simp only [actionComplete, completedStates]
  race_simp [memVals, otherResult, atomicOf, first, second, running, actionComplete]

/-- alone the result is accepted -/
example : (runWith actionComplete (fun _ r => r) second running).sh.db.f 0 = .str "SUCCESS" ∧
    (runWith actionComplete (fun _ r => r) second running).sh.db.f 3 = .bool true ∧
    (runWith actionComplete (fun _ r => r) second running).l.emitted = [2] := by
  simp only [actionComplete]
  race_simp [memVals, second, running]

end Mistral.Props.C03RaceAction
