/-
TRANSFER of the theorems proved over the task-only engine core `Mistral.Engine.step` / `run` (C01 liveness,
C02Sem refinement, C11 inertness, …) to the engine core WITH ENGINE COMMANDS (`stepXg`, Model/EngineX.lean) on
definitions WITHOUT engine commands.

`stepX_eq_step` / `runX_eq_run` (Lemmas/EngineXEq.lean): for every command-free definition (`CmdFree`: no
reserved name - fail / succeed / pause / noop - among the targets that fire and among the task names), every
world of the core (`Core`: empty backlog, every execution with its unique key; `CoreN`: and no reserved task
name) and EVERY event, `stepXg idSorter sp w e = step sp w e`; hence `runXg idSorter sp evs = run sp evs` for
every history, and every statement about `run` holds verbatim of `runXg idSorter` by rewriting.

`idSorter` hands sibling task commands to the dispatcher in clause order.  The engine as the code runs it is
`stepX = stepXg pySorter`: the ONLY difference is the order in which `_rearrange_commands` (`list.sort` with the
non-total comparator `_compare_task_commands`, `pySort`) hands SIBLING task commands to the dispatcher - a
rearrangement of the same commands (`pySort_perm`) -, i.e. the order in which sibling executions are created.
The statements below do not depend on that order (rows are identified by (name, occurrence); lookups are by
name / identity); that `stepXg pySorter` and `stepXg idSorter` agree up to it is checked on every command-free
program of the core / live / sem streams by the driver (`stepAgrees`), not proved.
-/
import Mistral.Lemmas.EngineXEq
import Mistral.Props.C02Sem
import Mistral.Props.C11
namespace Mistral.Props.C01X
open Mistral Mistral.Engine Mistral.Join Mistral.Engine.Live Mistral.Sem

/-- `stepX_eq_step`: one event, every world of the core -/
theorem stepX_eq_step (sp : Spec) (hcf : CmdFree sp) (w : World) (hw : CoreN w) (e : Event) :
    stepXg idSorter sp w e = step sp w e := Mistral.Engine.stepX_eq_step sp hcf w hw.1 e hw.2

/-- the worlds of the core are closed under the events and contain the initial world, so the
    equality holds along every history -/
theorem core_closed (sp : Spec) (hcf : CmdFree sp) (w : World) (hw : CoreN w) (e : Event) : CoreN (step sp w e) :=
  step_coreN sp hcf w e hw

theorem runX_eq_run (sp : Spec) (hcf : CmdFree sp) (evs : List Event) : runXg idSorter sp evs = run sp evs :=
  Mistral.Engine.runX_eq_run sp hcf evs

/-- the sort of the real dispatcher only rearranges the sibling commands -/
theorem sorter_rearranges (waiting : Cmd → Bool) (l : List Cmd) :
    (pySorter waiting l).length = l.length ∧ ∀ c, c ∈ pySorter waiting l ↔ c ∈ l := pySort_perm _ l

/-! ### the main theorems, transferred -/

/-- C01 liveness (`no_stuck_acyclic`) for the engine with commands on command-free definitions -/
theorem no_stuck_acyclicX (sp : Spec) (hcf : CmdFree sp) (rk : String → Nat) (hsp : SpecOK sp rk)
    (hstart : startTasks sp ≠ []) (evs : List Event) (hl : ∀ e ∈ evs, lossless e)
    (hrun : (runXg idSorter sp evs).wf = .RUNNING) : (runXg idSorter sp evs).pending ≠ [] := by
  rw [runX_eq_run sp hcf evs] at hrun ⊢
  exact Props.C01.no_stuck_acyclic sp rk hsp hstart evs hl hrun

/-- C02 `outcome_schedule_independent` for the engine with commands on command-free definitions -/
theorem outcome_schedule_independentX (sp : Spec) (hcf : CmdFree sp) (rk : String → Nat) (hd : Props.C02Sem.DetClass sp rk)
    (orc : String → Bool) (evs1 evs2 : List Event) (hp1 : Props.C02Sem.Plain orc evs1) (hp2 : Props.C02Sem.Plain orc evs2)
    (hq1 : Props.C02Sem.Quiescent (runXg idSorter sp (.start :: evs1)))
    (hq2 : Props.C02Sem.Quiescent (runXg idSorter sp (.start :: evs2))) :
    Props.C02Sem.SameOutcome (runXg idSorter sp (.start :: evs1)) (runXg idSorter sp (.start :: evs2)) := by
  rw [runX_eq_run sp hcf] at hq1 hq2 ⊢
  rw [runX_eq_run sp hcf]
  exact Props.C02Sem.outcome_schedule_independent sp rk hd orc evs1 evs2 hp1 hp2 hq1 hq2

/-- C02 `complete_at_quiescence`, transferred -/
theorem complete_at_quiescenceX (sp : Spec) (hcf : CmdFree sp) (rk : String → Nat) (hd : Props.C02Sem.DetClass sp rk)
    (orc : String → Bool) (evs : List Event) (hp : Props.C02Sem.Plain orc evs)
    (hq : Props.C02Sem.Quiescent (runXg idSorter sp (.start :: evs))) :
    (runXg idSorter sp (.start :: evs)).wf = semVerdict sp orc ∧
      ∀ x : SRow, x ∈ (runXg idSorter sp (.start :: evs)).tasks.map rowTriple ↔ x ∈ semRows sp orc := by
  rw [runX_eq_run sp hcf] at hq ⊢
  exact Props.C02Sem.complete_at_quiescence sp rk hd orc evs hp hq

/-- C11 `finished_is_inert`, transferred (for ALL definitions, commands included, the stronger
    `Props.C11X.no_dispatch_into_completed` holds) -/
theorem finished_is_inertX (sp : Spec) (hcf : CmdFree sp) (w : World) (hw : CoreN w) (ev : Event)
    (hc : isCompleted w.wf = true) :
    ids (stepXg idSorter sp w ev) = ids w ∧ (stepXg idSorter sp w ev).wf = w.wf := by
  rw [stepX_eq_step sp hcf w hw ev]
  exact Props.C11.finished_is_inert sp w ev hc

/-! non-vacuity: the fork / join definition of C02Sem has no engine command -/
example : CmdFree Mistral.Sem.Wit.fjSpec := by
  constructor
  · intro l hl x hx
    simp [Mistral.Sem.Wit.fjSpec] at hl
    rcases hl with rfl | rfl | rfl | rfl | rfl | rfl <;> simp at hx <;>
      (try rcases hx with rfl | rfl) <;> (try subst hx) <;> decide
  · intro t ht
    simp [Mistral.Sem.Wit.fjSpec, Mistral.Sem.Wit.fjGraph] at ht
    rcases ht with rfl | rfl | rfl | rfl | rfl | rfl <;> decide

example : runXg idSorter Mistral.Sem.Wit.fjSpec (.start :: Mistral.Sem.Wit.fjFifo) =
    run Mistral.Sem.Wit.fjSpec (.start :: Mistral.Sem.Wit.fjFifo) := by
  apply runX_eq_run
  constructor
  · intro l hl x hx
    simp [Mistral.Sem.Wit.fjSpec] at hl
    rcases hl with rfl | rfl | rfl | rfl | rfl | rfl <;> simp at hx <;>
      (try rcases hx with rfl | rfl) <;> (try subst hx) <;> decide
  · intro t ht
    simp [Mistral.Sem.Wit.fjSpec, Mistral.Sem.Wit.fjGraph] at ht
    rcases ht with rfl | rfl | rfl | rfl | rfl | rfl <;> decide

end Mistral.Props.C01X
