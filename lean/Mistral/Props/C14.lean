/-
C14 — Definition validation is total and accepted definitions are stable and runnable.
Property theorems only.  The model is Mistral/Model/Lang.lean, tied to mistral/lang/parser.py
(`_parse_def_from_wb`), mistral/lang/base.py + v2/workflows.py (in-place normalisation, graph
checks) by the correspondence streams `cut`, `norm`, `graph` of props/C14.py.

NOT a theorem (and it cannot be one about Python): "validation never fails with an internal error
and never hangs".  Every Lean function is total by construction; that clause is carried by the
monitor of props/C14.py on the real entry points with a time limit.
-/
import Mistral.Model.Lang
import Mistral.Lemmas.Lang
import Mistral.Gen.LangTables
import Mistral.Lemmas.ReverseValid
import Mistral.Props.C04Rev

namespace Mistral.Props.C14
open Mistral.Lang

/-! ### "every workflow extracted from a workbook is the workflow written in the workbook" -/

/-- canonical workbook structures: what a block-style YAML dump of a workbook looks like to the
    cutter. -/
def WFWb (w : Workbook) : Prop :=
  '\n' ∉ w.sec ∧ (∀ h ∈ w.header, '\n' ∉ h) ∧ (∀ m ∈ w.members, WFMember m) ∧ StopsAt w.base w.tail

/-- P1: the section keyword (`workflows:` / `actions:`) does not occur in the text before the
    section line (e.g. inside a description, a name, a tag). -/
def SectionFirst (w : Workbook) : Prop :=
  indexOf w.sec (renderWb w) = some (linesText w.header).length

instance (w : Workbook) : Decidable (SectionFirst w) := by unfold SectionFirst; exact inferInstance

theorem renderWb_shape (w : Workbook) (ms1 ms2 : List Member) (m : Member)
    (hw : w.members = ms1 ++ m :: ms2) :
    renderWb w = linesText w.header ++ ((w.sec ++ []) ++ '\n' ::
      (linesText (ms1.flatMap (memberLines w.base)) ++
        (renderMember w.base m ++ ((ms2.map (renderMember w.base)).flatten ++ w.tail)))) := by
  rw [← renderMembers_lines]
  simp [renderWb, hw, linesText]

/-- "every workflow extracted from a workbook is the workflow written in the workbook" — for every
    canonically rendered workbook, every member `m`, PROVIDED (P1) the section keyword does not occur
    earlier in the text and (P2) no earlier member has a body line that is `m.name:` (DESIGN §9-I:
    `_parse_def_from_wb` takes the *first* line equal to `name:` and the *first* `workflows:`):
    the cut text is exactly the member, dedented. -/
theorem cutDef_correct_partial (w : Workbook) (ms1 ms2 : List Member) (m : Member)
    (hwf : WFWb w) (hw : w.members = ms1 ++ m :: ms2)
    (h1 : SectionFirst w) (h2 : NoEarlierClash ms1 m) :
    cutDef (renderWb w) w.sec (m.name ++ [':']) = some (renderMember 0 m) := by
  obtain ⟨hsec, _, hmem, htail⟩ := hwf
  have hm : WFMember m := hmem m (by simp [hw])
  have hms1 : ∀ m' ∈ ms1, WFMember m' := fun m' h => hmem m' (by simp [hw, h])
  have hstop : StopsAt w.base ((ms2.map (renderMember w.base)).flatten ++ w.tail) := by
    cases ms2 with
    | nil => simpa using htail
    | cons m2 rest =>
      have := stops_at_member w.base m2 ((rest.map (renderMember w.base)).flatten ++ w.tail)
        (hmem m2 (by simp [hw]))
      simpa using this
  unfold SectionFirst at h1
  rw [renderWb_shape w ms1 ms2 m hw] at h1 ⊢
  exact cutDef_text (linesText w.header) w.sec [] _ w.base m _ (by simpa using hsec) h1
    (before_ok w.base ms1 m hms1 h2) hm hstop

/-- non-vacuity: a two-workflow workbook followed by an `actions:` section meets the hypotheses
    for its second member. -/
def okWf1 : Member := ⟨"wf1".toList, [⟨2, "tasks:".toList⟩, ⟨4, "t1:".toList⟩, ⟨6, "action: std.noop".toList⟩]⟩
def okWf2 : Member :=
  ⟨"wf2".toList, [⟨2, "tasks:".toList⟩, ⟨4, "t2:".toList⟩, ⟨6, "action: std.echo output=1".toList⟩]⟩
def wbOk : Workbook :=
  { header := ["version: '2.0'".toList, "name: wb".toList], sec := "workflows:".toList, base := 2,
    members := [okWf1, okWf2], tail := "actions:\n  a1:\n    base: std.noop\n".toList }

example : WFWb wbOk ∧ wbOk.members = [okWf1] ++ okWf2 :: [] ∧ SectionFirst wbOk ∧
    NoEarlierClash [okWf1] okWf2 ∧
    cutDef (renderWb wbOk) wbOk.sec "wf2:".toList =
      some "wf2:\n  tasks:\n    t2:\n      action: std.echo output=1\n".toList := by
  refine ⟨⟨by decide, by decide, by decide,
    Or.inr ⟨"actions:\n".toList, by decide, by decide, by decide, by decide⟩⟩,
    rfl, by decide, by decide, by decide⟩

-- the counter-witnesses `witnessTaskClash`, `witnessSectionEarlier` are data of Model/Lang.lean (the
-- driver hands their rendering to the harness, which replays them on the real service).

/-- The full-strength statement (no P1, no P2) is FALSE of the current code: the witness is a
    well-formed canonical workbook, and the text cut for `wf2` is not the workflow `wf2` but the
    *task* `wf2` of `wf1`.  The harness replays it on `workbooks.create_workbook_v2` (stream
    `witness`): the definition stored for `wb.wf2` is that task. -/
theorem cutDef_correct_full_fails :
    ¬ (∀ (w : Workbook) (ms1 ms2 : List Member) (m : Member), WFWb w → w.members = ms1 ++ m :: ms2 →
        cutDef (renderWb w) w.sec (m.name ++ [':']) = some (renderMember 0 m)) := by
  intro h
  have := h witnessTaskClash [clashWf1] [] clashWf2
    ⟨by decide, by decide, by decide, Or.inl rfl⟩ rfl
  revert this
  decide

/-- what the code returns for witness 1: the task `wf2` of workflow `wf1`. -/
theorem cutDef_witness1_value :
    cutDef (renderWb witnessTaskClash) "workflows:".toList "wf2:".toList =
      some "wf2:\n  action: std.noop\n".toList := by decide

/-- witness 2 is well-formed, and the text cut for workflow `wf1` is the *action* `wf1`. -/
theorem cutDef_witness2_value :
    WFWb witnessSectionEarlier ∧
    cutDef (renderWb witnessSectionEarlier) "workflows:".toList "wf1:".toList =
      some "wf1:\n  base: std.noop\n".toList := by
  refine ⟨⟨by decide, by decide, by decide, Or.inl rfl⟩, by decide⟩

/-- each of P1, P2 excludes something real: each witness violates exactly one of them. -/
theorem witnesses_violate_exactly_one :
    (SectionFirst witnessTaskClash ∧ ¬ NoEarlierClash [clashWf1] clashWf2) ∧
    (¬ SectionFirst witnessSectionEarlier ∧ NoEarlierClash [] secWf1) := by
  decide

/-! ### the verified cut (repo patch 31) -/

/-- "every workflow extracted from a workbook is the workflow written in the workbook", at FULL strength:
    for EVERY workbook text (any layout, any clash, section keyword anywhere or nowhere), every section
    and member name, the definition text `_get_member_definition` returns parses to exactly the member the
    parsed workbook holds — under the one assumption about PyYAML that a dumped member parses back to
    itself (`hrt`, tied by stream `yamlrt`).  The text cut of `cutDef` (= `_parse_def_from_wb`) is only
    a candidate now: `cutDef_correct_full_fails` and its witnesses show why it must be verified. -/
theorem cut_is_the_member {D : Type} [DecidableEq D] (Y : Yaml D) (wb sec name : Str) (m : D)
    (hrt : Y.parse (Y.dump m) = some m) :
    ∃ t, memberDefinition Y wb sec name (some m) = some t ∧ Y.parse t = some m := by
  refine ⟨cutVerified Y wb sec name m, rfl, ?_⟩
  unfold cutVerified
  split
  · split
    · assumption
    · exact hrt
  · exact hrt

/-- the internal error is closed: with the member known there is always a definition text, also when the
    section keyword does not occur literally in the text (`actions :`, `'workflows':`). -/
theorem member_definition_total {D : Type} [DecidableEq D] (Y : Yaml D) (wb sec name : Str) (m : D) :
    memberDefinition Y wb sec name (some m) ≠ none := by
  simp [memberDefinition]

/-- the author's text (comments, layout) is kept whenever the cut is right … -/
theorem cut_kept_when_right {D : Type} [DecidableEq D] (Y : Yaml D) (wb sec name t : Str) (m : D)
    (hc : cutDef wb (sec ++ [':']) (name ++ [':']) = some t) (hp : Y.parse t = some m) :
    cutVerified Y wb sec name m = t := by
  simp [cutVerified, hc, hp]

/-- … and replaced by the written-out member whenever it is not. -/
theorem cut_replaced_when_wrong {D : Type} [DecidableEq D] (Y : Yaml D) (wb sec name : Str) (m : D)
    (hw : ∀ t, cutDef wb (sec ++ [':']) (name ++ [':']) = some t → Y.parse t ≠ some m) :
    cutVerified Y wb sec name m = Y.dump m := by
  unfold cutVerified
  split
  · rename_i t ht
    simp [hw t ht]
  · rfl

/-- in particular for every canonically rendered workbook that meets P1, P2 (`cutDef_correct_partial`)
    the stored text is the member exactly as written, dedented. -/
theorem canonical_member_text_kept {D : Type} [DecidableEq D] (Y : Yaml D) (w : Workbook) (ms1 ms2 : List Member)
    (m : Member) (sec : Str) (md : D) (hsec : w.sec = sec ++ [':'])
    (hwf : WFWb w) (hw : w.members = ms1 ++ m :: ms2) (h1 : SectionFirst w) (h2 : NoEarlierClash ms1 m)
    (hp : Y.parse (renderMember 0 m) = some md) :
    cutVerified Y (renderWb w) sec m.name md = renderMember 0 m := by
  have := cutDef_correct_partial w ms1 ms2 m hwf hw h1 h2
  rw [hsec] at this
  exact cut_kept_when_right Y _ _ _ _ md this hp

/-- non-vacuity, and the two former counter-witnesses as regressions: with an oracle that knows the
    texts involved, the definition of `wf2` of `witnessTaskClash` is no longer the task `wf2`, that of
    `wf1` of `witnessSectionEarlier` no longer the action `wf1`; `wbOk` keeps its text. -/
def witnessYaml : Yaml Nat :=
  { parse := fun t =>
      if t = "wf2:\n  action: std.noop\n".toList then some 1        -- the task wf2
      else if t = "wf1:\n  base: std.noop\n".toList then some 2       -- the action wf1
      else if t = "wf2:\n  tasks:\n    t2:\n      action: std.echo output=1\n".toList then some 3
      else if t = "<dump 10>".toList then some 10 else if t = "<dump 20>".toList then some 20 else none,
    dump := fun d => ("<dump " ++ toString d ++ ">").toList }

theorem witnesses_repaired :
    cutVerified witnessYaml (renderWb witnessTaskClash) "workflows".toList "wf2".toList 10 = "<dump 10>".toList ∧
    cutVerified witnessYaml (renderWb witnessSectionEarlier) "workflows".toList "wf1".toList 20 = "<dump 20>".toList ∧
    cutVerified witnessYaml (renderWb wbOk) "workflows".toList "wf2".toList 3 =
      "wf2:\n  tasks:\n    t2:\n      action: std.echo output=1\n".toList := by decide

/-! ### "an accepted definition re-read from its stored form is the same definition" -/

/-- `to_dict()` returns the dict normalised in place by construction (`name`/`version`/`type`
    injected, inline parameters merged into `input`).  Constructing a specification again from that
    dict (what the engine does with `workflow_definitions_v2.spec`) normalises it to *itself*:
    nothing is injected twice, nothing moves.  For every workflow-list dict and every inline-parameter
    oracle with distinct keys per task (they are Python dicts). -/
theorem norm_idempotent (inl : String → String → List (String × J)) (hn : InlineOk inl) (d d' : J)
    (h : normWfList inl d = .ok d') : normWfList inl d' = .ok d' := by
  cases d with
  | obj kvs =>
    simp only [normWfList] at h
    split at h
    · cases h
    · rename_i kvs' hk
      injection h with h
      subst h
      simp only [normWfList, normMembers_idem inl hn kvs kvs' hk]
  | null => simp [normWfList] at h
  | bool _ => simp [normWfList] at h
  | num _ => simp [normWfList] at h
  | str _ => simp [normWfList] at h
  | arr _ => simp [normWfList] at h

/-- what normalisation guarantees to the spec constructors that read the dict afterwards: a
    normalised task carries the workflow's `type`, and (unless it is the skipped key `version`) its
    own `name` and version `2.0`. -/
theorem norm_task_keys (typ : J) (inl : String → List (String × J)) (name : String)
    (kvs : List (String × J)) (hv : name ≠ "version") :
    ∃ kvs', normTask typ inl name (.obj kvs) = .ok (.obj kvs') ∧ getKey "type" kvs' = some typ ∧
      getKey "name" kvs' = some (.str name) ∧ getKey "version" kvs' = some (.str "2.0") := by
  refine ⟨mergeInput (inl name) (setKey "version" (.str "2.0") (setKey "name" (.str name)
    (setKey "type" typ kvs))), by simp [normTask, hv], ?_, ?_, ?_⟩
  · rw [getKey_mergeInput_ne _ _ (by decide), getKey_setKey_ne _ _ _ _ (by decide),
      getKey_setKey_ne _ _ _ _ (by decide), getKey_setKey_self]
  · rw [getKey_mergeInput_ne _ _ (by decide), getKey_setKey_ne _ _ _ _ (by decide), getKey_setKey_self]
  · rw [getKey_mergeInput_ne _ _ (by decide), getKey_setKey_self]

/-- non-vacuity: a reverse workflow with an inline parameter merged into an existing `input`, a
    stale `name`, and a task called `version` normalises successfully (and then to itself). -/
def dEx : J := .obj [("version", .str "2.0"),
  ("wf", .obj [("type", .str "reverse"), ("name", .str "stale"),
    ("tasks", .obj [("t1", .obj [("action", .str "std.echo output=1"),
                                  ("input", .obj [("output", .num 2), ("x", .num 1)])]),
                    ("version", .obj [("action", .str "std.noop")])])])]
def inlEx : String → String → List (String × J) :=
  fun w t => if w = "wf" ∧ t = "t1" then [("output", .num 1)] else []

example : InlineOk inlEx := by
  intro w t; unfold inlEx; split <;> simp

example : ∃ d', normWfList inlEx dEx = .ok d' ∧ normWfList inlEx d' = .ok d' := by
  refine ⟨_, rfl, ?_⟩
  exact norm_idempotent inlEx (by intro w t; unfold inlEx; split <;> simp) dEx _ rfl

/-! ### transitions of an accepted definition are the transitions written -/

/-- "the same definition (tasks, transitions, …)": for every on-clause form the schema accepts, the
    specification's `get_next()` targets are exactly the targets written.  (Was `_partial` with the
    guarded single dict excluded and a `_full_fails` witness until repo fix e74e4242; the witness
    `on-success: {t1: <% $.x %>}` is now the regression corpus/C14/26-*.json.) -/
theorem nextOf_written (c : OnClause) : c.nextOf = c.written := by
  cases c <;> simp [OnClause.nextOf, OnClause.written]

/-- the former counter-witness now keeps its transition. -/
example : (OnClause.single { target := "t1", guarded := true }).nextOf = ["t1"] ∧
    (OnClause.list [⟨"a", true⟩, ⟨"b", false⟩]).nextOf = ["a", "b"] ∧
    (OnClause.advSingle ⟨"a", true⟩).nextOf = ["a"] := by decide

/-! ### "validation accepts" implies the graph is well formed (the hypothesis C01 needs) -/

/-- what the join check demands of one task. -/
def JoinHasInbound (w : WfG) (t : TaskG) : Prop :=
  match t.join with
  | .none => True
  | .all => inbound w t.name ≠ []
  | .count k => k ≤ (inbound w t.name).length

structure WellFormed (w : WfG) : Prop where
  /-- direct: there is a start task (a task without inbound transition) -/
  start : w.reverse = false → startTasks w ≠ []
  /-- direct: every transition target (own clause or task-defaults) is a task or an engine command -/
  targets : w.reverse = false → ∀ t ∈ w.tasks, ∀ n ∈ outbound w t,
    taskExists w n = true ∨ n ∈ engineCommands
  /-- direct: `join: all` has an inbound task, `join: n` / `one` has at least n -/
  joins : w.reverse = false → ∀ t ∈ w.tasks, JoinHasInbound w t
  /-- reverse: every requirement (own or task-defaults, except itself) is a task -/
  requires : w.reverse = true → ∀ t ∈ w.tasks, ∀ n ∈ taskRequires w t, taskExists w n = true
  /-- reverse: `requires` (own ∪ task-defaults, by name, as a run sees it) has no cycle: a ranking of
      the names puts every requirement below its task (`_check_requires_cycles`, repo fix fd108744) -/
  acyclic : w.reverse = true → Mistral.Reverse.AcyclicN (toSpec w)

/-- requirements of a name in the run model's view are the requirements of a task of the definition -/
theorem reqsN_toSpec (w : WfG) (tg n q : String) (h : q ∈ Mistral.Reverse.reqsN (toSpec w tg) n) :
    ∃ t ∈ w.tasks, t.name = n ∧ q ∈ taskRequires w t := by
  unfold Mistral.Reverse.reqsN at h
  split at h
  · rename_i t' ht'
    rcases Mistral.Reverse.findTaskSpec_some _ n t' ht' with ⟨hm, hn⟩
    rcases List.mem_map.mp hm with ⟨t, ht, rfl⟩
    exact ⟨t, ht, hn, h⟩
  · simp at h

theorem isTask_toSpec (w : WfG) (tg q : String) : Mistral.Reverse.isTask (toSpec w tg) q = taskExists w q := by
  unfold Mistral.Reverse.isTask taskExists toSpec
  rw [List.any_map]; rfl

theorem wellFormedN_toSpec (w : WfG) (tg : String)
    (hq : ∀ t ∈ w.tasks, ∀ n ∈ taskRequires w t, taskExists w n = true) :
    Mistral.Reverse.WellFormedN (toSpec w tg) := by
  intro n q h
  rcases reqsN_toSpec w tg n q h with ⟨t, ht, _, hqt⟩
  rw [isTask_toSpec]; exact hq t ht q hqt

/-- "validation either accepts it …": an accepted workflow graph is well formed — every transition
    target exists, every join has enough inbound tasks, a start task exists, every requirement
    exists and (reverse) `requires` has no cycle; and conversely nothing well formed is rejected by
    the graph checks. -/
theorem accept_iff_wellformed (w : WfG) : validateGraph w = .ok () ↔ WellFormed w := by
  constructor
  · intro h
    unfold validateGraph at h
    by_cases hr : w.reverse = true
    · simp only [hr, if_true] at h
      split at h
      · cases h
      · rename_i hfb
        split at h
        · rename_i hac
          refine ⟨by simp [hr], by simp [hr], by simp [hr], fun _ t ht n hn => ?_,
            fun _ => (Mistral.Reverse.requiresAcyclic_sound _ hac).2⟩
          have := firstBad_none _ _ hfb n (List.mem_flatMap.mpr ⟨t, ht, hn⟩)
          simpa [linkOk] using this
        · cases h
    · have hr' : w.reverse = false := by simpa using hr
      simp only [hr', Bool.false_eq_true, if_false] at h
      split at h
      · cases h
      · rename_i hst
        split at h
        · cases h
        · rename_i hfb
          split at h
          · cases h
          · rename_i hfind
            refine ⟨fun _ hs => by simp [hs] at hst, fun _ t ht n hn => ?_, fun _ t ht => ?_, by simp [hr'],
              by simp [hr']⟩
            · have := firstBad_none _ _ hfb n (List.mem_flatMap.mpr ⟨t, ht, hn⟩)
              simp only [linkOk, Bool.or_eq_true, Bool.true_and] at this
              rcases this with h1 | h2
              · exact Or.inl h1
              · exact Or.inr (by simpa using h2)
            · have := List.find?_eq_none.mp hfind t ht
              simp only [Bool.not_eq_eq_eq_not] at this
              unfold joinOk at this
              unfold JoinHasInbound
              split <;> simp_all
  · intro ⟨hs, ht, hj, hq, hac⟩
    unfold validateGraph
    by_cases hr : w.reverse = true
    · simp only [hr, if_true]
      have : firstBad (linkOk w false) (w.tasks.flatMap (taskRequires w)) = none := by
        apply firstBad_none_of
        intro n hn
        obtain ⟨t, htm, hnm⟩ := List.mem_flatMap.mp hn
        simp [linkOk, hq hr t htm n hnm]
      have hcyc : Mistral.Reverse.requiresAcyclic (toSpec w) = true :=
        (Mistral.Reverse.requiresAcyclic_iff _).mpr ⟨wellFormedN_toSpec w "" (hq hr), hac hr⟩
      simp [this, hcyc]
    · have hr' : w.reverse = false := by simpa using hr
      simp only [hr', Bool.false_eq_true, if_false]
      have h1 : (startTasks w).isEmpty = false := by
        cases hst : startTasks w with
        | nil => exact absurd hst (hs hr')
        | cons _ _ => rfl
      have h2 : firstBad (linkOk w true) (w.tasks.flatMap (outbound w)) = none := by
        apply firstBad_none_of
        intro n hn
        obtain ⟨t, htm, hnm⟩ := List.mem_flatMap.mp hn
        rcases ht hr' t htm n hnm with h | h
        · simp [linkOk, h]
        · simp only [linkOk, Bool.true_and, Bool.or_eq_true]
          exact Or.inr (by simpa using h)
      have h3 : w.tasks.find? (fun t => !joinOk w t) = none := by
        apply List.find?_eq_none.mpr
        intro t htm
        have := hj hr' t htm
        unfold JoinHasInbound at this
        unfold joinOk
        split <;> simp_all
      simp [h1, h2, h3]

/-- the direction the engine relies on. -/
theorem accept_implies_wellformed (w : WfG) (h : validateGraph w = .ok ()) : WellFormed w :=
  (accept_iff_wellformed w).mp h

/-! ### "accepted definitions are … runnable": reverse workflows -/

/-- An accepted reverse definition started on ANY existing target has a needed set (the target and
    what it transitively requires, `Mistral.Props.C04Rev.needed_iff_reach`) in which no task is blocked
    for ever: whatever tasks have succeeded so far, as long as some needed task has not, there is a
    needed task that has not succeeded and whose requirements — all needed themselves — all have: it
    can be started.  (False before repo fix fd108744: with `a requires b, b requires a` nothing ever
    is; corpus/C04/reverse-cyclic.json.) -/
theorem accepted_reverse_never_blocked (w : WfG) (hr : w.reverse = true) (h : validateGraph w = .ok ())
    (tg : String) (ht : taskExists w tg = true) :
    ∃ nd, Mistral.Reverse.needed (toSpec w tg) = some nd ∧ tg ∈ nd ∧
      ∀ succeeded : List String, (∃ n ∈ nd, n ∉ succeeded) →
        ∃ n ∈ nd, n ∉ succeeded ∧ ∀ q ∈ Mistral.Reverse.reqsN (toSpec w tg) n, q ∈ nd ∧ q ∈ succeeded := by
  have hwf := accept_implies_wellformed w h
  have hnd : ∃ nd, Mistral.Reverse.needed (toSpec w tg) = some nd := by
    unfold Mistral.Reverse.needed
    have : Mistral.Reverse.isTask (toSpec w tg) (toSpec w tg).target = true := by
      rw [isTask_toSpec]; exact ht
    rw [this]; exact ⟨_, rfl⟩
  rcases hnd with ⟨nd, hnd⟩
  refine ⟨nd, hnd, Mistral.Reverse.target_mem_needed _ nd hnd, ?_⟩
  intro succeeded hex
  exact Mistral.Reverse.needed_never_blocked (toSpec w tg) nd hnd
    (wellFormedN_toSpec w tg (hwf.requires hr)) (hwf.acyclic hr) succeeded hex

/-- … and at the level of runs (model `Mistral.Reverse`, every event history without operator
    commands): once nothing is pending, a started run of an accepted reverse definition is ERROR with
    a failed task or SUCCESS with its target succeeded; it is never left RUNNING. -/
theorem accepted_reverse_run_finishes (w : WfG) (hr : w.reverse = true) (h : validateGraph w = .ok ())
    (tg : String) (ht : taskExists w tg = true) (evs : List Mistral.Reverse.Event)
    (hops : ∀ e ∈ evs, Mistral.Reverse.NoOp e)
    (hq : (Mistral.Reverse.run (toSpec w tg) (.start :: evs)).pending = []) :
    ((Mistral.Reverse.run (toSpec w tg) (.start :: evs)).wf = .ERROR ∧
      ∃ r ∈ (Mistral.Reverse.run (toSpec w tg) (.start :: evs)).tasks, r.state = .ERROR) ∨
    ((Mistral.Reverse.run (toSpec w tg) (.start :: evs)).wf = .SUCCESS ∧
      ∃ r ∈ (Mistral.Reverse.run (toSpec w tg) (.start :: evs)).tasks, r.name = tg ∧ r.state = .SUCCESS) := by
  have hwf := accept_implies_wellformed w h
  have hst := Mistral.Reverse.started_after_start (toSpec w tg) evs (by rw [isTask_toSpec]; exact ht)
  rcases Mistral.Props.C04Rev.quiescent_outcome_core (toSpec w tg) (.start :: evs)
      (by intro e he; rcases List.mem_cons.mp he with rfl | he
          · trivial
          · exact hops e he)
      (wellFormedN_toSpec w tg (hwf.requires hr)) (hwf.acyclic hr) hq hst with h1 | ⟨h1, nd, hnd, h2⟩
  · exact Or.inl h1
  · exact Or.inr ⟨h1, h2 tg (Mistral.Reverse.target_mem_needed _ nd hnd)⟩

/-- non-vacuity: a diamond with task-defaults requires is accepted and runnable; cycles (direct,
    through task-defaults) are rejected, a self-requirement is not a cycle. -/
def gRev : WfG :=
  { reverse := true, defaultRequires := ["a"],
    tasks := [ { name := "d", requires := ["b", "c"] }, { name := "b" }, { name := "c", requires := ["a"] },
               { name := "a" }, { name := "u", requires := ["u"] } ] }

example : validateGraph gRev = .ok () ∧ taskExists gRev "d" = true ∧
    Mistral.Reverse.needed (toSpec gRev "d") = some ["d", "b", "c", "a"] := by decide
example : validateGraph { reverse := true, tasks := [{ name := "a", requires := ["b"] }, { name := "b", requires := ["a"] }] }
    = .error .requiresCycle := by decide
example : validateGraph { reverse := true, defaultRequires := ["a"], tasks := [{ name := "a", requires := ["b"] }, { name := "b" }] }
    = .error .requiresCycle := by decide
example : validateGraph { reverse := true, tasks := [{ name := "a", requires := ["a"] }] } = .ok () := by decide

/-- a start task is a task no task (including itself) has a transition to. -/
theorem start_task_iff (w : WfG) (t : TaskG) :
    t ∈ startTasks w ↔ t ∈ w.tasks ∧ ∀ s ∈ w.tasks, t.name ∉ outbound w s := by
  simp [startTasks, inbound, List.filter_eq_nil_iff]

/-- non-vacuity: fork, `join: all`, a task-defaults `on-error` that reaches every task without an
    own `on-error`, an engine command; accepted. -/
def gOk : WfG :=
  { tasks := [ { name := "t0", cl := { onSuccess := ["a", "b"] } },
               { name := "a", cl := { onSuccess := ["j"] } },
               { name := "b", cl := { onSuccess := ["j"], onError := ["fail"] } },
               { name := "j", join := .all },
               { name := "h", join := .count 3 } ],
    defaults := some { onError := ["h"] } }

example : validateGraph gOk = .ok () ∧ (startTasks gOk).map (·.name) = ["t0"] ∧
    (inbound gOk "h").map (·.name) = ["t0", "a", "j"] := by decide

/-- and the checks do reject: missing target, join without inbound, no start task. -/
example : validateGraph { tasks := [{ name := "a", cl := { onSuccess := ["ghost"] } }] }
    = .error (.taskNotFound "ghost") := by decide
example : validateGraph { tasks := [{ name := "a" }, { name := "j", join := .all }] }
    = .error (.joinInbound "j") := by decide
example : validateGraph { tasks := [{ name := "a", cl := { onSuccess := ["b"] } },
    { name := "b", cl := { onError := ["a"] } }] } = .error .noStartTasks := by decide

/-! ### ties to tables regenerated from the code (Tie A) -/

/-- the engine commands the model's link check allows are exactly `ENGINE_COMMANDS` of
    mistral/lang/v2/workflows.py (regenerated on every run). -/
theorem engine_commands_tied : engineCommands = Mistral.Gen.LangTables.engineCommands := by decide

/-- the expression-bearing fields of the language (YAQL/Jinja allowed by the language reference). -/
def requiredExprFields : List (String × String) := [
  ("WorkflowSpec", "output"), ("WorkflowSpec", "vars"),
  ("TaskSpec", "input"), ("TaskSpec", "publish"), ("TaskSpec", "publish-on-error"),
  ("TaskSpec", "publish-on-skip"), ("TaskSpec", "keep-result"), ("TaskSpec", "safe-rerun"),
  ("TaskSpec", "<inline_params>"), ("TaskSpec", "<array>"),
  ("PoliciesSpec", "wait-before"), ("PoliciesSpec", "wait-after"), ("PoliciesSpec", "timeout"),
  ("PoliciesSpec", "pause-before"), ("PoliciesSpec", "concurrency"), ("PoliciesSpec", "fail-on"),
  ("RetrySpec", "count"), ("RetrySpec", "delay"), ("RetrySpec", "break-on"), ("RetrySpec", "continue-on"),
  ("TaskDefaultsSpec", "safe-rerun"), ("TaskDefaultsSpec", "<t>"), ("DirectWorkflowTaskSpec", "<t>"),
  ("PublishSpec", "<_branch>"), ("PublishSpec", "<_global>"), ("PublishSpec", "<_atomic>"),
  ("ActionSpec", "base-input"), ("ActionSpec", "output"), ("ActionSpec", "<inline_params>")]

/-- mechanism "expression syntax validated for every expression-bearing field": every such field is
    passed to `validate_expr` by its spec class (table regenerated from the AST on every run; the
    monitor checks the same on accepted definitions). -/
theorem expr_fields_covered :
    ∀ f ∈ requiredExprFields, f ∈ Mistral.Gen.LangTables.exprFields := by decide

end Mistral.Props.C14
