/-
C07 — with-items runs each item once, within the concurrency limit, results in order.
Property theorems only.  Model: Mistral/Model/WithItems.lean (tied to
mistral/engine/tasks.py `WithItemsTask` & co. by the `withitems` correspondence stream, which
steps the model along every committed transaction of the real engine).  Helper lemmas and the two
invariants (`CapInv`, `FreshInv`) are in Mistral/Lemmas/WithItems.lean.

All theorems quantify over every item count `n`, every `concurrency` value `c` (absent / 0 /
positive), every retry count `r` and EVERY sequence of operations
(start / result pos outcome / handled / rerun reset / continue), i.e. every outcome assignment and
every completion order.

Where the code deviates from the statement the full statement is refuted (`_full_fails`, with a
witness replayed on the real engine by props/C07.py) and the provable restriction is `_partial`.
-/
import Mistral.Model.WithItems
import Mistral.Lemmas.WithItemsEval

namespace Mistral.Props.C07
open Mistral.WithItems

/-! ## "never has more than the configured concurrency running at once" -/

/-- The invariant the code maintains between RUNNING children, `capacity`, the completions whose
    `_scheduled_on_action_complete` job has not run yet and `concurrency` (`inv_init`). -/
theorem cap_inv_init (n : Nat) (c : Option Nat) (r : Nat) : CapInv (init n c r) := capInv_init n c r

/-- (`inv_step`) every operation preserves it. -/
theorem cap_inv_step (s : WI) (op : Op) (h : CapInv s) : CapInv (step s op) := capInv_step h op

/-- (`inv_reachable`) -/
theorem cap_inv_reachable (n : Nat) (c : Option Nat) (r : Nat) (ops : List Op) :
    CapInv (run (init n c r) ops) := capInv_run (capInv_init n c r) ops

/-- While the task is RUNNING and a limit `c` is set:
    `#RUNNING + capacity + #(completions not yet handled) = c` — capacity is given back by the
    `_scheduled_on_action_complete` job, not by the result itself. -/
theorem capacity_balance (n : Nat) (c : Option Nat) (r : Nat) (ops : List Op) (k : Nat)
    (hc : (run (init n c r) ops).concurrency = some k)
    (ht : (run (init n c r) ops).tstate = .running) :
    ∃ cap, (run (init n c r) ops).capacity = some cap ∧
      running (run (init n c r) ops) + cap + (run (init n c r) ops).unhandled = k := by
  obtain ⟨_, cap, hcap, _, heq, _⟩ := (cap_inv_reachable n c r ops).lim k hc
  exact ⟨cap, hcap, heq ht⟩

/-- Whenever a completion job finds the task RUNNING under a limit `k`, `capacity < k`: the guard
    `ctx[capacity] < concurrency` of `_increase_capacity` is always true when it is evaluated (so
    replacing `<` by `<=` there changes no reachable behaviour — an equivalent mutant), and every
    handled completion gives back exactly one unit. -/
theorem increase_guard_always_holds (n : Nat) (c : Option Nat) (r : Nat) (ops : List Op) (k : Nat)
    (hc : (run (init n c r) ops).concurrency = some k)
    (ht : (run (init n c r) ops).tstate = .running)
    (hu : (run (init n c r) ops).unhandled ≠ 0) :
    ∃ cap, (run (init n c r) ops).capacity = some cap ∧ cap < k := by
  obtain ⟨cap, hcap, hbal⟩ := capacity_balance n c r ops k hc ht
  exact ⟨cap, hcap, by omega⟩

/-- non-vacuity: limit 2, both items completed, no job has run yet: capacity 0 < 2 -/
example : (run (init 3 (some 2) 0) [.start, .result 0 .success, .result 1 .success]).capacity = some 0 ∧
    (run (init 3 (some 2) 0) [.start, .result 0 .success, .result 1 .success]).unhandled = 2 := by decide

/-- "never has more than the configured concurrency running at once": for every item count, every
    positive limit, every outcome assignment, every order of results / handled-jobs, and any number
    of reruns and retries. -/
theorem running_le_concurrency (n k r : Nat) (ops : List Op) :
    running (run (init n (some (k + 1)) r) ops) ≤ k + 1 := by
  have hi := cap_inv_reachable n (some (k + 1)) r ops
  generalize hs : run (init n (some (k + 1)) r) ops = s at hi
  have hspec : s.specConc = some (k + 1) := by rw [← hs, (run_spec _ ops).2]; rfl
  by_cases hidle : s.tstate = .idle
  · have := (hi.idle hidle).1
    simp [running, this]
  · have hcc := (hi.conc hidle).1
    rw [hspec] at hcc
    have hpc : policyConc (some (k + 1)) = some (k + 1) := by simp [policyConc, truthy]
    rw [hpc] at hcc
    obtain ⟨_, cap, _, hle, _, _⟩ := hi.lim (k + 1) hcc
    omega

/-- non-vacuity: the bound is reached (3 items, limit 2: two RUNNING after the start) -/
example : running (run (init 3 (some 2) 0) [.start]) = 2 := by decide

/-! ## "starts exactly one action per item index" -/

/-- (`inv_init`) the first-round invariant: execution `i` has index `i`, completed ⇒ accepted … -/
theorem fresh_inv_init (n : Nat) (c : Option Nat) : FreshInv (init n c 0) := freshInv_init n c

/-- (`inv_step`) preserved by every operation except `rerun` (no retry policy). -/
theorem fresh_inv_step (s : WI) (op : Op) (hc : CapInv s) (hf : FreshInv s) (hop : noRerun [op] = true) :
    FreshInv (step s op) := freshInv_step hc hf op hop

/-- (`inv_reachable`) -/
theorem fresh_inv_reachable (n : Nat) (c : Option Nat) (ops : List Op) (hop : noRerun ops = true) :
    FreshInv (run (init n c 0) ops) :=
  freshInv_run (capInv_init n c 0) (freshInv_init n c) ops hop

/-- (`inv_init`) invariant of ALL histories (reruns, retries included): every index has at most one
    execution that counts (accepted) or may still count (RUNNING); the indexes that occur are
    exactly `0..m-1` for a frontier `m ≤ n`. -/
theorem live_inv_init (n : Nat) (c : Option Nat) (r : Nat) : LiveInv (init n c r) := liveInv_init n c r

/-- (`inv_step`) -/
theorem live_inv_step (s : WI) (op : Op) (h : LiveInv s) : LiveInv (step s op) := liveInv_step h op

/-- (`inv_reachable`) -/
theorem live_inv_reachable (n : Nat) (c : Option Nat) (r : Nat) (ops : List Op) :
    LiveInv (run (init n c r) ops) := liveInv_run (liveInv_init n c r) ops

/-- "starts exactly one action per item index", full strength (true since the repository fix
    494951d1; before it the witness 3 items / concurrency 2 / rerun with reset started item 1
    twice — now the regression corpus/C07/k2_rerun_index_twice.json): in every reachable state,
    after any number of reruns (reset or not) and retries, no index has two executions that are
    accepted or RUNNING. -/
theorem index_started_once (n : Nat) (c : Option Nat) (r : Nat) (ops : List Op) (i : Nat) :
    liveCount (run (init n c r) ops) i ≤ 1 :=
  (live_inv_reachable n c r ops).uniq i

/-- … and no execution is ever created for an index outside `0..n-1`. -/
theorem index_in_range (n : Nat) (c : Option Nat) (r : Nat) (ops : List Op) :
    ∀ it ∈ (run (init n c r) ops).items, it.index < n := by
  intro it hit
  obtain ⟨m, hm, hlt, _⟩ := (live_inv_reachable n c r ops).front
  have h1 := hlt it.index (List.mem_map.mpr ⟨it, hit, rfl⟩)
  have h2 : (run (init n c r) ops).specCount = n := (run_spec _ ops).1
  omega

/-- non-vacuity / the former counter-witness: after the rerun round every index is live once -/
example : (List.range 3).map (liveCount (run (init 3 (some 2) 0)
    [.start, .result 0 .error, .result 1 .success, .handled, .handled, .result 2 .success, .handled,
     .rerun true, .result 3 .success, .handled])) = [1, 1, 1] := by decide

/-- In the first round (no rerun, no retry policy) moreover the k-th execution has index k. -/
theorem index_is_position_first_round (n : Nat) (c : Option Nat) (ops : List Op) (hop : noRerun ops = true)
    (s : WI) (hs : s = run (init n c 0) ops) :
    s.items.map (·.index) = List.range s.items.length ∧ (s.items.map (·.index)).Nodup ∧
    s.items.length ≤ n := by
  subst hs
  have hf := fresh_inv_reachable n c ops hop
  have hc := cap_inv_reachable n c 0 ops
  refine ⟨hf.idx, by rw [hf.idx]; exact List.nodup_range, ?_⟩
  by_cases hidle : (run (init n c 0) ops).tstate = .idle
  · have := (hc.idle hidle).1
    rw [this]; simp
  · have hp := (hc.conc hidle).2
    have h1 := hf.len hp
    have h2 := hf.cnt hp
    have h3 : (run (init n c 0) ops).specCount = n := (run_spec _ ops).1
    omega

/-- non-vacuity: 3 items, limit 2, out-of-order completion: indexes 0,1,2 once each -/
example : (run (init 3 (some 2) 0) [.start, .result 1 .success, .handled, .result 0 .error, .handled]).items.map (·.index)
    = [0, 1, 2] := by decide

/-! ## "completes only after every item has completed" -/

/-- FULL statement "a completed task has no RUNNING child" — FALSE of the code:
    `is_with_items_completed` returns True as soon as ONE accepted execution is CANCELLED.
    Witness: 2 items, item 0 cancelled and handled while item 1 is RUNNING. -/
theorem completes_iff_all_done_full_fails :
    ¬ (∀ (n : Nat) (c : Option Nat) (r : Nat) (ops : List Op),
        (run (init n c r) ops).tstate.completed = true → running (run (init n c r) ops) = 0) := by
  intro h
  have := h 2 none 0 [.start, .result 0 .cancelled, .handled]
  revert this
  decide

/-- PARTIAL, static form (excluded: an accepted CANCELLED execution; rerun/retry rounds, i.e.
    states outside `FreshInv`): `is_with_items_completed` ⇔ every index has an accepted completed
    execution, nothing is RUNNING, and (when a limit is set) the capacity is back to full, i.e.
    `on_action_complete` has run for every execution. -/
theorem completes_iff_all_done_partial (s : WI) (hf : FreshInv s) (hp : s.prepared = true)
    (hpos : 0 < s.count) (hnc : hasAccepted s .cancelled = false) :
    isCompleted s = true ↔
      ((∀ i, i < s.count → ∃ it ∈ s.items, it.index = i ∧ it.accepted = true ∧ it.completed = true) ∧
       running s = 0 ∧ (truthy s.concurrency = true → s.capacity = s.concurrency)) := by
  constructor
  · intro hic
    obtain ⟨hlen, hall⟩ := fresh_completed_all hf hp hnc hic
    refine ⟨?_, ?_, ?_⟩
    · intro i hi
      have hi' : i < s.items.length := by omega
      refine ⟨s.items[i], List.getElem_mem hi', ?_, hall _ (List.getElem_mem hi'), ?_⟩
      · have := congrArg (fun l => l[i]?) hf.idx
        simp [hi'] at this
        exact this
      · have := hf.acc _ (List.getElem_mem hi') (hall _ (List.getElem_mem hi'))
        simp [Item.completed, this]
    · unfold running
      rw [List.countP_eq_zero]
      intro it hit
      have := hf.acc it hit (hall it hit)
      simp [this]
    · intro ht
      simp only [isCompleted, hnc, Bool.false_or, Bool.and_eq_true, Bool.or_eq_true,
        Bool.not_eq_true'] at hic
      rcases hic.2 with h | h
      · rw [h] at ht; simp at ht
      · simpa using h
  · rintro ⟨hall, _, hcap⟩
    have hlen : s.items.length = s.count := by
      have h1 := hf.len hp
      obtain ⟨it, hit, hidx, _, _⟩ := hall (s.count - 1) (by omega)
      obtain ⟨j, hj, hjeq⟩ := List.getElem_of_mem hit
      have := congrArg (fun l => l[j]?) hf.idx
      simp [hj] at this
      rw [hjeq, hidx] at this
      omega
    have hacc : acceptedCount s = s.items.length := by
      unfold acceptedCount
      rw [List.countP_eq_length]
      intro it hit
      obtain ⟨j, hj, hjeq⟩ := List.getElem_of_mem hit
      obtain ⟨it', hit', hidx', hacc', _⟩ := hall j (by omega)
      obtain ⟨j', hj', hjeq'⟩ := List.getElem_of_mem hit'
      have h1 := congrArg (fun l => l[j']?) hf.idx
      simp [hj'] at h1
      rw [hjeq', hidx'] at h1
      subst h1
      rw [← hjeq, hjeq']; exact hacc'
    simp only [isCompleted, hnc, Bool.false_or, Bool.and_eq_true, beq_iff_eq, Bool.or_eq_true,
      Bool.not_eq_true']
    refine ⟨by rw [hacc, hlen]; split <;> omega, ?_⟩
    cases ht : truthy s.concurrency with
    | false => left; rfl
    | true => right; simpa using hcap ht

/-- PARTIAL, along every first-round history (excluded: rerun, retry policy, CANCELLED outcome of
    the task): a task that reached SUCCESS or ERROR has exactly one execution per index
    0..n-1, all accepted and completed, and no RUNNING child. -/
theorem completed_means_all_done_partial (n : Nat) (c : Option Nat) (ops : List Op)
    (hop : noRerun ops = true)
    (hdone : (run (init n c 0) ops).tstate = .success ∨ (run (init n c 0) ops).tstate = .error)
    (s : WI) (hs : s = run (init n c 0) ops) :
    s.items.map (·.index) = List.range s.count ∧ (∀ it ∈ s.items, it.accepted = true ∧ it.completed = true) ∧
    running s = 0 := by
  subst hs
  have hf := fresh_inv_reachable n c ops hop
  obtain ⟨hlen, hall⟩ := hf.done hdone
  refine ⟨by rw [hf.idx, hlen], ?_, ?_⟩
  · intro it hit
    have := hf.acc it hit (hall it hit)
    exact ⟨hall it hit, by simp [Item.completed, this]⟩
  · unfold running
    rw [List.countP_eq_zero]
    intro it hit
    have := hf.acc it hit (hall it hit)
    simp [this]

/-- non-vacuity: a first-round history ending in ERROR -/
example : (run (init 2 (some 1) 0) [.start, .result 0 .error, .handled, .result 1 .success, .handled]).tstate
    = .error := by decide

/-! ## "Its result lists the item results in item order regardless of completion order" -/

/-- the result list is ordered by item index — in every state. -/
theorem result_in_index_order (s : WI) : (resultList s).Pairwise (fun a b => a.1 ≤ b.1) :=
  sortByIndex_sorted _

/-- … and consists of exactly the accepted executions. -/
theorem result_is_accepted (s : WI) : (resultList s).Perm (acceptedPairs s) := sortByIndex_perm _

/-- In the first round, whatever the completion order (`ops` arbitrary), the result of a
    SUCCESS/ERROR task is execution 0, 1, …, n-1 in this order (index i at place i). -/
theorem result_regardless_of_completion_order (n : Nat) (c : Option Nat) (ops : List Op)
    (hop : noRerun ops = true)
    (hdone : (run (init n c 0) ops).tstate = .success ∨ (run (init n c 0) ops).tstate = .error) :
    (resultList (run (init n c 0) ops)).map (·.1) = List.range (run (init n c 0) ops).count := by
  have hf := fresh_inv_reachable n c ops hop
  obtain ⟨hlen, hall⟩ := hf.done hdone
  generalize run (init n c 0) ops = s at hf hlen hall
  have hfil : (s.items.zipIdx).filter (fun p => p.1.accepted) = s.items.zipIdx := by
    rw [List.filter_eq_self]
    intro p hp
    exact hall p.1 (List.mem_zipIdx_iff_getElem?.mp hp |> fun h => List.mem_of_getElem? (by simpa using h))
  have hmap : (acceptedPairs s).map (·.1) = List.range s.count := by
    unfold acceptedPairs
    rw [hfil, List.map_map]
    have : ((fun x : Nat × Nat => x.1) ∘ fun p : Item × Nat => (p.1.index, p.2)) = (fun p => p.1.index) := rfl
    rw [this]
    have : List.map (fun p : Item × Nat => p.1.index) s.items.zipIdx = s.items.map (·.index) := by
      have h1 : (fun p : Item × Nat => p.1.index) = (fun it : Item => it.index) ∘ Prod.fst := rfl
      rw [h1, ← List.map_map, List.zipIdx_map_fst]
    rw [this, hf.idx, hlen]
  have hsorted : (acceptedPairs s).Pairwise (fun a b => a.1 ≤ b.1) := by
    have := List.pairwise_lt_range (n := s.count)
    rw [← hmap, List.pairwise_map] at this
    exact this.imp (fun h => Nat.le_of_lt h)
  unfold resultList
  rw [sortByIndex_of_sorted hsorted, hmap]

/-- non-vacuity + concrete instance: items complete in the order 2,0,1; result in the order 0,1,2 -/
example : (resultList (run (init 3 none 0)
    [.start, .result 2 .success, .result 0 .success, .result 1 .success, .handled])).map (·.1) = [0, 1, 2] := by
  decide

/-! ## "it is ERROR if any item failed, CANCELLED if any was cancelled, SUCCESS otherwise" -/

/-- `_get_final_state`: CANCELLED has priority over ERROR (the statement leaves the priority open;
    the code picks CANCELLED). -/
theorem final_state_rule (s : WI) :
    (finalState s = .cancelled ↔ hasAccepted s .cancelled = true) ∧
    (finalState s = .error ↔ hasAccepted s .cancelled = false ∧ hasAccepted s .error = true) ∧
    (finalState s = .success ↔ hasAccepted s .cancelled = false ∧ hasAccepted s .error = false) := by
  unfold finalState
  cases h1 : hasAccepted s .cancelled <;> cases h2 : hasAccepted s .error <;> simp

/-- Along every first-round history a completed task is in the state the rule prescribes for its
    accepted executions — also after late results of a task that completed early as CANCELLED. -/
theorem task_state_follows_rule (n : Nat) (c : Option Nat) (ops : List Op) (hop : noRerun ops = true)
    (hdone : (run (init n c 0) ops).tstate.completed = true) :
    (run (init n c 0) ops).tstate = finalState (run (init n c 0) ops) :=
  (fresh_inv_reachable n c ops hop).fin hdone

example : finalState (run (init 2 none 0) [.start, .result 0 .error, .result 1 .cancelled]) = .cancelled := by
  decide

/-! ## "an empty list succeeds at once" -/

/-- for every concurrency value and retry count: the start transaction itself completes the task
    with SUCCESS and creates no execution. -/
theorem empty_succeeds (c : Option Nat) (r : Nat) :
    (step (init 0 c r) .start).tstate = .success ∧ (step (init 0 c r) .start).items = [] := by
  rcases policyConc_cases c with h | ⟨k, h⟩ <;>
    simp [step, init, scheduleActions, scheduleBody, prepare, nextIndexes, indices, candidates,
      unacceptedIdx, takenIdx, sortDedup, nextStartIndex, rangeFromTo, takeCap, h, complete, TSt.completed]

/-! ## "a partial rerun re-executes only the failed items" -/

/-- what a rerun transaction does: the old executions are reset, one RUNNING execution is created
    for every index of `rerunStarted`. -/
theorem rerun_creates (s : WI) (reset : Bool) (he : s.tstate = .error) (hne : rerunStarted s reset ≠ []) :
    (step s (.rerun reset)).items = resetActions reset s.items ++
      (rerunStarted s reset).map (fun i => { index := i, state := .running, accepted := false }) :=
  step_rerun_items reset he hne

/-- "a partial rerun re-executes only the failed items", full strength (true since the repository
    fix 494951d1; before it the witness 3 items / item 0 failed restarted 0,1,2 — now the regression
    corpus/C07/k1_rerun_reexecutes_succeeded.json): in every reachable state a rerun with
    reset=false creates executions only for indexes WITHOUT an accepted SUCCESS. -/
theorem rerun_only_failed (n : Nat) (c : Option Nat) (r : Nat) (ops : List Op) :
    ∀ i ∈ rerunStarted (run (init n c r) ops) false, succeeded (run (init n c r) ops) i = false := by
  intro i hi
  have hL := live_inv_reachable n c r ops
  generalize run (init n c r) ops = s at hL hi
  -- the state in which the rerun transaction computes the indexes satisfies the invariant too
  have hP : LiveInv (rerunPrepared s false) ∧ (rerunPrepared s false).prepared = true := by
    refine ⟨?_, by simp [rerunPrepared, prepare]⟩
    exact liveInv_map (s := s) (resetOne false) (by rw [rerunPrepared_items, resetActions_eq])
      (resetOne_index false) (resetOne_live false) (by simp [rerunPrepared, prepare])
      (fun _ => by simp [rerunPrepared, prepare]) hL
  obtain ⟨m, hm, hlt, hall⟩ := hP.1.front
  have hcnt := hP.1.cnt hP.2
  have hidx := indices_eq hP.1.uniq (by omega) hlt hall
  have hmem := mem_takeCap hi
  rw [hidx, List.mem_append] at hmem
  rcases hmem with h | h
  · exact (rerun_false_candidate_failed s i h).2
  · rw [List.mem_range'_1] at h
    rw [Bool.eq_false_iff]
    intro hs
    obtain ⟨it, hit, hp⟩ := List.any_eq_true.mp hs
    simp only [Bool.and_eq_true, beq_iff_eq] at hp
    have : i ∈ allIdx (rerunPrepared s false) := by
      unfold allIdx
      rw [rerunPrepared_items, resetActions_eq, List.map_map]
      exact List.mem_map.mpr ⟨it, hit, by simp [Function.comp, resetOne_index, hp.1]⟩
    have := hlt i this
    omega

/-- … and never for an index whose execution is accepted or still RUNNING, nor twice. -/
theorem rerun_starts_each_once (n : Nat) (c : Option Nat) (r : Nat) (ops : List Op) (reset : Bool) (i : Nat) :
    liveCount (step (run (init n c r) ops) (.rerun reset)) i ≤ 1 :=
  (live_inv_step _ (.rerun reset) (live_inv_reachable n c r ops)).uniq i

/-- the former counter-witness: item 0 of 3 failed, 1 and 2 succeeded: only item 0 restarts -/
example : rerunStarted (run (init 3 none 0)
    [.start, .result 0 .error, .result 1 .success, .result 2 .success, .handled]) false = [0] := by decide

/-- non-vacuity: items 0 and 2 of 3 failed: exactly 0 and 2 restart -/
example : rerunStarted (run (init 3 none 0)
    [.start, .result 0 .error, .result 1 .success, .result 2 .error, .handled]) false = [0, 2] := by decide

/-- "reset = true: all are re-executed": after a first round that ended in ERROR, a rerun with
    reset un-accepts every execution and starts the items from index 0 again, `concurrency` at a
    time (all of them when there is no limit). -/
theorem rerun_reset_restarts_all (n : Nat) (c : Option Nat) (ops : List Op) (hop : noRerun ops = true)
    (herr : (run (init n c 0) ops).tstate = .error) :
    rerunStarted (run (init n c 0) ops) true = takeCap (policyConc c) (List.range n) ∧
    (∀ it ∈ (step (run (init n c 0) ops) (.rerun true)).items, it.accepted = false) := by
  have hf := fresh_inv_reachable n c ops hop
  have hc := cap_inv_reachable n c 0 ops
  have hspec : (run (init n c 0) ops).specCount = n ∧ (run (init n c 0) ops).specConc = c :=
    run_spec _ ops
  generalize run (init n c 0) ops = s at hf hc herr hspec
  obtain ⟨hlen, hall⟩ := hf.done (Or.inr herr)
  have hne : s.tstate ≠ .idle := by rw [herr]; simp
  have hcnt : s.count = n := by rw [hf.cnt (hc.conc hne).2]; exact hspec.1
  -- every execution is completed; after the reset none is accepted
  have hcompl : ∀ it ∈ s.items, it.completed = true := by
    intro it hit
    have := hf.acc it hit (hall it hit)
    simp [Item.completed, this]
  have hacc : takenIdx (rerunPrepared s true) = [] := by
    unfold takenIdx
    rw [rerunPrepared_items, resetActions_eq]
    simp only [List.map_eq_nil_iff, List.filter_eq_nil_iff, List.mem_map]
    rintro x ⟨it, hit, rfl⟩
    have hc := hcompl it hit
    obtain ⟨i0, st, a⟩ := it
    cases st <;> simp_all [resetOne, Item.completed]
  have hun : unacceptedIdx (rerunPrepared s true) = List.range n := by
    unfold unacceptedIdx
    rw [rerunPrepared_items, resetActions_eq]
    have hfil : (s.items.map (resetOne true)).filter (fun it => !it.accepted && it.completed)
        = s.items.map (resetOne true) := by
      rw [List.filter_eq_self]
      rintro x hx
      obtain ⟨it, hit, rfl⟩ := List.mem_map.mp hx
      rw [(resetOne_true_props it).2.2]; exact hcompl it hit
    rw [hfil, List.map_map]
    have : ((fun x : Item => x.index) ∘ resetOne true) = (fun x => x.index) := by
      funext it; exact (resetOne_true_props it).1
    rw [this, hf.idx, hlen, hcnt]
  have hcand : candidates (rerunPrepared s true) = List.range n := by
    unfold candidates
    rw [hacc, hun]
    have : List.filter (fun i => !([] : List Nat).contains i) (List.range n) = List.range n := by simp
    rw [this]
    exact sortDedup_of_sorted List.pairwise_lt_range
  constructor
  · unfold rerunStarted nextIndexes
    rw [rerunPrepared_capacity, hspec.2]
    congr 1
    unfold indices
    rw [hcand, rerunPrepared_count, hspec.1]
    cases hn : n with
    | zero => simp [rangeFromTo, nextStartIndex, rerunPrepared_items, resetActions_eq]
    | succ m =>
      have : (List.range (m + 1)).getLast? = some m := by
        simp [List.range_succ]
      simp [this]
  · intro it hit
    by_cases hst : rerunStarted s true = []
    · -- nothing to start: only possible for n = 0; the executions are still all reset
      simp only [step, herr, if_true, scheduleActions, scheduleBody] at hit
      simp only [rerunStarted, rerunPrepared] at hst
      simp only [prepare, Bool.false_eq_true, if_false] at hst hit
      simp only [hst, List.isEmpty_nil, if_true] at hit
      have hitems := (congrArg WI.items (complete_noretry (s := { s with
          tstate := .running, prepared := true, count := s.specCount, capacity := policyConc s.specConc,
          retryNo := 0, concurrency := policyConc s.specConc, items := resetActions true s.items })
          .success (by simp [TSt.completed]) hf.nor))
      rw [hitems] at hit
      simp only [resetActions_eq] at hit
      obtain ⟨it0, _, rfl⟩ := List.mem_map.mp hit
      simp [resetOne]
    · rw [step_rerun_items true herr hst] at hit
      rw [List.mem_append] at hit
      rcases hit with h | h
      · rw [resetActions_eq] at h
        obtain ⟨it0, _, rfl⟩ := List.mem_map.mp h
        simp [resetOne]
      · obtain ⟨j, _, rfl⟩ := List.mem_map.mp h
        rfl

/-- non-vacuity: 3 items, limit 2, item 0 failed; rerun with reset starts items 0 and 1 -/
example : rerunStarted (run (init 3 (some 2) 0)
    [.start, .result 0 .error, .result 1 .success, .handled, .handled, .result 2 .success, .handled]) true
    = [0, 1] := by decide

/-! ## evaluation of the items, of the per-item input and of `concurrency`

`run` / `step` above are the histories in which every evaluation succeeds: `runE {} = run`
(`eval_clean_is_run`).  `runE e` / `stepE e` (Model/WithItems.lean, `EvalSpec`) are ALL histories:
`e.itemsOk` (the `with-items` expression yields iterables of one length), `e.concOk` (`concurrency`
is a non-negative integer), `e.badInputs` (item indexes whose action input fails to evaluate).
The theorems below quantify over every `e`, item count, concurrency, retry count, operation
sequence. -/

/-- the theorems above are about the evaluation-clean histories of the full model -/
theorem eval_clean_is_run (s : WI) (ops : List Op) : runE {} s ops = run s ops := runE_clean s ops

/-- "starts exactly one action … per item index", failure side: a scheduling round (of the start,
    a completion job, a rerun or a retry transaction) in which the input of some item of the
    portion fails to evaluate schedules NO action of that round — the inputs of the whole portion
    are evaluated before the first action is scheduled — and the task becomes ERROR; the RUNNING
    children and pending completions it had before are untouched, none is added -/
theorem input_failure_starts_nothing (e : EvalSpec) (s : WI) (hi : e.itemsOk = true)
    (hf : inputFails e (!s.prepared) (prepare s) = true) :
    (scheduleEval e s).items = s.items ∧ (scheduleEval e s).tstate = .error ∧
      running (scheduleEval e s) = running s ∧ (scheduleEval e s).unhandled = s.unhandled :=
  scheduleEval_input_failure e s hi hf

/-- … in particular in the start transaction: nothing is started at all -/
theorem input_failure_at_start_starts_nothing (e : EvalSpec) (n : Nat) (c : Option Nat) (r : Nat)
    (hi : e.itemsOk = true) (hc : e.concOk = true)
    (hf : inputFails e true (prepare { init n c r with tstate := .running, concurrency := policyConc c }) = true) :
    (stepE e (init n c r) .start).items = [] ∧ (stepE e (init n c r) .start).tstate = .error := by
  have h := scheduleEval_input_failure e { init n c r with tstate := .running, concurrency := policyConc c } hi
    (by simpa [init] using hf)
  simp only [stepE, init, hc] at h ⊢
  exact ⟨h.1, h.2.1⟩

-- non-vacuity: 4 items, the input of item 2 fails: nothing starts, with or without a limit (since
-- the repository fix the inputs of ALL items are checked when the task is (re)started; before it,
-- under limit 2, items 0 and 1 started and the task failed in the round that reached item 2)
example : (stepE { badInputs := [2] } (init 4 none 0) .start).items = [] ∧
    (stepE { badInputs := [2] } (init 4 none 0) .start).tstate = .error ∧
    (stepE { badInputs := [2] } (init 4 (some 2) 0) .start).items = [] ∧
    (stepE { badInputs := [2] } (init 4 (some 2) 0) .start).tstate = .error ∧
    (runE { badInputs := [2] } (init 4 (some 2) 0) [.start, .rerun true, .rerun false]).items = [] := by
  decide

/-- a transaction that creates action executions never completes their task: whenever an operation
    adds executions, the task is not completed at the end of that transaction (this is what the
    lazily-evaluating variant of `_schedule_actions` breaks: it starts items 0..k-1 and fails the
    task in the same transaction) -/
theorem created_only_while_task_open (e : EvalSpec) (s : WI) (op : Op)
    (h : s.items.length < (stepE e s op).items.length) : (stepE e s op).tstate.completed = false :=
  stepE_created_not_completed e s op h

/-- no action execution is created for a task that is already completed — in every state of every
    history, for every operation other than an explicit rerun -/
theorem completed_task_has_no_running_child_started_later (e : EvalSpec) (n : Nat) (c : Option Nat) (r : Nat)
    (ops : List Op) (op : Op) (hc : (runE e (init n c r) ops).tstate.completed = true)
    (hop : ∀ reset, op ≠ .rerun reset) :
    (stepE e (runE e (init n c r) ops) op).items.length = (runE e (init n c r) ops).items.length :=
  stepE_completed_creates_nothing e _ op hc hop

example : (runE { badInputs := [0] } (init 2 none 0) [.start]).tstate.completed = true := by decide

/-- unequal item lists / a non-iterable value / a failing items expression (`itemsOk = false`), or
    an ill-typed `concurrency` (`concOk = false`): a declared error, the task is ERROR after the start
    transaction, not even the runtime context is prepared, and NOTHING is ever started — by no
    operation sequence, reruns included -/
theorem unevaluable_items_start_nothing (e : EvalSpec) (he : e.itemsOk = false ∨ e.concOk = false)
    (n : Nat) (c : Option Nat) (r : Nat) (ops : List Op) :
    (runE e (init n c r) ops).items = [] ∧ (runE e (init n c r) ops).unhandled = 0 ∧
      ((runE e (init n c r) ops).tstate = .idle ∨ (runE e (init n c r) ops).tstate = .error) :=
  dead_runE e he (dead_init n c r) ops

theorem unequal_lists_fail_at_start (e : EvalSpec) (he : e.itemsOk = false ∨ e.concOk = false)
    (n : Nat) (c : Option Nat) (r : Nat) :
    (stepE e (init n c r) .start).tstate = .error ∧ (stepE e (init n c r) .start).items = [] ∧
      (stepE e (init n c r) .start).prepared = false := by
  rcases he with h | h
  · by_cases hc : e.concOk = true
    · simp [stepE, init, hc, scheduleEval, h, failTask]
    · simp [stepE, init, hc, failTask]
  · simp [stepE, init, h, failTask]

example : (runE { itemsOk := false } (init 3 (some 2) 1) [.start, .rerun true, .handled]).items = [] := by decide

/-- "starts exactly one action per item index" for ALL failure tables: no index ever has two
    accepted-or-RUNNING executions, and no execution is created for an index ≥ n -/
theorem index_started_once_all_tables (e : EvalSpec) (n : Nat) (c : Option Nat) (r : Nat) (ops : List Op) (i : Nat) :
    liveCount (runE e (init n c r) ops) i ≤ 1 :=
  (liveInv_runE e (liveInv_init n c r) ops).uniq i

theorem index_in_range_all_tables (e : EvalSpec) (n : Nat) (c : Option Nat) (r : Nat) (ops : List Op) :
    ∀ it ∈ (runE e (init n c r) ops).items, it.index < n := by
  intro it hit
  obtain ⟨m, hm, hlt, _⟩ := (liveInv_runE e (liveInv_init n c r) ops).front
  have h1 := hlt it.index (List.mem_map.mpr ⟨it, hit, rfl⟩)
  have h2 : (runE e (init n c r) ops).specCount = n := by
    have : ∀ (s : WI) (ops : List Op), (runE e s ops).specCount = s.specCount := by
      intro s ops
      induction ops generalizing s with
      | nil => rfl
      | cons o os ih =>
        show (runE e (stepE e s o) os).specCount = s.specCount
        rw [ih]
        cases o <;> simp only [stepE]
        · split
          · split
            · rfl
            · unfold scheduleEval; split
              · rfl
              · split
                · simp [failTask, prepare]; split <;> rfl
                · exact (scheduleActions_spec _).1
          · rfl
        · exact (step_spec s _).1
        · split
          · rfl
          · unfold onActionCompleteE; split
            · rfl
            · have g : (increaseCapacity { s with unhandled := s.unhandled - 1 }).specCount = s.specCount :=
                (increaseCapacity_fields _).2.2.2.2.1
              simp only []
              split
              · rw [(complete_fields _ _).2.2.2.2.2.2.1]; exact g
              · split
                · unfold scheduleEval; split
                  · exact g
                  · split
                    · simp only [failTask]; unfold prepare; split <;> exact g
                    · rw [(scheduleActions_spec _).1]; exact g
                · exact g
        · split
          · split
            · rfl
            · unfold scheduleEval; split
              · rfl
              · split
                · simp only [failTask]; unfold prepare; split <;> rfl
                · exact (scheduleActions_spec _).1
          · rfl
        · split
          · unfold scheduleEval; split
            · rfl
            · split
              · simp only [failTask]; unfold prepare; split <;> rfl
              · exact (scheduleActions_spec _).1
          · rfl
    rw [this]; rfl
  omega

/-- Every failure table is of one of two kinds: something below `n` cannot be evaluated (the items
    expression, `concurrency`, or the input of an item) — then NOTHING is ever started, by no
    operation sequence; or nothing can fail — then the history is the evaluation-clean one.  (True
    since the repository fix "a with-items task checks the inputs of all items before it starts any
    of them": before it an input could fail in a later concurrency round.) -/
theorem eval_failure_or_clean (e : EvalSpec) (n : Nat) (c : Option Nat) (r : Nat) (ops : List Op) :
    (runE e (init n c r) ops).items = [] ∨ runE e (init n c r) ops = run (init n c r) ops :=
  runE_cases e n c r ops

/-- "never has more than the configured concurrency running at once" at FULL strength over all
    failure tables (the former counter-witness — limit 2, items 0..3, the input of item 3 fails in
    the round that reaches it while item 2 is RUNNING, rerun with reset → 3 RUNNING — is a regression
    in corpus/C07: nothing is started any more) -/
theorem running_le_concurrency_all_tables (e : EvalSpec) (n k r : Nat) (ops : List Op) :
    running (runE e (init n (some (k + 1)) r) ops) ≤ k + 1 := by
  rcases runE_cases e n (some (k + 1)) r ops with h | h
  · simp [running, h]
  · rw [h]; exact running_le_concurrency n k r ops

example : running (runE { badInputs := [3] } (init 4 (some 2) 0)
    [.start, .result 0 .success, .handled, .result 1 .success, .handled, .rerun true]) = 0 ∧
    running (runE { badInputs := [7] } (init 4 (some 2) 0) [.start, .result 0 .success, .handled]) = 2 := by decide

/-- "completes only after every item has completed", failure side, at FULL strength (under a limit):
    an ERROR task has no RUNNING child, for every failure table (the former counter-witness — a
    later-round input failure with a RUNNING sibling — is a regression in corpus/C07) -/
theorem error_task_has_no_running_child (e : EvalSpec) (n k r : Nat) (ops : List Op)
    (herr : (runE e (init n (some (k + 1)) r) ops).tstate = .error) :
    running (runE e (init n (some (k + 1)) r) ops) = 0 := by
  rcases runE_cases e n (some (k + 1)) r ops with h | h
  · simp [running, h]
  · rw [h] at herr ⊢
    have hi := cap_inv_reachable n (some (k + 1)) r ops
    have hconc := (hi.conc (by rw [herr]; simp)).1
    rw [(run_spec _ ops).2] at hconc
    have hp : policyConc (init n (some (k + 1)) r).specConc = some (k + 1) := by simp [init, policyConc, truthy]
    obtain ⟨_, cap, _, _, _, hz⟩ := hi.lim (k + 1) (by rw [hconc, hp])
    exact (hz (Or.inr (Or.inr herr))).1

example : (runE { badInputs := [3] } (init 4 (some 2) 0) [.start]).tstate = .error := by decide

end Mistral.Props.C07
