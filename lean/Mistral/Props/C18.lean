/-
C18 — The expiration policy deletes only what it is configured to delete.

Property theorems only.  Model: Mistral/Model/Expire.lean (tied to
mistral/services/expiration_policy.py and the db-api queries by the `expire`
correspondence streams); `terminalStates` and the option defaults are
regenerated from /repo on every run (Tie A, Mistral/Gen/ExpireDefaults.lean).

Throughout: `pop` is the population before the evaluation (any rows of the three
execution tables, any states / ages / projects / nesting), `cfg` any configuration
(options may be unset), `env` says which deletes raise, `now` is the clock, `fuel`
bounds the `while True` loops, and
  `after := (evaluate cfg env now fuel pop).pop`
is what is committed when the evaluation ends — normally, by an exception (a failing
delete), or by running out of fuel.  `UniqueIds pop` is primary-key uniqueness.
-/
import Mistral.Model.Expire
import Mistral.Lemmas.Expire
import Mistral.Gen.ExpireDefaults

namespace Mistral.Props.C18
open Mistral.Expire Mistral.Gen.ExpireDefaults

/-- a population used by the non-vacuity examples: an old finished root (1) with a task (2), an
    action (3) and a RUNNING sub-execution (4) with its own task (5); a RUNNING root (6); a PAUSED
    root (7); three finished roots of decreasing age (8, 9, 10; 9 and 10 tie); an ad-hoc action (11) -/
def demoPop : Pop := [
  { id := 1, kind := .wf, parent := none, state := "SUCCESS", updatedAt := -4000, project := 0 },
  { id := 2, kind := .task, parent := some 1, state := "SUCCESS", updatedAt := -4000, project := 0 },
  { id := 3, kind := .action, parent := some 2, state := "SUCCESS", updatedAt := -4000, project := 0 },
  { id := 4, kind := .wf, parent := some 2, state := "RUNNING", updatedAt := -10, project := 1 },
  { id := 5, kind := .task, parent := some 4, state := "RUNNING", updatedAt := -10, project := 1 },
  { id := 6, kind := .wf, parent := none, state := "RUNNING", updatedAt := -9000, project := 0 },
  { id := 7, kind := .wf, parent := none, state := "PAUSED", updatedAt := -9000, project := 2 },
  { id := 8, kind := .wf, parent := none, state := "ERROR", updatedAt := -300, project := 1 },
  { id := 9, kind := .wf, parent := none, state := "CANCELLED", updatedAt := -100, project := 2 },
  { id := 10, kind := .wf, parent := none, state := "SUCCESS", updatedAt := -100, project := 0 },
  { id := 11, kind := .action, parent := none, state := "SUCCESS", updatedAt := -9000, project := 0 }]

def demoCfg : Config :=
  { evaluationInterval := some 1, olderThan := some 60, maxFinished := some 2, batchSize := 1,
    ignoredStates := [] }

def noFaults : Env := { failing := [] }

/-- non-vacuity: on `demoPop` the model runs both loops in several batches, ends normally, removes
    the old root 1 with its whole subtree (incl. the RUNNING sub-execution 4) by age and root 8 as
    superfluous, keeps the RUNNING/PAUSED roots, the two newest finished roots and the ad-hoc action. -/
example : (evaluate demoCfg noFaults 0 12 demoPop).pop.map (·.id) = [6, 7, 9, 10, 11] := by decide
example : evaluate demoCfg noFaults 0 12 demoPop = .ok (evaluate demoCfg noFaults 0 12 demoPop).pop := by decide
example : UniqueIds demoPop := by decide

/-- "removes only finished (SUCCESS/ERROR/CANCELLED, minus configured ignored states) root
    executions that are older than the configured age or beyond the configured number of most
    recent finished executions, together with their own sub-executions, tasks and actions":
    every row that disappears lies in the subtree (`Desc`, along the cascading foreign keys)
    of a removed row that meets the selection criterion `Selected` (spelled out by
    `selected_spelled_out`). -/
theorem deleted_subset_eligible (cfg : Config) (env : Env) (now : Int) (fuel : Nat) (pop : Pop)
    (n : Node) (hn : n ∈ pop) (hgone : n ∉ (evaluate cfg env now fuel pop).pop) :
    ∃ r ∈ pop, r ∉ (evaluate cfg env now fuel pop).pop ∧ Selected cfg now pop r ∧
      Desc pop r.id n.id :=
  (evaluate_inv cfg env now fuel pop).del n hn hgone

/-- what `Selected` says, in the words of the statement -/
theorem selected_spelled_out (cfg : Config) (now : Int) (pop : Pop) (r : Node)
    (h : Selected cfg now pop r) :
    r.kind = .wf ∧ r.parent = none ∧ r.state ∈ terminalStates ∧ r.state ∉ cfg.ignoredStates ∧
    ((∃ ot, cfg.olderThan = some ot ∧ r.updatedAt < now - ot * 60) ∨
     (∃ m, cfg.maxFinished = some m ∧ 0 < m ∧
        m + 1 ≤ pop.countP (fun k => eligible cfg k && decide (r.updatedAt ≤ k.updatedAt)))) := by
  obtain ⟨he, hwhy⟩ := h
  have hroot := eligible_root he
  unfold eligible isRoot desired at he
  simp only [Bool.and_eq_true, beq_iff_eq, List.contains_eq_mem, List.mem_filter,
    Bool.not_eq_true', decide_eq_true_eq, decide_eq_false_iff_not] at he
  exact ⟨he.1.1, hroot, he.2.1, he.2.2, hwhy⟩

/-- a removed top-level row (no parent) is itself selected: nothing else is ever picked -/
theorem deleted_root_is_selected (cfg : Config) (env : Env) (now : Int) (fuel : Nat) (pop : Pop)
    (hu : UniqueIds pop) (n : Node) (hn : n ∈ pop) (hroot : n.parent = none)
    (hgone : n ∉ (evaluate cfg env now fuel pop).pop) : Selected cfg now pop n := by
  obtain ⟨r, hr, _, hsel, hd⟩ := deleted_subset_eligible cfg env now fuel pop n hn hgone
  have hid := hd.root_eq hu n hn rfl hroot
  have := unique_of_id hu hn hr hid
  subst this
  exact hsel

example : ∃ n ∈ demoPop, n ∉ (evaluate demoCfg noFaults 0 12 demoPop).pop ∧ n.parent = none :=
  ⟨demoPop[0], by decide, by decide, by decide⟩

/-- "It never deletes a running or paused execution": the generated `TERMINAL_STATES` contain
    neither RUNNING nor PAUSED nor IDLE (Tie A) ... -/
theorem terminal_states_exclude_active :
    stRunning ∉ terminalStates ∧ stPaused ∉ terminalStates ∧ stIdle ∉ terminalStates := by
  decide

/-- ... hence a removed root execution is never RUNNING, PAUSED or IDLE (its state is one of the
    terminal states and not an ignored one) ... -/
theorem never_running_or_paused (cfg : Config) (env : Env) (now : Int) (fuel : Nat) (pop : Pop)
    (hu : UniqueIds pop) (n : Node) (hn : n ∈ pop) (hroot : n.parent = none)
    (hgone : n ∉ (evaluate cfg env now fuel pop).pop) :
    n.state ∈ terminalStates ∧ n.state ∉ cfg.ignoredStates ∧
    n.state ≠ stRunning ∧ n.state ≠ stPaused ∧ n.state ≠ stIdle := by
  have hs := selected_spelled_out cfg now pop n
    (deleted_root_is_selected cfg env now fuel pop hu n hn hroot hgone)
  obtain ⟨h1, h2, h3⟩ := terminal_states_exclude_active
  refine ⟨hs.2.2.1, hs.2.2.2.1, ?_, ?_, ?_⟩ <;> intro heq <;> rw [heq] at hs
  · exact h1 hs.2.2.1
  · exact h2 hs.2.2.1
  · exact h3 hs.2.2.1

/-- ... and a removed row in a non-terminal state (RUNNING, PAUSED, ...) is never picked by the
    policy: it has a parent and lies strictly inside the tree of a removed *finished* root, i.e.
    it goes as one of "their own sub-executions, tasks and actions". -/
theorem running_or_paused_only_inside_finished_tree (cfg : Config) (env : Env) (now : Int)
    (fuel : Nat) (pop : Pop) (hu : UniqueIds pop) (n : Node) (hn : n ∈ pop)
    (hstate : n.state ∉ terminalStates) (hgone : n ∉ (evaluate cfg env now fuel pop).pop) :
    n.parent ≠ none ∧ ∃ r ∈ pop, r ≠ n ∧ r.state ∈ terminalStates ∧
      r ∉ (evaluate cfg env now fuel pop).pop ∧ Selected cfg now pop r ∧ Desc pop r.id n.id := by
  obtain ⟨r, hr, hrg, hsel, hd⟩ := deleted_subset_eligible cfg env now fuel pop n hn hgone
  have hrs := (selected_spelled_out cfg now pop r hsel).2.2.1
  have hne : r ≠ n := by intro h; subst h; exact hstate hrs
  refine ⟨?_, r, hr, hne, hrs, hrg, hsel, hd⟩
  intro hroot
  exact hne (unique_of_id hu hr hn (hd.root_eq hu n hn rfl hroot).symm)

/-- the situation of the previous theorem does occur (a RUNNING sub-execution of a finished root
    goes with the root) -/
example : ∃ n ∈ demoPop, n.state = stRunning ∧ n ∉ (evaluate demoCfg noFaults 0 12 demoPop).pop :=
  ⟨demoPop[3], by decide, by decide, by decide⟩

/-- "[never deletes] a sub-execution on its own": a row that has a parent disappears only if its
    parent row disappears in the same evaluation. -/
theorem no_lone_subexecution (cfg : Config) (env : Env) (now : Int) (fuel : Nat) (pop : Pop)
    (hu : UniqueIds pop) (n : Node) (hn : n ∈ pop) (p : Nat) (hp : n.parent = some p)
    (hgone : n ∉ (evaluate cfg env now fuel pop).pop) :
    ∃ pn ∈ pop, pn.id = p ∧ pn ∉ (evaluate cfg env now fuel pop).pop := by
  have inv := evaluate_inv cfg env now fuel pop
  obtain ⟨r, hr, hrg, hsel, hd⟩ := inv.del n hn hgone
  generalize hx : n.id = x at hd
  cases hd with
  | self =>
    have := unique_of_id hu hn hr hx
    subst this
    have := eligible_root hsel.1
    rw [this] at hp
    cases hp
  | child hn' hp' hd' =>
    rename_i n' p'
    have := unique_of_id hu hn hn' hx
    subst this
    rw [hp] at hp'
    cases hp'
    obtain ⟨pn, hpn, hpid⟩ := hd'.exists_node ⟨r, hr, rfl⟩
    exact ⟨pn, hpn, hpid, inv.desc_removed hu hr hrg hd' pn hpn hpid⟩

example : ∃ n ∈ demoPop, n.parent = some 2 ∧ n ∉ (evaluate demoCfg noFaults 0 12 demoPop).pop :=
  ⟨demoPop[3], by decide, by decide, by decide⟩

/-- "[never deletes] a newer execution while an older eligible one is kept": after an evaluation
    that ends normally, every removed root `d` and every kept eligible root `k` satisfy
    `d.updatedAt ≤ k.updatedAt` — the kept finished roots are a top segment by `updated_at`.
    Ties: rows with *equal* `updated_at` may fall on either side of the cut (the database orders
    them arbitrarily; the model takes the list order), which the `≤` allows and nothing else. -/
theorem keeps_newest (cfg : Config) (env : Env) (now : Int) (fuel : Nat) (pop after : Pop)
    (hu : UniqueIds pop) (hok : evaluate cfg env now fuel pop = .ok after)
    (d : Node) (hd : d ∈ pop) (hdroot : d.parent = none) (hdgone : d ∉ after)
    (k : Node) (hk : k ∈ after) (hke : eligible cfg k = true) :
    d.updatedAt ≤ k.updatedAt := by
  unfold evaluate at hok
  split at hok
  · -- `older_than` unset: only the `superfluous` loop ran
    exact superfluous_keeps_newest hu hok hd hdroot hdgone hk hke
  · rename_i ot hot
    split at hok
    · rename_i p1 h1
      -- phase 1 ended normally in p1, phase 2 in `after`
      have inv1 := loop_expired_inv (now := now) (pop0 := pop) env hot fuel pop (Inv.init _ _)
      rw [h1] at inv1
      simp only [Outcome.pop] at inv1
      have hu1 : UniqueIds p1 := hu.sublist inv1.sub
      have hexit1 := loop_ok_exit _ env fuel pop p1 h1
      have inv2 := loop_superfluous_inv (cfg := cfg) (now := now) (pop0 := p1) env fuel p1 (Inv.init _ _)
      rw [hok] at inv2
      simp only [Outcome.pop] at inv2
      have hk1 : k ∈ p1 := inv2.sub.subset hk
      by_cases hd1 : d ∈ p1
      · -- removed by the `superfluous` loop
        exact superfluous_keeps_newest hu1 hok hd1 hdroot hdgone hk hke
      · -- removed by the `expired` loop: older than the age, and nothing that old is left
        have hkexp := expiredIds_nil hexit1 hk1 hke
        -- what the `expired` loop selects always carries the age reason
        have inv1' := loop_inv (expiredIds cfg (now - ot * 60)) env
          (Inv (fun n => eligible cfg n = true ∧ n.updatedAt < now - ot * 60) pop)
          (by
            intro Q Q' hQ _ hb
            refine hQ.step (deleteBatch_facts env _ Q Q' hb) ?_
            intro r hr
            obtain ⟨rn, hrn, hrid, he, hlt⟩ := mem_expiredIds hr
            exact ⟨rn, hrn, hrid, he, hlt⟩) fuel pop (Inv.init _ _)
        rw [h1] at inv1'
        simp only [Outcome.pop] at inv1'
        obtain ⟨r', hr', _, hsel', hdesc'⟩ := inv1'.del d hd hd1
        have hid' := hdesc'.root_eq hu d hd rfl hdroot
        have := unique_of_id hu hd hr' hid'
        subst this
        omega
    · rename_i hno
      exact absurd hok (hno after)

example : evaluate demoCfg noFaults 0 12 demoPop = .ok (evaluate demoCfg noFaults 0 12 demoPop).pop ∧
    (∃ d ∈ demoPop, d.parent = none ∧ d ∉ (evaluate demoCfg noFaults 0 12 demoPop).pop) ∧
    (∃ k ∈ (evaluate demoCfg noFaults 0 12 demoPop).pop, eligible demoCfg k = true) :=
  ⟨by decide, ⟨demoPop[7], by decide, by decide, by decide⟩, ⟨demoPop[8], by decide, by decide⟩⟩

/-- "each evaluation terminates": with the hypothesis "delete removes the row" made explicit
    (`deleteBatch_shrinks`: a batch whose deletes all succeed strictly shrinks the population;
    a delete that raises aborts the evaluation, see `Err.deleteFailed`), neither `while True`
    loop needs more than |population| + 1 iterations, whatever the configuration, the clock and
    the failing deletes. -/
theorem terminates (cfg : Config) (env : Env) (now : Int) (fuel : Nat) (pop : Pop)
    (hfuel : pop.length < fuel) : ∀ Q, evaluate cfg env now fuel pop ≠ .outOfFuel Q := by
  intro Q
  unfold evaluate
  split
  · exact loop_terminates (superfluousIds cfg) env (superfluousIds_present cfg) fuel pop hfuel Q
  · rename_i ot _
    have t1 := loop_terminates (expiredIds cfg (now - ot * 60)) env (expiredIds_present cfg _)
      fuel pop hfuel
    split
    · rename_i p1 h1
      have hlen := loop_pop_length_le (expiredIds cfg (now - ot * 60)) env fuel pop
      rw [h1] at hlen
      simp only [Outcome.pop] at hlen
      exact loop_terminates (superfluousIds cfg) env (superfluousIds_present cfg) fuel p1
        (by omega) Q
    · rename_i o hno
      intro ho
      exact t1 Q ho

/-- the measure behind `terminates`, in the statement's words: a non-empty batch whose deletes
    all succeed leaves strictly fewer rows -/
theorem batch_strictly_shrinks (env : Env) (P P' : Pop) (r : Nat) (rs : List Nat)
    (hdel : deleteBatch env P (r :: rs) = .ok P') (hpresent : ∃ rn ∈ P, rn.id = r) :
    P'.length < P.length :=
  deleteBatch_shrinks env hdel hpresent

/-- why that hypothesis matters: if the `except` handler of `_delete` logged and continued, as it
    evidently intends to (today it raises TypeError itself, defect M(2)), a delete that keeps failing
    would make `_delete_until_depleted` spin forever — for every fuel the loop is still running. -/
theorem lenient_handler_would_spin :
    ∃ (cfg : Config) (env : Env) (pop : Pop), ∀ fuel,
      loopLenient (expiredIds cfg 0) env fuel pop = .outOfFuel pop := by
  refine ⟨demoCfg, { failing := [1] }, [demoPop[0]], ?_⟩
  intro fuel
  induction fuel with
  | zero => rfl
  | succ f ih =>
    have hf : expiredIds demoCfg 0 [demoPop[0]] = [1] := by decide
    unfold loopLenient
    rw [hf]
    simp only [deleteBatchLenient]
    exact ih

/-- without faults and with `older_than` set the evaluation ends normally -/
example : evaluate demoCfg noFaults 0 (demoPop.length + 1) demoPop =
    .ok (evaluate demoCfg noFaults 0 (demoPop.length + 1) demoPop).pop := by decide
/-- with a failing delete it aborts, keeping what earlier batches committed -/
example : evaluate demoCfg { failing := [8] } 0 12 demoPop =
    .crashed (.deleteFailed 8) ((evaluate demoCfg { failing := [8] } 0 12 demoPop).pop) ∧
    ((evaluate demoCfg { failing := [8] } 0 12 demoPop).pop.map (·.id)) = [6, 7, 8, 9, 10, 11] := by
  decide

/-- "leaving every remaining execution tree complete": a remaining row whose parent row existed
    before the evaluation still has it — in every outcome (normal end, exception, fuel). -/
theorem trees_complete (cfg : Config) (env : Env) (now : Int) (fuel : Nat) (pop : Pop)
    (n : Node) (hn : n ∈ (evaluate cfg env now fuel pop).pop)
    (pn : Node) (hpn : pn ∈ pop) (hp : n.parent = some pn.id) :
    pn ∈ (evaluate cfg env now fuel pop).pop :=
  (evaluate_inv cfg env now fuel pop).closed n hn pn hpn hp

/-- a population in which every foreign key resolves -/
def ParentClosed (P : Pop) : Prop := ∀ n ∈ P, ∀ p, n.parent = some p → ∃ pn ∈ P, pn.id = p

/-- the remaining population is parent-closed whenever the initial one was -/
theorem trees_complete_closed (cfg : Config) (env : Env) (now : Int) (fuel : Nat) (pop : Pop)
    (h : ParentClosed pop) : ParentClosed (evaluate cfg env now fuel pop).pop := by
  intro n hn p hp
  have inv := evaluate_inv cfg env now fuel pop
  obtain ⟨pn, hpn, hpid⟩ := h n (inv.sub.subset hn) p hp
  exact ⟨pn, inv.closed n hn pn hpn (by rw [hp, hpid]), hpid⟩

/-- executable form of `ParentClosed` -/
def parentClosedB (P : Pop) : Bool :=
  P.all (fun n => match n.parent with | none => true | some p => P.any (fun pn => pn.id == p))

theorem parentClosed_of_B (P : Pop) (h : parentClosedB P = true) : ParentClosed P := by
  intro n hn p hp
  unfold parentClosedB at h
  have := List.all_eq_true.mp h n hn
  rw [hp] at this
  obtain ⟨pn, hpn, hid⟩ := List.any_eq_true.mp this
  exact ⟨pn, hpn, by simpa using hid⟩

example : ParentClosed demoPop := parentClosed_of_B _ (by decide)

/-- nothing is created or altered: what remains is a sub-list of what was there -/
theorem remaining_is_sublist (cfg : Config) (env : Env) (now : Int) (fuel : Nat) (pop : Pop) :
    (evaluate cfg env now fuel pop).pop.Sublist pop :=
  (evaluate_inv cfg env now fuel pop).sub

/-- the loops really run "until depleted": after a normal end no eligible root older than the age
    is left, and at most `max_finished_executions` eligible roots are left (when that is set).
    (Not demanded by the statement, which only limits what may be removed; it pins the model to
    the code's `while True` so that the correspondence check notices a loop that stops early.) -/
theorem depleted_after_normal_end (cfg : Config) (env : Env) (now : Int) (fuel : Nat)
    (pop after : Pop) (hok : evaluate cfg env now fuel pop = .ok after) :
    (∀ ot, cfg.olderThan = some ot →
      ∀ k ∈ after, eligible cfg k = true → now - ot * 60 ≤ k.updatedAt) ∧
    (∀ m, cfg.maxFinished = some m → 0 < m → after.countP (eligible cfg) ≤ m) := by
  unfold evaluate at hok
  split at hok
  · rename_i hnone
    refine ⟨fun ot hot => (by rw [hnone] at hot; cases hot), fun m hm hpos => ?_⟩
    exact superfluousIds_nil hm hpos (loop_ok_exit _ env fuel pop after hok)
  · rename_i ot hot
    split at hok
    · rename_i p1 h1
      have hexit1 := loop_ok_exit _ env fuel pop p1 h1
      have hexit2 := loop_ok_exit _ env fuel p1 after hok
      have hsub : after.Sublist p1 := by
        have := loop_superfluous_inv (cfg := cfg) (now := now) (pop0 := p1) env fuel p1 (Inv.init _ _)
        rw [hok] at this
        exact this.sub
      refine ⟨fun ot' hot' k hk he => ?_, fun m hm hpos => superfluousIds_nil hm hpos hexit2⟩
      rw [hot] at hot'
      cases hot'
      exact expiredIds_nil hexit1 (hsub.subset hk) he
    · rename_i hno
      exact absurd hok (hno after)

/-! ### unset options -/

/-- "(including unset ones)": an unset option imposes no constraint.
    * `older_than` unset (the generated default, see `default_older_than_unset`): no age
      constraint — the evaluation is exactly the `max_finished_executions` rule;
    * `max_finished_executions` unset or 0: no count constraint — the evaluation is exactly the
      age rule;
    * both unset: nothing is touched.
    (Before /repo commit 2457b86b the first clause was false: `timedelta(minutes=None)` raised
    TypeError on every evaluation — defect M(1), now a regression case in corpus/C18.) -/
theorem unset_options_mean_no_constraint (cfg : Config) (env : Env) (now : Int) (fuel : Nat)
    (pop : Pop) :
    (cfg.olderThan = none →
      evaluate cfg env now fuel pop = loop (superfluousIds cfg) env fuel pop) ∧
    (∀ ot, cfg.olderThan = some ot → (cfg.maxFinished = none ∨ cfg.maxFinished = some 0) →
      evaluate cfg env now fuel pop = loop (expiredIds cfg (now - ot * 60)) env fuel pop) ∧
    (cfg.olderThan = none → (cfg.maxFinished = none ∨ cfg.maxFinished = some 0) → fuel ≠ 0 →
      evaluate cfg env now fuel pop = .ok pop) := by
  refine ⟨?_, ?_, ?_⟩
  · intro h
    unfold evaluate
    rw [h]
  · intro ot hot hmf
    unfold evaluate
    rw [hot]
    simp only
    split
    · rename_i p1 h1
      have hf : fuel ≠ 0 := by intro h0; subst h0; simp [loop] at h1
      rw [loop_fetch_nil (superfluousIds cfg) env (superfluousIds_nil_of_unset hmf) fuel p1 hf]
      exact h1.symm
    · rfl
  · intro h hmf hf
    unfold evaluate
    rw [h]
    exact loop_fetch_nil (superfluousIds cfg) env (superfluousIds_nil_of_unset hmf) fuel pop hf

/-- Tie A: the generated default of `older_than` is "unset" -/
theorem default_older_than_unset : defaultConfig.olderThan = none := by decide

/-- `max_finished_executions ≥ 1` alone is enough for the periodic task to be registered
    (`__init__`), so a deployment that sets only that option does evaluate — by
    `unset_options_mean_no_constraint` with the count rule only. -/
theorem only_max_finished_enables (cfg : Config) (i : Int) (m : Nat)
    (hi : cfg.evaluationInterval = some i) (hpos : 0 < i) (hm : cfg.maxFinished = some m)
    (hm1 : 1 ≤ m) : enabled cfg = true := by
  unfold enabled
  rw [hi, hm]
  have : atLeastOne (some (Int.ofNat m)) = true := by
    simp only [atLeastOne, Bool.and_eq_true, bne_iff_ne, ne_eq, decide_eq_true_eq,
      Int.ofNat_eq_natCast]
    omega
  simp only [Option.map, this, Bool.or_true, Bool.and_true, decide_eq_true_eq]
  exact hpos

theorem batch_size_zero_is_no_limit {α : Type} (l : List α) : limit 0 l = l := rfl

/-- non-vacuity (and the regression witness of M(1), corpus/C18/m_older_than_unset.json): with
    only `max_finished_executions = 2` set the evaluation ends normally and removes the two
    superfluous roots 8 and 1 (with 1's subtree) -/
example : evaluate { demoCfg with olderThan := none } noFaults 0 12 demoPop =
    .ok (evaluate { demoCfg with olderThan := none } noFaults 0 12 demoPop).pop ∧
    (evaluate { demoCfg with olderThan := none } noFaults 0 12 demoPop).pop.map (·.id)
      = [6, 7, 9, 10, 11] := by
  decide

example : evaluate { demoCfg with maxFinished := none } noFaults 0 12 demoPop =
    loop (expiredIds { demoCfg with maxFinished := none } (0 - 60 * 60)) noFaults 12 demoPop ∧
    (evaluate { demoCfg with maxFinished := none } noFaults 0 12 demoPop).pop.map (·.id)
      = [6, 7, 8, 9, 10, 11] := by
  decide

/-- Tie A: with the generated defaults the policy is not even registered -/
theorem default_policy_disabled : enabled defaultConfig = false := by decide

end Mistral.Props.C18
