import Mistral.Model.Expire
namespace Mistral.Props.C18
open Mistral.Expire
theorem stub : True := trivial
end Mistral.Props.C18
