import Mistral.Model.Join
namespace Mistral.Props.C01
theorem placeholder : True := trivial
end Mistral.Props.C01
