/-
C01 — Every workflow run finishes with the outcome its definition prescribes.
Theorems over the engine core model Mistral.Engine (tied to the real engine after every event
by the `core` stream).  "Never left RUNNING with nothing pending" as a whole-system liveness
claim is decided by the correspondence + the quiescence monitor on generated runs; what is
proved here are the rules that make up the prescribed outcome and the absence of model-level
crashes on acyclic definitions.
-/
import Mistral.Lemmas.Engine
import Mistral.Props.C04

namespace Mistral.Props.C01
open Mistral Mistral.Engine Mistral.Join

/-- "errors handled only by on-error routes" + final state: when no task is incomplete the
    verdict of the completion check is CANCELLED if some task is CANCELLED, else SUCCESS iff
    every ERROR task has its error handled, else ERROR; with an incomplete task, or while
    PAUSED / finished, nothing changes. -/
theorem verdict_rule (w : World) :
    (checkAndComplete w).wf =
      if isPausedOrCompleted w.wf then w.wf
      else if w.tasks.any (fun t => !isCompleted t.state) then w.wf
      else if w.tasks.any (fun t => t.state == .CANCELLED) then .CANCELLED
      else if w.tasks.all (fun t => t.state != .ERROR || t.errorHandled) then .SUCCESS
      else .ERROR := by
  unfold checkAndComplete
  split
  · rfl
  · split
    · rfl
    · split
      · rfl
      · split <;> rfl

/-- the completion check touches nothing but the workflow state -/
theorem verdict_keeps_rows (w : World) :
    (checkAndComplete w).tasks = w.tasks ∧ (checkAndComplete w).pending = w.pending := by
  unfold checkAndComplete
  split
  · exact ⟨rfl, rfl⟩
  · split
    · exact ⟨rfl, rfl⟩
    · split
      · exact ⟨rfl, rfl⟩
      · split <;> exact ⟨rfl, rfl⟩

/-- "transitions and guards": the tasks that follow a completed task are exactly the targets of
    its on-error clause (if it failed), its on-success clause (if it succeeded) and its
    on-complete clause whose guards hold; a cancelled task has no follow-up. -/
theorem next_tasks_rule (sp : Spec) (n : String) (s : St) :
    nextOf sp n s =
      (if s == .ERROR then (liveOf sp n).onError.map (·, "on-error") else []) ++
      (if s == .SUCCESS then (liveOf sp n).onSuccess.map (·, "on-success") else []) ++
      (if isCompleted s && !(isCancelled s || isSkipped s) then (liveOf sp n).onComplete.map (·, "on-complete") else []) := rfl

theorem cancelled_has_no_followup (sp : Spec) (n : String) : nextOf sp n .CANCELLED = [] := by
  have h1 : (isCancelled St.CANCELLED || isSkipped St.CANCELLED) = true := by decide
  simp [nextOf, h1]

/-- an error counts as handled iff an on-error route fired -/
theorem error_handled_iff (sp : Spec) (n : String) :
    ((nextOf sp n .ERROR).any (·.2 == "on-error")) = !(liveOf sp n).onError.isEmpty := by
  have h1 : isCompleted St.ERROR = true := by decide
  have h2 : (isCancelled St.ERROR || isSkipped St.ERROR) = false := by decide
  simp only [nextOf, beq_self_eq_true, if_true, h1, h2]
  cases h : (liveOf sp n).onError with
  | nil => simp
  | cons a as => simp

/-! ### no model-level crash on acyclic definitions -/

/-- The only undeclared error the engine core can raise is the unbounded recursion of the
    route search (RecursionError): a step sets `crashed` only inside the join refresh. -/
theorem crash_only_in_refresh (sp : Spec) (w : World) (ev : Event)
    (hc : w.crashed = false) (h : (step sp w ev).crashed = true) :
    ∃ t, ev = .deliver (.jobRefresh t) := by
  have contra : ∀ {P : Prop}, (step sp w ev).crashed = false → P := fun h' => by rw [h'] at h; cases h
  cases ev with
  | start =>
    apply contra
    simp only [step]
    split
    · exact hc
    · rw [dispatch_crashed]; exact hc
  | pause => exact contra (by simp [step, hc])
  | stop t => exact contra (by simp [step, hc])
  | execute t ok => apply contra; simp only [step]; split <;> exact hc
  | resume =>
    apply contra
    simp only [step]
    split
    · exact hc
    · split
      · exact hc
      · split
        · rw [checkAndComplete_crashed]; exact hc
        · rw [dispatch_crashed]
          show (dispatch sp _ _).crashed = false
          rw [dispatch_crashed]; exact hc
  | deliver it =>
    cases it with
    | jobRefresh t => exact ⟨t, rfl⟩
    | postStartTask t f => apply contra; simp only [step]; split <;> exact hc
    | postRunAction t => apply contra; simp only [step]; split <;> exact hc
    | runAction t => apply contra; simp only [step]; split <;> exact hc
    | postCheck =>
      apply contra; simp only [step]
      split
      · exact hc
      · rw [checkAndComplete_crashed]; exact hc
    | postSchedRefresh t =>
      apply contra; simp only [step]
      split
      · exact hc
      · split <;> exact hc
    | rpcStartTask t firstRun =>
      apply contra; simp only [step]
      split
      · exact hc
      · split
        · exact hc
        · split
          · split
            · exact hc
            · split
              · split <;> exact hc
              · rw [checkAffected_crashed]; exact hc
          · split
            · exact hc
            · split <;> exact hc
    | rpcResult t ok =>
      apply contra; simp only [step]
      split
      · exact hc
      · split
        · exact hc
        · rw [completeTask_crashed]; exact hc

/-- On a definition whose inbound relation is acyclic (a rank strictly decreasing along
    inbound transitions; every DAG has one) with enough recursion budget, the join logic always
    returns, so NO event can crash the engine core: the provable part of "no engine entry point
    fails with an undeclared error" (cyclic unreachable predecessors are the known finding B,
    `Props.C04.possibleRoute_full_fails`). -/
theorem no_crash_on_acyclic_partial (sp : Spec) (rk : String → Nat)
    (hrk : ∀ t, ∀ p ∈ inbound sp.graph t, rk p.name < rk t)
    (hfuel : ∀ t, rk t < fuelFor sp)
    (w : World) (ev : Event) (hc : w.crashed = false) : (step sp w ev).crashed = false := by
  cases hs : (step sp w ev).crashed with
  | false => rfl
  | true =>
    exfalso
    obtain ⟨t, rfl⟩ := crash_only_in_refresh sp w _ hc hs
    simp only [step] at hs
    split at hs
    · simp [hc] at hs
    · split at hs
      · simp [hc] at hs
      · split at hs
        · simp [hc] at hs
        · split at hs
          · simp [hc] at hs
          · split at hs
            · simp [hc] at hs
            · rename_i k _
              split at hs
              · -- joinLogicalState = none is impossible on an acyclic graph
                rename_i hnone
                have : joinLogicalState sp.graph (rowsOf { w with pending := removeFirst w.pending (.jobRefresh t) })
                    (fuelFor sp) t.1 k ≠ none := by
                  unfold joinLogicalState
                  simp only
                  split
                  · simp
                  · have hall : ∀ (l : List TaskG), (∀ p ∈ l, rk p.name < fuelFor sp) →
                        l.mapM (fun x => inducedState sp.graph (rowsOf { w with pending := removeFirst w.pending (.jobRefresh t) })
                          (fuelFor sp) x t.1) ≠ none := by
                      intro l
                      induction l with
                      | nil => intro _; simp
                      | cons p ps ih =>
                        intro hp
                        rw [List.mapM_cons]
                        have h1 : inducedState sp.graph (rowsOf { w with pending := removeFirst w.pending (.jobRefresh t) })
                            (fuelFor sp) p t.1 ≠ none := by
                          unfold inducedState
                          split
                          · have := Props.C04.possibleRoute_terminates_partial sp.graph
                              (rowsOf { w with pending := removeFirst w.pending (.jobRefresh t) }) rk hrk
                              (fuelFor sp) p.name 1 (hp p List.mem_cons_self)
                            split
                            · contradiction
                            · simp
                            · simp
                          · split
                            · simp
                            · split <;> simp
                        have h2 := ih (fun q hq => hp q (List.mem_cons_of_mem _ hq))
                        cases hi : inducedState sp.graph (rowsOf { w with pending := removeFirst w.pending (.jobRefresh t) })
                            (fuelFor sp) p t.1 with
                        | none => exact absurd hi h1
                        | some i =>
                          cases hm : ps.mapM (fun x => inducedState sp.graph (rowsOf { w with pending := removeFirst w.pending (.jobRefresh t) })
                              (fuelFor sp) x t.1) with
                          | none => exact absurd hm h2
                          | some ys => simp [hi, hm]
                    have := hall (inbound sp.graph t.1) (fun p _ => hfuel p.name)
                    split
                    · contradiction
                    · simp
                exact this hnone
              · rename_i L _
                split at hs
                · split at hs <;> simp [hc] at hs
                · split at hs
                  · rw [completeTask_crashed] at hs; simp [hc] at hs
                  · simp [hc] at hs

end Mistral.Props.C01
