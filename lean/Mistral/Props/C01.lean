/-
C01 — Every workflow run finishes with the outcome its definition prescribes.
Theorems over the engine core model Mistral.Engine (tied to the real engine after every event
by the `core` and `live` streams): the rules that make up the prescribed outcome, the absence of
model-level crashes on acyclic definitions, and the liveness clause "never left RUNNING (or its
tasks left waiting) with nothing pending" for every history of deliveries / results / pause /
resume / stop (`no_stuck_joinfree`, `no_stuck_acyclic`).
-/
import Mistral.Lemmas.Engine
import Mistral.Lemmas.Affected
import Mistral.Props.C04
import Mistral.Lemmas.LiveStates
import Mistral.Lemmas.LiveInv2
import Mistral.Lemmas.LiveFresh
import Mistral.Lemmas.LiveWake
import Mistral.Lemmas.LiveFinal
import Mistral.Lemmas.LiveWitness

namespace Mistral.Props.C01
open Mistral Mistral.Engine Mistral.Join

/-- "errors handled only by on-error routes" + final state: when no task is incomplete the
    verdict of the completion check is CANCELLED if some task is CANCELLED, else SUCCESS iff
    every ERROR task has its error handled, else ERROR; with an incomplete task, or while
    PAUSED / finished, nothing changes. -/
theorem verdict_rule (w : World) :
    (checkAndComplete w).wf =
      if isPausedOrCompleted w.wf then w.wf
      else if w.tasks.any (fun t => !isCompleted t.state) then w.wf
      else if w.tasks.any (fun t => t.state == .CANCELLED) then .CANCELLED
      else if w.tasks.all (fun t => t.state != .ERROR || t.errorHandled) then .SUCCESS
      else .ERROR := by
  unfold checkAndComplete
  split
  · rfl
  · split
    · rfl
    · split
      · rfl
      · split <;> rfl

/-- the completion check touches nothing but the workflow state -/
theorem verdict_keeps_rows (w : World) :
    (checkAndComplete w).tasks = w.tasks ∧ (checkAndComplete w).pending = w.pending := by
  unfold checkAndComplete
  split
  · exact ⟨rfl, rfl⟩
  · split
    · exact ⟨rfl, rfl⟩
    · split
      · exact ⟨rfl, rfl⟩
      · split <;> exact ⟨rfl, rfl⟩

/-- "transitions and guards": the tasks that follow a completed task are exactly the targets of
    its on-error clause (if it failed), its on-success clause (if it succeeded) and its
    on-complete clause whose guards hold; a cancelled task has no follow-up. -/
theorem next_tasks_rule (sp : Spec) (n : String) (s : St) :
    nextOf sp n s =
      (if s == .ERROR then (liveOf sp n).onError.map (·, "on-error") else []) ++
      (if s == .SUCCESS then (liveOf sp n).onSuccess.map (·, "on-success") else []) ++
      (if isCompleted s && !(isCancelled s || isSkipped s) then (liveOf sp n).onComplete.map (·, "on-complete") else []) := rfl

theorem cancelled_has_no_followup (sp : Spec) (n : String) : nextOf sp n .CANCELLED = [] := by
  have h1 : (isCancelled St.CANCELLED || isSkipped St.CANCELLED) = true := by decide
  simp [nextOf, h1]

/-- an error counts as handled iff an on-error route fired -/
theorem error_handled_iff (sp : Spec) (n : String) :
    ((nextOf sp n .ERROR).any (·.2 == "on-error")) = !(liveOf sp n).onError.isEmpty := by
  have h1 : isCompleted St.ERROR = true := by decide
  have h2 : (isCancelled St.ERROR || isSkipped St.ERROR) = false := by decide
  simp only [nextOf, beq_self_eq_true, if_true, h1, h2]
  cases h : (liveOf sp n).onError with
  | nil => simp
  | cons a as => simp

/-! ### no model-level crash on acyclic definitions -/

/-- The only undeclared error the engine core can raise is the unbounded recursion of the
    route search (RecursionError): a step sets `crashed` only inside the join refresh. -/
theorem crash_only_in_refresh (sp : Spec) (w : World) (ev : Event)
    (hc : w.crashed = false) (h : (step sp w ev).crashed = true) :
    ∃ t, ev = .deliver (.jobRefresh t) := by
  have contra : ∀ {P : Prop}, (step sp w ev).crashed = false → P := fun h' => by rw [h'] at h; cases h
  cases ev with
  | start =>
    apply contra
    simp only [step]
    split
    · exact hc
    · rw [dispatch_crashed]; exact hc
  | pause => exact contra (by simp [step, hc])
  | stop t => exact contra (by simp [step, hc])
  | execute t ok => apply contra; simp only [step]; split <;> exact hc
  | resume =>
    apply contra
    simp only [step]
    split
    · exact hc
    · split
      · exact hc
      · split
        · rw [checkAndComplete_crashed]; exact hc
        · rw [dispatch_crashed]
          show (dispatch sp _ _).crashed = false
          rw [dispatch_crashed]; exact hc
  | deliver it =>
    cases it with
    | jobRefresh t => exact ⟨t, rfl⟩
    | postStartTask t f => apply contra; simp only [step]; split <;> exact hc
    | postRunAction t => apply contra; simp only [step]; split <;> exact hc
    | runAction t => apply contra; simp only [step]; split <;> exact hc
    | postCheck =>
      apply contra; simp only [step]
      split
      · exact hc
      · rw [checkAndComplete_crashed]; exact hc
    | postSchedRefresh t =>
      apply contra; simp only [step]
      split
      · exact hc
      · split <;> exact hc
    | rpcStartTask t firstRun =>
      apply contra; simp only [step]
      split
      · exact hc
      · split
        · exact hc
        · split
          · split
            · exact hc
            · split
              · split <;> exact hc
              · rw [checkAffected_crashed]; exact hc
          · split
            · exact hc
            · split
              · rw [checkAffected_crashed]; exact hc
              · split <;> exact hc
    | rpcResult t ok =>
      apply contra; simp only [step]
      split
      · exact hc
      · split
        · exact hc
        · rw [completeTask_crashed]; exact hc

/-- On a definition whose inbound relation is acyclic (a rank strictly decreasing along
    inbound transitions; every DAG has one) with enough recursion budget, the join logic always
    returns, so NO event can crash the engine core: the provable part of "no engine entry point
    fails with an undeclared error" (cyclic unreachable predecessors are the known finding B,
    `Props.C04.possibleRoute_full_fails`). -/
theorem no_crash_on_acyclic_partial (sp : Spec) (rk : String → Nat)
    (hrk : ∀ t, ∀ p ∈ inbound sp.graph t, rk p.name < rk t)
    (hfuel : ∀ t, rk t < fuelFor sp)
    (w : World) (ev : Event) (hc : w.crashed = false) : (step sp w ev).crashed = false := by
  cases hs : (step sp w ev).crashed with
  | false => rfl
  | true =>
    exfalso
    obtain ⟨t, rfl⟩ := crash_only_in_refresh sp w _ hc hs
    simp only [step] at hs
    split at hs
    · simp [hc] at hs
    · split at hs
      · simp [hc] at hs
      · split at hs
        · simp [hc] at hs
        · split at hs
          · simp [hc] at hs
          · split at hs
            · simp [hc] at hs
            · rename_i k _
              split at hs
              · -- joinLogicalState = none is impossible on an acyclic graph
                rename_i hnone
                have : joinLogicalState sp.graph (rowsOf { w with pending := removeFirst w.pending (.jobRefresh t) })
                    (fuelFor sp) t.1 k ≠ none := by
                  unfold joinLogicalState
                  simp only
                  split
                  · simp
                  · have hall : ∀ (l : List TaskG), (∀ p ∈ l, rk p.name < fuelFor sp) →
                        l.mapM (fun x => inducedState sp.graph (rowsOf { w with pending := removeFirst w.pending (.jobRefresh t) })
                          (fuelFor sp) x t.1) ≠ none := by
                      intro l
                      induction l with
                      | nil => intro _; simp
                      | cons p ps ih =>
                        intro hp
                        rw [List.mapM_cons]
                        have h1 : inducedState sp.graph (rowsOf { w with pending := removeFirst w.pending (.jobRefresh t) })
                            (fuelFor sp) p t.1 ≠ none := by
                          unfold inducedState
                          split
                          · have := Props.C04.possibleRoute_terminates_partial sp.graph
                              (rowsOf { w with pending := removeFirst w.pending (.jobRefresh t) }) rk hrk
                              (fuelFor sp) p.name 1 (hp p List.mem_cons_self)
                            split
                            · contradiction
                            · simp
                            · simp
                          · split
                            · simp
                            · split <;> simp
                        have h2 := ih (fun q hq => hp q (List.mem_cons_of_mem _ hq))
                        cases hi : inducedState sp.graph (rowsOf { w with pending := removeFirst w.pending (.jobRefresh t) })
                            (fuelFor sp) p t.1 with
                        | none => exact absurd hi h1
                        | some i =>
                          cases hm : ps.mapM (fun x => inducedState sp.graph (rowsOf { w with pending := removeFirst w.pending (.jobRefresh t) })
                              (fuelFor sp) x t.1) with
                          | none => exact absurd hm h2
                          | some ys => simp [hi, hm]
                    have := hall (inbound sp.graph t.1) (fun p _ => hfuel p.name)
                    split
                    · contradiction
                    · simp
                exact this hnone
              · rename_i L _
                split at hs
                · split at hs <;> simp [hc] at hs
                · split at hs
                  · rw [completeTask_crashed] at hs; simp [hc] at hs
                  · simp [hc] at hs

/-! ### the wake-up of a join by the completion of a direct predecessor -/

/-- all on-clause targets of a task, as `find_outbound_task_names` sees them -/
def outsOf (sp : Spec) (n : String) : List String :=
  match sp.graph.tasks.find? (·.name == n) with
  | some t => outNames sp.graph t
  | none => []

/-- the budget of the walk over indirectly affected tasks -/
def walkFuel (sp : Spec) : Nat := (sp.graph.tasks.length + 1) * (sp.graph.tasks.length + 1) + 8

theorem affected_contains_direct (sp : Spec) (w : World) (start j : String)
    (hj : joinWithRow sp w j = true)
    (hknown : (sp.graph.tasks.find? (·.name == j)).isNone = false)
    (hne : j ≠ start)
    (hpos : ∃ pre post, outsOf sp start = pre ++ j :: post ∧ pre.length < walkFuel sp) :
    j ∈ affected sp w start := by
  obtain ⟨pre, post, hsplit, hlen⟩ := hpos
  have h2 : affected sp w start =
      affected.go sp w (outsOf sp) (walkFuel sp) (outsOf sp start) [start] [] := rfl
  rw [h2, hsplit]
  apply go_finds sp w _ j hj hknown _ pre post [start] [] hlen
  intro hm
  simp at hm
  exact absurd hm hne

/-- The core of "never left waiting with nothing pending" for fork/join shapes: when a task
    completes in a RUNNING workflow, every join that is a direct successor of it in the
    definition and has an execution row after that transaction gets a pending
    "schedule a state refresh if needed" operation registered in the same transaction.
    (Hypotheses: the join is among the first `walkFuel` on-clause targets of the task — true of
    every validated definition, whose on-clauses have unique items — and the task does not
    route to itself.) -/
theorem direct_join_gets_refresh (sp : Spec) (w : World) (t : Tid) (ok : Bool) (r : TaskRow) (j : String)
    (hwf : w.wf = .RUNNING) (hr : findTask w t = some r) (hrun : isCompleted r.state = false)
    (hpend : w.pending.contains (.rpcResult t ok) = true)
    (hjoin : (isJoin sp j).isSome = true)
    (hknown : (sp.graph.tasks.find? (·.name == j)).isNone = false)
    (hne : j ≠ t.1)
    (hpos : ∃ pre post, outsOf sp t.1 = pre ++ j :: post ∧ pre.length < walkFuel sp)
    (hself : ∀ p ∈ nextOf sp t.1 (if ok then St.SUCCESS else St.ERROR), p.1 ≠ t.1) :
    let w' := step sp w (.deliver (.rpcResult t ok))
    ∀ jr, findByName w' j = some jr → Item.postSchedRefresh (jr.name, jr.occ) ∈ w'.pending := by
  intro w' jr hjr
  have hid : r.name = t.1 ∧ r.occ = t.2 := by
    unfold findTask at hr
    have := List.find?_some hr
    simpa using this
  -- unfold the step down to completeTask
  have hw' : w' = completeTask sp { w with pending := removeFirst w.pending (.rpcResult t ok) } r
      (if ok then St.SUCCESS else St.ERROR) := by
    show step sp w (.deliver (.rpcResult t ok)) = _
    simp only [step, hpend, Bool.not_true, Bool.false_eq_true, if_false]
    have hr' : findTask { w with pending := removeFirst w.pending (.rpcResult t ok) } t = some r := hr
    simp only [hr']
  -- name the world before _check_affected_tasks
  let st : St := if ok then St.SUCCESS else St.ERROR
  let w0 : World := { w with pending := removeFirst w.pending (.rpcResult t ok) }
  have hnc : isCompleted w0.wf = false := by show isCompleted w.wf = false; rw [hwf]; decide
  have hnp : isPaused w0.wf = false := by show isPaused w.wf = false; rw [hwf]; decide
  let nt : List (String × String) := nextOf sp r.name st
  let r1 : TaskRow :=
    { r with state := st, nextTasks := nt, hasNext := !nt.isEmpty,
             errorHandled := if st == .ERROR then nt.any (·.2 == "on-error") else r.errorHandled }
  let w1 : World := { w0 with tasks := setTask w0.tasks r1 }
  let w1' : World := { w1 with tasks := setTask w1.tasks { r1 with processed := true } }
  let w1'' : World := if nt.isEmpty then { w1' with pending := w1'.pending ++ [.postCheck] } else w1'
  let w2 : World := dispatch sp w1'' (nt.map fun (n, e) => { target := n, src := some ((r.name, r.occ), e) })
  have hct : completeTask sp w0 r st = checkAffected sp w2 (r.name, r.occ) := by
    unfold completeTask
    simp only [hrun, hnc, hnp, Bool.false_eq_true, if_false]
    rfl
  have hw2wf : w2.wf = .RUNNING := by
    show (dispatch sp w1'' _).wf = _
    rw [dispatch_wf]
    show w1''.wf = _
    simp only [w1'']
    split <;> exact hwf
  -- the completed row of t is still there after the dispatch
  have hfind1 : findTask w1'' t = some { r1 with processed := true } := by
    have h1 : w1''.tasks = setTask (setTask w.tasks r1) { r1 with processed := true } := by
      simp only [w1'']; split <;> rfl
    unfold findTask
    rw [h1, ← hid.1, ← hid.2]
    have ha := find_setTask w.tasks r r1 rfl rfl (by unfold findTask at hr; rw [hid.1, hid.2]; exact hr)
    exact find_setTask (setTask w.tasks r1) r1 { r1 with processed := true } rfl rfl ha
  have hfind2 : findTask w2 t = some { r1 with processed := true } := by
    show findTask (dispatch sp w1'' _) t = _
    rw [findTask_dispatch_other]
    · exact hfind1
    · intro c hc
      simp only [List.mem_map] at hc
      obtain ⟨p, hp, rfl⟩ := hc
      have := hself p (by rw [← hid.1]; exact hp)
      exact this
  have hrid : ((r.name, r.occ) : Tid) = t := by rw [hid.1, hid.2]
  -- _check_affected_tasks registers the refresh of every affected join that has a row
  have hjr2 : findByName w2 j = some jr := by
    have : w'.tasks = w2.tasks := by rw [hw', hct]; exact (checkAffected_tasks sp w2 _).1
    unfold findByName at hjr ⊢
    rw [this] at hjr; exact hjr
  have hjw : joinWithRow sp w2 j = true := by
    unfold joinWithRow; rw [hjr2]; simp [hjoin]
  have haff : j ∈ affected sp w2 r.name := by
    rw [hid.1]
    exact affected_contains_direct sp w2 t.1 j hjw hknown hne hpos
  rw [hw', hct]
  unfold checkAffected
  rw [hrid, hfind2]
  have hcomp : isCompleted ({ r1 with processed := true } : TaskRow).state = true := by
    show isCompleted st = true
    simp only [st]; split <;> decide
  have hwfc : isCompleted w2.wf = false := by rw [hw2wf]; decide
  simp only [hcomp, hwfc, Bool.not_true, Bool.false_eq_true, if_false]
  apply List.mem_append_right
  rw [List.mem_filterMap]
  refine ⟨j, ?_, ?_⟩
  · show j ∈ affected sp w2 ({ r1 with processed := true } : TaskRow).name
    exact haff
  · rw [hjr2]; rfl


/-! ### liveness: never left RUNNING with nothing pending -/

open Mistral.Engine.Live in
/-- In every world reachable without the loss of an action at its executor: executions have
    distinct identities, every IDLE execution has a start request in flight and every RUNNING
    execution an action in flight, a RUNNING workflow all of whose executions are completed has a
    completion check in flight; an execution that is not completed is IDLE, RUNNING or a WAITING
    join.  (ALL definitions with a start task: cyclic ones, joins of every kind included.) -/
theorem live_inv_reachable (sp : Spec) (hstart : startTasks sp ≠ []) (evs : List Event)
    (hl : ∀ e ∈ evs, lossless e) : Inv1 (run sp evs) ∧ SOK sp (run sp evs).tasks := by
  unfold run
  have hall : ∀ (evs : List Event) (w : World), (∀ e ∈ evs, lossless e) → Inv1 w ∧ SOK sp w.tasks →
      Inv1 (evs.foldl (step sp) w) ∧ SOK sp (evs.foldl (step sp) w).tasks := by
    intro evs
    induction evs with
    | nil => intro w _ h; exact h
    | cons e rest ih =>
      intro w hl h
      exact ih _ (fun e' he' => hl e' (List.mem_cons_of_mem _ he'))
        ⟨step_inv1 sp hstart w e (hl e List.mem_cons_self) h.1, step_SOK sp w e h.2⟩
  refine hall evs init hl ⟨inv1_init, ?_⟩
  intro r hr; simp [init] at hr

/-- no task of the definition is a join -/
def joinFree (sp : Spec) : Prop := ∀ t ∈ sp.graph.tasks, t.join = none

theorem joinFree_isJoin (sp : Spec) (h : joinFree sp) (n : String) : isJoin sp n = none := by
  unfold isJoin
  split
  · rename_i t ht
    exact h t (List.mem_of_find?_eq_some ht)
  · rfl

open Mistral.Engine.Live in
/-- "once all in-flight work has been delivered the execution is in a final state - it is never
    left RUNNING with nothing pending", for every definition WITHOUT joins that has a start task,
    every history of deliveries / results / pause / resume / stop in which no action is lost at its
    executor (a lost action is the subject of C20): a RUNNING execution always has a delivery
    pending.  (PAUSED legitimately waits for the operator; IDLE is before the start.) -/
theorem no_stuck_joinfree (sp : Spec) (hjf : joinFree sp) (hstart : startTasks sp ≠ []) (evs : List Event)
    (hl : ∀ e ∈ evs, lossless e) (hrun : (run sp evs).wf = .RUNNING) : (run sp evs).pending ≠ [] := by
  obtain ⟨hinv, hsok⟩ := live_inv_reachable sp hstart evs hl
  have nonempty : ∀ (c : Item → Bool), (run sp evs).pending.any c = true → (run sp evs).pending ≠ [] := by
    intro c hc e; rw [e] at hc; simp at hc
  rcases hinv.chk hrun with ⟨r, hr, hinc⟩ | hck
  · rcases hsok r hr with h1 | h1 | h1 | ⟨_, h1⟩
    · rw [h1] at hinc; cases hinc
    · exact nonempty _ ((hinv.rl r hr).1 h1)
    · exact nonempty _ ((hinv.rl r hr).2 h1)
    · rw [joinFree_isJoin sp hjf] at h1; cases h1
  · intro e; rw [e] at hck; cases hck

/-! #### definitions with joins -/

open Mistral.Engine.Live in
/-- the complete liveness invariant -/
structure LiveInv (sp : Spec) (w : World) : Prop where
  i1 : Inv1 w
  sok : SOK sp w.tasks
  fresh : Fresh w.tasks
  i2 : Inv2 sp w
  jw : JW sp w
  jru : JoinRowsUnique sp w
  ji : JoinInv sp w

open Mistral.Engine.Live in
theorem live_inv_init (sp : Spec) : LiveInv sp init := by
  refine ⟨inv1_init, ?_, fresh_init, inv2_init sp, jw_init sp, ?_, init_ji sp⟩
  · intro r hr; simp [init] at hr
  · intro n _; simp [init, countL]

open Mistral.Engine.Live in
theorem live_inv_step (sp : Spec) (rk : String → Nat) (hsp : SpecOK sp rk) (hstart : startTasks sp ≠ [])
    (w : World) (ev : Event) (hl : lossless ev) (h : LiveInv sp w) :
    LiveInv sp (step sp w ev) :=
  have hpc : PausedClean w := Fresh.pausedClean w h.fresh
  ⟨step_inv1 sp hstart w ev hl h.i1, step_SOK sp w ev h.sok, step_fresh sp w ev h.fresh, step_inv2 sp w ev hpc h.i2,
   step_JW sp rk hsp w ev hl h.i1 h.sok h.i2 h.jru h.ji hpc h.jw,
   Props.C04.join_created_once_step sp w ev h.jru, step_ji sp w ev h.ji⟩

open Mistral.Engine.Live in
/-- the liveness invariant holds in every world reachable without the loss of an action -/
theorem live_inv_acyclic_reachable (sp : Spec) (rk : String → Nat) (hsp : SpecOK sp rk) (hstart : startTasks sp ≠ [])
    (evs : List Event) (hl : ∀ e ∈ evs, lossless e) : LiveInv sp (run sp evs) := by
  unfold run
  have hall : ∀ (evs : List Event) (w : World), (∀ e ∈ evs, lossless e) → LiveInv sp w →
      LiveInv sp (evs.foldl (step sp) w) := by
    intro evs
    induction evs with
    | nil => intro w _ h; exact h
    | cons e rest ih =>
      intro w hl h
      exact ih _ (fun e' he' => hl e' (List.mem_cons_of_mem _ he'))
        (live_inv_step sp rk hsp hstart w e (hl e List.mem_cons_self) h)
  exact hall evs init hl (live_inv_init sp)

open Mistral.Engine.Live in
/-- "once all in-flight work has been delivered the execution is in a final state - it is never
    left RUNNING (or its tasks left waiting) with nothing pending", joins of every kind included:
    for every definition that is acyclic (a rank decreasing along inbound transitions, within the
    recursion budget), has unique task names and satisfiable `join: N` (both guaranteed by the
    validator), whose fired routes are transitions of the definition, within the model's walk
    budget, and has a start task; for EVERY history of deliveries / results / pause / resume / stop
    without the loss of an action at its executor: a RUNNING execution always has a delivery
    pending.  (Full statement since "fix: re-opening a join resets its processed flag"; before
    that fix it held only for the histories in which no re-opened join was unfinished at a pause.) -/
theorem no_stuck_acyclic (sp : Spec) (rk : String → Nat) (hsp : SpecOK sp rk) (hstart : startTasks sp ≠ [])
    (evs : List Event) (hl : ∀ e ∈ evs, lossless e)
    (hrun : (run sp evs).wf = .RUNNING) : (run sp evs).pending ≠ [] := by
  have h := live_inv_acyclic_reachable sp rk hsp hstart evs hl
  exact pending_of_invariants sp rk (fun w x j hp => path_rank sp rk hsp w x j hp) _ h.i1 h.sok h.i2 h.jw hrun

open Mistral.Engine.Live in
/-- … and its tasks are not left waiting either: in every reachable world of a workflow that is
    not finished, every WAITING join has a wake-up delivery of its own in flight or is blocked by
    an execution of smaller rank that is not completed (or not yet continued while PAUSED) -/
theorem waiting_join_has_wakeup_or_blocker (sp : Spec) (rk : String → Nat) (hsp : Live.SpecOK sp rk)
    (hstart : Live.startTasks sp ≠ []) (evs : List Event) (hl : ∀ e ∈ evs, Live.lossless e)
    (hnf : isCompleted (run sp evs).wf = false) (j : TaskRow) (hj : j ∈ (run sp evs).tasks) (hw : j.state = .WAITING) :
    (run sp evs).pending.any (Live.isWakeFor (Live.idOf j)) = true ∨ Live.BlockedBy sp (run sp evs) j.name :=
  (live_inv_acyclic_reachable sp rk hsp hstart evs hl).jw hnf j hj hw

/-! non-vacuity: concrete definitions and histories that meet the hypotheses -/

/-- a definition without joins: a → b -/
def exChain : Spec := {
  graph := { tasks := [⟨"a", none, ["b"], [], [], []⟩, ⟨"b", none, [], [], [], []⟩], defaults := none },
  live := [⟨"a", ["b"], [], []⟩, ⟨"b", [], [], []⟩] }

open Mistral.Engine.Live in
/-- `no_stuck_joinfree` applies to a RUNNING world in which task a has completed and b is IDLE -/
example : joinFree exChain ∧ startTasks exChain ≠ [] ∧
    (run exChain [.start, .deliver (.postStartTask ("a", 0) true), .deliver (.rpcStartTask ("a", 0) true),
      .deliver (.postRunAction ("a", 0)), .execute ("a", 0) true, .deliver (.rpcResult ("a", 0) true)]).wf = .RUNNING := by
  refine ⟨?_, ?_, ?_⟩
  · intro t ht
    simp [exChain] at ht
    rcases ht with rfl | rfl <;> rfl
  · decide +kernel
  · decide +kernel

open Mistral.Engine.Live in
/-- the regression definition (fork, `join: one` with successors, `join: all`) satisfies `SpecOK` -/
theorem wSpec_ok : SpecOK wSpec wRank :=
  ⟨witness_names, witness_joins, witness_budget, witness_live, witness_rank, witness_fuel⟩

open Mistral.Engine.Live in
/-- `no_stuck_acyclic` applies to the former counter-witness history up to its `resume` (the
    partial join j failed on its first run, was re-opened by the late branch, ran again and
    succeeded while PAUSED): the world is RUNNING - and, regression of the repaired defect, the
    successor k of the second completion has been dispatched by `resume` -/
example : (∀ e ∈ wEvents.take 32, lossless e) ∧ (run wSpec (wEvents.take 32)).wf = .RUNNING ∧
    Item.postStartTask ("k", 0) true ∈ (run wSpec (wEvents.take 32)).pending :=
  ⟨fun e he => witness_lossless e (List.mem_of_mem_take he), witness_continued.1, witness_continued.2⟩

/-- progress: every pending delivery of a world is enabled (`deliver` consumes it; an action at
    an executor is answered through `execute`) -/
theorem pending_enabled (w : World) (it : Item) (h : it ∈ w.pending) : w.pending.contains it = true := by
  simpa using h

end Mistral.Props.C01
