/-
C11 on the execution TREE — "Stop and cancel end the whole execution tree; late results change nothing".
Theorems over Mistral.Tree (model of workflow_handler.stop_workflow and its recursion, Workflow.stop /
_succeed / _fail / _cancel_workflow, _send_result_to_parent_workflow, the dispatcher, run_task, the child-result
hand-off to plain and with-items parent tasks), for ALL definitions, trees and event histories.
The model is tied to the real engine by the `tree` stream (harness/tree_stream.py): rows and pending
deliveries equal after EVERY event.  The `_full_fails` witnesses are replayed on the real engine
(corpus/C11/tree_*.json).
-/
import Mistral.Lemmas.Tree

namespace Mistral.Props.C11Tree
open Mistral Mistral.Tree

/-! ### witnesses (non-vacuity and counterexamples) -/

/-- root w0: task a1 calls w1; w1: task a1 calls w2; w2: one action -/
def chain3 : Cfg :=
  { defs := [[⟨"a1", .subwf 1 none none, [], []⟩], [⟨"a1", .subwf 2 none none, [], []⟩], [⟨"c1", .action, [], []⟩]],
    viaRpc := false }

/-- three nested executions, all RUNNING -/
def chain3Up : List Event :=
  [.startRoot 0, .deliver (.postStartTask 0), .deliver (.rpcStartTask 0),
   .deliver (.postStartTask 1), .deliver (.rpcStartTask 1)]

/-- root w0: task a1 calls w1; w1: one action -/
def chain2 : Cfg :=
  { defs := [[⟨"a1", .subwf 1 none none, [], []⟩], [⟨"c1", .action, [], []⟩]], viaRpc := false }

example : ((run chain3 chain3Up).execs.map (·.state)) = [.RUNNING, .RUNNING, .RUNNING] := by decide

/-! ### "it holds the requested final state with the given message" -/

/-- "After a workflow is cancelled or forcibly stopped it holds the requested final state with the given
    message": a RUNNING execution anywhere in the tree takes the requested state, the message as
    state_info, and is accepted, in the transaction of the request. -/
theorem stop_holds_requested_state (c : Cfg) (w : World) (a : Nat) (e : Exec) (s : St) (msg : String)
    (he : w.execs[a]? = some e) (hr : e.state = .RUNNING) (hs : s = .SUCCESS ∨ s = .ERROR ∨ s = .CANCELLED) :
    ∃ e', (step c w (.stop a s msg)).execs[a]? = some e' ∧ e'.state = s ∧ e'.info = .op msg ∧
      e'.accepted = true := by
  have hlt : a < w.execs.length := by
    rcases Nat.lt_or_ge a w.execs.length with h' | h'
    · exact h'
    · rw [List.getElem?_eq_none h'] at he; simp at he
  rcases hs with rfl | rfl | rfl
  · have hv : (isValidTransition e.state .SUCCESS == some true) = true := by rw [hr]; decide
    simp only [step, stopOne, he, hv, if_true, Option.getD_some, finish]
    simp [hlt]
  · have hv : (isValidTransition e.state .ERROR == some true) = true := by rw [hr]; decide
    have hc : isCompleted e.state = false := by rw [hr]; decide
    simp only [step, stopOne, he, hv, hc, if_true, finish]
    simp [hlt]
  · have hc : isCompleted e.state = false := by rw [hr]; decide
    have hreach : reached w a w.execs.length a = true := by
      cases hn : w.execs.length with
      | zero => omega
      | succ n => simp [reached]
    have hh : hit w a a e = true := by simp [hit, hreach, hc]
    simp only [step, hlt, if_true, cancelTx]
    exact ⟨cancelled msg e, by rw [List.getElem?_mapIdx, he]; simp [hh], rfl, rfl, rfl⟩

example : ((step chain3 (run chain3 chain3Up) (.stop 1 .ERROR "m")).execs.map fun e => (e.state, e.info)) =
    [(.RUNNING, .none), (.ERROR, .op "m"), (.RUNNING, .none)] := by decide

/-! ### "results of actions that were still running or about to start do not change its state or output" -/

/-- A finished execution never changes state, output or accepted flag afterwards, whatever is delivered
    or requested (late action results, start-task messages, child results, completion checks, further
    stop commands), anywhere in the tree, in every reachable state and for every continuation. -/
theorem finished_is_inert (c : Cfg) (evs evs2 : List Event) (i : Nat) (e : Exec)
    (he : (run c evs).execs[i]? = some e) (hc : isCompleted e.state = true) :
    ∃ e', (evs2.foldl (step c) (run c evs)).execs[i]? = some e' ∧ e'.state = e.state ∧ e'.out = e.out ∧
      e'.accepted = e.accepted := by
  have hg := good_run c (run c evs) evs2
  obtain ⟨e', he', hf⟩ := hg.execs i e he
  obtain ⟨st, o, _⟩ := hf.2.2.2.2 hc
  have hj := allJ_reachable c evs i e he
  have hj' : J e' := hg.inv (allJ_reachable c evs) i e' he'
  refine ⟨e', he', st, ?_, ?_⟩
  · rcases o with o | ⟨hs, o⟩
    · exact o
    · rw [o, (hj.2.2.1 hs).1]
  · rw [hj.2.2.2 hc, hj'.2.2.2 (by rw [st]; exact hc)]

/-- "... holds the requested final state with the given message" for good: a FAILED or CANCELLED execution
    keeps its state_info and is never reported to its parent again. -/
theorem message_kept_partial (c : Cfg) (w : World) (evs2 : List Event) (i : Nat) (e : Exec)
    (he : w.execs[i]? = some e) (hc : e.state = .ERROR ∨ e.state = .CANCELLED) :
    ∃ e', (evs2.foldl (step c) w).execs[i]? = some e' ∧ e'.state = e.state ∧ e'.info = e.info ∧
      e'.sent = e.sent := by
  obtain ⟨e', he', hf⟩ := (good_run c w evs2).execs i e he
  have hcc : isCompleted e.state = true := by rcases hc with h | h <;> rw [h] <;> decide
  have hne : e.state ≠ .SUCCESS := by rcases hc with h | h <;> rw [h] <;> decide
  obtain ⟨st, _, r⟩ := hf.2.2.2.2 hcc
  exact ⟨e', he', st, (r hne).2, (r hne).1⟩

/-- the same for EVERY finished execution is false: `_succeed_workflow` has no is-completed guard, so a second
    stop(SUCCESS) on a SUCCESS execution overwrites the message of the first (and reports to the parent
    again).  Replayed on the real engine: corpus/C11/tree_restop_success.json. -/
def restop : List Event :=
  [.startRoot 0, .deliver (.postStartTask 0), .deliver (.rpcStartTask 0), .stop 1 .SUCCESS "m", .stop 1 .SUCCESS "n"]

theorem message_kept_full_fails :
    ¬ (∀ (c : Cfg) (evs : List Event) (ev : Event) (i : Nat) (s : St) (m : Info),
        (((run c evs).execs[i]?).map fun e => (e.state, e.info)) = some (s, m) → isCompleted s = true →
        (((step c (run c evs) ev).execs[i]?).map fun e => (e.state, e.info)) = some (s, m)) := by
  intro h
  have := h chain2 restop.dropLast (.stop 1 .SUCCESS "n") 1 .SUCCESS (.op "m") (by decide) (by decide)
  revert this
  decide

/-! ### "No new task is created in a stopped workflow afterwards" -/

/-- In a finished execution no task row is ever created again: every task row of execution i that exists
    after any continuation existed before it (same owner, same name).  Holds in every state of the model. -/
theorem no_new_task_in_finished (c : Cfg) (w : World) (evs2 : List Event) (i : Nat) (e : Exec)
    (he : w.execs[i]? = some e) (hc : isCompleted e.state = true) (t : Nat) (tk' : Task)
    (ht : (evs2.foldl (step c) w).tasks[t]? = some tk') (hwf : tk'.wf = i) :
    ∃ tk, w.tasks[t]? = some tk ∧ tk.wf = i ∧ tk.name = tk'.name := by
  have hg := good_run c w evs2
  cases hw : w.tasks[t]? with
  | none =>
    have := hg.fresh t tk' ht hw e (by rw [hwf]; exact he)
    rw [this] at hc; exact absurd hc (by simp)
  | some tk =>
    obtain ⟨tk'', h'', a1, a2⟩ := hg.tasks t tk hw
    have : tk'' = tk' := by rw [ht] at h''; exact (Option.some.inj h'').symm
    subst this
    exact ⟨tk, rfl, by rw [← a1]; exact hwf, a2.symm⟩

/-! ### "every unfinished sub-workflow below a cancelled workflow becomes CANCELLED" -/

/-- Every execution the recursion of stop_workflow(a, CANCELLED) reaches (a itself, and every unfinished
    execution whose parent execution is reached) and that is unfinished becomes CANCELLED IN THE SAME
    TRANSACTION, with the operator's message as state_info and result, accepted, and (if it has a parent
    task) exactly one more result message registered. -/
theorem cancel_reached (c : Cfg) (w : World) (a : Nat) (msg : String) (x : Nat) (e : Exec)
    (ha : a < w.execs.length) (he : w.execs[x]? = some e)
    (hr : reached w a w.execs.length x = true) (hu : isCompleted e.state = false) :
    ∃ e', (step c w (.stop a .CANCELLED msg)).execs[x]? = some e' ∧ e'.state = .CANCELLED ∧
      e'.info = .op msg ∧ e'.out = .result (.op msg) ∧ e'.accepted = true ∧
      e'.sent = (if e.parent.isSome then e.sent + 1 else e.sent) := by
  have hh : hit w a x e = true := by simp [hit, hr, hu]
  simp only [step, ha, if_true, cancelTx]
  exact ⟨cancelled msg e, by rw [List.getElem?_mapIdx, he]; simp [hh], rfl, rfl, rfl, rfl, rfl⟩

/-- no finished execution has an unfinished child -/
def Tidy (w : World) : Prop :=
  ∀ (x p : Nat) (e : Exec), parentWf w x = some p → w.execs[x]? = some e → isCompleted e.state = false →
    ∃ pe, w.execs[p]? = some pe ∧ isCompleted pe.state = false

theorem below_reached_of_tidy (w : World) (a : Nat) (ht : Tidy w) :
    ∀ (f x : Nat), below w a f x = true →
      (x = a ∨ ∃ e, w.execs[x]? = some e ∧ isCompleted e.state = false) → reached w a f x = true := by
  intro f
  induction f with
  | zero => intro x hb; simp [below] at hb
  | succ f ih =>
    intro x hb hx
    simp only [below, Bool.or_eq_true] at hb
    simp only [reached, Bool.or_eq_true]
    rcases hb with hb | hb
    · exact Or.inl hb
    · by_cases hxa : x = a
      · exact Or.inl (by simp [hxa])
      · right
        rcases hx with hx | ⟨e, he, hu⟩
        · exact absurd hx hxa
        · cases hp : parentWf w x with
          | none => simp [hp] at hb
          | some p =>
            simp only [hp] at hb
            simp only [he, hu]
            obtain ⟨pe, hpe, hpu⟩ := ht x p e hp he hu
            simpa using ih p hb (Or.inr ⟨pe, hpe, hpu⟩)

/-- "every unfinished sub-workflow below a cancelled workflow becomes CANCELLED": in a tree where no
    finished execution has an unfinished child, EVERY unfinished execution below the cancelled one is
    CANCELLED by the cancel transaction itself. -/
theorem cancel_subtree_partial (c : Cfg) (w : World) (a : Nat) (msg : String) (x : Nat) (e : Exec)
    (ht : Tidy w) (ha : a < w.execs.length) (he : w.execs[x]? = some e)
    (hb : below w a w.execs.length x = true) (hu : isCompleted e.state = false) :
    ∃ e', (step c w (.stop a .CANCELLED msg)).execs[x]? = some e' ∧ e'.state = .CANCELLED ∧
      e'.info = .op msg := by
  obtain ⟨e', h1, h2, h3, _⟩ := cancel_reached c w a msg x e ha he
    (below_reached_of_tidy w a ht _ x hb (Or.inr ⟨e, he, hu⟩)) hu
  exact ⟨e', h1, h2, h3⟩

example : Tidy (run chain3 chain3Up) := by
  intro x p e hp he hu
  have hlen : (run chain3 chain3Up).execs.length = 3 := by decide
  have hx : x < 3 := by
    rcases Nat.lt_or_ge x 3 with h | h
    · exact h
    · rw [List.getElem?_eq_none (by rw [hlen]; exact h)] at he; simp at he
  have : x = 0 ∨ x = 1 ∨ x = 2 := by omega
  rcases this with rfl | rfl | rfl
  · have h0 : parentWf (run chain3 chain3Up) 0 = none := by decide
    rw [h0] at hp; cases hp
  · have h0 : parentWf (run chain3 chain3Up) 1 = some 0 := by decide
    rw [h0] at hp; cases hp; exact ⟨_, rfl, by decide⟩
  · have h0 : parentWf (run chain3 chain3Up) 2 = some 1 := by decide
    rw [h0] at hp; cases hp; exact ⟨_, rfl, by decide⟩

example : ((step chain3 (run chain3 chain3Up) (.stop 0 .CANCELLED "m")).execs.map (·.state)) =
    [.CANCELLED, .CANCELLED, .CANCELLED] := by decide

/-- the same at full strength (every tree) is FALSE of the code: the recursion skips a child that is
    already finished and with it everything below; after stop(ERROR) of the middle execution (which does
    not recurse) the cancel of the root leaves the grandchild RUNNING.  Replayed on the real engine:
    corpus/C11/tree_cancel_skips.json (known finding). -/
theorem cancel_subtree_full_fails :
    ¬ (∀ (c : Cfg) (evs : List Event) (a : Nat) (msg : String) (x : Nat) (s : St),
        below (run c evs) a (run c evs).execs.length x = true → stateOf (run c evs) x = some s →
        isCompleted s = false →
        stateOf (step c (run c evs) (.stop a .CANCELLED msg)) x = some .CANCELLED) := by
  intro h
  have := h chain3 (chain3Up ++ [.stop 1 .ERROR "m"]) 0 "n" 2 .RUNNING (by decide) (by decide) (by decide)
  revert this
  decide

/-! ### "... becomes CANCELLED together with its parent task" -/

/-- When the result message of a finished child is processed, a plain (not with-items) parent task that is
    not completed takes exactly the child's final state, and its completion logic runs once: the parent task
    of a cancelled sub-workflow becomes CANCELLED.  (`tk.wf ≠ x`: the parent task belongs to another execution.) -/
theorem parent_task_takes_child_state (c : Cfg) (w : World) (x t : Nat) (e pe : Exec) (tk : Task)
    (hp : w.pending.contains (.rpcChildResult x) = true) (he : w.execs[x]? = some e) (hpar : e.parent = some t)
    (htk : w.tasks[t]? = some tk) (hnc : isCompleted tk.state = false) (hne : tk.wf ≠ x)
    (hpe : w.execs[tk.wf]? = some pe)
    (hplain : ∀ d n cc, kindOf c pe.defn tk.name ≠ some (.subwf d (some n) cc)) :
    ∃ tk', (step c w (.deliver (.rpcChildResult x))).tasks[t]? = some tk' ∧ tk'.state = e.state ∧
      tk'.ran = tk.ran + 1 := by
  have h2 : ∀ e' : Exec, (w.execs.set x e')[tk.wf]? = some pe := fun e' => by
    rw [List.getElem?_set_ne (Ne.symm hne)]; exact hpe
  simp only [step, hp, Bool.not_true, Bool.false_eq_true, if_false]
  unfold childResult
  simp only [he, hpar, htk, h2]
  have hk : ∀ (a b : World), (match kindOf c pe.defn tk.name with
      | some (.subwf _ (some _) _) => a
      | _ => b) = b := by
    intro a b; split
    · rename_i hk; exact absurd hk (hplain _ _ _)
    · rfl
  try rw [hk]
  obtain ⟨tk', h1, h3, h4, _⟩ := completeTask_sets_state c
    { w with pending := removeFirst w.pending (.rpcChildResult x),
             execs := w.execs.set x { e with parent := some t, got := e.got + 1 } } t e.state tk pe htk hnc (h2 _)
  exact ⟨tk', h1, h3, h4⟩

/-- non-vacuity and the whole chain: cancel the root of three nested executions and deliver the two result
    messages: the middle execution's task and the root's task are CANCELLED. -/
example : ((run chain3 (chain3Up ++ [.stop 0 .CANCELLED "m", .deliver (.postSendResult 2), .deliver (.rpcChildResult 2),
      .deliver (.postSendResult 1), .deliver (.rpcChildResult 1)])).tasks.map (·.state)) =
    [.CANCELLED, .CANCELLED, .IDLE] := by decide

/-! ### "(nor, after a cancel, anywhere below it)" -/

/-- After the cancel transaction, no task row is ever created in an execution the cancel reached: they are
    all finished (`cancel_reached`) and a finished execution gets no new task (`no_new_task_in_finished`). -/
theorem no_new_task_in_cancelled_nodes_partial (c : Cfg) (w : World) (a : Nat) (msg : String) (x : Nat) (e : Exec)
    (evs2 : List Event) (ha : a < w.execs.length) (he : w.execs[x]? = some e)
    (hr : reached w a w.execs.length x = true) (t : Nat) (tk' : Task)
    (ht : (evs2.foldl (step c) (step c w (.stop a .CANCELLED msg))).tasks[t]? = some tk') (hwf : tk'.wf = x) :
    ∃ tk, w.tasks[t]? = some tk ∧ tk.wf = x := by
  have htasks : (step c w (.stop a .CANCELLED msg)).tasks = w.tasks := by simp [step, ha, cancelTx]
  cases hc : isCompleted e.state with
  | false =>
    obtain ⟨e', he', hs, _⟩ := cancel_reached c w a msg x e ha he hr hc
    obtain ⟨tk, h1, h2, _⟩ := no_new_task_in_finished c _ evs2 x e' he' (by rw [hs]; decide) t tk' ht hwf
    exact ⟨tk, by rw [← htasks]; exact h1, h2⟩
  | true =>
    obtain ⟨e', he', hf⟩ := (good_step c w (.stop a .CANCELLED msg)).execs x e he
    obtain ⟨tk, h1, h2, _⟩ := no_new_task_in_finished c _ evs2 x e' he'
      (by rw [(hf.2.2.2.2 hc).1]; exact hc) t tk' ht hwf
    exact ⟨tk, by rw [← htasks]; exact h1, h2⟩

/-- "No new task is created ... (nor, after a cancel, anywhere below it)" at full strength is FALSE of the
    code: `run_task` does not look at the workflow state, so a sub-workflow task that was still IDLE when its
    workflow was cancelled (its start_task message is in flight) starts afterwards, creates a NEW child
    execution below the cancelled workflow, and that child creates and runs its tasks.  Replayed on the real
    engine: corpus/C11/tree_started_below_cancelled.json (known finding). -/
def lateStart : List Event :=
  [.startRoot 0, .deliver (.postStartTask 0), .stop 0 .CANCELLED "m", .deliver (.rpcStartTask 0)]

theorem no_new_task_below_cancelled_full_fails :
    ¬ (∀ (c : Cfg) (evs evs2 : List Event) (a : Nat) (msg : String) (t i : Nat),
        let w := step c (run c evs) (.stop a .CANCELLED msg)
        let w' := evs2.foldl (step c) w
        ((w'.tasks[t]?).map (·.wf)) = some i → below w' a w'.execs.length i = true →
        (w.tasks[t]?).isSome = true) := by
  intro h
  have := h chain2 (lateStart.take 2) [.deliver (.rpcStartTask 0)] 0 "m" 1 1 (by decide) (by decide)
  revert this
  decide

example : ((run chain2 lateStart).execs.map (·.state), (run chain2 lateStart).tasks.map (·.wf)) =
    ([.CANCELLED, .RUNNING], [0, 1]) := by decide

/-! ### "a cancelled or failed sub-workflow is reported to its parent exactly once" -/

/-- In every reachable state a FAILED or CANCELLED sub-workflow has exactly one result message registered
    for its parent, an unfinished one none, a succeeded one at least one. -/
theorem reported_once (c : Cfg) (evs : List Event) (x : Nat) (e : Exec)
    (he : (run c evs).execs[x]? = some e) (hp : e.parent.isSome = true) :
    (e.state = .ERROR ∨ e.state = .CANCELLED → e.sent = 1) ∧
    (isCompleted e.state = false → e.sent = 0) ∧
    (e.state = .SUCCESS → 1 ≤ e.sent) := by
  obtain ⟨j1, j2, j3, _⟩ := allJ_reachable c evs x e he
  exact ⟨fun h => by rw [j2 h, hp]; rfl, j1, fun h => (j3 h).2 hp⟩

example : (((run chain3 (chain3Up ++ [.stop 1 .ERROR "m"])).execs.map (·.sent))) = [0, 1, 0] := by decide

/-- "exactly once" for EVERY finished child is false: a second stop(SUCCESS) reports a SUCCESS child again. -/
theorem reported_once_full_fails :
    ¬ (∀ (c : Cfg) (evs : List Event) (x : Nat) (s : St) (n : Nat),
        (((run c evs).execs[x]?).map fun e => (e.state, e.sent)) = some (s, n) → isCompleted s = true →
        (((run c evs).execs[x]?).map fun e => e.parent.isSome) = some true → n = 1) := by
  intro h
  have := h chain2 restop 1 .SUCCESS 2 (by decide) (by decide) (by decide)
  revert this
  decide

end Mistral.Props.C11Tree
