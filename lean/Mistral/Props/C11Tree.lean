/-
C11 on the execution TREE — "Stop and cancel end the whole execution tree; late results change nothing".
Theorems over Mistral.Tree (model of workflow_handler.stop_workflow and its recursion, Workflow.stop /
_succeed / _fail / _cancel_workflow, _send_result_to_parent_workflow, the dispatcher, run_task, the child-result
hand-off to plain and with-items parent tasks), for ALL definitions, trees and event histories.
Histories: EVERY event list (stops, pause and resume commands with their propagation, all deliveries); the
resume part needs repo patch 20 (without it a nested resume restarts a finished execution:
corpus/C11/tree_nested_resume_restart.json).
The model is tied to the real engine by the `tree` stream (harness/tree_stream.py): rows and pending
deliveries equal after EVERY event.

History: before repo patches 14-16 three statements only held as `_partial` (`cancel_subtree_full_fails`,
`no_new_task_below_cancelled_full_fails`, `message_kept_full_fails` / `reported_once_full_fails`); the model
follows the fixed code, the statements are proved at full strength and the former witnesses run as
regressions on the real engine (corpus/C11/tree_cancel_skips.json, tree_started_below_cancelled.json,
tree_restop_success.json).
-/
import Mistral.Lemmas.Tree

namespace Mistral.Props.C11Tree
open Mistral Mistral.Tree

/-! ### example trees (non-vacuity; the former counter-witnesses) -/

/-- root w0: task a1 calls w1; w1: task a1 calls w2; w2: one action -/
def chain3 : Cfg :=
  { defs := [[⟨"a1", .subwf 1 none none, [], []⟩], [⟨"a1", .subwf 2 none none, [], []⟩], [⟨"c1", .action, [], []⟩]],
    viaRpc := false }

/-- three nested executions, all RUNNING -/
def chain3Up : List Event :=
  [.startRoot 0, .deliver (.postStartTask 0 true), .deliver (.rpcStartTask 0 true),
   .deliver (.postStartTask 1 true), .deliver (.rpcStartTask 1 true)]

/-- root w0: task a1 calls w1; w1: one action -/
def chain2 : Cfg :=
  { defs := [[⟨"a1", .subwf 1 none none, [], []⟩], [⟨"c1", .action, [], []⟩]], viaRpc := false }

example : ((run chain3 chain3Up).execs.map (·.state)) = [.RUNNING, .RUNNING, .RUNNING] := by decide

/-! ### "it holds the requested final state with the given message" -/

/-- "After a workflow is cancelled or forcibly stopped it holds the requested final state with the given
    message": a RUNNING execution anywhere in the tree takes the requested state, the message as
    state_info, and is accepted, in the transaction of the request. -/
theorem stop_holds_requested_state (c : Cfg) (w : World) (a : Nat) (e : Exec) (s : St) (msg : String)
    (he : w.execs[a]? = some e) (hr : e.state = .RUNNING) (hs : s = .SUCCESS ∨ s = .ERROR ∨ s = .CANCELLED) :
    ∃ e', (step c w (.stop a s msg)).execs[a]? = some e' ∧ e'.state = s ∧ e'.info = .op msg ∧
      e'.accepted = true := by
  have hlt : a < w.execs.length := lt_of_get he
  have hc : isCompleted e.state = false := by rw [hr]; decide
  rcases hs with rfl | rfl | rfl
  · have hv : (isValidTransition e.state .SUCCESS == some true) = true := by rw [hr]; decide
    simp only [step, stopOne, he, hv, hc, if_true, finish]
    simp [hlt]
  · have hv : (isValidTransition e.state .ERROR == some true) = true := by rw [hr]; decide
    simp only [step, stopOne, he, hv, hc, if_true, finish]
    simp [hlt]
  · have hreach : below w a w.execs.length a = true := by
      cases hn : w.execs.length with
      | zero => omega
      | succ n => simp [below]
    have hh : hit w a a e = true := by simp [hit, hreach, hc]
    simp only [step, hlt, if_true, cancelTx]
    exact ⟨cancelled msg e, by rw [List.getElem?_mapIdx, he]; simp [hh], rfl, rfl, rfl⟩

example : ((step chain3 (run chain3 chain3Up) (.stop 1 .ERROR "m")).execs.map fun e => (e.state, e.info)) =
    [(.RUNNING, .none), (.ERROR, .op "m"), (.RUNNING, .none)] := by decide

/-! ### "results of actions that were still running or about to start do not change its state or output" -/

/-- A finished execution never changes state, output, state_info (the message it was stopped with) or the
    number of result messages registered for its parent, whatever is delivered or requested afterwards (late
    action results, start-task messages, child results, completion checks, further stop / pause / resume
    commands and everything they propagate), anywhere in the tree, in EVERY state and for every continuation.
    (The `accepted` flag of a failed / cancelled child is reset when its task runs again: `_reset_actions`.) -/
theorem finished_is_inert (c : Cfg) (w : World) (evs2 : List Event) (i : Nat) (e : Exec)
    (he : w.execs[i]? = some e) (hc : isCompleted e.state = true) :
    ∃ e', (evs2.foldl (step c) w).execs[i]? = some e' ∧ e'.state = e.state ∧ e'.out = e.out ∧
      e'.info = e.info ∧ e'.sent = e.sent := by
  obtain ⟨e', he', hf⟩ := (good_run c w evs2).execs i e he
  obtain ⟨a1, a2, a3, a4⟩ := hf.2.2.2.2 hc
  exact ⟨e', he', a1, a2, a3, a4⟩

/-- the former witness of `message_kept_full_fails`: the second stop(SUCCESS) is ignored -/
def restop : List Event :=
  [.startRoot 0, .deliver (.postStartTask 0 true), .deliver (.rpcStartTask 0 true), .stop 1 .SUCCESS "m", .stop 1 .SUCCESS "n"]

example : (((run chain2 restop).execs[1]?).map fun e => (e.state, e.info, e.sent)) = some (.SUCCESS, .op "m", 1) := by
  decide

/-! ### "No new task is created in a stopped workflow afterwards" -/

/-- In a finished execution no task row is ever created again: every task row of execution i that exists
    after any continuation existed before it (same owner, same name).  Holds in every state of the model. -/
theorem no_new_task_in_finished (c : Cfg) (w : World) (evs2 : List Event) (i : Nat) (e : Exec)
    (he : w.execs[i]? = some e) (hc : isCompleted e.state = true) (t : Nat) (tk' : Task)
    (ht : (evs2.foldl (step c) w).tasks[t]? = some tk') (hwf : tk'.wf = i) :
    ∃ tk, w.tasks[t]? = some tk ∧ tk.wf = i ∧ tk.name = tk'.name := by
  have hg := good_run c w evs2
  cases hw : w.tasks[t]? with
  | none =>
    have := hg.fresh t tk' ht hw e (by rw [hwf]; exact he)
    rw [this] at hc; exact absurd hc (by simp)
  | some tk =>
    obtain ⟨tk'', h'', a1, a2⟩ := hg.tasks t tk hw
    have : tk'' = tk' := by rw [ht] at h''; exact (Option.some.inj h'').symm
    subst this
    exact ⟨tk, rfl, by rw [← a1]; exact hwf, a2.symm⟩

/-! ### "every unfinished sub-workflow below a cancelled workflow becomes CANCELLED" -/

/-- EVERY unfinished execution at or below the cancelled one — whatever the states of the executions in
    between — becomes CANCELLED IN THE SAME TRANSACTION, with the operator's message as state_info and
    result, accepted, and (if it has a parent task) exactly one result message registered. -/
theorem cancel_subtree (c : Cfg) (w : World) (a : Nat) (msg : String) (x : Nat) (e : Exec)
    (ha : a < w.execs.length) (he : w.execs[x]? = some e)
    (hb : below w a w.execs.length x = true) (hu : isCompleted e.state = false) :
    ∃ e', (step c w (.stop a .CANCELLED msg)).execs[x]? = some e' ∧ e'.state = .CANCELLED ∧
      e'.info = .op msg ∧ e'.out = .result (.op msg) ∧ e'.accepted = true ∧
      e'.sent = (if e.parent.isSome then e.sent + 1 else e.sent) := by
  have hh : hit w a x e = true := by simp [hit, hb, hu]
  simp only [step, ha, if_true, cancelTx]
  exact ⟨cancelled msg e, by rw [List.getElem?_mapIdx, he]; simp [hh], rfl, rfl, rfl, rfl, rfl⟩

/-- after the cancel transaction everything at or below the cancelled execution is finished (in a
    reachable state: the links are well formed) -/
theorem cancel_finishes_subtree (c : Cfg) (evs : List Event) (a : Nat) (msg : String)
    (ha : a < (run c evs).execs.length) :
    BelowDone (step c (run c evs) (.stop a .CANCELLED msg)) a := by
  intro f x e1 he1 hb
  have hwf := (allJ_reachable c evs).2
  have hg := good_step c (run c evs) (.stop a .CANCELLED msg)
  have hlen : (step c (run c evs) (.stop a .CANCELLED msg)).execs.length = (run c evs).execs.length := by
    simp [step, ha, cancelTx]
  have hx : x < (run c evs).execs.length := by rw [← hlen]; exact lt_of_get he1
  have he : (run c evs).execs[x]? = some (run c evs).execs[x] := List.getElem?_eq_getElem hx
  have hb0 := below_len hwf a f x hx (below_old hg hwf a f x hx hb)
  cases hc : isCompleted ((run c evs).execs[x]).state with
  | true =>
    obtain ⟨e2, he2, hf⟩ := hg.execs x _ he
    rw [he1] at he2; cases he2
    rw [(hf.2.2.2.2 hc).1]; exact hc
  | false =>
    obtain ⟨e2, he2, hs, _⟩ := cancel_subtree c _ a msg x _ ha he hb0 hc
    rw [he1] at he2; cases he2
    rw [hs]; decide

/-- the former witness of `cancel_subtree_full_fails` (stop(ERROR) of the middle execution, cancel of the
    root): the grandchild is cancelled now -/
example : ((step chain3 (run chain3 (chain3Up ++ [.stop 1 .ERROR "m"])) (.stop 0 .CANCELLED "n")).execs.map (·.state)) =
    [.CANCELLED, .ERROR, .CANCELLED] := by decide

example : ((step chain3 (run chain3 chain3Up) (.stop 0 .CANCELLED "m")).execs.map (·.state)) =
    [.CANCELLED, .CANCELLED, .CANCELLED] := by decide

/-! ### "... becomes CANCELLED together with its parent task" -/

/-- When the result message of a finished child is processed, a plain (not with-items) parent task that is
    not completed takes exactly the child's final state, and its completion logic runs once: the parent task
    of a cancelled sub-workflow becomes CANCELLED.  (`tk.wf ≠ x`: the parent task belongs to another execution.) -/
theorem parent_task_takes_child_state (c : Cfg) (w : World) (x t : Nat) (e pe : Exec) (tk : Task)
    (hp : w.pending.contains (.rpcChildResult x) = true) (he : w.execs[x]? = some e) (hpar : e.parent = some t)
    (htk : w.tasks[t]? = some tk) (hnc : isCompleted tk.state = false) (hne : tk.wf ≠ x)
    (hpe : w.execs[tk.wf]? = some pe)
    (hplain : ∀ d n cc, kindOf c pe.defn tk.name ≠ some (.subwf d (some n) cc)) :
    ∃ tk', (step c w (.deliver (.rpcChildResult x))).tasks[t]? = some tk' ∧ tk'.state = e.state ∧
      tk'.ran = tk.ran + 1 := by
  have h2 : ∀ e' : Exec, (w.execs.set x e')[tk.wf]? = some pe := fun e' => by
    rw [List.getElem?_set_ne (Ne.symm hne)]; exact hpe
  simp only [step, hp, Bool.not_true, Bool.false_eq_true, if_false]
  unfold childResult
  simp only [he, hpar, htk, h2]
  have hk : ∀ (a b : World), (match kindOf c pe.defn tk.name with
      | some (.subwf _ (some _) _) => a
      | _ => b) = b := by
    intro a b; split
    · rename_i hk; exact absurd hk (hplain _ _ _)
    · rfl
  try rw [hk]
  obtain ⟨tk', h1, h3, h4, _⟩ := completeTask_sets_state c
    { w with pending := removeFirst w.pending (.rpcChildResult x),
             execs := w.execs.set x { e with parent := some t, got := e.got + 1 } } t e.state tk pe htk hnc (h2 _)
  exact ⟨tk', h1, h3, h4⟩

/-- non-vacuity and the whole chain: cancel the root of three nested executions and deliver the two result
    messages: the middle execution's task and the root's task are CANCELLED. -/
example : ((run chain3 (chain3Up ++ [.stop 0 .CANCELLED "m", .deliver (.postSendResult 2), .deliver (.rpcChildResult 2),
      .deliver (.postSendResult 1), .deliver (.rpcChildResult 1)])).tasks.map (·.state)) =
    [.CANCELLED, .CANCELLED, .IDLE] := by decide

/-! ### "No new task is created ... (nor, after a cancel, anywhere below it)" -/

/-- After the cancel of `a`, under EVERY continuation: every execution at or below `a` is finished, no
    execution is ever created below `a`, and every task row that belongs to an execution at or below `a`
    existed when `a` was cancelled.  (Reachable states; `f` = any recursion depth.) -/
theorem no_new_task_below_cancelled (c : Cfg) (evs evs2 : List Event)
    (a : Nat) (msg : String)
    (ha : a < (run c evs).execs.length) (f t : Nat) (tk' : Task)
    (ht : (evs2.foldl (step c) (step c (run c evs) (.stop a .CANCELLED msg))).tasks[t]? = some tk')
    (hb : below (evs2.foldl (step c) (step c (run c evs) (.stop a .CANCELLED msg))) a f tk'.wf = true) :
    tk'.wf < (run c evs).execs.length ∧ ∃ tk, (run c evs).tasks[t]? = some tk ∧ tk.wf = tk'.wf := by
  have hlen : (step c (run c evs) (.stop a .CANCELLED msg)).execs.length = (run c evs).execs.length := by
    simp [step, ha, cancelTx]
  have htasks : (step c (run c evs) (.stop a .CANCELLED msg)).tasks = (run c evs).tasks := by
    simp [step, ha, cancelTx]
  have hwf1 : WF (step c (run c evs) (.stop a .CANCELLED msg)) :=
    ((good_step c (run c evs) _).inv (allJ_reachable c evs)).2
  have hd := cancel_finishes_subtree c evs a msg ha
  have hg := good_run c (step c (run c evs) (.stop a .CANCELLED msg)) evs2
  have hold := below_is_old hg hwf1 a hd (by rw [hlen]; exact ha) f tk'.wf hb
  refine ⟨by rw [← hlen]; exact hold, ?_⟩
  have he1 : (step c (run c evs) (.stop a .CANCELLED msg)).execs[tk'.wf]? = some _ := List.getElem?_eq_getElem hold
  have hc := hd f tk'.wf _ he1 (below_old hg hwf1 a f tk'.wf hold hb)
  obtain ⟨tk, h1, h2, _⟩ := no_new_task_in_finished c _ evs2 tk'.wf _ he1 hc t tk' ht rfl
  exact ⟨tk, by rw [← htasks]; exact h1, h2⟩

/-- no execution is ever created below a cancelled one -/
theorem no_new_execution_below_cancelled (c : Cfg) (evs evs2 : List Event)
    (a : Nat) (msg : String)
    (ha : a < (run c evs).execs.length) (f x : Nat)
    (hb : below (evs2.foldl (step c) (step c (run c evs) (.stop a .CANCELLED msg))) a f x = true) :
    x < (run c evs).execs.length := by
  have hlen : (step c (run c evs) (.stop a .CANCELLED msg)).execs.length = (run c evs).execs.length := by
    simp [step, ha, cancelTx]
  have hwf1 : WF (step c (run c evs) (.stop a .CANCELLED msg)) :=
    ((good_step c (run c evs) _).inv (allJ_reachable c evs)).2
  have := below_is_old (good_run c _ evs2) hwf1 a (cancel_finishes_subtree c evs a msg ha)
    (by rw [hlen]; exact ha) f x hb
  rw [← hlen]; exact this

/-- the former witness of `no_new_task_below_cancelled_full_fails`: the IDLE sub-workflow task whose
    start_task arrives after the cancel does not start a child any more; it is cancelled with its workflow
    (repo patch 19) -/
def lateStart : List Event :=
  [.startRoot 0, .deliver (.postStartTask 0 true), .stop 0 .CANCELLED "m", .deliver (.rpcStartTask 0 true)]

example : ((run chain2 lateStart).execs.map (·.state), (run chain2 lateStart).tasks.map fun t => (t.wf, t.state)) =
    ([.CANCELLED], [(0, .CANCELLED)]) := by decide

/-! ### "a cancelled or failed sub-workflow is reported to its parent exactly once" -/

/-- In every reachable state EVERY finished sub-workflow (failed, cancelled or succeeded) has exactly one
    result message registered for its parent, an unfinished one none. -/
theorem reported_once (c : Cfg) (evs : List Event) (x : Nat) (e : Exec)
    (he : (run c evs).execs[x]? = some e) (hp : e.parent.isSome = true) :
    (isCompleted e.state = true → e.sent = 1) ∧ (isCompleted e.state = false → e.sent = 0) := by
  obtain ⟨j1, j2, _⟩ := (allJ_reachable c evs).1 x e he
  exact ⟨fun h => by rw [j2 h, hp]; rfl, j1⟩

example : (((run chain3 (chain3Up ++ [.stop 1 .ERROR "m"])).execs.map (·.sent))) = [0, 1, 0] := by decide

/-- a root execution (no parent task) never registers a result message -/
theorem root_reports_nothing (c : Cfg) (evs : List Event) (x : Nat) (e : Exec)
    (he : (run c evs).execs[x]? = some e) (hp : e.parent = none) : e.sent = 0 := by
  obtain ⟨j1, j2, _⟩ := (allJ_reachable c evs).1 x e he
  cases hc : isCompleted e.state with
  | false => exact j1 hc
  | true => rw [j2 hc, hp]; rfl

end Mistral.Props.C11Tree
